#!/usr/bin/env python3
"""Regenerates MANIFEST.json from props.py (single source of truth for the check list)."""
import json, os, sys
HERE = os.path.dirname(os.path.abspath(__file__))
sys.path.insert(0, HERE)
import props as P

ALL = ["C%02d" % i for i in range(1, 21)]
checks = []
for pid in ALL:
    cfg = P.PROPS.get(pid)
    if not cfg or cfg.get("unclaimed"):
        continue
    checks.append({
        "property_id": pid,
        "quick_cmd": "python3 vcheck.py %s --tier quick" % pid,
        "thorough_cmd": "python3 vcheck.py %s --tier thorough" % pid,
        "evidence_file": "/verif/evidence/%s.json" % pid,
        "replay_cmd_template": "python3 vcheck.py %s --replay {path}" % pid,
        "engine": "vcheck",
        "level_claimed": {"category": cfg["level"], "text": cfg["level_text"], "design_ref": "DESIGN.md section 5, %s" % pid},
        "level_note": cfg["level_note"],
        "technique": cfg["technique"],
    })
na = []
for pid in ALL:
    cfg = P.PROPS.get(pid)
    if not cfg or cfg.get("unclaimed"):
        na.append({"property_id": pid, "reason": (cfg or {}).get("unclaimed") or P.NOT_CLAIMED.get(pid, "monitor not built yet in this round; the technique applies (see DESIGN.md section 5)")})
m = {
    "version": 1,
    "setup_cmd": "python3 vcheck.py --build-all",
    "hooks": {
        "guard": "BOOSTORG_GIL_VERIF",
        "enable": "no hooks are compiled into boostorg/gil: every monitor observes at the public boundary (allocator/element/device template parameters, caller-owned buffers); harnesses are built by vcheck.py with -I/repo/include from the current working tree",
        "baseline_off_cmd": "cmake --build /repo/_build && ctest --test-dir /repo/_build -j8 --timeout 900",
        "source_commits": [],
        "add_only": True,
    },
    "engines": [{"name": "vcheck", "path": "/verif/vcheck.py",
                 "serves_properties": [c["property_id"] for c in checks],
                 "kind_free_text": "runtime monitoring: harness programs over the real GIL headers under gcc ASan+UBSan+_GLIBCXX_ASSERTIONS and native builds with reference-model oracles, guard buffers, ledger allocators, instrumented devices; driver classifies reports per case and matches known_findings.json"}],
    "checks": checks,
    "not_applicable": na,
    "notes": "All checks rebuild their harness binaries from /repo's current working tree (content-addressed cache keyed by the SHA-256 of include/boost/gil). VERIF_SEED seeds every random choice. Exit 0 held / 1 VIOLATION / 2 harness failure or inconclusive.",
}
with open(os.path.join(HERE, "MANIFEST.json"), "w") as fh:
    json.dump(m, fh, indent=1)
    fh.write("\n")
print("MANIFEST.json: %d checks, %d not claimed" % (len(checks), len(na)))
