#!/bin/bash
# usage: mutate.sh <name> <file-relative-to-include/boost/gil> <python-regex-or-literal old> <new> -- <check ids...>
# Makes a scratch copy of /repo/include under /dev/shm/gilscratch.<name>, applies one literal
# replacement (first occurrence unless COUNT is set), runs the quick tier of the given checks with
# VERIF_REPO pointing at it, prints the verdict lines, and removes the copy.
set -u
name=$1; file=$2; old=$3; new=$4; shift 5
S=/dev/shm/gilscratch.$name
rm -rf $S; mkdir -p $S/include; cp -r /repo/include/boost $S/include/
mkdir -p $S/test/extension/io; ln -s /repo/test/extension/io/images $S/test/extension/io/images
python3 - "$S/include/boost/gil/$file" "$old" "$new" <<'PY'
import sys
p,old,new=sys.argv[1:4]
s=open(p).read()
if old not in s:
    print("MUTATION-NOT-APPLIED: pattern not found"); sys.exit(3)
s=s.replace(old,new,1)
open(p,'w').write(s)
PY
[ $? -eq 3 ] && { rm -rf $S; exit 3; }
for c in "$@"; do
  out=$(cd /verif && VERIF_REPO=$S VERIF_NO_EVIDENCE=1 python3 vcheck.py $c --tier quick 2>&1)
  rc=$?
  echo "== mutant $name check $c exit=$rc"
  echo "$out" | grep -E "^VIOLATION|^KNOWN|^HARNESS|^INCONCLUSIVE|^--- " | head -8
done
rm -rf $S
