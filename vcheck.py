#!/usr/bin/env python3
"""vcheck.py -- driver of the runtime monitors for boostorg/gil (see DESIGN.md section 2).

  python3 vcheck.py C06 --tier quick          build from the current tree, run, classify, write evidence
  python3 vcheck.py C06 --tier thorough
  python3 vcheck.py C06 --replay <file>       rebuild and re-run exactly one recorded case
  python3 vcheck.py --build-all               compile every registered harness (setup_cmd)

Exit code: 0 = held on everything observed (KNOWN-FINDING lines allowed), 1 = at least one
violation that known_findings.json does not list (a line "VIOLATION property=<id> replay=<path>"
is printed for each), 2 = harness failure or inconclusive run.
Environment: VERIF_SEED (default 1), VERIF_TIER, VERIF_REPO (default /repo), VERIF_JOBS (default 16).
"""
import concurrent.futures as cf
import fnmatch
import hashlib
import json
import os
import re
import shutil
import struct
import subprocess
import sys
import time

HERE = os.path.dirname(os.path.abspath(__file__))
sys.path.insert(0, HERE)
import props as P  # noqa: E402

REPO = os.environ.get("VERIF_REPO", "/repo")
JOBS = int(os.environ.get("VERIF_JOBS", "16"))
BUILD = os.path.join(HERE, "build")
CACHE = os.path.join(BUILD, "cache")
CXX = "g++"

PROFILES = {
    # gcc 12 ASan+UBSan, reports fatal (DESIGN section 4)
    "asan": ["-O1", "-g", "-fno-omit-frame-pointer", "-fsanitize=address,undefined",
             "-fno-sanitize-recover=all", "-fno-sanitize=pointer-overflow",
             "-D_GLIBCXX_ASSERTIONS", "-DNDEBUG"],
    "native": ["-O2", "-g", "-D_GLIBCXX_ASSERTIONS", "-DNDEBUG"],
}
ASAN_OPTIONS = ("abort_on_error=0:exitcode=99:detect_leaks=%d:detect_stack_use_after_return=1:"
                "strict_string_checks=1:allocator_may_return_null=1:handle_abort=1:handle_segv=1:"
                "handle_sigfpe=1:handle_sigbus=1:handle_sigill=1:malloc_context_size=12")
UBSAN_OPTIONS = "print_stacktrace=1:halt_on_error=1:exitcode=99"


class HarnessFailure(Exception):
    pass


def sha(*parts):
    h = hashlib.sha256()
    for p in parts:
        h.update(p if isinstance(p, bytes) else p.encode())
        h.update(b"\0")
    return h.hexdigest()


_tree_hash = None


def tree_hash():
    """SHA-256 over every file under <repo>/include/boost/gil: an edited header always rebuilds."""
    global _tree_hash
    if _tree_hash is None:
        h = hashlib.sha256()
        root = os.path.join(REPO, "include", "boost", "gil")
        if not os.path.isdir(root):
            raise HarnessFailure("no GIL headers under %s" % root)
        for d, dn, fn in sorted(os.walk(root)):
            dn.sort()
            for f in sorted(fn):
                p = os.path.join(d, f)
                h.update(os.path.relpath(p, root).encode() + b"\0")
                with open(p, "rb") as fh:
                    h.update(fh.read())
                h.update(b"\0")
        _tree_hash = h.hexdigest()
    return _tree_hash


_INC_RE = re.compile(r'^\s*#\s*include\s*"([^"]+)"', re.M)


def local_includes(path, seen):
    """transitive closure of the quoted #includes of a harness source (files under /verif/harness)"""
    try:
        text = open(path, "r", errors="replace").read()
    except OSError:
        return
    for inc in _INC_RE.findall(text):
        for base in (os.path.dirname(path), os.path.join(HERE, "harness"), os.path.join(HERE, "harness", "common")):
            cand = os.path.normpath(os.path.join(base, inc))
            if os.path.isfile(cand):
                if cand not in seen:
                    seen.add(cand)
                    local_includes(cand, seen)
                break


def common_hash(srcs):
    """hash of the harness-local headers these sources include (so that editing one shared header
    only rebuilds the binaries that use it)"""
    seen = set()
    for s_ in srcs:
        local_includes(os.path.join(HERE, s_), seen)
    h = hashlib.sha256()
    for f in sorted(seen):
        with open(f, "rb") as fh:
            h.update(f.encode() + b"\0" + fh.read())
    return h.hexdigest()


def tu_cmd(tu, out, depfile):
    std = tu.get("std", "c++14")
    cxx = tu.get("cxx", CXX)
    cmd = [cxx, "-std=" + std, "-w", "-I" + os.path.join(REPO, "include"),
           "-I" + os.path.join(HERE, "harness")]
    cmd += PROFILES[tu["profile"]] if tu["profile"] in PROFILES else []
    cmd += tu.get("extra", [])
    cmd += ['-DVERIF_REPO_ROOT="%s"' % REPO]
    cmd += ["-MD", "-MF", depfile]
    cmd += [os.path.join(HERE, s) for s in ([tu["src"]] if isinstance(tu["src"], str) else tu["src"])]
    cmd += ["-o", out] + tu.get("libs", [])
    return cmd


def build_tu(tu):
    """Content-addressed build of one harness binary.  Returns (path, seconds, cached)."""
    os.makedirs(CACHE, exist_ok=True)
    srcs = [tu["src"]] if isinstance(tu["src"], str) else tu["src"]
    src_bytes = b"".join(open(os.path.join(HERE, s), "rb").read() for s in srcs)
    for extra_dep in tu.get("deps", []):
        src_bytes += open(os.path.join(HERE, extra_dep), "rb").read()
    flagsig = " ".join(tu_cmd(tu, "OUT", "DEP"))
    key = sha(tree_hash(), common_hash(srcs), src_bytes, flagsig)[:20]
    out = os.path.join(CACHE, "%s.%s" % (tu["name"], key))
    if os.path.exists(out):
        try:
            os.utime(out, None)
        except OSError:
            pass
        return out, 0.0, True
    tmp = out + ".tmp%d" % os.getpid()
    dep = tmp + ".d"
    t0 = time.time()
    r = subprocess.run(tu_cmd(tu, tmp, dep), stdout=subprocess.PIPE, stderr=subprocess.STDOUT, text=True)
    dt = time.time() - t0
    if r.returncode != 0:
        for f in (tmp, dep):
            if os.path.exists(f):
                os.remove(f)
        e = HarnessFailure("compile failed: %s\n%s" % (tu["name"], r.stdout[-6000:]))
        e.compile_output = r.stdout
        e.tu = tu
        raise e
    # every boost/gil header must come from the selected repository root
    bad = []
    with open(dep) as fh:
        for tok in fh.read().replace("\\\n", " ").split():
            if "boost/gil/" in tok and not os.path.abspath(tok).startswith(os.path.abspath(REPO) + os.sep):
                bad.append(tok)
    os.remove(dep)
    if bad:
        os.remove(tmp)
        raise HarnessFailure("GIL headers resolved outside %s: %s" % (REPO, bad[:3]))
    # keep the two most recent generations per TU (the tree of /repo and one scratch tree under validation):
    # older binaries of the same TU are dropped
    os.replace(tmp, out)
    gens = [os.path.join(CACHE, f) for f in os.listdir(CACHE)
            if f.startswith(tu["name"] + ".") and ".tmp" not in f]
    gens.sort(key=lambda q: os.path.getmtime(q) if os.path.exists(q) else 0, reverse=True)
    for q in gens[2:]:
        if q != out:
            try:
                os.remove(q)
            except OSError:
                pass
    return out, dt, False


def build_all(tus):
    bins, secs, cached = {}, 0.0, 0
    errors = []
    with cf.ThreadPoolExecutor(max_workers=JOBS) as ex:
        futs = {ex.submit(build_tu, tu): tu for tu in tus}
        for f in cf.as_completed(futs):
            tu = futs[f]
            try:
                path, dt, c = f.result()
                bins[tu["name"]] = path
                secs += dt
                cached += 1 if c else 0
            except HarnessFailure as e:
                errors.append((tu, e))
    return bins, secs, cached, errors


# ---------------------------------------------------------------------------------------
# log classification

FRAME_RE = re.compile(r"^\s*#(\d+)\s+0x[0-9a-f]+\s+(?:in\s+)?(.*?)\s+(/\S+?):(\d+)(?::\d+)?\s*$")
FRAME_NOLINE_RE = re.compile(r"^\s*#(\d+)\s+0x[0-9a-f]+\s+(?:in\s+)?(.*?)\s+\((\S+)\+0x[0-9a-f]+\)")


def strip_func(f):
    """'boost::gil::foo<int, bar<2> >::baz(int, char) const' -> 'foo::baz'"""
    out, depth = [], 0
    for ch in f:
        if ch in "<":
            depth += 1
        elif ch == ">":
            depth = max(0, depth - 1)
        elif depth == 0:
            out.append(ch)
    s = "".join(out)
    # drop parameter list
    d, cut = 0, len(s)
    for i, ch in enumerate(s):
        if ch == "(":
            if d == 0:
                cut = i
                break
            d += 1
    s = s[:cut].strip()
    s = s.split(" ")[-1] if " " in s else s          # drop return types
    s = s.replace("boost::gil::", "").replace("detail::", "")
    s = re.sub(r"\{lambda.*", "lambda", s)
    s = re.sub(r"\[clone[^\]]*\]", "", s)
    return s or "?"


def gil_frame(lines):
    """innermost stack frame inside <repo>/include/boost/gil -> 'file:function'"""
    for ln in lines:
        m = FRAME_RE.match(ln)
        if m and "/include/boost/gil/" in m.group(3):
            rel = m.group(3).split("/include/boost/gil/", 1)[1]
            return "%s:%s" % (rel, strip_func(m.group(2)))
    return None


def harness_frame(lines):
    for ln in lines:
        m = FRAME_RE.match(ln)
        if m and "/harness/" in m.group(3):
            return "harness/%s:%s" % (os.path.basename(m.group(3)), strip_func(m.group(2)))
    return None


def classify_death(tail, returncode):
    """tail: log lines after the last @@CASE.  Returns (kind, frame, excerpt) or None."""
    text = "\n".join(tail)
    kind = None
    m = re.search(r"ERROR: AddressSanitizer: ([\w-]+)", text)
    if m:
        kind = "asan." + m.group(1)
        a = re.search(r"^(READ|WRITE) of size", text, re.M)
        if a:
            kind += "." + a.group(1)
        if m.group(1) == "ABRT":
            g = re.search(r"Assertion '(.*?)' failed", text)
            if g:
                kind = "glibcxx-assert"
        if m.group(1) == "SEGV":
            a = re.search(r"The signal is caused by a (READ|WRITE)", text)
            if a:
                kind += "." + a.group(1)
        if m.group(1) == "FPE":
            kind = "asan.FPE"
    if kind is None:
        m = re.search(r"runtime error: (.*)", text)
        if m:
            msg = m.group(1)
            msg = re.sub(r"0x[0-9a-fA-F]+", "P", msg)
            msg = re.sub(r"-?\d[\d.e+]*", "N", msg)
            msg = re.sub(r"'[^']*'", "T", msg)
            kind = "ubsan." + re.sub(r"[^A-Za-z]+", "-", msg).strip("-")[:60]
    if kind is None and "ERROR: LeakSanitizer" in text:
        kind = "lsan.leak"
    if kind is None:
        m = re.search(r"@@FATAL (\S+)", text)
        if m:
            kind = "monitor." + m.group(1)
    if kind is None:
        m = re.search(r"@@SIGNAL (\d+)", text)
        if m:
            kind = "signal.%s" % m.group(1)
            if re.search(r"@@GUARD (\S+)", text):
                kind = "guardfault." + re.search(r"@@GUARD (\S+)", text).group(1)
    if kind is None:
        m = re.search(r"Assertion '(.*?)' failed", text)
        if m:
            kind = "glibcxx-assert"
    if kind is None:
        m = re.search(r"terminate called after throwing an instance of '([^']+)'", text)
        if m:
            kind = "terminate." + re.sub(r"[^A-Za-z_:]", "", m.group(1))
    if kind is None:
        if returncode is not None and returncode < 0:
            kind = "signal.%d" % (-returncode)
        else:
            kind = "exit.%s" % returncode
    frame = gil_frame(tail) or harness_frame(tail) or "noframe"
    # excerpt: first ~40 lines of the report
    start = 0
    for i, ln in enumerate(tail):
        if "ERROR:" in ln or "runtime error" in ln or "@@FATAL" in ln or "@@SIGNAL" in ln or "Assertion" in ln:
            start = i
            break
    return kind, frame, "\n".join(tail[start:start + 45])


class ShardResult:
    def __init__(self):
        self.cases = 0
        self.classes = {}
        self.stats = {}
        self.viols = []       # (key, detail)
        self.violcount = {}
        self.deaths = []      # (caseidx, cls, id, kind, frame, excerpt, logpath)
        self.samples = []
        self.obs = set()
        self.done = False
        self.masked = False
        self.inconclusive = None
        self.wall = 0.0


def run_shard(prop, run, binpath, tier, seed, shard_i, shard_n, logdir, extra_args=None, only=None):
    res = ShardResult()
    env = dict(os.environ)
    leaks = 1 if run.get("leaks") else 0
    env["ASAN_OPTIONS"] = ASAN_OPTIONS % leaks
    if run.get("asan_extra"):
        env["ASAN_OPTIONS"] += ":" + run["asan_extra"]
    env["UBSAN_OPTIONS"] = UBSAN_OPTIONS
    env["LSAN_OPTIONS"] = "exitcode=99"
    env["VERIF_REPO"] = REPO
    env["VERIF_SCRATCH"] = os.path.join(BUILD, "scratch")
    env.update(run.get("env", {}))
    args = list(run.get("args", {}).get(tier, [])) + list(extra_args or [])
    start = 0
    segment = 0
    cpu_deaths = 0
    max_restarts = run.get("max_restarts", 60)
    timeout = run.get("timeout", {}).get(tier, 3600 if tier == "quick" else 4 * 3600)
    tag = run["bin"] + (("-" + run["logtag"]) if run.get("logtag") else "")
    hashfile = os.path.join(logdir, "%s.%d.hashes" % (tag, shard_i))
    if os.path.exists(hashfile):
        os.remove(hashfile)
    t0 = time.time()
    wrapper = run.get("wrapper", [])
    while True:
        log = os.path.join(logdir, "%s.%d.%d.log" % (tag, shard_i, segment))
        cmd = wrapper + [binpath, "--tier", tier, "--seed", str(seed), "--shard", "%d/%d" % (shard_i, shard_n),
                         "--hashout", hashfile] + args
        if only is not None:
            cmd += ["--only", str(only)]
        else:
            cmd += ["--start", str(start)]
        with open(log, "wb") as lf:
            try:
                r = subprocess.run(cmd, stdout=lf, stderr=subprocess.STDOUT, env=env, timeout=timeout,
                                   cwd=run.get("cwd", HERE))
                rc = r.returncode
            except subprocess.TimeoutExpired:
                rc = None
        with open(log, "r", errors="replace") as lf:
            lines = lf.read().split("\n")
        last_case = None
        last_i = -1
        done = False
        for i, ln in enumerate(lines):
            if not ln.startswith("@@"):
                continue
            if ln.startswith("@@CASE "):
                parts = ln.split(" ", 3)
                last_case = (int(parts[1]), parts[2], parts[3] if len(parts) > 3 else "")
                last_i = i
                res.cases += 1
                res.classes[parts[2]] = res.classes.get(parts[2], 0) + 1
            elif ln.startswith("@@VIOL "):
                body = ln[7:]
                key, _, detail = body.partition(" | ")
                res.viols.append((key.strip(), detail))
            elif ln.startswith("@@VIOLCOUNT "):
                k, n = ln[12:].rsplit(" ", 1)
                res.violcount[k] = res.violcount.get(k, 0) + int(n)
            elif ln.startswith("@@STAT "):
                _, k, n = ln.split(" ", 2)
                if k.startswith("max_"):
                    res.stats[k] = max(res.stats.get(k, 0), int(n))
                else:
                    res.stats[k] = res.stats.get(k, 0) + int(n)
            elif ln.startswith("@@SAMPLE "):
                if len(res.samples) < 4:
                    res.samples.append(ln[9:])
            elif ln.startswith("@@OBS "):
                res.obs.add(ln[6:].strip())
            elif ln.startswith("@@DONE"):
                done = True
        if rc is None:
            res.inconclusive = "watchdog after %ds in %s (last case %s)" % (timeout, log, last_case)
            break
        if done and rc == 0:
            res.done = True
            break
        # died
        tail = lines[last_i + 1:] if last_i >= 0 else lines
        kind, frame, excerpt = classify_death(tail, rc)
        if last_case is None:
            res.deaths.append((-1, "startup", "", kind, frame, excerpt, log))
            res.inconclusive = "harness died before the first case: %s %s (%s)" % (kind, frame, log)
            break
        res.deaths.append((last_case[0], last_case[1], last_case[2], kind, frame, excerpt, log))
        if only is not None:
            break
        if kind == "monitor.case-cpu-budget":
            # a non-terminating case costs its whole CPU budget: after the second one in a shard the rest of the
            # shard is not run (the run is a violation anyway; the shard counts as not completed)
            cpu_deaths += 1
            if cpu_deaths >= 2:
                res.masked = True
                break
        segment += 1
        start = last_case[0] + 1
        if segment > max_restarts:
            res.masked = True
            break
    res.wall = time.time() - t0
    res.hashfile = hashfile
    return res


def load_known():
    p = os.path.join(HERE, "known_findings.json")
    if not os.path.exists(p):
        return {"open": [], "fixed": []}
    with open(p) as fh:
        return json.load(fh)


def match_known(known, prop, key):
    for e in known.get("open", []):
        if e.get("property") != prop:
            continue
        for pat in e.get("keys", []):
            if pat == key or fnmatch.fnmatchcase(key, pat):
                return e
    return None


def write_evidence(prop, cfg, tier, seed, coverage, wall, nviol, assumptions):
    if os.environ.get("VERIF_NO_EVIDENCE"):
        return      # validation runs against scratch copies must not overwrite the evidence of /repo
    os.makedirs(os.path.join(HERE, "evidence"), exist_ok=True)
    ev = {
        "property_id": prop,
        "tier": tier,
        "seed": seed,
        "level": cfg["level"],
        "coverage": coverage,
        "assumptions": assumptions,
        "wall_s": round(wall, 2),
        "violations": nviol,
    }
    tmp = os.path.join(HERE, "evidence", prop + ".json.tmp")
    with open(tmp, "w") as fh:
        json.dump(ev, fh, indent=1, sort_keys=False)
        fh.write("\n")
    os.replace(tmp, os.path.join(HERE, "evidence", prop + ".json"))


def check(prop, tier, seed, replay=None):
    t0 = time.time()
    cfg = P.PROPS[prop]
    known = load_known()
    # one log directory per invocation (two runs of the same check must not delete each other's logs);
    # directories of finished invocations are removed
    logroot = os.path.join(BUILD, "logs")
    os.makedirs(logroot, exist_ok=True)
    for dname in os.listdir(logroot):
        if dname == prop or dname.startswith(prop + "-"):
            pid = dname.rsplit("-", 1)[-1]
            if pid.isdigit() and os.path.exists("/proc/" + pid):
                continue
            shutil.rmtree(os.path.join(logroot, dname), ignore_errors=True)
    logdir = os.path.join(logroot, "%s-%d" % (prop, os.getpid()))
    os.makedirs(logdir, exist_ok=True)
    os.makedirs(os.path.join(BUILD, "scratch"), exist_ok=True)
    repdir = os.path.join(BUILD, "replay", prop)
    os.makedirs(repdir, exist_ok=True)

    findings = {}   # key -> dict(count, detail, replay)
    harness_problems = []

    def add_finding(key, detail, replay_obj):
        f = findings.get(key)
        if f is None:
            rp = os.path.join(repdir, re.sub(r"[^A-Za-z0-9_.-]+", "_", key)[:150] + ".json")
            replay_obj = dict(replay_obj, property=prop, key=key, tier=tier, seed=seed, detail=detail[:4000])
            with open(rp, "w") as fh:
                json.dump(replay_obj, fh, indent=1)
            findings[key] = {"count": 1, "detail": detail, "replay": rp}
        else:
            f["count"] += 1

    # ---- build
    tus = [t for t in cfg["tus"] if tier in t.get("tiers", ("quick", "thorough"))]
    probes = [t for t in tus if t.get("probe")]
    normal = [t for t in tus if not t.get("probe")]
    bins, bsecs, ncached, errors = build_all(tus)
    for tu, e in errors:
        if tu.get("probe"):
            # an instantiation probe that does not compile: the property promises a result for
            # this combination and there is none (DESIGN section 1)
            m = re.search(r"(/\S*include/boost/gil/\S+?):(\d+):\d+: error: (.*)", getattr(e, "compile_output", ""))
            where = m.group(1).split("/include/boost/gil/", 1)[1] if m else "?"
            key = "%s|uninstantiable|%s|%s" % (prop, tu["probe"], where)
            add_finding(key, "probe %s does not compile: %s" % (tu["name"], m.group(0) if m else str(e)[-400:]),
                        {"probe": tu["name"], "cmd": " ".join(tu_cmd(tu, "/dev/null", "/dev/null"))})
        else:
            harness_problems.append(str(e))
    if harness_problems:
        # Some harness binaries do not build against this tree.  That is a harness failure (exit 2 at the end), but the
        # binaries that did build are still run: a violation they observe is reported (exit 1 takes precedence).
        print("HARNESS-FAILURE property=%s build (%d of %d binaries; the others are run)" % (prop, len(harness_problems), len(tus)))
        for h in harness_problems:
            print(h[:1500])
        if not bins:
            return 2

    # ---- run
    results = []
    jobs = []
    runs = [r for r in cfg["runs"] if tier in r.get("tiers", ("quick", "thorough"))]
    if harness_problems:
        runs = [r for r in runs if r["bin"] in bins]
    if replay:
        with open(replay) as fh:
            ro = json.load(fh)
        if "probe" in ro:
            tu = [t for t in cfg["tus"] if t["name"] == ro["probe"]][0]
            try:
                build_tu(tu)
                print("probe %s compiles" % tu["name"])
                return 0
            except HarnessFailure as e:
                print(str(e))
                print("VIOLATION property=%s replay=%s" % (prop, replay))
                return 1
        runs = [r for r in cfg["runs"] if r["bin"] == ro["bin"]]
        run = runs[0]
        res = run_shard(prop, run, bins[run["bin"]], ro["tier"], ro["seed"], 0, 1, logdir,
                        only=ro["case_idx"])
        for f in os.listdir(logdir):
            if f.endswith(".log"):
                sys.stdout.write(open(os.path.join(logdir, f), errors="replace").read())
        bad = bool(res.viols or res.deaths)
        if bad:
            print("VIOLATION property=%s replay=%s" % (prop, replay))
        return 1 if bad else 0

    with cf.ThreadPoolExecutor(max_workers=JOBS) as ex:
        for run in runs:
            n = run.get("shards", {}).get(tier, 16) if isinstance(run.get("shards"), dict) else run.get("shards", 16)
            for i in range(n):
                jobs.append((run, ex.submit(run_shard, prop, run, bins[run["bin"]], tier, seed, i, n, logdir)))
        for run, fu in jobs:
            results.append((run, fu.result()))

    # ---- aggregate
    total_cases = 0
    classes = {}
    stats = {}
    samples = []
    obs = set()
    masked = 0
    inconclusive = []
    hashes = set()
    per_bin_cases = {}
    for run, r in results:
        total_cases += r.cases
        rtag = run["bin"] + (("-" + run["logtag"]) if run.get("logtag") else "")
        per_bin_cases[rtag] = per_bin_cases.get(rtag, 0) + r.cases
        for k, v in r.classes.items():
            classes[k] = classes.get(k, 0) + v
        for k, v in r.stats.items():
            if k.startswith("max_"):    # maxima (e.g. CPU time of the most expensive case), not sums
                stats[run["bin"] + "." + k] = max(stats.get(run["bin"] + "." + k, 0), v)
                stats[k] = max(stats.get(k, 0), v)
                continue
            stats[run["bin"] + "." + k] = stats.get(run["bin"] + "." + k, 0) + v
            if k == "distinct" and run.get("secondary"):
                continue    # the same enumeration repeated under another build adds no distinct cases
            stats[k] = stats.get(k, 0) + v
        for s in r.samples:
            if len(samples) < 8:
                samples.append(s)
        obs |= set(run["bin"] + ":" + o for o in r.obs)
        if r.masked:
            masked += 1
        if r.inconclusive:
            inconclusive.append(r.inconclusive)
        if os.path.exists(r.hashfile) and not (run.get("secondary") and run.get("secondary_hashes_skip")):
            with open(r.hashfile, "rb") as fh:
                data = fh.read()
            hashes.update(struct.unpack("<%dQ" % (len(data) // 8), data[:len(data) // 8 * 8]))
        for key, detail in r.viols:
            full = "%s|oracle|%s" % (prop, key)
            m = re.match(r"case=(\d+) ", detail)
            add_finding(full, detail, {"bin": run["bin"], "case_idx": int(m.group(1)) if m else -1})
        for (idx, cls, cid, kind, frame, excerpt, log) in r.deaths:
            full = "%s|%s|%s|%s" % (prop, kind, frame, cls)
            add_finding(full, "case=%d %s %s\n%s" % (idx, cls, cid, excerpt), {"bin": run["bin"], "case_idx": idx})
            if kind.startswith("exit.") or kind.startswith("terminate."):
                pass

    # floors: a run that observed too little fails itself
    floor_fail = []
    for run in runs:
        fl = run.get("min_cases", {}).get(tier, 1)
        rtag = run["bin"] + (("-" + run["logtag"]) if run.get("logtag") else "")
        if per_bin_cases.get(rtag, 0) < fl:
            floor_fail.append("%s ran %d cases, floor %d" % (rtag, per_bin_cases.get(rtag, 0), fl))
    ro = cfg.get("require_obs", [])
    if isinstance(ro, dict):
        ro = ro.get(tier, ro.get("all", []))
    for need in ro:
        if not any(fnmatch.fnmatchcase(o.split(":", 1)[1], need) for o in obs):
            floor_fail.append("expected behaviour class never observed: %s" % need)

    unlisted, listed = [], []
    for key, f in sorted(findings.items()):
        e = match_known(known, prop, key)
        if e:
            listed.append((key, f, e))
        else:
            unlisted.append((key, f))

    evaluations = stats.get("evals", 0) or total_cases
    distinct = stats.get("distinct", 0) + len(hashes)
    coverage = {
        "evaluations": int(evaluations),
        "distinct_nontrivial": int(distinct),
        "rule": cfg["rule"],
        "samples": samples if samples else ["(no sample emitted)"],
        "cases_run": total_cases,
        "case_classes": dict(sorted(classes.items())),
        "observed": sorted(obs)[:400],
        "counters": {k: v for k, v in sorted(stats.items()) if "." not in k},
        "counters_per_binary": {k: v for k, v in sorted(stats.items()) if "." in k},
        "builds": [{"name": t["name"], "profile": t["profile"], "std": t.get("std", "c++14"),
                    "flags": PROFILES.get(t["profile"], []) + t.get("extra", [])} for t in normal],
        "probes_compiled": len([t for t in probes if t["name"] in bins]),
        "probes_failed": len(probes) - len([t for t in probes if t["name"] in bins]),
        "repo_root": REPO,
        "gil_tree_sha256": tree_hash(),
        "build_seconds_cpu": round(bsecs, 1),
        "binaries_from_cache": ncached,
        "masked_shards": masked,
        "inconclusive": inconclusive,
        "known_findings_seen": sorted(set(e.get("id", "?") for _, _, e in listed)),
        "unlisted_violation_keys": [k for k, _ in unlisted],
        "exhaustive": bool(cfg.get("exhaustive", {}).get(tier, False)),
        "exhaustive_domain": cfg.get("exhaustive_domain", {}).get(tier, ""),
        "types": cfg.get("types", []),
    }
    write_evidence(prop, cfg, tier, seed, coverage, time.time() - t0, len(unlisted), cfg.get("assumptions", []))

    printed = set()
    for key, f, e in listed:
        if e.get("id") in printed:
            continue
        printed.add(e.get("id"))
        print("KNOWN-FINDING: property=%s %s: %s" % (prop, e.get("id", ""), e.get("what", key)))
    for key, f in unlisted:
        print("--- %s (x%d)\n%s" % (key, f["count"], f["detail"][:3000]))
        print("VIOLATION property=%s replay=%s" % (prop, f["replay"]))
    print("%s tier=%s seed=%d cases=%d evaluations=%d distinct=%d unlisted=%d known=%d wall=%.1fs (build cpu %.0fs, %d cached)"
          % (prop, tier, seed, total_cases, evaluations, distinct, len(unlisted), len(listed),
             time.time() - t0, bsecs, ncached))
    if unlisted:
        return 1
    if harness_problems:
        print("INCONCLUSIVE property=%s %d harness binaries did not build" % (prop, len(harness_problems)))
        return 2
    if inconclusive or masked or floor_fail:
        for s in inconclusive + floor_fail:
            print("INCONCLUSIVE property=%s %s" % (prop, s))
        if masked:
            print("INCONCLUSIVE property=%s %d shard(s) hit the restart cap" % (prop, masked))
        return 2
    return 0


def main():
    argv = sys.argv[1:]
    if not argv or argv[0] in ("-h", "--help"):
        print(__doc__)
        return 2
    if argv[0] == "--build-all":
        tus = []
        for p, cfg in sorted(P.PROPS.items()):
            tus += [t for t in cfg["tus"] if not t.get("probe")]
        seen, uniq = set(), []
        for t in tus:
            if t["name"] not in seen:
                seen.add(t["name"])
                uniq.append(t)
        t0 = time.time()
        bins, secs, cached, errors = build_all(uniq)
        for tu, e in errors:
            print("build failed: %s\n%s" % (tu["name"], str(e)[-3000:]))
        print("built %d binaries (%d from cache) in %.0fs wall, %.0fs cpu" % (len(bins), cached, time.time() - t0, secs))
        return 2 if errors else 0
    prop = argv[0]
    if prop not in P.PROPS:
        print("unknown property %s" % prop)
        return 2
    tier = os.environ.get("VERIF_TIER", "quick")
    replay = None
    i = 1
    while i < len(argv):
        if argv[i] == "--tier":
            tier = argv[i + 1]
            i += 2
        elif argv[i] == "--replay":
            replay = argv[i + 1]
            i += 2
        else:
            i += 1
    if tier not in ("quick", "thorough"):
        tier = "quick"
    seed = int(os.environ.get("VERIF_SEED", "1") or "1")
    try:
        return check(prop, tier, seed, replay)
    except HarnessFailure as e:
        print("HARNESS-FAILURE property=%s %s" % (prop, e))
        return 2


if __name__ == "__main__":
    sys.exit(main())
