"""Per-property configuration of the monitors: which harness binaries are built (from /repo's
current tree), how they are run in each tier, the floors a run must reach, and the text that goes
into the evidence files.  Read by vcheck.py."""

FCO = ["-fsanitize=float-cast-overflow"]
NONULL = ["-fno-sanitize=null", "-fno-sanitize=nonnull-attribute"]



def tu(name, src, profile="asan", std="c++14", extra=None, libs=None, **kw):
    d = dict(name=name, src=src, profile=profile, std=std, extra=list(extra or []), libs=list(libs or []))
    d.update(kw)
    return d


def run(bin, shards=16, args=None, min_cases=None, **kw):
    d = dict(bin=bin, shards=shards, args=args or {}, min_cases=min_cases or {})
    d.update(kw)
    return d



PROPS = {}
NOT_CLAIMED = {}


def _load():
    import importlib.util
    import os
    d = os.path.join(os.path.dirname(os.path.abspath(__file__)), "propcfg")
    for f in sorted(os.listdir(d)):
        if not (f.startswith("c") and f.endswith(".py")):
            continue
        spec = importlib.util.spec_from_file_location("propcfg_" + f[:-3], os.path.join(d, f))
        m = importlib.util.module_from_spec(spec)
        spec.loader.exec_module(m)
        PROPS[f[:-3].upper()] = m.CFG


import sys as _sys
_sys.modules.setdefault("props", _sys.modules[__name__])
_load()
