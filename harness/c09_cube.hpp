// c09_cube.hpp -- enumeration of the rgb8 cube shared by the C09 and C18 harnesses.
//
// The cube is cut into 16 slabs by the high nibble of red (one case per slab, so that a fatal
// sanitizer report costs one slab of one colour space, and the shards of a run work in parallel).
// A slab is either swept completely (native build: always; sanitizer build: thorough tier) or
// through the *stratified subset* below (sanitizer build, quick tier):
//   - the grey diagonal, the 12 edges, the 6 faces on a stride-3 lattice,
//   - the lattice L^3 of 29 values per channel around the powers of two, thirds and both ends,
//   - the dark corner (two channels < 8, the third free: dark saturated primaries, where the
//     toolbox converters leave their gamut) and the 4^3 neighbourhoods of the 8 cube corners,
//   - a seeded 1/64 sample of everything else (the only part that depends on VERIF_SEED).
#pragma once
#include <cstdint>
#include "common/vh.hpp"

namespace cube {

#if defined(__SANITIZE_ADDRESS__)
static const bool sanitized = true;
#else
static const bool sanitized = false;
#endif

inline bool full_sweep() { return !sanitized || vh::thorough(); }

inline bool lattice_value(int v) {
    static bool init = false;
    static bool tab[256];
    if (!init) {
        const int L[] = {0, 1, 2, 3, 15, 16, 17, 31, 32, 33, 63, 64, 65, 85, 127, 128, 129, 170, 191, 192, 193,
                         223, 224, 239, 240, 252, 253, 254, 255};
        for (int i = 0; i < 256; ++i) tab[i] = false;
        for (int x : L) tab[x] = true;
        init = true;
    }
    return tab[v];
}
inline bool end_value(int v) { return v == 0 || v == 255; }

// membership in the stratified subset; `salt` is the seeded part
inline bool in_subset(int r, int g, int b, uint64_t salt) {
    if (r == g && g == b) return true;
    int ends = (int)end_value(r) + (int)end_value(g) + (int)end_value(b);
    if (ends >= 2) return true;
    if (ends == 1) {
        // a face: the two free coordinates on a stride-3 lattice
        bool ok = true;
        if (!end_value(r)) ok = ok && (r % 3 == 0);
        if (!end_value(g)) ok = ok && (g % 3 == 0);
        if (!end_value(b)) ok = ok && (b % 3 == 0);
        if (ok) return true;
    }
    if (lattice_value(r) && lattice_value(g) && lattice_value(b)) return true;
    int dark = (int)(r < 8) + (int)(g < 8) + (int)(b < 8);
    if (dark >= 2) return true;
    if ((r < 4 || r > 251) && (g < 4 || g > 251) && (b < 4 || b > 251)) return true;
    uint64_t h = vh::mix(salt, ((uint64_t)r << 16) | ((uint64_t)g << 8) | (uint64_t)b);
    return (h & 63) == 0;
}

// calls f(r,g,b) for every selected pixel of slab k (red in [16k,16k+16)); returns how many
template <class F> uint64_t for_slab(int k, bool full, uint64_t salt, F f) {
    uint64_t n = 0;
    for (int r = 16 * k; r < 16 * k + 16; ++r)
        for (int g = 0; g < 256; ++g)
            for (int b = 0; b < 256; ++b)
                if (full || in_subset(r, g, b, salt)) { f(r, g, b); ++n; }
    return n;
}

inline const char* sweep_name(bool full) { return full ? "full-slab" : "stratified-subset"; }

} // namespace cube
