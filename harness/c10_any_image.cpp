// C10 (part 2) -- any_image is a leak-free deep-value container as well.
// Seeded histories over two any_image objects whose alternatives use the ledger allocator;
// after every operation: ledger (no double/foreign free, sizes match), live blocks <= live objects,
// shadow model (held alternative, dimensions, every pixel); every allocation point of every history
// is re-run with an injected std::bad_alloc; at quiescence nothing is live.
#include <boost/gil.hpp>
#include <boost/gil/extension/dynamic_image/any_image.hpp>
#include <memory>
#include "common/vh.hpp"
#include "common/ledger.hpp"
#include "common/pixtools.hpp"

namespace gil = boost::gil;
typedef led::alloc<unsigned char, led::traits_always_equal> alloc_t;
typedef gil::image<gil::rgb8_pixel_t, false, alloc_t> img0_t;
typedef gil::image<gil::gray16_pixel_t, false, alloc_t> img1_t;
typedef gil::image<gil::rgb8_pixel_t, true, alloc_t> img2_t;
typedef gil::any_image<img0_t, img1_t, img2_t> any_t;

struct shadow { bool alive = false; int index = 0; long w = 0, h = 0; std::vector<uint64_t> px; };
static std::unique_ptr<any_t> g_any[2];
static shadow g_sh[2];
static std::string g_op, g_hist;
static uint64_t n_checks = 0, n_ops = 0;
static std::string key(const std::string& w) { return vh::cat("any_image.", w, ".", g_op); }

struct read_fn {
    typedef void result_type; shadow* sh;
    template <class I> void operator()(I const& im) const {
        auto v = gil::const_view(im); sh->w = v.width(); sh->h = v.height(); sh->px.assign((size_t)(sh->w * sh->h), 0);
        for (long y = 0; y < sh->h; ++y) for (long x = 0; x < sh->w; ++x) { pt::pixval p = pt::get_pix(v(x, y)); uint64_t h = 7; for (int i = 0; i < p.n; ++i) h = vh::mix(h, p.ch[i]); sh->px[(size_t)(y * sh->w + x)] = h; }
    }
};
struct write_fn {
    typedef void result_type; uint64_t salt;
    template <class I> void operator()(I& im) const {
        auto v = gil::view(im);
        for (long y = 0; y < v.height(); ++y) for (long x = 0; x < v.width(); ++x)
            pt::set_pix(v(x, y), pt::norm_pix<typename I::value_type>(pt::pattern_pix(salt, 3, x, y, pt::nch<typename I::value_type>::value)));
    }
};
static void resync(int s) { g_sh[s].index = (int)g_any[s]->index(); read_fn f = {&g_sh[s]}; boost::variant2::visit(f, *g_any[s]); }
static void check_all(const char* phase) {
    for (auto& a : led::L().anomalies) vh::viol(key("ledger"), vh::cat(phase, ": ", a, " | ", g_hist));
    led::L().anomalies.clear();
    int alive = 0;
    for (int s = 0; s < 2; ++s) {
        if (!g_sh[s].alive) continue;
        ++alive; ++n_checks;
        shadow now; read_fn f = {&now}; boost::variant2::visit(f, *g_any[s]);
        if ((int)g_any[s]->index() != g_sh[s].index) vh::viol(key("held-type"), vh::cat(phase, ": object ", s, " holds alternative ", g_any[s]->index(), " model ", g_sh[s].index, " | ", g_hist));
        else if (now.w != g_sh[s].w || now.h != g_sh[s].h) vh::viol(key("dims"), vh::cat(phase, ": object ", s, " is ", now.w, "x", now.h, " model ", g_sh[s].w, "x", g_sh[s].h, " | ", g_hist));
        else if (now.px != g_sh[s].px) vh::viol(key("contents"), vh::cat(phase, ": object ", s, " differs from the model (shallow copy or cross-talk) | ", g_hist));
        if ((long)g_any[s]->width() != now.w || (long)g_any[s]->height() != now.h) vh::viol(key("dimensions-query"), vh::cat(phase, " | ", g_hist));
        resync(s);
    }
    if ((long)led::L().live.size() > alive) vh::viol(key("blocks"), vh::cat(phase, ": ", led::L().live.size(), " live allocations for ", alive, " objects | ", g_hist));
}
struct op { int kind, a; long w, h; int alt; unsigned al; uint64_t val; };
enum { K_FROM_IMAGE, K_COPY, K_MOVE, K_ASSIGN, K_MOVE_ASSIGN, K_ASSIGN_IMAGE, K_RECREATE, K_WRITE, K_DESTROY, K_SELF, K_KINDS };
static const char* kname(int k) { static const char* n[] = {"from-image", "copy-ctor", "move-ctor", "assign", "move-assign", "assign-image", "recreate", "write", "destroy", "self-assign"}; return n[k]; }
template <class I> static I make_img(op const& o) { I im(o.w, o.h, o.al); write_fn w = {o.val}; w(im); return im; }
static bool apply(op const& o) {
    int a = o.a, b = 1 - o.a;
    switch (o.kind) {
    case K_FROM_IMAGE: if (g_sh[a].alive) return false;
        if (o.alt == 0) g_any[a].reset(new any_t(make_img<img0_t>(o))); else if (o.alt == 1) g_any[a].reset(new any_t(make_img<img1_t>(o))); else g_any[a].reset(new any_t(make_img<img2_t>(o)));
        g_sh[a].alive = true; resync(a);
        if (g_sh[a].index != o.alt || g_sh[a].w != o.w || g_sh[a].h != o.h) vh::viol(key("construct"), g_hist);
        return true;
    case K_COPY: if (g_sh[a].alive || !g_sh[b].alive) return false; g_any[a].reset(new any_t(*g_any[b])); g_sh[a] = g_sh[b];
        if (!(*g_any[a] == *g_any[b])) vh::viol(key("copy-not-equal"), g_hist); return true;
    case K_MOVE: if (g_sh[a].alive || !g_sh[b].alive) return false; g_any[a].reset(new any_t(std::move(*g_any[b]))); g_sh[a] = g_sh[b]; resync(b); return true;
    case K_ASSIGN: if (!g_sh[a].alive || !g_sh[b].alive) return false; *g_any[a] = *g_any[b]; g_sh[a] = g_sh[b];
        if (!(*g_any[a] == *g_any[b])) vh::viol(key("copy-not-equal"), g_hist); return true;
    case K_MOVE_ASSIGN: if (!g_sh[a].alive || !g_sh[b].alive) return false; *g_any[a] = std::move(*g_any[b]); g_sh[a] = g_sh[b]; resync(b); return true;
    case K_ASSIGN_IMAGE: if (!g_sh[a].alive) return false;
        if (o.alt == 0) *g_any[a] = make_img<img0_t>(o); else if (o.alt == 1) *g_any[a] = make_img<img1_t>(o); else *g_any[a] = make_img<img2_t>(o);
        resync(a); if (g_sh[a].index != o.alt || g_sh[a].w != o.w || g_sh[a].h != o.h) vh::viol(key("assign-image"), g_hist); return true;
    case K_RECREATE: if (!g_sh[a].alive) return false;
        { int before = (int)g_any[a]->index(); g_any[a]->recreate(o.w, o.h, o.al ? o.al : 1);
          if ((int)g_any[a]->index() != before) vh::viol(key("recreate-type"), g_hist);
          if (g_any[a]->width() != o.w || g_any[a]->height() != o.h) vh::viol(key("recreate-dims"), vh::cat("requested ", o.w, "x", o.h, " got ", g_any[a]->width(), "x", g_any[a]->height(), " | ", g_hist));
          write_fn w = {o.val}; boost::variant2::visit(w, *g_any[a]); resync(a); } return true;
    case K_WRITE: if (!g_sh[a].alive) return false; { write_fn w = {o.val}; boost::variant2::visit(w, *g_any[a]); resync(a); } return true;
    case K_DESTROY: if (!g_sh[a].alive) return false; g_any[a].reset(); g_sh[a].alive = false; return true;
    case K_SELF: if (!g_sh[a].alive) return false; { any_t& r = *g_any[a]; *g_any[a] = r; } return true;
    }
    return false;
}
static void run_history(std::vector<op> const& ops, long fail_alloc, long& points) {
    led::L().alloc_points = 0; led::L().fail_at = fail_alloc;
    const char* phase = fail_alloc >= 0 ? "alloc-fault" : "fault-free";
    for (auto& o : ops) {
        g_op = kname(o.kind);
        try { if (!apply(o)) continue; ++n_ops; }
        catch (std::bad_alloc const&) { vh::obs(vh::cat("exception-survived.", g_op)); for (int s = 0; s < 2; ++s) { if (g_any[s]) { g_sh[s].alive = true; resync(s); } else g_sh[s].alive = false; } }
        check_all(phase);
    }
    points = led::L().alloc_points; led::L().fail_at = -1;
    g_op = "quiescence";
    for (int s = 0; s < 2; ++s) { g_any[s].reset(); g_sh[s].alive = false; }
    for (auto& a : led::L().anomalies) vh::viol(key("ledger"), vh::cat(phase, "/quiescence: ", a, " | ", g_hist)); led::L().anomalies.clear();
    if (!led::L().live.empty()) { vh::viol(key("leak"), vh::cat(phase, ": ", led::L().live.size(), " allocation(s) still live | ", g_hist));
        for (auto& kv : std::map<void*, led::rec>(led::L().live)) led::do_deallocate(kv.first, kv.second.bytes, kv.second.resource); led::L().anomalies.clear(); }
}
int main(int argc, char** argv) {
    vh::init(argc, argv);
    const long NH = vh::opt_long("histories", vh::thorough() ? 20000 : 400);
    const int maxlen = vh::thorough() ? 30 : 12;
    static const long D[] = {0, 1, 2, 3, 5};
    for (long hno = 0; hno < NH; ++hno) {
        if (!vh::begin_case("any_image", vh::cat("history", hno))) continue;
        vh::rng r = vh::case_rng();
        int len = 3 + (int)r.below((uint64_t)maxlen - 2);
        std::vector<op> ops; g_hist.clear(); uint64_t hh = 9;
        for (int i = 0; i < len; ++i) {
            op o; o.kind = (int)r.below(K_KINDS); o.a = (int)r.below(2); o.w = D[r.below(5)]; o.h = D[r.below(5)]; o.alt = (int)r.below(3); o.al = (unsigned)(1u << r.below(5)); o.val = r.next();
            ops.push_back(o);
            std::string t = vh::cat(kname(o.kind), "(", o.a, ",alt", o.alt, ",", o.w, "x", o.h, ",a", o.al, ") ");
            if (i < 14) g_hist += t; hh = vh::mix(hh, vh::hash_str(t));
        }
        vh::distinct_hash(hh);
        if (hno < 2) vh::sample(vh::cat("any_image<rgb8,gray16,rgb8_planar>: ", g_hist));
        long P = 0, p2;
        run_history(ops, -1, P);
        for (long k = 0; k < P; ++k) run_history(ops, k, p2);
        vh::evals(n_checks); n_checks = 0; vh::count("operations", n_ops); n_ops = 0; vh::count("alloc_points", (uint64_t)P);
    }
    return vh::finish();
}
