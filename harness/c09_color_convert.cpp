// C09 -- default colour conversion keeps neutrals, range and order and composes soundly.
//
// PART 0: value sweeps on the canonical 8-bit types (one case per slab of the rgb8 cube, see c09_cube.hpp)
//   sweep.rgb8-gray8 / sweep.bgr8-gray8   all 2^24: black/white, (v,v,v) -> v, monotone against the r+1/g+1/b+1
//                                         neighbours, |gray - (0.30r+0.59g+0.11b)| <= 1
//   sweep.rgb8-cmyk8-rgb8                 all 2^24: round trip within one level, black/white, cmyk16 variant on the subset
//   sweep.rgb8-rgba8                      all 2^24: alpha = max, rgb unchanged; rgba8 -> rgba8/16 carries alpha
//   sweep.rgba8-premult                   all (r,a) x (g,b) on a 16-grid: from rgba == from the premultiplied rgb
//   sweep.cmyk8                           the four axes, the (c,k) planes and 2^20 seeded: documented formula, neutrals
//   sweep.gray, sweep.rgb16-gray16, sweep.rgb32f-gray32f, sweep.rgb565
// PART 1..8 (values, three source types each) and 11..18 (views, three source types each): every ordered pair of the 24 pixel types {gray, rgb, bgr, rgba, bgra, argb, abgr, cmyk} x
//   {8, 16, 32f}: range, layout independence, the value relations the property states for the pair of colour
//   spaces, and color_converted_view / copy_and_convert_pixels against color_convert on interleaved, planar and
//   stepped sources.
// See DESIGN.md section 5, C09.
#include <boost/gil.hpp>
#include <algorithm>
#include <cmath>
#include <set>
#include <vector>
#include "common/vh.hpp"
#include "c09_cube.hpp"

namespace gil = boost::gil;
typedef long double ld;

struct vlog {
    std::map<std::string, uint64_t> n;
    template <class F> void hit(const std::string& key, F make_detail) {
        uint64_t& c = n[key];
        if (c < 3) vh::viol(key, make_detail());
        ++c;
    }
    ~vlog() { for (auto& kv : n) vh::count("violating-results." + kv.first, kv.second); }
};

// ---- channel helpers ---------------------------------------------------------------------------------
template <class C> struct ch;
template <> struct ch<uint8_t> {
    static const char* name() { return "8"; }
    static ld norm(uint8_t v) { return (ld)v / 255.0L; }
    static ld res() { return 1.0L / 255.0L; }
    static bool in_range(uint8_t) { return true; }
    static uint8_t gen(vh::rng& r) { return (uint8_t)r.below(256); }
    static uint8_t lo() { return 0; }
    static uint8_t hi() { return 255; }
    static uint8_t mid() { return 128; }
    static uint8_t between(uint8_t a, vh::rng& r) { return (uint8_t)(a + r.below(256 - a)); }
};
template <> struct ch<uint16_t> {
    static const char* name() { return "16"; }
    static ld norm(uint16_t v) { return (ld)v / 65535.0L; }
    static ld res() { return 1.0L / 65535.0L; }
    static bool in_range(uint16_t) { return true; }
    static uint16_t gen(vh::rng& r) {
        switch (r.below(4)) {
            case 0: return (uint16_t)(r.below(256) * 257);            // exactly representable in 8 bits
            case 1: return (uint16_t)(r.below(256) * 257 + r.below(257) - 128);  // around the 8-bit rounding boundaries
            default: return (uint16_t)r.below(65536);
        }
    }
    static uint16_t lo() { return 0; }
    static uint16_t hi() { return 65535; }
    static uint16_t mid() { return 32768; }
    static uint16_t between(uint16_t a, vh::rng& r) { return (uint16_t)(a + r.below(65536 - a)); }
};
template <> struct ch<gil::float32_t> {
    static const char* name() { return "32f"; }
    static ld norm(gil::float32_t v) { return (ld)(float)v; }
    static ld res() { return 1e-6L; }
    static bool in_range(gil::float32_t v) { float f = v; return f >= 0.f && f <= 1.f; }
    static gil::float32_t gen(vh::rng& r) {
        switch (r.below(4)) {
            case 0: return gil::float32_t((float)r.below(256) / 255.f);
            case 1: { double x = ((double)r.below(256) + 0.5 + (r.unit() - 0.5) * 1e-3) / 255.0; return gil::float32_t((float)std::min(1.0, std::max(0.0, x))); }   // around the 8-bit rounding boundaries
            default: return gil::float32_t((float)r.unit());
        }
    }
    static gil::float32_t lo() { return gil::float32_t(0.f); }
    static gil::float32_t hi() { return gil::float32_t(1.f); }
    static gil::float32_t mid() { return gil::float32_t(0.5f); }
    static gil::float32_t between(gil::float32_t a, vh::rng& r) { float f = a; float x = (float)(f + (1.0 - f) * r.unit()); if (x > 1.f) x = 1.f; if (x < f) x = f; return gil::float32_t(x); }
};

static std::string px(int r, int g, int b) { return vh::cat("(", r, ",", g, ",", b, ")"); }

template <class P> std::string show(const P& p) {
    std::string s = "(";
    for (int i = 0; i < (int)gil::num_channels<P>::value; ++i) {
        char b[40];
        snprintf(b, sizeof b, "%s%.9g", i ? "," : "", (double)p[i]);
        s += b;
    }
    return s + ")";
}

#ifndef C09_PART
#define C09_PART 0
#endif

#if C09_PART == 0
// ======================================================================================================
// value sweeps
// ======================================================================================================

template <class RGB> RGB make_rgb8(int r, int g, int b) {
    RGB p;
    gil::get_color(p, gil::red_t()) = (uint8_t)r;
    gil::get_color(p, gil::green_t()) = (uint8_t)g;
    gil::get_color(p, gil::blue_t()) = (uint8_t)b;
    return p;
}
template <class RGB> int gray_of(int r, int g, int b) {
    RGB s = make_rgb8<RGB>(r, g, b);
    gil::gray8_pixel_t d;
    gil::color_convert(s, d);
    return d[0];
}

template <class RGB> void sweep_rgb8_gray8(const char* sname) {
    const std::string cls = vh::cat("sweep.", sname, "-gray8");
    for (int k = 0; k < 16; ++k) {
        if (!vh::begin_case(cls, vh::cat("slab", k))) continue;
        const bool full = cube::full_sweep();
        const uint64_t salt = vh::case_rng().next();
        vlog vl;
        long maxdev100 = 0;
        uint64_t n = cube::for_slab(k, full, salt, [&](int r, int g, int b) {
            int y = gray_of<RGB>(r, g, b);
            // within one unit of 0.30r + 0.59g + 0.11b  (exact: |100y - (30r+59g+11b)| <= 100)
            long dev = std::labs(100L * y - (30L * r + 59L * g + 11L * b));
            if (dev > maxdev100) maxdev100 = dev;
            if (dev > 100) vl.hit(vh::cat("weights.", sname, "->gray8"), [&] { return vh::cat(sname, px(r, g, b), " -> gray8 ", y, " but 0.30r+0.59g+0.11b = ", (30 * r + 59 * g + 11 * b) / 100.0); });
            if (r == g && g == b && y != r) vl.hit(vh::cat("grey-exact.", sname, "->gray8"), [&] { return vh::cat(sname, px(r, g, b), " -> gray8 ", y); });
            // monotone in each channel
            if (r < 255 && gray_of<RGB>(r + 1, g, b) < y) vl.hit(vh::cat("monotone.", sname, "->gray8.red"), [&] { return vh::cat(sname, px(r, g, b), " -> ", y, " but red+1 -> ", gray_of<RGB>(r + 1, g, b)); });
            if (g < 255 && gray_of<RGB>(r, g + 1, b) < y) vl.hit(vh::cat("monotone.", sname, "->gray8.green"), [&] { return vh::cat(sname, px(r, g, b), " -> ", y, " but green+1 -> ", gray_of<RGB>(r, g + 1, b)); });
            if (b < 255 && gray_of<RGB>(r, g, b + 1) < y) vl.hit(vh::cat("monotone.", sname, "->gray8.blue"), [&] { return vh::cat(sname, px(r, g, b), " -> ", y, " but blue+1 -> ", gray_of<RGB>(r, g, b + 1)); });
        });
        vh::evals(n); vh::distinct(n);
        vh::obs(vh::cat(cls, ".", cube::sweep_name(full)));
        vh::count(vh::cat("max-weights-deviation-x100.", cls, ".slab", k), (uint64_t)maxdev100);
        if (k == 0) vh::sample(vh::cat(sname, " -> gray8 for ", n, " pixels of slab 0 (", cube::sweep_name(full), "): greys exact, monotone vs the +1 neighbours, within one unit of the weights"));
    }
}

static void sweep_rgb8_cmyk8_rgb8() {
    for (int k = 0; k < 16; ++k) {
        if (!vh::begin_case("sweep.rgb8-cmyk8-rgb8", vh::cat("slab", k))) continue;
        const bool full = cube::full_sweep();
        const uint64_t salt = vh::case_rng().next();
        vlog vl;
        int worst = 0;
        uint64_t n = cube::for_slab(k, full, salt, [&](int r, int g, int b) {
            gil::rgb8_pixel_t s(r, g, b), back;
            gil::cmyk8_pixel_t c;
            gil::color_convert(s, c);
            gil::color_convert(c, back);
            int e = std::max(std::abs((int)back[0] - r), std::max(std::abs((int)back[1] - g), std::abs((int)back[2] - b)));
            if (e > worst) worst = e;
            if (e > 1) vl.hit(e >= 64 ? "roundtrip-gross.rgb8-cmyk8-rgb8" : "roundtrip.rgb8-cmyk8-rgb8", [&] { return vh::cat("rgb8", px(r, g, b), " -> cmyk8", show(c), " -> rgb8", show(back), " error ", e, " levels"); });
            // the black channel is the smallest complement; one of c,m,y is 0 unless the pixel is black
            int kexp = 255 - std::max(r, std::max(g, b));
            if ((int)c[3] != kexp) vl.hit("cmyk-black-channel.rgb8->cmyk8", [&] { return vh::cat("rgb8", px(r, g, b), " -> cmyk8", show(c), " expected k = ", kexp); });
            if (r == 0 && g == 0 && b == 0 && !(c[0] == 0 && c[1] == 0 && c[2] == 0 && c[3] == 255)) vl.hit("neutral.rgb8->cmyk8.black", [&] { return vh::cat("black -> cmyk8", show(c)); });
            if (r == 255 && g == 255 && b == 255 && !(c[0] == 0 && c[1] == 0 && c[2] == 0 && c[3] == 0)) vl.hit("neutral.rgb8->cmyk8.white", [&] { return vh::cat("white -> cmyk8", show(c)); });
        });
        vh::evals(n); vh::distinct(n);
        vh::obs(vh::cat("sweep.rgb8-cmyk8-rgb8.", cube::sweep_name(full)));
        vh::count(vh::cat("max-roundtrip-error.rgb8-cmyk8-rgb8.slab", k), (uint64_t)worst);
        if (k == 0) vh::sample(vh::cat("rgb8 -> cmyk8 -> rgb8 for ", n, " pixels of slab 0 (", cube::sweep_name(full), "): |back - original| <= 1, k = 255 - max(r,g,b), black/white"));
    }
}

static void sweep_rgb8_rgba8() {
    for (int k = 0; k < 16; ++k) {
        if (!vh::begin_case("sweep.rgb8-rgba8", vh::cat("slab", k))) continue;
        const bool full = cube::full_sweep();
        const uint64_t salt = vh::case_rng().next();
        vlog vl;
        uint64_t n = cube::for_slab(k, full, salt, [&](int r, int g, int b) {
            gil::rgb8_pixel_t s(r, g, b);
            gil::rgba8_pixel_t d; gil::abgr8_pixel_t d2; gil::rgba16_pixel_t d16;
            gil::color_convert(s, d); gil::color_convert(s, d2); gil::color_convert(s, d16);
            if (d[3] != 255 || gil::get_color(d2, gil::alpha_t()) != 255 || d16[3] != 65535)
                vl.hit("alpha-max.rgb8->rgba", [&] { return vh::cat("rgb8", px(r, g, b), " -> rgba8", show(d), " abgr8 alpha ", (int)gil::get_color(d2, gil::alpha_t()), " rgba16", show(d16)); });
            if (d[0] != r || d[1] != g || d[2] != b || gil::get_color(d2, gil::red_t()) != r || gil::get_color(d2, gil::green_t()) != g || gil::get_color(d2, gil::blue_t()) != b ||
                d16[0] != r * 257 || d16[1] != g * 257 || d16[2] != b * 257)
                vl.hit("to-rgba.rgb-part.rgb8->rgba", [&] { return vh::cat("rgb8", px(r, g, b), " -> rgba8", show(d), " abgr8", show(d2), " rgba16", show(d16)); });
            // rgba -> rgba carries the alpha (same colour space: per-channel channel_convert, no premultiplication)
            uint8_t a = (uint8_t)((r * 5 + g * 3 + b * 7 + k) & 0xFF);
            gil::rgba8_pixel_t sa(r, g, b, a); gil::bgra8_pixel_t da; gil::rgba16_pixel_t da16;
            gil::color_convert(sa, da); gil::color_convert(sa, da16);
            if (gil::get_color(da, gil::alpha_t()) != a || gil::get_color(da, gil::red_t()) != r || gil::get_color(da, gil::green_t()) != g || gil::get_color(da, gil::blue_t()) != b ||
                da16[0] != r * 257 || da16[1] != g * 257 || da16[2] != b * 257 || da16[3] != a * 257)
                vl.hit("same-space.rgba8->rgba", [&] { return vh::cat("rgba8", show(sa), " -> bgra8", show(da), " rgba16", show(da16)); });
        });
        vh::evals(2 * n); vh::distinct(2 * n);
        if (k == 0) vh::sample(vh::cat("rgb8 -> rgba8/abgr8/rgba16: alpha = max, rgb unchanged; rgba8 -> bgra8/rgba16 carries alpha; ", n, " pixels of slab 0"));
    }
}

static void sweep_rgba8_premult() {
    for (int k = 0; k < 16; ++k) {
        if (!vh::begin_case("sweep.rgba8-premult", vh::cat("slab", k))) continue;
        const bool full = cube::full_sweep();
        const int step = full ? 17 : 51;          // (g,b) on a 16-grid, or a 6-grid in the sanitizer's quick tier
        vlog vl;
        uint64_t n = 0;
        for (int r = 16 * k; r < 16 * k + 16; ++r)
            for (int a = 0; a < 256; ++a)
                for (int g = 0; g < 256; g += step)
                    for (int b = 0; b < 256; b += step) {
                        gil::rgba8_pixel_t s(r, g, b, a);
                        gil::argb8_pixel_t s2; gil::get_color(s2, gil::red_t()) = r; gil::get_color(s2, gil::green_t()) = g; gil::get_color(s2, gil::blue_t()) = b; gil::get_color(s2, gil::alpha_t()) = a;
                        gil::rgb8_pixel_t pm(gil::channel_multiply((uint8_t)r, (uint8_t)a), gil::channel_multiply((uint8_t)g, (uint8_t)a), gil::channel_multiply((uint8_t)b, (uint8_t)a));
                        ++n;
                        gil::rgb8_pixel_t d1, e1; gil::color_convert(s, d1); e1 = pm;
                        gil::gray8_pixel_t d2, e2; gil::color_convert(s, d2); gil::color_convert(pm, e2);
                        gil::cmyk8_pixel_t d3, e3; gil::color_convert(s, d3); gil::color_convert(pm, e3);
                        gil::bgr8_pixel_t d4; gil::color_convert(s2, d4);
                        gil::gray16_pixel_t d5, e5; gil::color_convert(s2, d5); gil::color_convert(pm, e5);
                        if (d1 != e1) vl.hit("from-rgba.premultiply.rgba8->rgb8", [&] { return vh::cat("rgba8", show(s), " -> rgb8", show(d1), " premultiplied rgb", show(e1)); });
                        if (d2 != e2) vl.hit("from-rgba.premultiply.rgba8->gray8", [&] { return vh::cat("rgba8", show(s), " -> gray8", show(d2), " from the premultiplied rgb", show(e2)); });
                        if (d3 != e3) vl.hit("from-rgba.premultiply.rgba8->cmyk8", [&] { return vh::cat("rgba8", show(s), " -> cmyk8", show(d3), " from the premultiplied rgb", show(e3)); });
                        if (gil::get_color(d4, gil::red_t()) != e1[0] || gil::get_color(d4, gil::green_t()) != e1[1] || gil::get_color(d4, gil::blue_t()) != e1[2])
                            vl.hit("from-rgba.premultiply.argb8->bgr8", [&] { return vh::cat("argb8 r,g,b,a=", show(s), " -> bgr8 memory", show(d4), " premultiplied rgb", show(e1)); });
                        if (d5 != e5) vl.hit("from-rgba.premultiply.argb8->gray16", [&] { return vh::cat("argb8 r,g,b,a=", show(s), " -> gray16", show(d5), " from the premultiplied rgb", show(e5)); });
                    }
        vh::evals(5 * n); vh::distinct(n);
        if (k == 0) vh::sample(vh::cat("rgba8/argb8 (r in slab 0, all a, g,b on a grid of step ", step, ") -> rgb8, gray8, cmyk8, bgr8, gray16 == conversion of (channel_multiply(r,a),...); ", n, " pixels"));
    }
}

// documented: r = 1 - min(1, c*(1-k)+k)
static void sweep_cmyk8() {
    static const char* parts[] = {"axes-and-planes", "seeded"};
    for (int part = 0; part < 2; ++part) {
        if (!vh::begin_case("sweep.cmyk8", parts[part])) continue;
        vh::rng rg = vh::case_rng();
        vlog vl;
        uint64_t n = 0;
        std::set<uint32_t> seen;     // the axes and planes overlap, the seeded part may repeat: distinct pixels are counted, not assumed
        auto one = [&](int c, int m, int y, int k) {
            seen.insert(((uint32_t)c << 24) | ((uint32_t)m << 16) | ((uint32_t)y << 8) | (uint32_t)k);
            gil::cmyk8_pixel_t s(c, m, y, k);
            gil::rgb8_pixel_t d; gil::bgr8_pixel_t d2; gil::rgba8_pixel_t d3; gil::gray8_pixel_t dg; gil::rgb16_pixel_t d16; gil::rgb32f_pixel_t df;
            gil::color_convert(s, d); gil::color_convert(s, d2); gil::color_convert(s, d3); gil::color_convert(s, dg); gil::color_convert(s, d16); gil::color_convert(s, df);
            ++n;
            const int in[3] = {c, m, y};
            for (int i = 0; i < 3; ++i) {
                ld e = 1.0L - std::min(1.0L, (ld)in[i] / 255 * (1.0L - (ld)k / 255) + (ld)k / 255);
                if (fabsl((ld)d[i] - e * 255) > 1.0L) vl.hit("formula.cmyk8->rgb8", [&] { return vh::cat("cmyk8", show(s), " -> rgb8", show(d), " documented 1-min(1,c(1-k)+k) gives channel ", i, " = ", (double)(e * 255)); });
                if (fabsl((ld)d16[i] - e * 65535) > 257.0L) vl.hit("formula.cmyk8->rgb16", [&] { return vh::cat("cmyk8", show(s), " -> rgb16", show(d16), " documented formula gives channel ", i, " = ", (double)(e * 65535)); });
                float f = df[i];
                if (!(f >= 0.f && f <= 1.f)) vl.hit("range.cmyk8->rgb32f", [&] { return vh::cat("cmyk8", show(s), " -> rgb32f", show(df)); });
                if (fabsl((ld)f - e) > 1.0L / 255) vl.hit("formula.cmyk8->rgb32f", [&] { return vh::cat("cmyk8", show(s), " -> rgb32f", show(df), " documented formula gives channel ", i, " = ", (double)e); });
            }
            if (gil::get_color(d2, gil::red_t()) != d[0] || gil::get_color(d2, gil::green_t()) != d[1] || gil::get_color(d2, gil::blue_t()) != d[2])
                vl.hit("layout.cmyk8->bgr8", [&] { return vh::cat("cmyk8", show(s), " -> rgb8", show(d), " but bgr8 memory", show(d2)); });
            if (d3[0] != d[0] || d3[1] != d[1] || d3[2] != d[2]) vl.hit("to-rgba.rgb-part.cmyk8->rgba8", [&] { return vh::cat("cmyk8", show(s), " -> rgb8", show(d), " but rgba8", show(d3)); });
            if (d3[3] != 255) vl.hit("alpha-max.cmyk8->rgba8", [&] { return vh::cat("cmyk8", show(s), " -> rgba8", show(d3)); });
            if (c == 0 && m == 0 && y == 0 && k == 255 && !(d[0] == 0 && d[1] == 0 && d[2] == 0)) vl.hit("neutral.cmyk8->rgb8.black", [&] { return vh::cat("cmyk black -> rgb8", show(d)); });
            if (c == 0 && m == 0 && y == 0 && k == 0 && !(d[0] == 255 && d[1] == 255 && d[2] == 255)) vl.hit("neutral.cmyk8->rgb8.white", [&] { return vh::cat("cmyk white -> rgb8", show(d)); });
            (void)dg;
        };
        if (part == 0) {
            for (int v = 0; v < 256; ++v) { one(v, 0, 0, 0); one(0, v, 0, 0); one(0, 0, v, 0); one(0, 0, 0, v); one(v, v, v, 0); one(v, v, v, v); one(255, 255, 255, v); one(v, 0, 0, 255); }
            for (int v = 0; v < 256; ++v) for (int k = 0; k < 256; ++k) { one(v, 0, 0, k); one(0, v, 0, k); one(0, 0, v, k); one(v, 255 - v, v / 2, k); }
        } else {
            long nr = cube::sanitized && !vh::thorough() ? (1l << 17) : (1l << 20);
            for (long i = 0; i < nr; ++i) {
                uint64_t x = rg.next();
                int c = (int)(x & 255), m = (int)((x >> 8) & 255), y = (int)((x >> 16) & 255), k = (int)((x >> 24) & 255);
                // pixels of the structured part are not counted twice
                bool structured = ((c == 0) + (m == 0) + (y == 0) >= 2) || (c == m && m == y) || (m == 255 - c && y == c / 2);
                if (!structured) one(c, m, y, k);
            }
        }
        vh::evals(n); vh::distinct(seen.size());
        vh::sample(vh::cat("cmyk8 ", parts[part], ": ", n, " pixels -> rgb8/bgr8/rgba8/rgb16/rgb32f against 1-min(1,c(1-k)+k) within one 8-bit level, alpha = max, neutrals"));
    }
}

static void sweep_gray() {
    if (!vh::begin_case("sweep.gray", "gray8/16->rgb,greys16")) return;
    vlog vl;
    uint64_t n = 0;
    for (int v = 0; v < 256; ++v) {
        gil::gray8_pixel_t s(v);
        gil::rgb8_pixel_t a; gil::bgr8_pixel_t b; gil::rgb16_pixel_t c; gil::rgb32f_pixel_t f; gil::rgba8_pixel_t ra;
        gil::color_convert(s, a); gil::color_convert(s, b); gil::color_convert(s, c); gil::color_convert(s, f); gil::color_convert(s, ra);
        ++n;
        if (a[0] != v || a[1] != v || a[2] != v || b[0] != v || b[1] != v || b[2] != v) vl.hit("gray-to-rgb.gray8->rgb8", [&] { return vh::cat("gray8 ", v, " -> rgb8", show(a), " bgr8", show(b)); });
        if (c[0] != v * 257 || c[1] != v * 257 || c[2] != v * 257) vl.hit("gray-to-rgb.gray8->rgb16", [&] { return vh::cat("gray8 ", v, " -> rgb16", show(c)); });
        float e = gil::channel_convert<gil::float32_t>((uint8_t)v);
        if ((float)f[0] != e || (float)f[1] != e || (float)f[2] != e) vl.hit("gray-to-rgb.gray8->rgb32f", [&] { return vh::cat("gray8 ", v, " -> rgb32f", show(f)); });
        if (ra[0] != v || ra[1] != v || ra[2] != v) vl.hit("gray-to-rgb.gray8->rgba8", [&] { return vh::cat("gray8 ", v, " -> rgba8", show(ra)); });
        if (ra[3] != 255) vl.hit("alpha-max.gray8->rgba8", [&] { return vh::cat("gray8 ", v, " -> rgba8", show(ra)); });
    }
    for (long v = 0; v < 65536; ++v) {
        gil::gray16_pixel_t s((uint16_t)v);
        gil::rgb16_pixel_t a; gil::rgb8_pixel_t b;
        gil::color_convert(s, a); gil::color_convert(s, b);
        ++n;
        if (a[0] != v || a[1] != v || a[2] != v) vl.hit("gray-to-rgb.gray16->rgb16", [&] { return vh::cat("gray16 ", v, " -> rgb16", show(a)); });
        uint8_t e = gil::channel_convert<uint8_t>((uint16_t)v);
        if (b[0] != e || b[1] != e || b[2] != e) vl.hit("gray-to-rgb.gray16->rgb8", [&] { return vh::cat("gray16 ", v, " -> rgb8", show(b), " expected ", (int)e); });
        // greys of rgb16: within one unit of v (the property demands exactness for 8-bit only)
        gil::rgb16_pixel_t g3((uint16_t)v, (uint16_t)v, (uint16_t)v); gil::gray16_pixel_t y;
        gil::color_convert(g3, y);
        if (std::labs((long)y[0] - v) > 1) vl.hit("weights.rgb16->gray16.grey", [&] { return vh::cat("rgb16 grey ", v, " -> gray16 ", (long)y[0]); });
        if ((v == 0 || v == 65535) && (long)y[0] != v) vl.hit("neutral.rgb16->gray16", [&] { return vh::cat("rgb16 grey ", v, " -> gray16 ", (long)y[0]); });
    }
    vh::evals(n); vh::distinct(n);
    vh::sample("every gray8 and gray16 value -> rgb (v,v,v) in 8/16/32f and bgr, alpha = max for rgba; every rgb16 grey -> gray16 within one unit");
}

static std::vector<long> strat16(vh::rng& r, int nrand) {
    std::vector<long> v;
    for (long i = 0; i < 64; ++i) { v.push_back(i); v.push_back(65535 - i); }
    for (long i = 0; i < 256; i += 5) { v.push_back(i * 257); v.push_back(i * 256 + 127); v.push_back(i * 256 + 128); }
    for (int k = 0; k < 16; ++k) for (long d = -1; d <= 1; ++d) { long x = (1l << k) + d; if (x >= 0 && x < 65536) v.push_back(x); }
    for (int i = 0; i < nrand; ++i) v.push_back((long)r.below(65536));
    std::sort(v.begin(), v.end()); v.erase(std::unique(v.begin(), v.end()), v.end());
    return v;
}

static void sweep_rgb16_gray16() {
    if (!vh::begin_case("sweep.rgb16-gray16", "stratified")) return;
    vh::rng r = vh::case_rng();
    vlog vl;
    std::vector<long> vals = strat16(r, vh::thorough() ? 120 : 30);
    uint64_t n = 0;
    auto conv = [](long R, long G, long B) { gil::rgb16_pixel_t s((uint16_t)R, (uint16_t)G, (uint16_t)B); gil::gray16_pixel_t d; gil::color_convert(s, d); return (long)d[0]; };
    for (long R : vals) for (long G : vals) for (long B : vals) {
        long y = conv(R, G, B);
        ++n;
        if (fabsl((ld)y - (0.30L * R + 0.59L * G + 0.11L * B)) > 1.0L) vl.hit("weights.rgb16->gray16", [&] { return vh::cat("rgb16(", R, ",", G, ",", B, ") -> gray16 ", y, " weights give ", (double)(0.30L * R + 0.59L * G + 0.11L * B)); });
        if (R < 65535 && conv(R + 1, G, B) < y) vl.hit("monotone.rgb16->gray16.red", [&] { return vh::cat("rgb16(", R, ",", G, ",", B, ") -> ", y, " red+1 -> ", conv(R + 1, G, B)); });
        if (G < 65535 && conv(R, G + 1, B) < y) vl.hit("monotone.rgb16->gray16.green", [&] { return vh::cat("rgb16(", R, ",", G, ",", B, ") -> ", y, " green+1 -> ", conv(R, G + 1, B)); });
        if (B < 65535 && conv(R, G, B + 1) < y) vl.hit("monotone.rgb16->gray16.blue", [&] { return vh::cat("rgb16(", R, ",", G, ",", B, ") -> ", y, " blue+1 -> ", conv(R, G, B + 1)); });
    }
    vh::evals(n); vh::distinct(n);
    vh::sample(vh::cat("rgb16 -> gray16 on ", vals.size(), "^3 stratified values: within one unit of the weights, monotone against the +1 neighbours"));
}

static void sweep_rgb32f_gray32f() {
    if (!vh::begin_case("sweep.rgb32f-gray32f", "stratified")) return;
    vh::rng r = vh::case_rng();
    vlog vl;
    std::vector<float> vals = {0.f, 1.f, nextafterf(1.f, 0.f), nextafterf(0.f, 1.f), 0.5f, 1.f / 3.f, 2.f / 3.f, 1e-3f, 1e-6f};
    for (int i = 0; i < 256; i += 3) vals.push_back((float)i / 255.f);
    int nr = vh::thorough() ? 80 : 24;
    for (int i = 0; i < nr; ++i) vals.push_back((float)r.unit());
    std::sort(vals.begin(), vals.end()); vals.erase(std::unique(vals.begin(), vals.end()), vals.end());
    auto conv = [](float R, float G, float B) { gil::rgb32f_pixel_t s(R, G, B); gil::gray32f_pixel_t d; gil::color_convert(s, d); return (float)d[0]; };
    uint64_t n = 0;
    for (float R : vals) for (float G : vals) for (float B : vals) {
        float y = conv(R, G, B);
        ++n;
        if (!(y >= 0.f && y <= 1.f)) vl.hit("range.rgb32f->gray32f", [&] { char b[200]; snprintf(b, sizeof b, "rgb32f(%.9g,%.9g,%.9g) -> gray32f %.9g", R, G, B, y); return std::string(b); });
        if (fabsl((ld)y - (0.30L * R + 0.59L * G + 0.11L * B)) > 1e-6L) vl.hit("weights.rgb32f->gray32f", [&] { char b[200]; snprintf(b, sizeof b, "rgb32f(%.9g,%.9g,%.9g) -> gray32f %.9g weights %.9Lg", R, G, B, y, 0.30L * R + 0.59L * G + 0.11L * B); return std::string(b); });
        float Ru = nextafterf(R, 2.f), Gu = nextafterf(G, 2.f), Bu = nextafterf(B, 2.f);
        if (Ru <= 1.f && conv(Ru, G, B) < y) vl.hit("monotone.rgb32f->gray32f.red", [&] { return vh::cat("rgb32f(", R, ",", G, ",", B, ") red+1ulp decreases gray"); });
        if (Gu <= 1.f && conv(R, Gu, B) < y) vl.hit("monotone.rgb32f->gray32f.green", [&] { return vh::cat("rgb32f(", R, ",", G, ",", B, ") green+1ulp decreases gray"); });
        if (Bu <= 1.f && conv(R, G, Bu) < y) vl.hit("monotone.rgb32f->gray32f.blue", [&] { return vh::cat("rgb32f(", R, ",", G, ",", B, ") blue+1ulp decreases gray"); });
        if (R == 1.f && G == 1.f && B == 1.f && y != 1.f) vl.hit("neutral.rgb32f->gray32f.white", [&] { char b[80]; snprintf(b, sizeof b, "white -> %.9g", y); return std::string(b); });
    }
    vh::evals(n); vh::distinct(n);
}

// packed rgb565: the generic (float) luminance path and per-channel conversion of heterogeneous channels
static void sweep_rgb565() {
    if (!vh::begin_case("sweep.rgb565", "all-65536")) return;
    typedef gil::packed_pixel_type<uint16_t, boost::mp11::mp_list_c<unsigned, 5, 6, 5>, gil::rgb_layout_t>::type rgb565_t;
    typedef gil::packed_pixel_type<uint16_t, boost::mp11::mp_list_c<unsigned, 5, 6, 5>, gil::bgr_layout_t>::type bgr565_t;
    vlog vl;
    uint64_t n = 0;
    auto gray565 = [](int R, int G, int B) { rgb565_t s((uint16_t)0); gil::get_color(s, gil::red_t()) = R; gil::get_color(s, gil::green_t()) = G; gil::get_color(s, gil::blue_t()) = B;
                                             gil::gray8_pixel_t d; gil::color_convert(s, d); return (int)d[0]; };
    for (int R = 0; R < 32; ++R) for (int G = 0; G < 64; ++G) for (int B = 0; B < 32; ++B) {
        rgb565_t s((uint16_t)0);
        gil::get_color(s, gil::red_t()) = R; gil::get_color(s, gil::green_t()) = G; gil::get_color(s, gil::blue_t()) = B;
        bgr565_t s2((uint16_t)0);
        gil::get_color(s2, gil::red_t()) = R; gil::get_color(s2, gil::green_t()) = G; gil::get_color(s2, gil::blue_t()) = B;
        gil::rgb8_pixel_t d, d2; gil::gray8_pixel_t y, y2;
        gil::color_convert(s, d); gil::color_convert(s2, d2); gil::color_convert(s, y); gil::color_convert(s2, y2);
        ++n;
        // same colour space: per-channel channel_convert (whose own exactness is C06's business)
        if (d[0] != gil::channel_convert<uint8_t>(gil::get_color(s, gil::red_t())) || d[1] != gil::channel_convert<uint8_t>(gil::get_color(s, gil::green_t())) || d[2] != gil::channel_convert<uint8_t>(gil::get_color(s, gil::blue_t())))
            vl.hit("same-space.rgb565->rgb8", [&] { return vh::cat("rgb565(", R, ",", G, ",", B, ") -> rgb8", show(d), " is not the per-channel channel_convert"); });
        if (d2 != d || y2 != y) vl.hit("layout.bgr565", [&] { return vh::cat("rgb565(", R, ",", G, ",", B, ") -> rgb8", show(d), " gray8 ", (int)y[0], " but bgr565 -> ", show(d2), " gray8 ", (int)y2[0]); });
        ld w = 255.0L * (0.30L * R / 31 + 0.59L * G / 63 + 0.11L * B / 31);
        if (fabsl((ld)y[0] - w) > 1.0L) vl.hit("weights.rgb565->gray8", [&] { return vh::cat("rgb565(", R, ",", G, ",", B, ") -> gray8 ", (int)y[0], " weights give ", (double)w); });
        if (R < 31 && gray565(R + 1, G, B) < y[0]) vl.hit("monotone.rgb565->gray8.red", [&] { return vh::cat("rgb565(", R, ",", G, ",", B, ") red+1 decreases gray"); });
        if (G < 63 && gray565(R, G + 1, B) < y[0]) vl.hit("monotone.rgb565->gray8.green", [&] { return vh::cat("rgb565(", R, ",", G, ",", B, ") green+1 decreases gray"); });
        if (B < 31 && gray565(R, G, B + 1) < y[0]) vl.hit("monotone.rgb565->gray8.blue", [&] { return vh::cat("rgb565(", R, ",", G, ",", B, ") blue+1 decreases gray"); });
        if (R == 0 && G == 0 && B == 0 && (d != gil::rgb8_pixel_t(0, 0, 0) || y[0] != 0)) vl.hit("neutral.rgb565.black", [&] { return vh::cat("black -> rgb8", show(d), " gray8 ", (int)y[0]); });
        if (R == 31 && G == 63 && B == 31 && (d != gil::rgb8_pixel_t(255, 255, 255) || y[0] != 255)) vl.hit("neutral.rgb565.white", [&] { return vh::cat("white -> rgb8", show(d), " gray8 ", (int)y[0]); });
    }
    vh::evals(n); vh::distinct(n);
    vh::sample("every rgb565 / bgr565 pixel -> rgb8 (per-channel rescaling) and gray8 (weights, monotone, neutrals)");
}

int main(int argc, char** argv) {
    vh::init(argc, argv);
    sweep_rgb8_gray8<gil::rgb8_pixel_t>("rgb8");
    sweep_rgb8_gray8<gil::bgr8_pixel_t>("bgr8");
    sweep_rgb8_cmyk8_rgb8();
    sweep_rgb8_rgba8();
    sweep_rgba8_premult();
    sweep_cmyk8();
    sweep_gray();
    sweep_rgb16_gray16();
    sweep_rgb32f_gray32f();
    sweep_rgb565();
    return vh::finish();
}

#else
// ======================================================================================================
// every ordered pair of pixel types
// ======================================================================================================

struct sp_gray {}; struct sp_rgb {}; struct sp_rgba {}; struct sp_cmyk {};
template <class CS> struct space_of;
template <> struct space_of<gil::gray_t> { typedef sp_gray type; static const char* name() { return "gray"; } };
template <> struct space_of<gil::rgb_t> { typedef sp_rgb type; static const char* name() { return "rgb"; } };
template <> struct space_of<gil::rgba_t> { typedef sp_rgba type; static const char* name() { return "rgba"; } };
template <> struct space_of<gil::cmyk_t> { typedef sp_cmyk type; static const char* name() { return "cmyk"; } };

template <class P> struct pt {
    typedef typename gil::channel_type<P>::type channel;
    typedef typename gil::color_space_type<P>::type cs;
    typedef typename space_of<cs>::type space;
    typedef gil::pixel<channel, gil::layout<cs>> canonical;
    static const int N = gil::num_channels<P>::value;
};
template <class P> struct nm;
#define NAME(T, S, I) template <> struct nm<gil::T> { static const char* name() { return S; } static const int index = I; };
NAME(gray8_pixel_t, "gray8", 0) NAME(gray16_pixel_t, "gray16", 1) NAME(gray32f_pixel_t, "gray32f", 2)
NAME(rgb8_pixel_t, "rgb8", 3) NAME(rgb16_pixel_t, "rgb16", 4) NAME(rgb32f_pixel_t, "rgb32f", 5)
NAME(bgr8_pixel_t, "bgr8", 6) NAME(bgr16_pixel_t, "bgr16", 7) NAME(bgr32f_pixel_t, "bgr32f", 8)
NAME(rgba8_pixel_t, "rgba8", 9) NAME(rgba16_pixel_t, "rgba16", 10) NAME(rgba32f_pixel_t, "rgba32f", 11)
NAME(bgra8_pixel_t, "bgra8", 12) NAME(bgra16_pixel_t, "bgra16", 13) NAME(bgra32f_pixel_t, "bgra32f", 14)
NAME(argb8_pixel_t, "argb8", 15) NAME(argb16_pixel_t, "argb16", 16) NAME(argb32f_pixel_t, "argb32f", 17)
NAME(abgr8_pixel_t, "abgr8", 18) NAME(abgr16_pixel_t, "abgr16", 19) NAME(abgr32f_pixel_t, "abgr32f", 20)
NAME(cmyk8_pixel_t, "cmyk8", 21) NAME(cmyk16_pixel_t, "cmyk16", 22) NAME(cmyk32f_pixel_t, "cmyk32f", 23)

// semantic copy between two layouts of one colour space, written out (not GIL's converting constructor)
template <int K> struct sem_copy {
    template <class A, class B> static void run(const A& a, B& b) { gil::semantic_at_c<K - 1>(b) = gil::semantic_at_c<K - 1>(a); sem_copy<K - 1>::run(a, b); }
    template <class A, class B> static bool eq(const A& a, const B& b) { return gil::semantic_at_c<K - 1>(b) == gil::semantic_at_c<K - 1>(a) && sem_copy<K - 1>::eq(a, b); }
};
template <> struct sem_copy<0> {
    template <class A, class B> static void run(const A&, B&) {}
    template <class A, class B> static bool eq(const A&, const B&) { return true; }
};

struct ctx {
    vlog* vl;
    vh::rng* r;
    std::string pair;   // "rgb8->gray16"
    std::string spaces; // "rgb->gray"
};

// ---- canonical samples per colour space ----------------------------------------------------------------
template <class C> void add_common(std::vector<std::vector<C>>& out, int n, vh::rng& r, int nrand) {
    typedef ch<C> H;
    const C three[3] = {H::lo(), H::mid(), H::hi()};
    // {lo, mid, hi}^n
    long combos = 1; for (int i = 0; i < n; ++i) combos *= 3;
    for (long m = 0; m < combos; ++m) { std::vector<C> p; long x = m; for (int i = 0; i < n; ++i) { p.push_back(three[x % 3]); x /= 3; } out.push_back(p); }
    // all channels equal (greys / neutral ramps), and for 4-channel spaces the same with the last channel at both ends
    for (int i = 0; i < 48; ++i) {
        C v = H::gen(r);
        std::vector<C> p(n, v); out.push_back(p);
        if (n == 4) { p[3] = H::hi(); out.push_back(p); p[3] = H::lo(); out.push_back(p); }
    }
    // one channel free, the others at an end
    for (int c = 0; c < n; ++c) for (int i = 0; i < 24; ++i) { std::vector<C> p(n, (i & 1) ? H::hi() : H::lo()); p[c] = H::gen(r); out.push_back(p); }
    for (int i = 0; i < nrand; ++i) { std::vector<C> p; for (int c = 0; c < n; ++c) p.push_back(H::gen(r)); out.push_back(p); }
    // opaque / k=0 random
    if (n == 4) for (int i = 0; i < nrand / 4; ++i) { std::vector<C> p; for (int c = 0; c < 3; ++c) p.push_back(H::gen(r)); p.push_back((i & 1) ? H::hi() : H::lo()); out.push_back(p); }
}

// ---- value relations per pair of colour spaces (on canonical layouts) -------------------------------------
template <class SC, class DC> ld pair_res() { return std::max(ch<typename gil::channel_type<SC>::type>::res(), ch<typename gil::channel_type<DC>::type>::res()); }

// fallback: nothing but range and layout independence is stated (gray<->cmyk)
template <class SS, class DS, class SC, class DC> void relation(SS, DS, const SC&, const DC&, ctx&) {}

// same colour space: per-channel channel_convert
template <class SC, class DC> void same_space(const SC& s, const DC& d, ctx& c) {
    typedef typename gil::channel_type<DC>::type D;
    for (int i = 0; i < (int)gil::num_channels<SC>::value; ++i)
        if (!(d[i] == gil::channel_convert<D>(s[i]))) {
            c.vl->hit("same-space." + c.pair, [&] { return vh::cat(c.pair, " ", show(s), " -> ", show(d), " channel ", i, " is not channel_convert of the source channel (", (double)gil::channel_convert<D>(s[i]), ")"); });
            return;
        }
}
template <class SC, class DC> void relation(sp_gray, sp_gray, const SC& s, const DC& d, ctx& c) { same_space(s, d, c); }
template <class SC, class DC> void relation(sp_rgb, sp_rgb, const SC& s, const DC& d, ctx& c) { same_space(s, d, c); }
template <class SC, class DC> void relation(sp_rgba, sp_rgba, const SC& s, const DC& d, ctx& c) { same_space(s, d, c); }
template <class SC, class DC> void relation(sp_cmyk, sp_cmyk, const SC& s, const DC& d, ctx& c) { same_space(s, d, c); }

// gray -> rgb: (v,v,v)
template <class SC, class DC> void relation(sp_gray, sp_rgb, const SC& s, const DC& d, ctx& c) {
    typedef typename gil::channel_type<DC>::type D;
    D e = gil::channel_convert<D>(s[0]);
    if (!(d[0] == e && d[1] == e && d[2] == e)) c.vl->hit("gray-to-rgb." + c.pair, [&] { return vh::cat(c.pair, " ", show(s), " -> ", show(d), " expected all channels ", (double)e); });
}

// rgb -> gray: weights within one unit (of the coarser depth), neutrals, greys exact for 8 bit, monotone
template <class SC, class DC> void relation(sp_rgb, sp_gray, const SC& s, const DC& d, ctx& c) {
    typedef typename gil::channel_type<SC>::type S;
    typedef typename gil::channel_type<DC>::type D;
    ld w = 0.30L * ch<S>::norm(s[0]) + 0.59L * ch<S>::norm(s[1]) + 0.11L * ch<S>::norm(s[2]);
    ld y = ch<D>::norm(d[0]);
    if (fabsl(y - w) > pair_res<SC, DC>() * 1.0000001L)
        c.vl->hit("weights." + c.pair, [&] { return vh::cat(c.pair, " ", show(s), " -> ", show(d), " = ", (double)y, " of full scale, weights give ", (double)w, ", one unit is ", (double)pair_res<SC, DC>()); });
    if (std::is_same<S, uint8_t>::value && std::is_same<D, uint8_t>::value && s[0] == s[1] && s[1] == s[2] && !(d[0] == s[0]))
        c.vl->hit("grey-exact." + c.pair, [&] { return vh::cat(c.pair, " ", show(s), " -> ", show(d)); });
    if (s[0] == ch<S>::lo() && s[1] == ch<S>::lo() && s[2] == ch<S>::lo() && !(d[0] == ch<D>::lo())) c.vl->hit("neutral." + c.pair + ".black", [&] { return vh::cat("black -> ", show(d)); });
    // monotone: raise one channel, the gray must not fall
    SC s2 = s;
    int k = (int)c.r->below(3);
    s2[k] = ch<S>::between(s[k], *c.r);
    DC d2;
    gil::color_convert(s2, d2);
    if (d2[0] < d[0]) c.vl->hit("monotone." + c.pair, [&] { return vh::cat(c.pair, " ", show(s), " -> ", show(d), " but raising channel ", k, ": ", show(s2), " -> ", show(d2)); });
}

// rgb -> cmyk: neutrals; round trip within one 8-bit level
template <class SC, class DC> void relation(sp_rgb, sp_cmyk, const SC& s, const DC& d, ctx& c) {
    typedef typename gil::channel_type<SC>::type S;
    typedef typename gil::channel_type<DC>::type D;
    bool black = s[0] == ch<S>::lo() && s[1] == ch<S>::lo() && s[2] == ch<S>::lo();
    bool white = s[0] == ch<S>::hi() && s[1] == ch<S>::hi() && s[2] == ch<S>::hi();
    if (black && !(d[0] == ch<D>::lo() && d[1] == ch<D>::lo() && d[2] == ch<D>::lo() && d[3] == ch<D>::hi())) c.vl->hit("neutral." + c.pair + ".black", [&] { return vh::cat("rgb black -> cmyk ", show(d)); });
    if (white && !(d[0] == ch<D>::lo() && d[1] == ch<D>::lo() && d[2] == ch<D>::lo() && d[3] == ch<D>::lo())) c.vl->hit("neutral." + c.pair + ".white", [&] { return vh::cat("rgb white -> cmyk ", show(d)); });
    SC back;
    gil::color_convert(d, back);
    // the property: within one 8-bit level.  Measured on the unchanged tree: 8-bit sources reach exactly 1 level; 16-bit and
    // float sources reach 1.49 levels (the converter quantises to 8 bits and truncates (c-k)*s).  The band (1, 1.5] gets its
    // own key so that it cannot hide a larger error.
    ld worst = 0; int wi = 0;
    for (int i = 0; i < 3; ++i) { ld e = 255.0L * fabsl(ch<S>::norm(back[i]) - ch<S>::norm(s[i])); if (e > worst) { worst = e; wi = i; } }
    const ld slack = 255.0L * ch<S>::res() * (std::is_same<S, uint8_t>::value ? 0.0L : 1.0L) + 1e-9L;   // 1e-9: the division by 255 in long double
    if (worst > 1.5L + slack)
        c.vl->hit("roundtrip." + c.pair, [&] { return vh::cat(c.pair, " ", show(s), " -> ", show(d), " -> back ", show(back), ": channel ", wi, " off by ", (double)worst, " 8-bit levels"); });
    else if (worst > 1.0L + slack)
        c.vl->hit("roundtrip-over-one-level." + c.pair, [&] { return vh::cat(c.pair, " ", show(s), " -> ", show(d), " -> back ", show(back), ": channel ", wi, " off by ", (double)worst, " 8-bit levels (more than one, at most one and a half)"); });
}

// cmyk -> rgb: neutrals and the documented formula r = 1 - min(1, c(1-k)+k)
template <class SC, class DC> void relation(sp_cmyk, sp_rgb, const SC& s, const DC& d, ctx& c) {
    typedef typename gil::channel_type<SC>::type S;
    typedef typename gil::channel_type<DC>::type D;
    bool cmy0 = s[0] == ch<S>::lo() && s[1] == ch<S>::lo() && s[2] == ch<S>::lo();
    if (cmy0 && s[3] == ch<S>::hi() && !(d[0] == ch<D>::lo() && d[1] == ch<D>::lo() && d[2] == ch<D>::lo())) c.vl->hit("neutral." + c.pair + ".black", [&] { return vh::cat("cmyk black -> rgb ", show(d)); });
    if (cmy0 && s[3] == ch<S>::lo() && !(d[0] == ch<D>::hi() && d[1] == ch<D>::hi() && d[2] == ch<D>::hi())) c.vl->hit("neutral." + c.pair + ".white", [&] { return vh::cat("cmyk white -> rgb ", show(d)); });
    ld k = ch<S>::norm(s[3]);
    for (int i = 0; i < 3; ++i) {
        ld e = 1.0L - std::min(1.0L, ch<S>::norm(s[i]) * (1.0L - k) + k);
        if (fabsl(ch<D>::norm(d[i]) - e) > ch<S>::res() + ch<D>::res()) {
            c.vl->hit("formula." + c.pair, [&] { return vh::cat(c.pair, " ", show(s), " -> ", show(d), ": channel ", i, " = ", (double)ch<D>::norm(d[i]), " of full scale, 1-min(1,c(1-k)+k) = ", (double)e); });
            break;
        }
    }
}

// anything without alpha -> rgba: alpha = max, the colour part is the conversion to rgb
template <class SS, class SC, class DC> void to_rgba(SS, const SC& s, const DC& d, ctx& c) {
    typedef typename gil::channel_type<DC>::type D;
    if (!(d[3] == ch<D>::hi())) c.vl->hit("alpha-max." + c.pair, [&] { return vh::cat(c.pair, " ", show(s), " -> ", show(d)); });
    gil::pixel<D, gil::rgb_layout_t> e;
    gil::color_convert(s, e);
    if (!(d[0] == e[0] && d[1] == e[1] && d[2] == e[2])) c.vl->hit("to-rgba.rgb-part." + c.pair, [&] { return vh::cat(c.pair, " ", show(s), " -> ", show(d), " but -> rgb gives ", show(e)); });
}
template <class SC, class DC> void relation(sp_gray, sp_rgba, const SC& s, const DC& d, ctx& c) { to_rgba(sp_gray(), s, d, c); }
template <class SC, class DC> void relation(sp_rgb, sp_rgba, const SC& s, const DC& d, ctx& c) { to_rgba(sp_rgb(), s, d, c); }
template <class SC, class DC> void relation(sp_cmyk, sp_rgba, const SC& s, const DC& d, ctx& c) {
    to_rgba(sp_cmyk(), s, d, c);
    typedef typename gil::channel_type<SC>::type S;
    typedef typename gil::channel_type<DC>::type D;
    bool cmy0 = s[0] == ch<S>::lo() && s[1] == ch<S>::lo() && s[2] == ch<S>::lo();
    if (cmy0 && s[3] == ch<S>::hi() && !(d[0] == ch<D>::lo() && d[1] == ch<D>::lo() && d[2] == ch<D>::lo() && d[3] == ch<D>::hi())) c.vl->hit("neutral." + c.pair + ".black", [&] { return vh::cat("cmyk black -> rgba ", show(d)); });
    if (cmy0 && s[3] == ch<S>::lo() && !(d[0] == ch<D>::hi() && d[1] == ch<D>::hi() && d[2] == ch<D>::hi() && d[3] == ch<D>::hi())) c.vl->hit("neutral." + c.pair + ".white", [&] { return vh::cat("cmyk white -> rgba ", show(d)); });
}

// rgba -> anything without alpha: the conversion of the premultiplied rgb
template <class DS, class SC, class DC> void from_rgba(DS, const SC& s, const DC& d, ctx& c) {
    typedef typename gil::channel_type<SC>::type S;
    gil::pixel<S, gil::rgb_layout_t> pm(gil::channel_multiply(s[0], s[3]), gil::channel_multiply(s[1], s[3]), gil::channel_multiply(s[2], s[3]));
    DC e;
    gil::color_convert(pm, e);
    if (!(d == e)) c.vl->hit("from-rgba.premultiply." + c.pair, [&] { return vh::cat(c.pair, " ", show(s), " -> ", show(d), " but the premultiplied rgb ", show(pm), " -> ", show(e)); });
}
template <class SC, class DC> void relation(sp_rgba, sp_gray, const SC& s, const DC& d, ctx& c) { from_rgba(sp_gray(), s, d, c); }
template <class SC, class DC> void relation(sp_rgba, sp_rgb, const SC& s, const DC& d, ctx& c) { from_rgba(sp_rgb(), s, d, c); }
template <class SC, class DC> void relation(sp_rgba, sp_cmyk, const SC& s, const DC& d, ctx& c) {
    from_rgba(sp_cmyk(), s, d, c);
    typedef typename gil::channel_type<SC>::type S;
    typedef typename gil::channel_type<DC>::type D;
    bool opaque = s[3] == ch<S>::hi();
    bool black = s[0] == ch<S>::lo() && s[1] == ch<S>::lo() && s[2] == ch<S>::lo();
    bool white = s[0] == ch<S>::hi() && s[1] == ch<S>::hi() && s[2] == ch<S>::hi();
    if (opaque && black && !(d[0] == ch<D>::lo() && d[1] == ch<D>::lo() && d[2] == ch<D>::lo() && d[3] == ch<D>::hi())) c.vl->hit("neutral." + c.pair + ".black", [&] { return vh::cat("opaque black -> cmyk ", show(d)); });
    if (opaque && white && !(d[0] == ch<D>::lo() && d[1] == ch<D>::lo() && d[2] == ch<D>::lo() && d[3] == ch<D>::lo())) c.vl->hit("neutral." + c.pair + ".white", [&] { return vh::cat("opaque white -> cmyk ", show(d)); });
}

// ---- views ---------------------------------------------------------------------------------------------
template <class D, class SrcView> void view_agreement(const SrcView& sv, const char* kind, ctx& c, uint64_t& n) {
    auto cv = gil::color_converted_view<D>(sv);
    gil::image<D, false> out(sv.dimensions());
    gil::copy_and_convert_pixels(sv, gil::view(out));
    bool bad_ccv = false, bad_copy = false, bad_it = false;
    auto it = cv.begin();
    for (std::ptrdiff_t y = 0; y < sv.height(); ++y)
        for (std::ptrdiff_t x = 0; x < sv.width(); ++x, ++it) {
            D e;
            gil::color_convert(sv(x, y), e);
            D a = cv(x, y);
            D b = gil::view(out)(x, y);
            D i = *it;
            ++n;
            if (!(a == e) && !bad_ccv) { bad_ccv = true; c.vl->hit(vh::cat("view.color_converted_view.", kind, ".", c.pair), [&] { return vh::cat(c.pair, " ", kind, " source (", x, ",", y, "): view gives ", show(a), " color_convert gives ", show(e)); }); }
            if (!(i == e) && !bad_it) { bad_it = true; c.vl->hit(vh::cat("view.color_converted_view-iterator.", kind, ".", c.pair), [&] { return vh::cat(c.pair, " ", kind, " source (", x, ",", y, "): iterator gives ", show(i), " color_convert gives ", show(e)); }); }
            if (!(b == e) && !bad_copy) { bad_copy = true; c.vl->hit(vh::cat("view.copy_and_convert_pixels.", kind, ".", c.pair), [&] { return vh::cat(c.pair, " ", kind, " source (", x, ",", y, "): copy gives ", show(b), " color_convert gives ", show(e)); }); }
        }
}
template <class D, class SrcView> void view_to_planar(const SrcView& sv, const char* kind, ctx& c, std::true_type) {
    gil::image<D, true> out(sv.dimensions());
    gil::copy_and_convert_pixels(sv, gil::view(out));
    for (std::ptrdiff_t y = 0; y < sv.height(); ++y)
        for (std::ptrdiff_t x = 0; x < sv.width(); ++x) {
            D e;
            gil::color_convert(sv(x, y), e);
            D b = gil::view(out)(x, y);
            if (!(b == e)) { c.vl->hit(vh::cat("view.copy_and_convert_pixels-to-planar.", kind, ".", c.pair), [&] { return vh::cat(c.pair, " ", kind, " source (", x, ",", y, "): copy gives ", show(b), " color_convert gives ", show(e)); }); return; }
        }
}
template <class D, class SrcView> void view_to_planar(const SrcView&, const char*, ctx&, std::false_type) {}

template <class S, class D> void views_planar_src(const std::vector<S>& px_, int w, int h, ctx& c, uint64_t& n, std::true_type) {
    gil::image<S, true> img(w, h);
    for (int y = 0; y < h; ++y) for (int x = 0; x < w; ++x) gil::view(img)(x, y) = px_[(size_t)(y * w + x) % px_.size()];
    view_agreement<D>(gil::const_view(img), "planar", c, n);
}
template <class S, class D> void views_planar_src(const std::vector<S>&, int, int, ctx&, uint64_t&, std::false_type) {}

// every selected pair: interleaved source, color_converted_view(x,y) and copy_and_convert_pixels.  Every fourth of
// them also: the view's iterator, stepped and planar sources, and a planar destination.
template <class D, class SrcView> void view_basic(const SrcView& sv, const char* kind, ctx& c, uint64_t& n) {
    auto cv = gil::color_converted_view<D>(sv);
    gil::image<D, false> out(sv.dimensions());
    gil::copy_and_convert_pixels(sv, gil::view(out));
    bool bad_ccv = false, bad_copy = false;
    for (std::ptrdiff_t y = 0; y < sv.height(); ++y)
        for (std::ptrdiff_t x = 0; x < sv.width(); ++x) {
            D e;
            gil::color_convert(sv(x, y), e);
            D a = cv(x, y);
            D b = gil::view(out)(x, y);
            ++n;
            if (!(a == e) && !bad_ccv) { bad_ccv = true; c.vl->hit(vh::cat("view.color_converted_view.", kind, ".", c.pair), [&] { return vh::cat(c.pair, " ", kind, " source (", x, ",", y, "): view gives ", show(a), " color_convert gives ", show(e)); }); }
            if (!(b == e) && !bad_copy) { bad_copy = true; c.vl->hit(vh::cat("view.copy_and_convert_pixels.", kind, ".", c.pair), [&] { return vh::cat(c.pair, " ", kind, " source (", x, ",", y, "): copy gives ", show(b), " color_convert gives ", show(e)); }); }
        }
}
template <class S, class D> void views(const std::vector<S>& px_, ctx& c, uint64_t& n) {
    const int w = 9, h = 5;
    gil::image<S, false> img(w, h);
    for (int y = 0; y < h; ++y) for (int x = 0; x < w; ++x) gil::view(img)(x, y) = px_[(size_t)(y * w + x) % px_.size()];
    view_agreement<D>(gil::const_view(img), "interleaved", c, n);
    view_agreement<D>(gil::subsampled_view(gil::const_view(img), 2, 2), "stepped", c, n);
    view_to_planar<D>(gil::const_view(img), "interleaved", c, std::integral_constant<bool, (pt<D>::N > 1)>());
    views_planar_src<S, D>(px_, w, h, c, n, std::integral_constant<bool, (pt<S>::N > 1)>());
}
template <class S, class D> void views_sel(const std::vector<S>& px_, ctx& c, uint64_t& n, std::true_type) { views<S, D>(px_, c, n); }
template <class S, class D> void views_sel(const std::vector<S>& px_, ctx& c, uint64_t& n, std::false_type) {
    const int w = 9, h = 5;
    gil::image<S, false> img(w, h);
    for (int y = 0; y < h; ++y) for (int x = 0; x < w; ++x) gil::view(img)(x, y) = px_[(size_t)(y * w + x) % px_.size()];
    view_basic<D>(gil::const_view(img), "interleaved", c, n);
}

// ---- one ordered pair -------------------------------------------------------------------------------------
template <class S, class D> void run_pair() {
    const std::string pair = vh::cat(nm<S>::name(), "->", nm<D>::name());
    if (!vh::begin_case(vh::cat("pair.", space_of<typename pt<S>::cs>::name(), "->", space_of<typename pt<D>::cs>::name()), pair)) return;
    typedef typename pt<S>::canonical SC;
    typedef typename pt<D>::canonical DC;
    typedef typename pt<S>::channel SCh;
    typedef typename pt<D>::channel DCh;
    vh::rng r = vh::case_rng();
    vlog vl;
    ctx c{&vl, &r, pair, ""};
    std::vector<std::vector<SCh>> raw;
    add_common<SCh>(raw, pt<S>::N, r, vh::thorough() ? 20000 : 1500);
    std::set<std::string> seen;
    uint64_t n = 0;
    for (auto& v : raw) {
        SC sc;
        for (int i = 0; i < pt<S>::N; ++i) sc[i] = v[i];
        if (!seen.insert(std::string((const char*)&sc, sizeof sc)).second) continue;
        S s;
        sem_copy<pt<S>::N>::run(sc, s);
        D d;
        gil::color_convert(s, d);
        ++n;
        // range
        for (int i = 0; i < pt<D>::N; ++i)
            if (!ch<DCh>::in_range(d[i])) { vl.hit("range." + pair, [&] { return vh::cat(pair, " ", show(s), " -> ", show(d), " channel ", i, " outside [0,1]"); }); break; }
        // layout independence
        DC dc;
        gil::color_convert(sc, dc);
        if (!sem_copy<pt<D>::N>::eq(dc, d))
            vl.hit("layout." + pair, [&] { return vh::cat(pair, " source (semantic order) ", show(sc), " -> (memory order) ", show(d), " but canonical layouts give ", show(dc)); });
        // what the property states for this pair of colour spaces
        relation(typename pt<S>::space(), typename pt<D>::space(), sc, dc, c);
    }
    vh::evals(n); vh::distinct(n);
    vh::obs(vh::cat("pair.", space_of<typename pt<S>::cs>::name(), "->", space_of<typename pt<D>::cs>::name()));
    vh::sample(vh::cat(pair, ": ", n, " distinct source pixels (3^n ends/mid, neutral ramps, axes, seeded): range, layout independence, the relation stated for the two colour spaces"));
}

// color_converted_view / copy_and_convert_pixels against color_convert, for one ordered pair.
// The property quantifies over every ordered pair of colour spaces and layouts: all 8 x 8 pairs of
// {gray, rgb, bgr, rgba, bgra, argb, abgr, cmyk} are taken, each with three of the nine depth combinations in a
// Latin pattern (destination depth = (source depth + source group + destination group) mod 3), i.e. 192 of the
// 576 type pairs -- copy_and_convert_pixels costs about a second of compile time per pair.
template <class S, class D> struct view_sel {
    static const int sg = nm<S>::index / 3, sd = nm<S>::index % 3, dg = nm<D>::index / 3, dd = nm<D>::index % 3;
    static const bool selected = ((sd + sg + dg) % 3 == dd);
    static const bool extended = ((sg * 8 + dg + sd) % 4 == 0);
};
template <class S, class D> void run_view_pair(std::false_type) {}
template <class S, class D> void run_view_pair(std::true_type) {
    const std::string pair = vh::cat(nm<S>::name(), "->", nm<D>::name());
    typedef std::integral_constant<bool, view_sel<S, D>::extended> extended;
    if (!vh::begin_case(extended::value ? "view.extended" : "view.basic", pair)) return;
    typedef typename pt<S>::channel SCh;
    vh::rng r = vh::case_rng();
    vlog vl;
    ctx c{&vl, &r, pair, ""};
    std::vector<std::vector<SCh>> raw;
    add_common<SCh>(raw, pt<S>::N, r, 45);
    std::vector<S> pxs;
    // the seeded pixels first, then the structured ones
    for (size_t i = raw.size(); i-- > 0 && pxs.size() < 45;) { S s; for (int k = 0; k < pt<S>::N; ++k) s[k] = raw[i][k]; pxs.push_back(s); }
    uint64_t nv = 0;
    views_sel<S, D>(pxs, c, nv, extended());
    vh::evals(nv);
    vh::distinct_hash(vh::mix(vh::hash_str(pair), vh::hash_bytes(&pxs[0], sizeof(S) * pxs.size())));
    vh::obs(extended::value ? "view.extended" : "view.basic");
    vh::obs(vh::cat("view.", space_of<typename pt<S>::cs>::name(), "->", space_of<typename pt<D>::cs>::name()));
    vh::sample(vh::cat(pair, ": a 9x5 seeded image; color_converted_view(x,y) and copy_and_convert_pixels against color_convert for every pixel",
                       extended::value ? " on interleaved, stepped and planar sources, through the view's iterator, and into a planar destination" : ""));
}
template <class S, class D> void run_view_pair() { run_view_pair<S, D>(std::integral_constant<bool, view_sel<S, D>::selected>()); }

template <class... T> struct TL {};
#if C09_PART <= 8
template <class S, class... D> void run_row(TL<D...>, std::true_type) { using sw = int[]; (void)sw{0, (run_pair<S, D>(), 0)...}; }
static const int row_lo = 3 * (C09_PART - 1), row_hi = 3 * C09_PART;          // parts 1..8: three source types each
#else
template <class S, class... D> void run_row(TL<D...>, std::true_type) { using sw = int[]; (void)sw{0, (run_view_pair<S, D>(), 0)...}; }
static const int row_lo = 3 * (C09_PART - 11), row_hi = 3 * (C09_PART - 10);  // parts 11..18: three source types each
#endif
template <class S, class L> void run_row(L, std::false_type) {}
template <class... S, class L> void run_rows(TL<S...>, L l) {
    using sw = int[];
    (void)sw{0, (run_row<S>(l, std::integral_constant<bool, (nm<S>::index >= row_lo && nm<S>::index < row_hi)>()), 0)...};
}

int main(int argc, char** argv) {
    vh::init(argc, argv);
    using namespace gil;
    typedef TL<gray8_pixel_t, gray16_pixel_t, gray32f_pixel_t,
               rgb8_pixel_t, rgb16_pixel_t, rgb32f_pixel_t, bgr8_pixel_t, bgr16_pixel_t, bgr32f_pixel_t,
               rgba8_pixel_t, rgba16_pixel_t, rgba32f_pixel_t, bgra8_pixel_t, bgra16_pixel_t, bgra32f_pixel_t,
               argb8_pixel_t, argb16_pixel_t, argb32f_pixel_t, abgr8_pixel_t, abgr16_pixel_t, abgr32f_pixel_t,
               cmyk8_pixel_t, cmyk16_pixel_t, cmyk32f_pixel_t> all;
    run_rows(all(), all());
    return vh::finish();
}
#endif
