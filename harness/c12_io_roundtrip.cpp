// C12 -- write_view followed by read_image reproduces the view for every lossless format
// (BMP, binary PNM, TARGA, PNG, TIFF strip/tiled x compression), for every supported pixel type,
// every view organisation and every sink (std::ostream, FILE*, file name).  JPEG: dimensions
// kept, bounded error at quality 100, constant images within one level.
// One TU per format group (-DC12_PART=k).  A case = (format, pixel type, view organisation, sink,
// [tiff layout, compression]); inside a case every (w,h) of the tier's grid is written and read
// back.  See DESIGN.md section 5, C12.
//
//   PART 0 bmp   1 pnm   2 targa   3 png 8-bit   4 png 16-bit   5 png+pnm sub-byte
//        6 tiff gray8/rgb8   7 tiff rgba8/gray16   8 tiff 32-bit int/float   9 tiff rgb32/cmyk8/bgr8
//        10 tiff sub-byte   11 jpeg   12 tiff rgb16/rgba16
#ifndef C12_PART
#error "compile with -DC12_PART=<k>"
#endif
#include <boost/gil.hpp>
#if C12_PART == 0
#include <boost/gil/extension/io/bmp.hpp>
#elif C12_PART == 1
#include <boost/gil/extension/io/pnm.hpp>
#elif C12_PART == 2
#include <boost/gil/extension/io/targa.hpp>
#elif C12_PART == 3 || C12_PART == 4
#include <boost/gil/extension/io/png.hpp>
#elif C12_PART == 5
#include <boost/gil/extension/io/png.hpp>
#include <boost/gil/extension/io/pnm.hpp>
#elif (C12_PART >= 6 && C12_PART <= 10) || C12_PART == 12
#include <boost/gil/extension/io/tiff.hpp>
#define C12_TIFF 1
#elif C12_PART == 11
#include <boost/gil/extension/io/jpeg.hpp>
#endif
#include <algorithm>
#include <fstream>
#include <cmath>
#include "c12_io_common.hpp"

namespace gil = boost::gil;
using cio::membuf;

enum { S_STREAM = 0, S_FILE = 1, S_NAME = 2 };
static const char* sink_name(int s) { return s == S_STREAM ? "ostream" : s == S_FILE ? "FILEptr" : "filename"; }

// ---- one write + read through a given sink kind -------------------------------------------
// returns "" or the text of the exception; phase tells which side threw
template <class Tag> struct use_file_ptr { static const bool value = true; };
#ifdef C12_TIFF
// TIFF has no FILE* device (libtiff owns the descriptor); the sinks are std::ostream and file name
template <> struct use_file_ptr<gil::tiff_tag> { static const bool value = false; };
#endif

template <class View, class Info, class Img, class Tag>
static void round_trip_fileptr(View const& v, Info const& info, Img& out, Tag tag, std::string& phase, size_t& nbytes, std::true_type) {
    std::shared_ptr<membuf> m(new membuf);
    FILE* f = cio::open_mem_write(m.get());
    gil::write_view(f, v, info);              // GIL owns and closes f
    if (!m->closed) vh::viol("sink-not-flushed", "FILE* not closed by write_view: bytes may be incomplete");
    nbytes = m->data.size();
    phase = "read";
    std::shared_ptr<membuf> r(new membuf);
    r->data = m->data;
    FILE* g = cio::open_mem_read(r.get());
    gil::read_image(g, out, tag);
}
template <class View, class Info, class Img, class Tag>
static void round_trip_fileptr(View const&, Info const&, Img&, Tag, std::string&, size_t&, std::false_type) {}

template <class View, class Info, class Img, class Tag>
static std::string round_trip(View const& v, Info const& info, Img& out, Tag tag, int sink, const char* ext,
                              std::string& phase, size_t& nbytes) {
    phase = "write";
    try {
        if (sink == S_STREAM) {
            std::stringstream ss(std::ios::in | std::ios::out | std::ios::binary);
            gil::write_view(ss, v, info);
            nbytes = ss.str().size();
            phase = "read";
            // read back alternately from the very stream that was written and from a stream that delivers the
            // same bytes in pieces of 1, 2, 7, 64 or 4096 (get area refilled k bytes at a time)
            static unsigned alt = 0; ++alt;
            if (alt % 2 == 0) { ss.seekg(0); gil::read_image(ss, out, tag); }
            else { std::string bytes = ss.str(); cio::stream_src src; std::istream& in = src.open((int)((alt / 2) % 5), bytes, 0); gil::read_image(in, out, tag); }
        } else if (sink == S_FILE) {
            round_trip_fileptr(v, info, out, tag, phase, nbytes, std::integral_constant<bool, use_file_ptr<Tag>::value>());
        } else {
            cio::scratch_file sf("c12", ext);
            gil::write_view(sf.path, v, info);
            struct stat sb;
            nbytes = stat(sf.path.c_str(), &sb) == 0 ? (size_t)sb.st_size : 0;
            phase = "read";
            static unsigned altn = 0; ++altn;
            if (altn % 2 == 0) gil::read_image(sf.path, out, tag);
            else { std::ifstream in(sf.path.c_str(), std::ios::in | std::ios::binary); std::istream& is = in; gil::read_image(is, out, tag); }
        }
    } catch (std::exception const& e) {
        return std::string(e.what()).empty() ? "(empty what)" : e.what();
    }
    return "";
}
// ---- grid of dimensions ---------------------------------------------------------------------
static std::vector<int> grid_values(bool full) {
    std::vector<int> g;
    if (vh::thorough()) { for (int i = 1; i <= 40; ++i) g.push_back(i); return g; }
    if (full) { for (int i = 1; i <= 9; ++i) g.push_back(i); int e[] = { 15, 16, 17, 31, 32, 33 }; g.insert(g.end(), e, e + 6); }
    else { int e[] = { 1, 2, 3, 4, 5, 7, 8, 9, 16, 17, 33 }; g.insert(g.end(), e, e + 11); }
    return g;
}

// ---- view organisations ------------------------------------------------------------------------
enum Org { O_IMG, O_ALIGNED, O_RAWPAD, O_SUB, O_CONST, O_ROT180, O_SUBSAMPLED, O_FLIPUD, O_ROT90,
           O_PLANAR, O_PLANAR_STEP, O_COUNT };
static const char* org_name(int o) {
    static const char* n[] = { "img", "aligned-rows", "raw-padded", "subview", "const-view", "rot180", "subsampled",
                               "flipud", "rot90", "planar", "planar-stepped" };
    return n[o];
}

// The checker: knows format, image type to read into, info; is called with the view to write and
// the reference image holding what the view shows (same pixel type as read back)
template <class Tag, class P, class Info>
struct checker {
    typedef gil::image<P, false> ref_image_t;
    std::string cls;       // key class: fmt.type.org.sink[.cfg]
    Info info;
    int sink;
    const char* ext;
    long done = 0;
    template <class View>
    void operator()(View const& v, int w, int h) {
        // the oracle's copy of what the view shows, taken pixel by pixel before the write
        ref_image_t ref(w, h);
        for (int y = 0; y < h; ++y) for (int x = 0; x < w; ++x) gil::view(ref)(x, y) = v(x, y);
        uint64_t hbefore = cio::hash_view(v);
        ref_image_t out;
        std::string phase; size_t nbytes = 0;
        std::string err = round_trip(v, info, out, Tag(), sink, ext, phase, nbytes);
        vh::evals(1);
        ++done;
        if (!err.empty()) {
            vh::viol("exception-" + phase + "." + cls, vh::cat("w=", w, " h=", h, ": ", err));
            return;
        }
        if (cio::hash_view(v) != hbefore) vh::viol("source-modified." + cls, vh::cat("w=", w, " h=", h));
        cio::diff_t d = cio::compare_views(gil::const_view(ref), gil::const_view(out));
        if (d.dims_differ) vh::viol("dims." + cls, vh::cat("wrote ", w, "x", h, ", read back ", d.bw, "x", d.bh, " (", nbytes, " bytes)"));
        else if (d.n) vh::viol("pixels." + cls, vh::cat("w=", w, " h=", h, " (", nbytes, " bytes): ", d.str()));
        if (done == 1) vh::sample(vh::cat(cls, " ", w, "x", h, " -> ", nbytes, " bytes -> identical=", d.any() ? "no" : "yes"));
    }
};

// builds organisation `org` of a w x h view of pixel type P with seeded contents and hands it to chk
template <class P, class Chk>
static void with_org(int org, int w, int h, vh::rng& r, Chk& chk) {
    typedef gil::image<P, false> img_t;
    typedef typename img_t::view_t view_t;
    int mode = (int)r.below(8); if (mode > 3) mode = 0;       // mostly noise, sometimes structured
    uint64_t seed = r.next();
    switch (org) {
    case O_IMG: { img_t im(w, h); cio::fill_view(gil::view(im), seed, mode); chk(gil::view(im), w, h); break; }
    case O_ALIGNED: { img_t im(w, h, 16); cio::fill_view(gil::view(im), seed, mode); chk(gil::view(im), w, h); break; }
    case O_RAWPAD: {
        typedef typename gil::channel_type<P>::type ch_t;
        size_t pad = sizeof(ch_t) * (1 + r.below(5));
        size_t rowbytes = (size_t)w * sizeof(P) + pad;
        // storage of channel type so that alignment is right; guard bytes are ASan's redzones
        std::vector<ch_t> store((rowbytes * h) / sizeof(ch_t) + 1, ch_t());
        view_t v = gil::interleaved_view(w, h, reinterpret_cast<P*>(&store[0]), rowbytes);
        cio::fill_view(v, seed, mode);
        chk(v, w, h);
        break;
    }
    case O_SUB: {
        int ox = 1 + (int)r.below(3), oy = 1 + (int)r.below(3);
        img_t im(w + ox + 2, h + oy + 1); cio::fill_view(gil::view(im), seed, mode);
        chk(gil::subimage_view(gil::view(im), ox, oy, w, h), w, h);
        break;
    }
    case O_CONST: { img_t im(w, h); cio::fill_view(gil::view(im), seed, mode); chk(gil::const_view(im), w, h); break; }
    case O_ROT180: { img_t im(w, h); cio::fill_view(gil::view(im), seed, mode); chk(gil::rotated180_view(gil::view(im)), w, h); break; }
    case O_SUBSAMPLED: {
        int sx = 2 + (int)r.below(2), sy = 1 + (int)r.below(3);
        img_t im((w - 1) * sx + 1 + (int)r.below(sx), (h - 1) * sy + 1 + (int)r.below(sy));
        cio::fill_view(gil::view(im), seed, mode);
        auto sv = gil::subsampled_view(gil::view(im), sx, sy);
        if (sv.width() != w || sv.height() != h) vh::fatal_monitor("harness", "subsampled dims");
        chk(sv, w, h);
        break;
    }
    case O_FLIPUD: {
        img_t im(w, h); cio::fill_view(gil::view(im), seed, mode);
        chk(gil::subsampled_view(gil::flipped_up_down_view(gil::view(im)), 1, 1), w, h);   // same static type as rot180
        break;
    }
    case O_ROT90: {
        img_t im(h, w); cio::fill_view(gil::view(im), seed, mode);
        chk(gil::rotated90cw_view(gil::view(im)), w, h);
        break;
    }
    default: break;
    }
}
template <class P, class Chk>
static void with_planar_org(int, int, int, vh::rng&, Chk&, std::false_type) {}
template <class P, class Chk>
static void with_planar_org(int org, int w, int h, vh::rng& r, Chk& chk, std::true_type) {
    typedef gil::image<P, true> img_t;
    int mode = (int)r.below(8); if (mode > 3) mode = 0;
    uint64_t seed = r.next();
    if (org == O_PLANAR) { img_t im(w, h); cio::fill_view(gil::view(im), seed, mode); chk(gil::view(im), w, h); }
    else {
        int sx = 1 + (int)r.below(2), sy = 1 + (int)r.below(2), ox = (int)r.below(3), oy = (int)r.below(2);
        img_t im((w - 1) * sx + 1 + ox, (h - 1) * sy + 1 + oy);
        cio::fill_view(gil::view(im), seed, mode);
        auto sub = gil::subimage_view(gil::view(im), ox, oy, (w - 1) * sx + 1, (h - 1) * sy + 1);
        auto sv = gil::subsampled_view(gil::flipped_up_down_view(sub), sx, sy);
        if (sv.width() != w || sv.height() != h) vh::fatal_monitor("harness", "planar subsampled dims");
        chk(sv, w, h);
    }
}

// ---- enumeration of one (format, pixel type) ------------------------------------------------
struct opts_t {
    const char* fmt; const char* type; const char* ext;
    const char* cfg = "";          // tiff: layout+compression
    bool planar = false;           // multi-channel, non bit-aligned: planar organisations too
    unsigned org_mask = ~0u;
    const char* cls_prefix = "rt"; // case class prefix ("rt" or "rt-subbyte")
    bool all_sinks_full = false;
    int bits = 8;                  // bits per pixel of a sub-byte type
};

template <class Tag, class P, class Info>
static void sweep(opts_t const& o, Info const& info) {
    for (int org = 0; org < O_COUNT; ++org) {
        if (!(o.org_mask & (1u << org))) continue;
        bool planar_org = org == O_PLANAR || org == O_PLANAR_STEP;
        if (planar_org && !o.planar) continue;
        for (int sink = 0; sink < 3; ++sink) {
            if (sink == S_FILE && !use_file_ptr<Tag>::value) continue;
            std::string cfg = o.cfg;
            std::string cls = vh::cat(o.fmt, ".", o.type, ".", org_name(org), ".", sink_name(sink), cfg.empty() ? "" : ".", cfg);
            if (!vh::begin_case(vh::cat(o.cls_prefix, ".", o.fmt), cls)) continue;
            vh::rng r = vh::case_rng();
            checker<Tag, P, Info> chk; chk.cls = cls; chk.info = info; chk.sink = sink; chk.ext = o.ext;
            // the full grid on the stream sink and the plain organisations; the reduced grid otherwise (quick)
            bool full = sink == S_STREAM || o.all_sinks_full;
            std::vector<int> g = grid_values(full);
            long n = 0;
            for (int h : g) for (int w : g) {
                if (planar_org) with_planar_org<P>(org, w, h, r, chk, std::integral_constant<bool, (gil::num_channels<P>::value > 1)>());
                else with_org<P>(org, w, h, r, chk);
                ++n;
            }
            vh::distinct(n);
            vh::obs(vh::cat("sink.", sink_name(sink)));
            vh::obs(vh::cat("org.", org_name(org)));
        }
    }
}

// sub-byte (bit-aligned) images.  ORGS is a compile-time mask: organisations a writer rejects at
// compile time are probed separately (harness/c12_probe.cpp) and reported as uninstantiable.
enum { B_IMG = 1, B_SUB = 2, B_CONST = 4, B_ROT180 = 8, B_SUBSAMPLED = 16 };
template <class Tag, class Img, class Info>
struct bits_case {
    typedef typename Img::view_t::value_type P;
    std::string cls; Info info; int sink; const char* ext;
    int w, h; long n = 0;
    template <class V> void run(V const& v) {
        Img out;
        std::string phase, err; size_t nbytes = 0;
        std::vector<uint64_t> want((size_t)w * h);
        for (int y = 0; y < h; ++y) for (int x = 0; x < w; ++x) { uint64_t a[8]; P p = v(x, y); cio::pixel_bits(p, a); want[(size_t)y * w + x] = a[0]; }
        err = round_trip(v, info, out, Tag(), sink, ext, phase, nbytes);
        vh::evals(1);
        ++n;
        if (!err.empty()) { vh::viol("exception-" + phase + "." + cls, vh::cat("w=", w, " h=", h, ": ", err)); return; }
        if (out.width() != w || out.height() != h) { vh::viol("dims." + cls, vh::cat("wrote ", w, "x", h, ", read back ", out.width(), "x", out.height())); return; }
        long bad = 0, fx = -1, fy = -1; uint64_t e0 = 0, g0 = 0;
        for (int y = 0; y < h; ++y) for (int x = 0; x < w; ++x) {
            uint64_t a[8]; P p = gil::const_view(out)(x, y); cio::pixel_bits(p, a);
            if (a[0] != want[(size_t)y * w + x]) { if (!bad) { fx = x; fy = y; e0 = want[(size_t)y * w + x]; g0 = a[0]; } ++bad; }
        }
        if (bad) vh::viol("pixels." + cls, vh::cat("w=", w, " h=", h, " (", nbytes, " bytes): ", bad, " pixels differ; first at (", fx, ",", fy, ") expected ", e0, " got ", g0));
        if (n == 1) vh::sample(vh::cat(cls, " ", w, "x", h, " -> ", nbytes, " bytes -> identical=", bad ? "no" : "yes"));
    }
    void org(std::integral_constant<int, B_IMG>, vh::rng& r, uint64_t seed, int mode) {
        Img im(w, h); cio::fill_view(gil::view(im), seed, mode); run(gil::view(im)); }
    void org(std::integral_constant<int, B_SUB>, vh::rng& r, uint64_t seed, int mode) {
        int ox = 1 + (int)r.below(9), oy = 1 + (int)r.below(2);
        Img im(w + ox + 3, h + oy + 1); cio::fill_view(gil::view(im), seed, mode);
        run(gil::subimage_view(gil::view(im), ox, oy, w, h)); }
    void org(std::integral_constant<int, B_CONST>, vh::rng& r, uint64_t seed, int mode) {
        Img im(w, h); cio::fill_view(gil::view(im), seed, mode); run(gil::const_view(im)); }
    void org(std::integral_constant<int, B_ROT180>, vh::rng& r, uint64_t seed, int mode) {
        Img im(w, h); cio::fill_view(gil::view(im), seed, mode); run(gil::rotated180_view(gil::view(im))); }
    void org(std::integral_constant<int, B_SUBSAMPLED>, vh::rng& r, uint64_t seed, int mode) {
        int sx = 2 + (int)r.below(2), sy = 1 + (int)r.below(2);
        Img im((w - 1) * sx + 1, (h - 1) * sy + 1); cio::fill_view(gil::view(im), seed, mode);
        run(gil::subsampled_view(gil::view(im), sx, sy)); }
};
static const char* bits_org_name(int b) { return b == B_IMG ? "img" : b == B_SUB ? "subview" : b == B_CONST ? "const-view" : b == B_ROT180 ? "rot180" : "subsampled"; }
template <class Tag, class Img, class Info, int ORG>
static void sweep_bits_org(opts_t const& o, Info const& info, std::true_type) {
    // width classes are separate cases (and part of the case class): rows that fill whole bytes, rows
    // shorter than one byte, rows with a partial last byte -- a fatal report in one class must not
    // hide the others
    const int bits = o.bits;
    const char* wcls[] = { "rows-whole-bytes", "rows-under-one-byte", "rows-partial-last-byte" };
    for (int wc = 0; wc < 3; ++wc)
    for (int sink = 0; sink < 3; ++sink) {
        if (sink == S_FILE && !use_file_ptr<Tag>::value) continue;
        std::string cfg = o.cfg;
        std::string cls = vh::cat(o.fmt, ".", o.type, ".", bits_org_name(ORG), ".", sink_name(sink), cfg.empty() ? "" : ".", cfg);
        if (!vh::begin_case(vh::cat("rt-subbyte.", o.fmt, ".", wcls[wc]), cls)) continue;
        vh::rng r = vh::case_rng();
        std::vector<int> g = grid_values(true);
        if (!vh::thorough()) { g.push_back(24); g.push_back(40); }
        bits_case<Tag, Img, Info> bc; bc.cls = cls + "." + wcls[wc]; bc.info = info; bc.sink = sink; bc.ext = o.ext;
        for (int h : g) for (int w : g) {
            int rowbits = w * bits;
            int c = rowbits % 8 == 0 ? 0 : rowbits < 8 ? 1 : 2;
            if (c != wc) continue;
            int mode = (int)r.below(8); if (mode > 3) mode = 0;
            uint64_t seed = r.next();
            bc.w = w; bc.h = h;
            bc.org(std::integral_constant<int, ORG>(), r, seed, mode);
        }
        vh::distinct(bc.n);
        vh::obs(vh::cat("sink.", sink_name(sink)));
        vh::obs(vh::cat("org.bits.", bits_org_name(ORG)));
    }
}
template <class Tag, class Img, class Info, int ORG>
static void sweep_bits_org(opts_t const&, Info const&, std::false_type) {}
template <class Tag, class Img, int ORGS, class Info>
static void sweep_bits(opts_t const& o, Info const& info) {
    sweep_bits_org<Tag, Img, Info, B_IMG>(o, info, std::integral_constant<bool, (ORGS & B_IMG) != 0>());
    sweep_bits_org<Tag, Img, Info, B_SUB>(o, info, std::integral_constant<bool, (ORGS & B_SUB) != 0>());
    sweep_bits_org<Tag, Img, Info, B_CONST>(o, info, std::integral_constant<bool, (ORGS & B_CONST) != 0>());
    sweep_bits_org<Tag, Img, Info, B_ROT180>(o, info, std::integral_constant<bool, (ORGS & B_ROT180) != 0>());
    sweep_bits_org<Tag, Img, Info, B_SUBSAMPLED>(o, info, std::integral_constant<bool, (ORGS & B_SUBSAMPLED) != 0>());
}

// ---- destination-state independence -------------------------------------------------------------
// One destination object is reused for a whole sequence of files (descending, ascending, equal and mixed
// sizes, different contents): after every read it must have exactly the file's dimensions and pixels,
// whatever it held before.  APIs: read_image (all devices), read_and_convert_image into the same type,
// read_image into a reused any_image (which may hold another alternative), read_view into view(img) after
// the image object had other uses.  One case per (format, type, api, order).
enum { RA_READ_IMAGE = 1, RA_CONVERT = 2, RA_ANY = 4, RA_READ_VIEW = 8 };
static const char* reuse_api_name(int a) { return a == RA_READ_IMAGE ? "read_image" : a == RA_CONVERT ? "read_and_convert_image" : a == RA_ANY ? "any_image" : "read_view"; }
struct wh_t { int w, h; };
static std::vector<wh_t> reuse_sizes(int order, vh::rng& r) {
    std::vector<wh_t> v;
    const wh_t desc[] = { { 19, 11 }, { 17, 11 }, { 17, 6 }, { 9, 9 }, { 8, 3 }, { 3, 3 }, { 2, 1 }, { 1, 1 } };
    int extra = vh::thorough() ? 40 : 8;
    switch (order) {
    case 0: v.assign(desc, desc + 8); break;                                              // shrinking
    case 1: for (int i = 7; i >= 0; --i) v.push_back(desc[i]); break;                     // growing
    case 2: for (int i = 0; i < 4; ++i) v.push_back({ 7, 5 }); break;                     // equal size, new contents
    default: {                                                                            // one dimension grows while the other shrinks, then seeded
        const wh_t m[] = { { 3, 14 }, { 14, 3 }, { 3, 14 }, { 1, 20 }, { 20, 1 }, { 16, 16 }, { 15, 17 }, { 17, 15 } };
        v.assign(m, m + 8);
        for (int i = 0; i < extra; ++i) v.push_back({ 1 + (int)r.below(24), 1 + (int)r.below(24) });
    } }
    return v;
}
static const char* reuse_order_name(int o) { return o == 0 ? "shrinking" : o == 1 ? "growing" : o == 2 ? "equal" : "mixed"; }

template <class Tag, class P, class Info, class AnyImg>
struct reuse_runner {
    typedef gil::image<P, false> img_t;
    opts_t const& o; Info const& info;
    std::string cls; long n = 0;
    reuse_runner(opts_t const& o_, Info const& i_) : o(o_), info(i_) {}

    void verdict(img_t const& src, img_t const& got, int w, int h, int step, const char* before) {
        ++n; vh::evals(1);
        if (got.width() != w || got.height() != h) {
            vh::viol("reuse-dims." + cls, vh::cat("step ", step, ": file is ", w, "x", h, ", destination (", before, " before the read) is ", got.width(), "x", got.height(), " after it"));
            return;
        }
        cio::diff_t d = cio::compare_views(gil::const_view(src), gil::const_view(got));
        if (d.any()) vh::viol("reuse-pixels." + cls, vh::cat("step ", step, " ", w, "x", h, " (destination was ", before, "): ", d.str()));
    }
    std::string bytes_of(img_t const& src) {
        std::stringstream ss(std::ios::in | std::ios::out | std::ios::binary);
        gil::write_view(ss, gil::const_view(src), info);
        return ss.str();
    }
    struct any_get {
        typedef void result_type;
        img_t const* got = nullptr;
        void operator()(img_t const& g) { got = &g; }
        template <class Other> void operator()(Other const&) { got = nullptr; }
    };
    template <int API> void run_api(int order, std::integral_constant<int, API>) {
        cls = vh::cat(o.fmt, ".", o.type, ".", reuse_api_name(API), ".", reuse_order_name(order));
        if (!vh::begin_case(vh::cat("reuse.", o.fmt), cls)) return;
        vh::rng r = vh::case_rng();
        std::vector<wh_t> sizes = reuse_sizes(order, r);
        img_t dst;                     // the one destination object of this sequence
        AnyImg any;                    // (RA_ANY)
        if (order == 0 || order == 3) { dst = img_t(23, 21); cio::fill_view(gil::view(dst), r.next(), 0); any = dst; }
        n = 0;
        int step = 0;
        for (wh_t const& q : sizes) {
            img_t src(q.w, q.h);
            cio::fill_view(gil::view(src), r.next(), (step % 5 == 4) ? 2 : 0);
            std::string before = vh::cat(dst.width(), "x", dst.height());
            try {
                std::string bytes = bytes_of(src);
                do_read(bytes, dst, any, q, step, before, r, std::integral_constant<int, API>());
            } catch (std::exception const& e) {
                vh::viol("reuse-exception." + cls, vh::cat("step ", step, " ", q.w, "x", q.h, ": ", e.what()));
            }
            ++step;
        }
        vh::distinct(n);
        vh::obs(vh::cat("reuse.", reuse_api_name(API)));
        vh::obs(vh::cat("reuse.order.", reuse_order_name(order)));
        if (order == 0) vh::sample(vh::cat("reuse ", cls, ": ", n, " reads into one destination object"));
    }
    // read_image through the three device kinds in turn
    void do_read(std::string const& bytes, img_t& dst, AnyImg&, wh_t q, int step, std::string const& before, vh::rng&, std::integral_constant<int, RA_READ_IMAGE>) {
        int dev = step % 3;
        if (dev == S_FILE && !use_file_ptr<Tag>::value) dev = S_STREAM;
        if (dev == S_STREAM) { std::stringstream ss(bytes, std::ios::in | std::ios::binary); gil::read_image(ss, dst, Tag()); }
        else if (dev == S_FILE) reuse_fileptr(bytes, dst, std::integral_constant<bool, use_file_ptr<Tag>::value>());
        else { cio::scratch_file sf("c12r", o.ext); if (!cio::spill(sf.path, bytes)) vh::fatal_monitor("harness", "scratch write"); gil::read_image(sf.path, dst, Tag()); }
        img_t src_again; { std::stringstream ss(bytes, std::ios::in | std::ios::binary); gil::read_image(ss, src_again, Tag()); }   // fresh destination: the reference
        verdict(src_again, dst, q.w, q.h, step, before.c_str());
    }
    void reuse_fileptr(std::string const& bytes, img_t& dst, std::true_type) {
        std::shared_ptr<membuf> m(new membuf); m->data = bytes;
        FILE* fp = cio::open_mem_read(m.get());
        gil::read_image(fp, dst, Tag());
    }
    void reuse_fileptr(std::string const&, img_t&, std::false_type) {}
    void do_read(std::string const& bytes, img_t& dst, AnyImg&, wh_t q, int step, std::string const& before, vh::rng&, std::integral_constant<int, RA_CONVERT>) {
        { std::stringstream ss(bytes, std::ios::in | std::ios::binary); gil::read_and_convert_image(ss, dst, Tag()); }
        img_t ref; { std::stringstream ss(bytes, std::ios::in | std::ios::binary); gil::read_and_convert_image(ss, ref, Tag()); }
        verdict(ref, dst, q.w, q.h, step, before.c_str());
    }
    void do_read(std::string const& bytes, img_t&, AnyImg& any, wh_t q, int step, std::string const&, vh::rng&, std::integral_constant<int, RA_ANY>) {
        any_get g0; boost::variant2::visit(std::ref(g0), any);
        std::string before = g0.got ? vh::cat("this alternative, ", g0.got->width(), "x", g0.got->height()) : std::string("another alternative");
        { std::stringstream ss(bytes, std::ios::in | std::ios::binary); gil::read_image(ss, any, Tag()); }
        img_t ref; { std::stringstream ss(bytes, std::ios::in | std::ios::binary); gil::read_image(ss, ref, Tag()); }
        any_get g; boost::variant2::visit(std::ref(g), any);
        if (!g.got) { ++n; vh::evals(1); vh::viol("reuse-alternative." + cls, vh::cat("step ", step, " ", q.w, "x", q.h, ": any_image holds alternative ", (long)any.index(), " after reading a file of this type")); return; }
        verdict(ref, *g.got, q.w, q.h, step, before.c_str());
        if (step % 3 == 2) any = AnyImg();          // next read finds the first alternative, default-constructed
    }
    void do_read(std::string const& bytes, img_t& dst, AnyImg&, wh_t q, int step, std::string const& before, vh::rng& r, std::integral_constant<int, RA_READ_VIEW>) {
        // the image object had another life (other sizes, other contents); the user resizes it and reads into its view
        dst.recreate(q.w, q.h);
        cio::fill_view(gil::view(dst), r.next(), 0);
        { std::stringstream ss(bytes, std::ios::in | std::ios::binary); gil::read_view(ss, gil::view(dst), Tag()); }
        img_t ref; { std::stringstream ss(bytes, std::ios::in | std::ios::binary); gil::read_image(ss, ref, Tag()); }
        verdict(ref, dst, q.w, q.h, step, before.c_str());
        // and the next step reads a whole image into it again (read_image, then read_view, alternating)
        if (step % 2 == 1) { img_t other(q.h + 2, q.w + 1); cio::fill_view(gil::view(other), r.next(), 0);
                             std::string b2 = bytes_of(other); std::stringstream ss(b2, std::ios::in | std::ios::binary); gil::read_image(ss, dst, Tag()); }
    }
    template <int API> void api(std::true_type) { for (int order = 0; order < 4; ++order) run_api(order, std::integral_constant<int, API>()); }
    template <int API> void api(std::false_type) {}
};
// The reference of every step is the same bytes read into a *fresh* destination: what is demanded is
// independence from the destination's previous state (the round trip itself is judged by the sweeps above),
// so formats/types with a known round-trip finding do not raise it a second time here.
// ---- delivery independence ---------------------------------------------------------------------------
// A file of 30-180 KB (well over any stream buffer) and a small one are written once and read back through
// every kind of input stream: get area refilled 1/2/7/64/4096/seeded bytes at a time, std::ifstream on a
// scratch file, std::stringstream filled by write.  Each must give what a one-piece istringstream gives.
template <class Tag, class Img, class Info>
static void delivery_sweep(opts_t const& o, Info const& info, int bigw, int bigh) {
    for (int kind = 0; kind < (int)cio::SK_COUNT; ++kind) {
        std::string cls = vh::cat(o.fmt, ".", o.type, ".", cio::stream_kind_name(kind));
        if (!vh::begin_case(vh::cat("delivery.", o.fmt), cls)) continue;
        vh::rng r = vh::case_rng();
        const int sizes[3][2] = { { bigw, bigh }, { 9, 7 }, { 1 + (int)r.below(60), 1 + (int)r.below(60) } };
        long n = 0;
        for (auto& q : sizes) {
            Img src(q[0], q[1]); cio::fill_view(gil::view(src), r.next(), 0);
            size_t seeded_k = 3 + (size_t)r.below(8190);
            ++n; vh::evals(1);
            try {
                std::string bytes;
                { std::stringstream ws(std::ios::in | std::ios::out | std::ios::binary); gil::write_view(ws, gil::view(src), info); bytes = ws.str(); }
                Img ref, got;
                { cio::stream_src s; std::istream& in = s.open(cio::SK_PLAIN, bytes, 0); gil::read_image(in, ref, Tag()); }
                { cio::stream_src s; std::istream& in = s.open(kind, bytes, seeded_k); gil::read_image(in, got, Tag()); }
                if (got.width() != ref.width() || got.height() != ref.height())
                    vh::viol("delivery-dims." + cls, vh::cat(q[0], "x", q[1], " (", bytes.size(), " bytes): ", got.width(), "x", got.height(), " vs ", ref.width(), "x", ref.height(), " through a one-piece istringstream"));
                else if (cio::hash_view(gil::const_view(got)) != cio::hash_view(gil::const_view(ref))) {
                    long bad = 0, fx = -1, fy = -1;
                    for (long y = 0; y < ref.height(); ++y) for (long x = 0; x < ref.width(); ++x) {
                        uint64_t a[8], b[8]; typename Img::view_t::value_type pa = gil::const_view(ref)(x, y), pb = gil::const_view(got)(x, y);
                        int k = cio::pixel_bits(pa, a); cio::pixel_bits(pb, b);
                        for (int i = 0; i < k; ++i) if (a[i] != b[i]) { if (!bad) { fx = x; fy = y; } ++bad; break; }
                    }
                    vh::viol("delivery-pixels." + cls, vh::cat(q[0], "x", q[1], " (", bytes.size(), " bytes)", kind == cio::SK_FRAGSEEDED ? vh::cat(" k=", seeded_k) : std::string(), ": ", bad,
                                                               " pixels differ from the read through a one-piece istringstream; first at (", fx, ",", fy, ")"));
                }
                if (bytes.size() > 65536) vh::obs("delivery.file-over-64KB");
                else if (bytes.size() > 8192) vh::obs("delivery.file-over-8KB");
            } catch (std::exception const& e) { vh::viol("delivery-exception." + cls, vh::cat(q[0], "x", q[1], ": ", e.what())); }
        }
        vh::distinct(n);
        vh::obs(vh::cat("delivery.", cio::stream_kind_name(kind)));
    }
}
template <class Tag, class P, int APIS, class AnyImg, class Info>
static void reuse_sweep(opts_t const& o, Info const& info) {
    reuse_runner<Tag, P, Info, AnyImg> rr(o, info);
    rr.template api<RA_READ_IMAGE>(std::integral_constant<bool, (APIS & RA_READ_IMAGE) != 0>());
    rr.template api<RA_CONVERT>(std::integral_constant<bool, (APIS & RA_CONVERT) != 0>());
    rr.template api<RA_ANY>(std::integral_constant<bool, (APIS & RA_ANY) != 0>());
    rr.template api<RA_READ_VIEW>(std::integral_constant<bool, (APIS & RA_READ_VIEW) != 0>());
    delivery_sweep<Tag, gil::image<P, false>>(o, info, 200, 150);
}
// bit-aligned images: read_image and read_view into a reused image object
template <class Tag, class Img, class Info>
static void reuse_bits(opts_t const& o, Info const& info) {
    typedef typename Img::view_t::value_type P;
    for (int api = 0; api < 2; ++api)
    for (int order = 0; order < 4; ++order) {
        std::string cls = vh::cat(o.fmt, ".", o.type, ".", api == 0 ? "read_image" : "read_view", ".", reuse_order_name(order));
        if (!vh::begin_case(vh::cat("reuse-subbyte.", o.fmt), cls)) continue;
        vh::rng r = vh::case_rng();
        std::vector<wh_t> sizes = reuse_sizes(order, r);
        Img dst;
        if (order == 0 || order == 3) { dst = Img(23, 21); cio::fill_view(gil::view(dst), r.next(), 0); }
        long n = 0; int step = 0;
        for (wh_t const& q : sizes) {
            Img src(q.w, q.h); cio::fill_view(gil::view(src), r.next(), 0);
            std::string before = vh::cat(dst.width(), "x", dst.height());
            ++n; vh::evals(1);
            try {
                std::stringstream ws(std::ios::in | std::ios::out | std::ios::binary);
                gil::write_view(ws, gil::view(src), info);
                std::string bytes = ws.str();
                if (api == 1) { dst.recreate(q.w, q.h); cio::fill_view(gil::view(dst), r.next(), 0); }
                { std::stringstream ss(bytes, std::ios::in | std::ios::binary);
                  if (api == 0) gil::read_image(ss, dst, Tag()); else gil::read_view(ss, gil::view(dst), Tag()); }
                Img ref; { std::stringstream ss(bytes, std::ios::in | std::ios::binary); gil::read_image(ss, ref, Tag()); }
                if (dst.width() != q.w || dst.height() != q.h) { vh::viol("reuse-dims." + cls, vh::cat("step ", step, ": file is ", q.w, "x", q.h, ", destination (", before, " before) is ", dst.width(), "x", dst.height())); }
                else {
                    long bad = 0;
                    for (int y = 0; y < q.h; ++y) for (int x = 0; x < q.w; ++x) {
                        uint64_t a[8], b[8]; P pa = gil::const_view(ref)(x, y), pb = gil::const_view(dst)(x, y);
                        cio::pixel_bits(pa, a); cio::pixel_bits(pb, b); if (a[0] != b[0]) ++bad;
                    }
                    if (bad) vh::viol("reuse-pixels." + cls, vh::cat("step ", step, " ", q.w, "x", q.h, " (destination was ", before, "): ", bad, " pixels differ from a read into a fresh image"));
                }
            } catch (std::exception const& e) { vh::viol("reuse-exception." + cls, vh::cat("step ", step, " ", q.w, "x", q.h, ": ", e.what())); }
            ++step;
        }
        vh::distinct(n);
        vh::obs("reuse.bits");
    }
    delivery_sweep<Tag, Img>(o, info, 1000, 264);
}

// =================================================================================================
#if C12_PART == 0
static void run_part() {
    gil::image_write_info<gil::bmp_tag> info;
    opts_t o; o.fmt = "bmp"; o.ext = "bmp"; o.planar = true;
    o.type = "rgb8"; sweep<gil::bmp_tag, gil::rgb8_pixel_t>(o, info);
    o.type = "rgba8"; sweep<gil::bmp_tag, gil::rgba8_pixel_t>(o, info);
    // the write-support table is keyed by colour space: other layouts of rgb_t/rgba_t are supported types too
    o.org_mask = (1u << O_IMG) | (1u << O_SUB) | (1u << O_ROT180);
    o.planar = false;
    o.type = "bgr8"; sweep<gil::bmp_tag, gil::bgr8_pixel_t>(o, info);
    o.type = "argb8"; sweep<gil::bmp_tag, gil::argb8_pixel_t>(o, info);
    typedef gil::any_image<gil::rgb8_image_t, gil::rgba8_image_t> any_t;
    o.type = "rgb8"; reuse_sweep<gil::bmp_tag, gil::rgb8_pixel_t, RA_READ_IMAGE | RA_CONVERT | RA_ANY | RA_READ_VIEW, any_t>(o, info);
    o.type = "rgba8"; reuse_sweep<gil::bmp_tag, gil::rgba8_pixel_t, RA_READ_IMAGE | RA_CONVERT | RA_ANY | RA_READ_VIEW, any_t>(o, info);
    o.type = "bgr8"; reuse_sweep<gil::bmp_tag, gil::bgr8_pixel_t, RA_READ_IMAGE | RA_READ_VIEW, gil::any_image<gil::bgr8_image_t>>(o, info);
}
#elif C12_PART == 1
static void run_part() {
    gil::image_write_info<gil::pnm_tag> info;
    opts_t o; o.fmt = "pnm"; o.ext = "pnm";
    o.type = "gray8"; o.planar = false; sweep<gil::pnm_tag, gil::gray8_pixel_t>(o, info);
    o.type = "rgb8"; o.planar = true; sweep<gil::pnm_tag, gil::rgb8_pixel_t>(o, info);
    o.org_mask = (1u << O_IMG) | (1u << O_SUB) | (1u << O_ROT180);
    o.planar = false;
    o.type = "bgr8"; sweep<gil::pnm_tag, gil::bgr8_pixel_t>(o, info);
    typedef gil::any_image<gil::gray8_image_t, gil::rgb8_image_t> any_t;
    o.type = "gray8"; reuse_sweep<gil::pnm_tag, gil::gray8_pixel_t, RA_READ_IMAGE | RA_CONVERT | RA_ANY | RA_READ_VIEW, any_t>(o, info);
    o.type = "rgb8"; reuse_sweep<gil::pnm_tag, gil::rgb8_pixel_t, RA_READ_IMAGE | RA_CONVERT | RA_ANY | RA_READ_VIEW, any_t>(o, info);
}
#elif C12_PART == 2
static void run_part() {
    gil::image_write_info<gil::targa_tag> info;
    opts_t o; o.fmt = "targa"; o.ext = "tga"; o.planar = true;
    o.type = "rgb8"; sweep<gil::targa_tag, gil::rgb8_pixel_t>(o, info);
    o.type = "rgba8"; sweep<gil::targa_tag, gil::rgba8_pixel_t>(o, info);
    o.org_mask = (1u << O_IMG) | (1u << O_SUB) | (1u << O_ROT180);
    o.planar = false;
    o.type = "bgr8"; sweep<gil::targa_tag, gil::bgr8_pixel_t>(o, info);
    o.type = "argb8"; sweep<gil::targa_tag, gil::argb8_pixel_t>(o, info);
    typedef gil::any_image<gil::rgb8_image_t, gil::rgba8_image_t> any_t;
    o.type = "rgb8"; reuse_sweep<gil::targa_tag, gil::rgb8_pixel_t, RA_READ_IMAGE | RA_CONVERT | RA_ANY | RA_READ_VIEW, any_t>(o, info);
    o.type = "rgba8"; reuse_sweep<gil::targa_tag, gil::rgba8_pixel_t, RA_READ_IMAGE | RA_CONVERT | RA_ANY | RA_READ_VIEW, any_t>(o, info);
    o.type = "argb8"; reuse_sweep<gil::targa_tag, gil::argb8_pixel_t, RA_READ_IMAGE | RA_READ_VIEW, gil::any_image<gil::argb8_image_t>>(o, info);
}
#elif C12_PART == 3
static void run_part() {
    gil::image_write_info<gil::png_tag> info;
    opts_t o; o.fmt = "png"; o.ext = "png";
    o.planar = false;
    o.type = "gray8"; sweep<gil::png_tag, gil::gray8_pixel_t>(o, info);
    o.planar = true;
    o.type = "rgb8"; sweep<gil::png_tag, gil::rgb8_pixel_t>(o, info);
    o.type = "rgba8"; sweep<gil::png_tag, gil::rgba8_pixel_t>(o, info);
    typedef gil::any_image<gil::gray8_image_t, gil::rgb8_image_t, gil::rgba8_image_t> any_t;
    o.type = "gray8"; reuse_sweep<gil::png_tag, gil::gray8_pixel_t, RA_READ_IMAGE | RA_CONVERT | RA_ANY | RA_READ_VIEW, any_t>(o, info);
    o.type = "rgb8"; reuse_sweep<gil::png_tag, gil::rgb8_pixel_t, RA_READ_IMAGE | RA_CONVERT | RA_ANY | RA_READ_VIEW, any_t>(o, info);
    o.type = "rgba8"; reuse_sweep<gil::png_tag, gil::rgba8_pixel_t, RA_READ_IMAGE | RA_CONVERT | RA_ANY | RA_READ_VIEW, any_t>(o, info);
}
#elif C12_PART == 4
static void run_part() {
    gil::image_write_info<gil::png_tag> info;
    opts_t o; o.fmt = "png"; o.ext = "png";
    o.planar = false;
    o.type = "gray16"; sweep<gil::png_tag, gil::gray16_pixel_t>(o, info);
    o.planar = true;
    o.type = "rgb16"; sweep<gil::png_tag, gil::rgb16_pixel_t>(o, info);
    o.type = "rgba16"; sweep<gil::png_tag, gil::rgba16_pixel_t>(o, info);
    typedef gil::any_image<gil::gray16_image_t, gil::rgb16_image_t, gil::rgba16_image_t> any_t;
    o.type = "gray16"; reuse_sweep<gil::png_tag, gil::gray16_pixel_t, RA_READ_IMAGE | RA_CONVERT | RA_ANY | RA_READ_VIEW, any_t>(o, info);
    o.type = "rgb16"; reuse_sweep<gil::png_tag, gil::rgb16_pixel_t, RA_READ_IMAGE | RA_CONVERT | RA_ANY | RA_READ_VIEW, any_t>(o, info);
    o.type = "rgba16"; reuse_sweep<gil::png_tag, gil::rgba16_pixel_t, RA_READ_IMAGE | RA_CONVERT | RA_ANY | RA_READ_VIEW, any_t>(o, info);
}
#elif C12_PART == 5
static void run_part() {
    {
        gil::image_write_info<gil::png_tag> info;
        opts_t o; o.fmt = "png"; o.ext = "png";
        // const bit-aligned views are rejected by the PNG writer at compile time (probe c12_probe 0)
        const int orgs = B_IMG | B_SUB | B_ROT180 | B_SUBSAMPLED;
        o.type = "gray1"; o.bits = 1; sweep_bits<gil::png_tag, gil::gray1_image_t, orgs>(o, info);
        o.type = "gray2"; o.bits = 2; sweep_bits<gil::png_tag, gil::gray2_image_t, orgs>(o, info);
        o.type = "gray4"; o.bits = 4; sweep_bits<gil::png_tag, gil::gray4_image_t, orgs>(o, info);
        o.type = "gray1"; reuse_bits<gil::png_tag, gil::gray1_image_t>(o, info);
        o.type = "gray2"; reuse_bits<gil::png_tag, gil::gray2_image_t>(o, info);
        o.type = "gray4"; reuse_bits<gil::png_tag, gil::gray4_image_t>(o, info);
    }
    {
        gil::image_write_info<gil::pnm_tag> info;
        opts_t o; o.fmt = "pnm"; o.ext = "pnm";
        // the PNM writer static_asserts the exact view type gray1_image_t::view_t: const and stepped
        // gray1 views are rejected at compile time (probes c12_probe 1, 2)
        o.type = "gray1"; o.bits = 1; sweep_bits<gil::pnm_tag, gil::gray1_image_t, B_IMG | B_SUB>(o, info);
        o.type = "gray1"; reuse_bits<gil::pnm_tag, gil::gray1_image_t>(o, info);
    }
}
#endif

#ifdef C12_TIFF
struct tiff_cfg { const char* name; bool tiled; int tile; int compression; };
static std::vector<tiff_cfg> const& tiff_cfgs() {
    static std::vector<tiff_cfg> v;
    if (!v.empty()) return v;
    struct { const char* n; int c; } comp[] = { { "none", COMPRESSION_NONE }, { "lzw", COMPRESSION_LZW },
                                                { "deflate", COMPRESSION_ADOBE_DEFLATE }, { "packbits", COMPRESSION_PACKBITS } };
    static std::vector<std::string> names;
    names.reserve(64);
    for (auto& c : comp) {
        if (!TIFFIsCODECConfigured((uint16_t)c.c)) continue;
        names.push_back(vh::cat("strip-", c.n)); v.push_back({ names.back().c_str(), false, 0, c.c });
        names.push_back(vh::cat("tile16-", c.n)); v.push_back({ names.back().c_str(), true, 16, c.c });
        names.push_back(vh::cat("tile32-", c.n)); v.push_back({ names.back().c_str(), true, 32, c.c });
    }
    return v;
}
template <class P> static void tiff_type(const char* type, bool planar, unsigned org_mask, bool all_cfgs) {
    std::vector<tiff_cfg> const& cfgs = tiff_cfgs();
    for (size_t i = 0; i < cfgs.size(); ++i) {
        if (!all_cfgs && !(cfgs[i].compression == COMPRESSION_NONE || (cfgs[i].compression == COMPRESSION_LZW && !cfgs[i].tiled))) continue;
        gil::image_write_info<gil::tiff_tag> info;
        info._compression = cfgs[i].compression;
        info._is_tiled = cfgs[i].tiled;
        info._tile_width = info._tile_length = cfgs[i].tile;
        opts_t o; o.fmt = "tiff"; o.ext = "tif"; o.type = type; o.cfg = cfgs[i].name; o.planar = planar; o.org_mask = org_mask;
        // the organisations beyond the plain image only with the uncompressed layouts (the view is
        // consumed before compression; compression x organisation adds nothing)
        if (cfgs[i].compression != COMPRESSION_NONE) o.org_mask &= (1u << O_IMG) | (1u << O_SUBSAMPLED) | (1u << O_PLANAR);
        sweep<gil::tiff_tag, P>(o, info);
        vh::obs(vh::cat("tiffcfg.", cfgs[i].name));
    }
}
// destination reuse on TIFF: uncompressed strips, LZW strips and 16x16 tiles
template <class P, int APIS, class AnyImg> static void tiff_reuse(const char* type) {
    struct { const char* name; bool tiled; int comp; } cf[] = { { "strip-none", false, COMPRESSION_NONE }, { "strip-lzw", false, COMPRESSION_LZW }, { "tile16-none", true, COMPRESSION_NONE } };
    for (auto& c : cf) {
        if (!TIFFIsCODECConfigured((uint16_t)c.comp)) continue;
        gil::image_write_info<gil::tiff_tag> info;
        info._compression = c.comp; info._is_tiled = c.tiled; info._tile_width = info._tile_length = 16;
        std::string tn = vh::cat(type, "-", c.name);
        opts_t o; o.fmt = "tiff"; o.ext = "tif"; o.type = tn.c_str();
        reuse_sweep<gil::tiff_tag, P, APIS, AnyImg>(o, info);
    }
}
template <class Img> static void tiff_bits_type(const char* type, int bits) {
    std::vector<tiff_cfg> const& cfgs = tiff_cfgs();
    for (size_t i = 0; i < cfgs.size(); ++i) {
        if (!(cfgs[i].compression == COMPRESSION_NONE || cfgs[i].compression == COMPRESSION_PACKBITS)) continue;
        gil::image_write_info<gil::tiff_tag> info;
        info._compression = cfgs[i].compression;
        info._is_tiled = cfgs[i].tiled;
        info._tile_width = info._tile_length = cfgs[i].tile;
        opts_t o; o.fmt = "tiff"; o.ext = "tif"; o.type = type; o.cfg = cfgs[i].name; o.bits = bits;
        // const and stepped bit-aligned views are rejected by the TIFF writer at compile time (probes c12_probe 3, 4)
        sweep_bits<gil::tiff_tag, Img, B_IMG | B_SUB>(o, info);
    }
}
#endif
#if C12_PART == 6
static void run_part() {
    unsigned base = (1u << O_IMG) | (1u << O_RAWPAD) | (1u << O_SUB) | (1u << O_ROT180) | (1u << O_SUBSAMPLED) | (1u << O_PLANAR) | (1u << O_PLANAR_STEP);
    tiff_type<gil::gray8_pixel_t>("gray8", false, base | (1u << O_CONST) | (1u << O_ROT90), true);
    tiff_type<gil::rgb8_pixel_t>("rgb8", true, base | (1u << O_CONST) | (1u << O_ROT90), true);
    typedef gil::any_image<gil::gray8_image_t, gil::rgb8_image_t> any_t;
    tiff_reuse<gil::gray8_pixel_t, RA_READ_IMAGE | RA_CONVERT | RA_ANY | RA_READ_VIEW, any_t>("gray8");
    tiff_reuse<gil::rgb8_pixel_t, RA_READ_IMAGE | RA_ANY | RA_READ_VIEW, any_t>("rgb8");
}
#elif C12_PART == 7
static void run_part() {
    unsigned base = (1u << O_IMG) | (1u << O_RAWPAD) | (1u << O_SUB) | (1u << O_ROT180) | (1u << O_SUBSAMPLED) | (1u << O_PLANAR) | (1u << O_PLANAR_STEP);
    tiff_type<gil::rgba8_pixel_t>("rgba8", true, base, false);
    tiff_type<gil::gray16_pixel_t>("gray16", false, base, true);
    typedef gil::any_image<gil::gray16_image_t, gil::rgba8_image_t> any_t;
    tiff_reuse<gil::rgba8_pixel_t, RA_READ_IMAGE | RA_ANY | RA_READ_VIEW, any_t>("rgba8");
    tiff_reuse<gil::gray16_pixel_t, RA_READ_IMAGE | RA_ANY | RA_READ_VIEW, any_t>("gray16");
}
#elif C12_PART == 12
static void run_part() {
    unsigned base = (1u << O_IMG) | (1u << O_RAWPAD) | (1u << O_SUB) | (1u << O_ROT180) | (1u << O_SUBSAMPLED) | (1u << O_PLANAR) | (1u << O_PLANAR_STEP);
    tiff_type<gil::rgb16_pixel_t>("rgb16", true, base, false);
    tiff_type<gil::rgba16_pixel_t>("rgba16", true, base, false);
    typedef gil::any_image<gil::rgb16_image_t, gil::rgba16_image_t> any_t;
    tiff_reuse<gil::rgb16_pixel_t, RA_READ_IMAGE | RA_ANY | RA_READ_VIEW, any_t>("rgb16");
    tiff_reuse<gil::rgba16_pixel_t, RA_READ_IMAGE | RA_READ_VIEW, any_t>("rgba16");
}
#elif C12_PART == 8
static void run_part() {
    unsigned base = (1u << O_IMG) | (1u << O_SUB) | (1u << O_SUBSAMPLED) | (1u << O_PLANAR) | (1u << O_PLANAR_STEP);
    tiff_type<gil::gray32_pixel_t>("gray32", false, base, false);
    tiff_type<gil::gray32f_pixel_t>("gray32f", false, base, true);
    tiff_type<gil::rgb32f_pixel_t>("rgb32f", true, base, false);
    typedef gil::any_image<gil::gray32_image_t, gil::gray32f_image_t, gil::rgb32f_image_t> any_t;
    tiff_reuse<gil::gray32_pixel_t, RA_READ_IMAGE | RA_ANY | RA_READ_VIEW, any_t>("gray32");
    tiff_reuse<gil::gray32f_pixel_t, RA_READ_IMAGE | RA_CONVERT | RA_ANY | RA_READ_VIEW, any_t>("gray32f");
    tiff_reuse<gil::rgb32f_pixel_t, RA_READ_IMAGE | RA_ANY | RA_READ_VIEW, any_t>("rgb32f");
}
#elif C12_PART == 9
static void run_part() {
    unsigned base = (1u << O_IMG) | (1u << O_SUB) | (1u << O_SUBSAMPLED) | (1u << O_PLANAR) | (1u << O_PLANAR_STEP);
    tiff_type<gil::rgb32_pixel_t>("rgb32", true, base, false);
    tiff_type<gil::cmyk8_pixel_t>("cmyk8", true, base, false);
    tiff_type<gil::bgr8_pixel_t>("bgr8", false, (1u << O_IMG) | (1u << O_SUBSAMPLED), false);
    typedef gil::any_image<gil::rgb32_image_t, gil::cmyk8_image_t> any_t;
    tiff_reuse<gil::rgb32_pixel_t, RA_READ_IMAGE | RA_ANY | RA_READ_VIEW, any_t>("rgb32");
    tiff_reuse<gil::cmyk8_pixel_t, RA_READ_IMAGE | RA_ANY | RA_READ_VIEW, any_t>("cmyk8");
    tiff_reuse<gil::bgr8_pixel_t, RA_READ_IMAGE | RA_READ_VIEW, gil::any_image<gil::bgr8_image_t>>("bgr8");
}
#elif C12_PART == 10
static void run_part() {
    tiff_bits_type<gil::gray1_image_t>("gray1", 1);
    tiff_bits_type<gil::gray2_image_t>("gray2", 2);
    tiff_bits_type<gil::gray4_image_t>("gray4", 4);
    {
        gil::image_write_info<gil::tiff_tag> info;
        opts_t o; o.fmt = "tiff"; o.ext = "tif";
        o.type = "gray1"; reuse_bits<gil::tiff_tag, gil::gray1_image_t>(o, info);
        o.type = "gray2"; reuse_bits<gil::tiff_tag, gil::gray2_image_t>(o, info);
        o.type = "gray4"; reuse_bits<gil::tiff_tag, gil::gray4_image_t>(o, info);
    }
}
#endif

// =================================================================================================
#if C12_PART == 11
// JPEG at quality 100: the bound below was calibrated once on the unchanged tree (see propcfg/c12.py)
// as twice the largest deviation seen over the smooth-gradient family used here.
#ifndef C12_JPEG_BOUND_GRAY
#define C12_JPEG_BOUND_GRAY 4
#endif
#ifndef C12_JPEG_BOUND_COLOR
#define C12_JPEG_BOUND_COLOR 16
#endif
template <class P> struct jpeg_gen;
template <class P>
static void jpeg_type(const char* type, int bound) {
    typedef gil::image<P, false> img_t;
    const int NC = gil::num_channels<P>::value;
    const char* kinds[] = { "constant", "gradient" };
    for (int kind = 0; kind < 2; ++kind)
        for (int sink = 0; sink < 3; ++sink) {
            std::string cls = vh::cat("jpeg.", type, ".", kinds[kind], ".", sink_name(sink));
            if (!vh::begin_case("rt.jpeg", cls)) continue;
            vh::rng r = vh::case_rng();
            std::vector<int> g = grid_values(sink == S_STREAM);
            long n = 0; int worst = 0;
            for (int h : g) for (int w : g) {
                img_t im(w, h);
                int c0[5], gx[5], gy[5];
                for (int k = 0; k < NC; ++k) {
                    c0[k] = (int)r.below(256);
                    // smooth content: per channel a plane with a slope of at most 3 levels per pixel in x and y
                    // (no pixel-scale chroma detail: 4:2:0 subsampling promises nothing there)
                    gx[k] = (int)r.below(7) - 3; gy[k] = (int)r.below(7) - 3;
                }
                if (kind == 1) for (int k = 0; k < NC; ++k) c0[k] = 32 + (int)r.below(192);
                for (int y = 0; y < h; ++y) for (int x = 0; x < w; ++x) {
                    P p;
                    for (int k = 0; k < NC; ++k) {
                        int v = kind == 0 ? c0[k] : c0[k] + gx[k] * (x - w / 2) + gy[k] * (y - h / 2);
                        v = std::max(0, std::min(255, v));
                        p[k] = (uint8_t)v;
                    }
                    gil::view(im)(x, y) = p;
                }
                img_t out;
                std::string phase; size_t nbytes = 0;
                gil::image_write_info<gil::jpeg_tag> info(100);
                std::string err = round_trip(gil::view(im), info, out, gil::jpeg_tag(), sink, "jpg", phase, nbytes);
                vh::evals(1); ++n;
                if (!err.empty()) { vh::viol("exception-" + phase + "." + cls, vh::cat("w=", w, " h=", h, ": ", err)); continue; }
                if (out.width() != w || out.height() != h) { vh::viol("dims." + cls, vh::cat("wrote ", w, "x", h, " read ", out.width(), "x", out.height())); continue; }
                int mx = 0, fx = 0, fy = 0, fk = 0;
                for (int y = 0; y < h; ++y) for (int x = 0; x < w; ++x) for (int k = 0; k < NC; ++k) {
                    int d = std::abs((int)gil::view(im)(x, y)[k] - (int)gil::const_view(out)(x, y)[k]);
                    if (d > mx) { mx = d; fx = x; fy = y; fk = k; }
                }
                worst = std::max(worst, mx);
                int lim = kind == 0 ? 1 : bound;
                if (mx > lim)
                    vh::viol((kind == 0 ? "constant-level." : "bounded-error.") + cls,
                             vh::cat("w=", w, " h=", h, " max channel deviation ", mx, " > ", lim, " at (", fx, ",", fy, ") channel ", fk,
                                     " wrote ", (int)gil::view(im)(fx, fy)[fk], " read ", (int)gil::const_view(out)(fx, fy)[fk]));
            }
            vh::distinct(n);
            vh::sample(vh::cat(cls, ": ", n, " sizes, largest deviation ", worst));
            printf("@@NOTE %s worst=%d\n", cls.c_str(), worst);
            vh::obs(vh::cat("sink.", sink_name(sink)));
        }
}
static void run_part() {
    jpeg_type<gil::gray8_pixel_t>("gray8", C12_JPEG_BOUND_GRAY);
    jpeg_type<gil::rgb8_pixel_t>("rgb8", C12_JPEG_BOUND_COLOR);
    jpeg_type<gil::cmyk8_pixel_t>("cmyk8", C12_JPEG_BOUND_GRAY);
    {
        // decoding is deterministic: a reused destination must equal a fresh one exactly
        typedef gil::any_image<gil::gray8_image_t, gil::rgb8_image_t, gil::cmyk8_image_t> any_t;
        gil::image_write_info<gil::jpeg_tag> info(100);
        opts_t o; o.fmt = "jpeg"; o.ext = "jpg";
        o.type = "gray8"; reuse_sweep<gil::jpeg_tag, gil::gray8_pixel_t, RA_READ_IMAGE | RA_CONVERT | RA_ANY | RA_READ_VIEW, any_t>(o, info);
        o.type = "rgb8"; reuse_sweep<gil::jpeg_tag, gil::rgb8_pixel_t, RA_READ_IMAGE | RA_CONVERT | RA_ANY | RA_READ_VIEW, any_t>(o, info);
        o.type = "cmyk8"; reuse_sweep<gil::jpeg_tag, gil::cmyk8_pixel_t, RA_READ_IMAGE | RA_CONVERT | RA_ANY | RA_READ_VIEW, any_t>(o, info);
    }
}
#endif

// the comparison itself is checked before it is trusted: a one-channel, one-pixel difference must be seen
static void self_test() {
    gil::rgba16_image_t a(3, 2), b(3, 2);
    cio::fill_view(gil::view(a), 7, 0); gil::copy_pixels(gil::const_view(a), gil::view(b));
    if (cio::compare_views(gil::const_view(a), gil::const_view(b)).any()) vh::fatal_monitor("harness", "self-test: equal images reported different");
    gil::view(b)(2, 1)[3] ^= 1;
    cio::diff_t d = cio::compare_views(gil::const_view(a), gil::const_view(b));
    if (d.n != 1 || d.fx != 2 || d.fy != 1 || d.nc != 4) vh::fatal_monitor("harness", "self-test: one-channel difference not located");
    if (cio::hash_view(gil::const_view(a)) == cio::hash_view(gil::const_view(b))) vh::fatal_monitor("harness", "self-test: hash blind");
}
int main(int argc, char** argv) {
    vh::init(argc, argv);
    cio::install_cleanup();
    self_test();
    run_part();
    return vh::finish();
}
