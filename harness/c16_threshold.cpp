// C16 (part 1) -- threshold_binary / threshold_truncate equal their per-channel definitions;
// threshold_optimal (Otsu) terminates without UB and is a single-threshold binarisation per channel.
// See DESIGN.md section 5, C16.
//
// Destination views are carved out of noise-filled arenas (c15_util.hpp); sources are tight heap images.
// Otsu cases are split into content classes whose outcome does not depend on the seed (empty, 1x1,
// constant at the range ends, two-level, ramps, seeded contents with a prescribed *last* pixel),
// because a sanitizer report is fatal and is keyed by the case class.
//
// -DC16_F32 adds gil::float32_t (does not compile on the unchanged tree: see the probe c16_probe_f32.cpp).
#include <boost/gil.hpp>
#include <boost/gil/image_processing/threshold.hpp>
#include <algorithm>
#include <cmath>
#include <limits>
#include <vector>
#include "common/vh.hpp"
#include "c15_util.hpp"

namespace gil = boost::gil;
using gil::threshold_direction;
using gil::threshold_truncate_mode;

// ---- channel models ---------------------------------------------------------------------
template <class T> struct CT;
#define C16_INT(T, NAME)                                                                  \
    template <> struct CT<T> {                                                            \
        static const char* name() { return NAME; }                                        \
        static const bool is_float = false;                                               \
        static double lo() { return (double)std::numeric_limits<T>::min(); }              \
        static double hi() { return (double)std::numeric_limits<T>::max(); }              \
        static double deduced_max() { return hi(); }                                      \
        static T make(double v) { return (T)(long long)v; }                               \
        static double rnd(vh::rng& r) { return lo() + (double)r.below((uint64_t)(hi() - lo()) + 1); } \
    };
C16_INT(uint8_t, "u8")
C16_INT(int8_t, "s8")
C16_INT(uint16_t, "u16")
C16_INT(int16_t, "s16")
C16_INT(uint32_t, "u32")
C16_INT(int32_t, "s32")
template <> struct CT<gil::float32_t> {
    static const char* name() { return "f32"; }
    static const bool is_float = true;
    static double lo() { return 0.0; }
    static double hi() { return 1.0; }
    static double deduced_max() { return 1.0; }     // channel_traits<float32_t>::max_value()
    static gil::float32_t make(double v) { return gil::float32_t((float)v); }
    static double rnd(vh::rng& r) { return (double)(float)r.unit(); }
};

// ---- threshold_binary / threshold_truncate ----------------------------------------------
enum { OP_BIN_REG, OP_BIN_INV, OP_BINMAX_REG, OP_BINMAX_INV, OP_TT_REG, OP_TT_INV, OP_TZ_REG, OP_TZ_INV, OP_N };
static const char* opname(int op) {
    static const char* n[OP_N] = {"binary.regular", "binary.inverse", "binary-max.regular", "binary-max.inverse",
                                  "truncate-threshold.regular", "truncate-threshold.inverse", "truncate-zero.regular", "truncate-zero.inverse"};
    return n[op];
}
// the documented per-channel definition
static double model_op(int op, double px, double t, double maxv) {
    bool gt = px > t;
    switch (op) {
        case OP_BIN_REG: case OP_BINMAX_REG: return gt ? maxv : 0;
        case OP_BIN_INV: case OP_BINMAX_INV: return gt ? 0 : maxv;
        case OP_TT_REG: return gt ? t : px;      // values greater than the threshold are set to it
        case OP_TT_INV: return gt ? px : t;      // values less than or equal are set to it
        case OP_TZ_REG: return gt ? px : 0;      // values less than or equal are set to 0
        case OP_TZ_INV: return gt ? 0 : px;      // values greater are set to 0
    }
    return 0;
}

// threshold_truncate does not instantiate when exactly one of source / destination has a float32 channel
// (recorded by the probes c16_probe_mixed.cpp); threshold_binary does.
template <class SV, class DV, class T>
void call_truncate(SV const& s, DV const& d, T tv, threshold_truncate_mode m, threshold_direction dir, std::true_type) { gil::threshold_truncate(s, d, tv, m, dir); }
template <class SV, class DV, class T>
void call_truncate(SV const&, DV const&, T, threshold_truncate_mode, threshold_direction, std::false_type) {}

// Source image type and destination pixel type may differ in channel order AND in channel type.  The oracle compares the
// exact source value (double holds every 8/16/32-bit integer and every float exactly) with the threshold, which is a value
// of the destination channel type, as documented (dst = src > threshold ? max : 0 ...); channels pair by colour.
// A truncate result that means "source value unchanged" is judged only when that value is representable in the destination type.
template <class SrcImage, class DstPixel> void run_threshold(const char* lname) {
    typedef typename SrcImage::value_type src_pixel;
    typedef typename gil::channel_type<DstPixel>::type ch_t;
    typedef typename gil::channel_type<src_pixel>::type sch_t;
    typedef CT<ch_t> M;        // destination channel: thresholds, max values, results
    typedef CT<sch_t> MS;      // source channel: contents
    const bool same_type = std::is_same<ch_t, sch_t>::value;
    typedef std::integral_constant<bool, (M::is_float == MS::is_float)> with_truncate;
    const int NC = gil::num_channels<src_pixel>::value;
    const std::vector<int> sp = cu::phys_of_colour<src_pixel>(), dp = cu::phys_of_colour<DstPixel>();
    const int maxdim = vh::thorough() ? 8 : 5;
    std::string cls = same_type ? vh::cat(M::name(), ".", lname) : vh::cat(MS::name(), "-to-", M::name(), ".", lname);
    const double dspan = M::is_float ? 256.0 : M::hi() - M::lo() + 1;      // aliasing period of a narrowing conversion to the destination type
    for (int w = 0; w <= maxdim; ++w)
        for (int h = 0; h <= maxdim; ++h) {
            if (!vh::begin_case(vh::cat("threshold.", cls), vh::cat(w, "x", h))) continue;
            vh::rng r = vh::case_rng();
            SrcImage src(w, h);
            auto sv = gil::subimage_view(gil::view(src), 0, 0, w, h);
            std::vector<double> values;
            // content classes: full source range / few levels / clustered around a destination-range value /
            // aliases of destination-range values (value + k * 2^bits(dst), sign-reinterpretations): the narrowed or
            // reinterpreted value lies on the other side of many thresholds than the true value
            // (+ for integral sources of another type: the special values of both channel types -- range ends, -1, 0, 1,
            // 2^31-1, 2^31, ... -- and their neighbours, mixed with seeded values)
            const int mode = (int)r.below(same_type ? 3 : (MS::is_float ? 4 : 5));
            auto sclamp = [&](double v) { return std::min(MS::hi(), std::max(MS::lo(), v)); };
            auto srnd = [&]() { return (MS::is_float && !M::is_float) ? (double)(float)(r.unit() * 255.99) : MS::rnd(r); };
            double base = sclamp(M::is_float && !MS::is_float ? (double)r.below(3) : M::rnd(r));
            for (int y = 0; y < h; ++y)
                for (int x = 0; x < w; ++x)
                    for (int c = 0; c < NC; ++c) {
                        double v;
                        if (mode == 0) v = srnd();
                        else if (mode == 1) v = MS::is_float ? (M::is_float ? (double)(float)(r.below(5) / 4.0) : (double)(float)(base + r.below(5) / 4.0)) : sclamp(base + (double)r.below(4));
                        else if (mode == 2) v = MS::is_float ? (M::is_float ? MS::rnd(r) : (double)(float)(base + r.unit() * 3 - 1.5)) : sclamp(base + (double)r.range(-40, 40));
                        else if (mode == 3) v = MS::is_float ? srnd() : sclamp(M::rnd(r) + dspan * (double)r.range(-3, 3));
                        else {
                            const double sp_[] = {MS::lo(), MS::hi(), M::lo(), M::hi(), -1, 0, 1, 2147483647.0, 2147483648.0, 4294967295.0, -2147483648.0};
                            v = r.coin() ? sclamp(sp_[r.below(11)] + (double)r.range(-1, 1)) : srnd();
                        }
                        if (MS::is_float && v < 0) v = 0;
                        sv(x, y)[c] = MS::make(v);
                        values.push_back(cu::num(sv(x, y)[c]));
                    }
            std::vector<double> snap = cu::values_of(gil::const_view(src));
            // thresholds: values of the destination channel type
            std::vector<double> ts;
            auto tpush = [&](double t) { if (t >= M::lo() && t <= M::hi()) ts.push_back(t); };
            if (!M::is_float && M::hi() - M::lo() <= 255) {
                for (double t = M::lo(); t <= M::hi(); ++t) ts.push_back(t);
            } else if (!M::is_float) {
                const double fix[] = {M::lo(), M::lo() + 1, M::hi() - 1, M::hi(), -2, -1, 0, 1, 127, 128, 255, 256, 32767, 32768, 65535, 65536,
                                      2147483646.0, 2147483647.0, 2147483648.0, 2147483649.0, 4294967294.0, 4294967295.0, -2147483648.0, -2147483647.0};
                for (double t : fix) tpush(t);
                for (size_t i = 0; i < values.size() && i < 24; ++i)
                    for (int d = -1; d <= 1; ++d) tpush(std::floor(values[i]) + d);
                int nr = vh::thorough() ? 64 : 16;
                for (int i = 0; i < nr; ++i) ts.push_back(M::rnd(r));
            } else if (MS::is_float) {
                const double fix[] = {0.0, 1.0, 0.5, 0.25, 0.75};
                for (double t : fix) ts.push_back(t);
                for (size_t i = 0; i < values.size() && i < 24; ++i) {
                    ts.push_back(values[i]);
                    ts.push_back((double)std::nextafter((float)values[i], 2.0f) <= 1.0 ? (double)std::nextafter((float)values[i], 2.0f) : 1.0);
                    ts.push_back((double)std::nextafter((float)values[i], -1.0f) >= 0.0 ? (double)std::nextafter((float)values[i], -1.0f) : 0.0);
                }
                for (int i = 0; i < 16; ++i) ts.push_back(M::rnd(r));
            } else {   // integral source, float32 destination: the threshold is a float32 value
                const double fix[] = {0.0, 0.5, 1.0, 1.5, 127.5, 254.5, 255.0};
                for (double t : fix) ts.push_back(t);
                for (size_t i = 0; i < values.size() && i < 24; ++i) { ts.push_back(values[i]); ts.push_back(values[i] + 0.5); ts.push_back(values[i] - 0.5); }
                for (int i = 0; i < 16; ++i) ts.push_back((double)(float)(r.unit() * 300));
            }
            std::sort(ts.begin(), ts.end());
            ts.erase(std::unique(ts.begin(), ts.end()), ts.end());
            if (w == 3 && h == 2)
                vh::sample(vh::cat("threshold_binary/truncate(", cls, " ", w, "x", h, ", ", ts.size(), " thresholds x 8 mode/direction variants) == per-channel definition on the exact source value, dst in noise arena"));
            auto csv = gil::subimage_view(gil::const_view(src), 0, 0, w, h);   // explicit dimensions (an image built as 0xN reports 0x0)
            for (double t : ts)
                for (int op = 0; op < OP_N; ++op) {
                    if (op >= OP_TT_REG && !with_truncate::value) continue;
                    cu::arena<DstPixel> ar(w, h, r, 1, 1);
                    auto dv = ar.dst();
                    ch_t tv = M::make(t);
                    double maxv = M::deduced_max();
                    if (op == OP_BINMAX_REG || op == OP_BINMAX_INV) maxv = M::is_float ? (double)(float)r.unit() : M::rnd(r);
                    ch_t mv = M::make(maxv);
                    switch (op) {
                        case OP_BIN_REG: gil::threshold_binary(csv, dv, tv, threshold_direction::regular); break;
                        case OP_BIN_INV: gil::threshold_binary(csv, dv, tv, threshold_direction::inverse); break;
                        case OP_BINMAX_REG: gil::threshold_binary(csv, dv, tv, mv, threshold_direction::regular); break;
                        case OP_BINMAX_INV: gil::threshold_binary(csv, dv, tv, mv, threshold_direction::inverse); break;
                        case OP_TT_REG: call_truncate(csv, dv, tv, threshold_truncate_mode::threshold, threshold_direction::regular, with_truncate()); break;
                        case OP_TT_INV: call_truncate(csv, dv, tv, threshold_truncate_mode::threshold, threshold_direction::inverse, with_truncate()); break;
                        case OP_TZ_REG: call_truncate(csv, dv, tv, threshold_truncate_mode::zero, threshold_direction::regular, with_truncate()); break;
                        case OP_TZ_INV: call_truncate(csv, dv, tv, threshold_truncate_mode::zero, threshold_direction::inverse, with_truncate()); break;
                    }
                    for (int y = 0; y < h; ++y)
                        for (int x = 0; x < w; ++x)
                            for (int c = 0; c < NC; ++c) {      // c is a colour index
                                double px = cu::num(csv(x, y)[sp[(size_t)c]]);
                                double want = model_op(op, px, cu::num(tv), cu::num(mv));
                                bool representable = want >= M::lo() && want <= M::hi() && (M::is_float || want == std::floor(want));
                                if (M::is_float && !same_type) representable = (double)(float)want == want;
                                ar.set(x, y, dp[(size_t)c], representable ? want : cu::num(dv(x, y)[dp[(size_t)c]]), cu::K_A);
                            }
                    cu::cmp_result res = ar.compare(0.0);
                    if (res.any()) {
                        std::string ctx = vh::cat(opname(op), " ", cls, " ", w, "x", h, " threshold ", t, " max ", maxv, ": ");
                        if (res.outside_bad) vh::viol(vh::cat("outside-dst.", opname(op), ".", cls), ctx + res.first_outside);
                        if (res.bad[cu::K_A]) vh::viol(vh::cat(opname(op), ".", cls), ctx + res.first[cu::K_A]);
                    }
                    vh::evals(1);
                    vh::distinct(1);
                }
            if (cu::values_of(gil::const_view(src)) != snap) vh::viol(vh::cat("src-modified.threshold.", cls), "source values changed");
        }
}

// ---- Otsu ---------------------------------------------------------------------------------
enum { O_EMPTY, O_ONE_LO, O_ONE_HI, O_ONE_ZERO, O_ONE_MID, O_CONST_LO, O_CONST_HI, O_CONST_ZERO, O_CONST_MID,
       O_TWO_LASTHI, O_TWO_LASTLO, O_RAMP_UP, O_RAMP_DOWN, O_RND_LASTMAX, O_RND_LASTMIN, O_RND_LASTMID, O_N };
static const char* oname(int k) {
    static const char* n[O_N] = {"empty", "one-lo", "one-hi", "one-zero", "one-mid", "constant-lo", "constant-hi", "constant-zero", "constant-mid",
                                 "two-level-last-high", "two-level-last-low", "ramp-up", "ramp-down", "seeded-last-is-max", "seeded-last-is-min", "seeded-last-between"};
    return n[k];
}
static int min_pixels(int k) { return k == O_RND_LASTMID ? 3 : (k >= O_TWO_LASTHI ? 2 : 1); }

// contents of one channel plane of n pixels (raster order) for content class k
template <class T> std::vector<double> otsu_plane(int k, int n, vh::rng& r) {
    typedef CT<T> M;
    std::vector<double> v((size_t)n);
    auto mid = [&]() { double x; do x = M::rnd(r); while (x == M::lo() || x == M::hi() || x == 0); return x; };
    switch (k) {
        case O_ONE_LO: case O_CONST_LO: std::fill(v.begin(), v.end(), M::lo()); break;
        case O_ONE_HI: case O_CONST_HI: std::fill(v.begin(), v.end(), M::hi()); break;
        case O_ONE_ZERO: case O_CONST_ZERO: std::fill(v.begin(), v.end(), 0.0); break;
        case O_ONE_MID: case O_CONST_MID: std::fill(v.begin(), v.end(), mid()); break;
        case O_TWO_LASTHI: case O_TWO_LASTLO: {
            double a = mid(), b; do b = mid(); while (b == a);
            if (a > b) std::swap(a, b);
            for (int i = 0; i < n; ++i) v[i] = r.coin() ? a : b;
            v[0] = (k == O_TWO_LASTHI) ? a : b;           // both levels occur
            v[n - 1] = (k == O_TWO_LASTHI) ? b : a;
            break;
        }
        case O_RAMP_UP: case O_RAMP_DOWN: {
            double a = mid(), b; do b = mid(); while (b == a);
            if (a > b) std::swap(a, b);
            for (int i = 0; i < n; ++i) v[i] = std::floor(a + (b - a) * i / (n - 1));
            v[n - 1] = b;
            if (k == O_RAMP_DOWN) std::reverse(v.begin(), v.end());
            break;
        }
        default: {  // seeded contents with a prescribed last pixel.  The other pixels avoid the range ends (+-1) and -1,0,1
                    // so that last = max+1 / min-1 / a value strictly between always exists and is never an end or 0.
            auto inner = [&]() { double x; do x = M::rnd(r); while (x < M::lo() + 2 || x > M::hi() - 2 || (x >= -1 && x <= 1)); return x; };
            for (int i = 0; i < n; ++i) v[i] = inner();
            if (n >= 3) {
                double mx0 = *std::max_element(v.begin(), v.end() - 1), mn0 = *std::min_element(v.begin(), v.end() - 1);
                if (mx0 - mn0 < 2) { v[0] = M::lo() + 2; v[1] = M::hi() - 2; }
            }
            double mx = *std::max_element(v.begin(), v.end() - 1), mn = *std::min_element(v.begin(), v.end() - 1);
            if (k == O_RND_LASTMAX) v[n - 1] = mx + 1;
            else if (k == O_RND_LASTMIN) v[n - 1] = mn - 1;
            else {  // strictly between min and max of the others (n >= 3 here)
                double m = std::floor((mn + mx) / 2);
                if (m == 0) m = 1;
                if (!(mn < m && m < mx)) m = mn + 1;
                v[n - 1] = m;
            }
            break;
        }
    }
    return v;
}

// Image = source image type; P = destination pixel type (same colour space, possibly another channel order):
// the binarisation is judged per COLOUR
template <class Image, class P = typename Image::value_type> void run_otsu(const char* lname) {
    typedef typename gil::channel_type<P>::type T;                                   // destination channel
    typedef typename gil::channel_type<typename Image::value_type>::type TS;         // source channel (8/16-bit integral)
    typedef CT<T> MD;
    typedef CT<TS> M;
    const bool same_type = std::is_same<T, TS>::value;
    const std::string tname = same_type ? std::string(M::name()) : vh::cat(M::name(), "-to-", MD::name());
    const int NC = gil::num_channels<P>::value;
    const std::vector<int> sp = cu::phys_of_colour<typename Image::value_type>(), dp = cu::phys_of_colour<P>();   // colour -> memory position
    std::vector<std::pair<int, int>> shapes;
    if (vh::thorough()) { for (int w = 1; w <= 6; ++w) for (int h = 1; h <= 6; ++h) shapes.push_back({w, h}); }
    else { const int s[][2] = {{2, 1}, {1, 2}, {3, 1}, {3, 2}, {2, 3}, {4, 4}, {5, 3}, {1, 5}}; for (auto& p : s) shapes.push_back({p[0], p[1]}); }
    for (int k = 0; k < O_N; ++k) {
        if ((k == O_ONE_ZERO || k == O_CONST_ZERO) && M::lo() == 0) continue;   // same as the -lo classes
        std::string cls = vh::cat("otsu.", tname, ".", lname, ".", oname(k));
        std::vector<std::pair<int, int>> sh;
        if (k == O_EMPTY) sh = {{0, 0}, {0, 3}, {3, 0}};
        else if (k >= O_ONE_LO && k <= O_ONE_MID) sh = {{1, 1}};
        else for (auto& p : shapes) if (p.first * p.second >= min_pixels(k) && !(p.first * p.second == 1)) sh.push_back(p);
        for (auto& p : sh) {
            const int w = p.first, h = p.second;
            if (!vh::begin_case(cls, vh::cat(w, "x", h))) continue;
            vh::rng r = vh::case_rng();
            Image src(w, h);
            auto sv = gil::view(src);
            for (int c = 0; c < NC; ++c) {
                if (w * h == 0) break;
                std::vector<double> plane = otsu_plane<TS>(k, w * h, r);
                for (int y = 0; y < h; ++y)
                    for (int x = 0; x < w; ++x) sv(x, y)[c] = M::make(plane[(size_t)y * w + x]);
            }
            std::vector<double> snap = cu::values_of(gil::const_view(src));
            auto csv = gil::subimage_view(gil::const_view(src), 0, 0, w, h);   // explicit dimensions (an image built as 0xN reports 0x0)
            if (k == O_TWO_LASTHI && w == 3 && h == 2)
                vh::sample(vh::cat("threshold_optimal(otsu, ", cls, " ", w, "x", h, ", both directions): no UB, output in {0,max}, one threshold separates the classes per channel"));
            for (int dir = 0; dir < 2; ++dir) {
                cu::arena<P> ar(w, h, r, 1, 1);
                auto dv = ar.dst();
                // may die here: sanitizer reports are fatal and are attributed to this case class by the driver
                gil::threshold_optimal(csv, dv, gil::threshold_optimal_value::otsu, dir ? threshold_direction::inverse : threshold_direction::regular);
                const char* dn = dir ? "inverse" : "regular";
                std::string ctx = vh::cat("threshold_optimal ", dn, " ", cls, " ", w, "x", h, ": ");
                // (a) nothing outside the destination view was written
                {
                    // the oracle does not predict the values: copy the real output into the model, then compare the rest
                    for (int y = 0; y < h; ++y)
                        for (int x = 0; x < w; ++x)
                            for (int c = 0; c < NC; ++c) ar.set(x, y, c, cu::num(dv(x, y)[c]), cu::K_A);
                    cu::cmp_result res = ar.compare(0.0);
                    if (res.outside_bad) vh::viol(vh::cat("outside-dst.otsu.", tname, ".", lname), ctx + res.first_outside);
                }
                // (b) per channel: output values are 0 / max and one threshold T (a value of the channel type) explains them
                for (int c = 0; c < NC; ++c) {
                    const double MAXV = MD::deduced_max();
                    double max_off = -1e300, min_on = 1e300;        // "on" = the side that threshold_binary maps to px > T
                    bool bad_value = false;
                    std::string wit;
                    for (int y = 0; y < h; ++y)
                        for (int x = 0; x < w; ++x) {
                            double s = cu::num(csv(x, y)[sp[(size_t)c]]), o = cu::num(dv(x, y)[dp[(size_t)c]]);     // c is a colour index
                            if (o != 0 && o != MAXV) { if (!bad_value) wit = vh::cat("dst(", x, ",", y, ")[", c, "]=", o, " is neither 0 nor ", MAXV); bad_value = true; continue; }
                            bool greater_side = dir == 0 ? (o == MAXV) : (o == 0);   // regular: px > T -> max; inverse: px > T -> 0
                            if (MAXV == 0) greater_side = false;
                            if (greater_side) min_on = std::min(min_on, s);
                            else max_off = std::max(max_off, s);
                        }
                    // a threshold T of the DESTINATION channel type with  off-side <= T < on-side  (comparison on the exact source value)
                    // (a float32 channel can hold any float, its nominal range [0,1] does not bound T)
                    const double tlo = MD::is_float ? -1e300 : MD::lo(), thi = MD::is_float ? 1e300 : MD::hi();
                    const double lowT = std::max(max_off, tlo);
                    if (bad_value) vh::viol(vh::cat("otsu-output-values.", tname, ".", lname, ".", dn), ctx + wit);
                    else if (!(lowT < min_on) || !(lowT <= thi))
                        vh::viol(vh::cat("otsu-single-threshold.", tname, ".", lname, ".", dn),
                                 ctx + vh::cat("colour ", c, ": a source value ", max_off, " is on the '<= T' side while ", min_on, " is on the '> T' side"));
                    if (k == O_TWO_LASTHI || k == O_TWO_LASTLO)
                        vh::obs(vh::cat("otsu.two-level.", (max_off > -1e300 && min_on < 1e300) ? "separated." : "not-separated.", tname));
                }
                vh::evals(1);
                vh::distinct(1);
                vh::obs(vh::cat("otsu.completed.", tname, ".", oname(k)));
            }
            if (cu::values_of(gil::const_view(src)) != snap) vh::viol(vh::cat("src-modified.otsu.", tname, ".", lname), "source values changed");
        }
    }
}

int main(int argc, char** argv) {
    vh::init(argc, argv);
#ifndef C16_PART
#define C16_PART 0
#endif
#if C16_PART == 0
    run_threshold<gil::gray8_image_t, gil::gray8_pixel_t>("gray");
    run_threshold<gil::rgb8_image_t, gil::rgb8_pixel_t>("rgb");
    run_threshold<gil::rgb8_image_t, gil::bgr8_pixel_t>("rgb-to-bgr");
    run_threshold<gil::gray16_image_t, gil::gray16_pixel_t>("gray");
    run_threshold<gil::rgb16_image_t, gil::rgb16_pixel_t>("rgb");
    run_threshold<gil::gray16s_image_t, gil::gray16s_pixel_t>("gray");
    run_threshold<gil::rgb16s_image_t, gil::rgb16s_pixel_t>("rgb");
#elif C16_PART == 1
    run_otsu<gil::gray8_image_t>("gray");
    run_otsu<gil::rgb8_image_t>("rgb");
    run_otsu<gil::gray16_image_t>("gray");
    run_otsu<gil::rgb16_image_t>("rgb");
    run_otsu<gil::gray8s_image_t>("gray");
    run_otsu<gil::rgb8s_image_t>("rgb");
    run_otsu<gil::gray16s_image_t>("gray");
    run_otsu<gil::rgb16s_image_t>("rgb");
#elif C16_PART == 3   // Otsu with differing source/destination channel orders
    run_otsu<gil::rgb8_image_t, gil::bgr8_pixel_t>("rgb8-to-bgr8");
    run_otsu<gil::bgr8_image_t, gil::rgb8_pixel_t>("bgr8-to-rgb8");
    run_otsu<gil::rgba8_image_t, gil::abgr8_pixel_t>("rgba8-to-abgr8");
    run_otsu<gil::rgb8_planar_image_t, gil::bgr8_pixel_t>("rgb8planar-to-bgr8");
    run_otsu<gil::rgb16_image_t, gil::bgr16_pixel_t>("rgb16-to-bgr16");
#elif C16_PART == 4   // threshold_binary/truncate, source and destination of different channel types: wider -> narrower
    run_threshold<gil::gray16_image_t, gil::gray8_pixel_t>("gray");
    run_threshold<gil::rgb16_image_t, gil::bgr8_pixel_t>("rgb-to-bgr");
    run_threshold<gil::gray16s_image_t, gil::gray8_pixel_t>("gray");
    run_threshold<gil::gray32_image_t, gil::gray8_pixel_t>("gray");
    run_threshold<gil::gray32s_image_t, gil::gray8_pixel_t>("gray");
    run_threshold<gil::gray32s_image_t, gil::gray16_pixel_t>("gray");
#elif C16_PART == 5   // same width, signedness differs; narrower -> wider
    run_threshold<gil::gray8s_image_t, gil::gray8_pixel_t>("gray");
    run_threshold<gil::gray8_image_t, gil::gray8s_pixel_t>("gray");
    run_threshold<gil::rgb16s_image_t, gil::rgb16_pixel_t>("rgb");
    run_threshold<gil::gray16_image_t, gil::gray16s_pixel_t>("gray");
    run_threshold<gil::gray8_image_t, gil::gray16_pixel_t>("gray");
    run_threshold<gil::gray8s_image_t, gil::gray16_pixel_t>("gray");
    run_threshold<gil::rgb8_image_t, gil::bgr16s_pixel_t>("rgb-to-bgr");
#elif C16_PART == 8   // 32-bit channels of the same width and different signedness
    run_threshold<gil::gray32s_image_t, gil::gray32_pixel_t>("gray");
    run_threshold<gil::gray32_image_t, gil::gray32s_pixel_t>("gray");
    run_threshold<gil::rgb32s_image_t, gil::bgr32_pixel_t>("rgb-to-bgr");
    run_threshold<gil::rgb32_image_t, gil::rgb32s_pixel_t>("rgb");
#elif C16_PART == 6   // float32 on one side only (threshold_binary; threshold_truncate does not instantiate)
    run_threshold<gil::gray32f_image_t, gil::gray8_pixel_t>("gray");
    run_threshold<gil::gray8_image_t, gil::gray32f_pixel_t>("gray");
    run_threshold<gil::gray16_image_t, gil::gray32f_pixel_t>("gray");
    run_threshold<gil::rgb32f_image_t, gil::bgr8_pixel_t>("rgb-to-bgr");
#elif C16_PART == 7   // Otsu, source and destination of different channel types
    run_otsu<gil::gray16_image_t, gil::gray8_pixel_t>("gray");
    run_otsu<gil::rgb16_image_t, gil::bgr8_pixel_t>("rgb-to-bgr");
    run_otsu<gil::gray16s_image_t, gil::gray8_pixel_t>("gray");
    run_otsu<gil::gray8s_image_t, gil::gray8_pixel_t>("gray");
    run_otsu<gil::gray8_image_t, gil::gray8s_pixel_t>("gray");
    run_otsu<gil::gray16s_image_t, gil::gray16_pixel_t>("gray");
    run_otsu<gil::gray16_image_t, gil::gray16s_pixel_t>("gray");
    run_otsu<gil::gray8_image_t, gil::gray16_pixel_t>("gray");
    run_otsu<gil::gray8s_image_t, gil::gray16_pixel_t>("gray");
    run_otsu<gil::gray8_image_t, gil::gray32f_pixel_t>("gray");
#else   // C16_PART == 2: float32 channels (needs a tree where threshold_binary/truncate compile for them)
    run_threshold<gil::gray32f_image_t, gil::gray32f_pixel_t>("gray");
    run_threshold<gil::rgb32f_image_t, gil::rgb32f_pixel_t>("rgb");
#endif
    return vh::finish();
}
