// C03 -- all navigation paths over a view reach the same pixel; iterator / locator laws.
// For every organisation (-DORG=k), shape, alignment (padded rows) and derived view (negative
// steps, transposed, sub-views, subsampled, channel views): the identity table id(x,y) taken from
// view(x,y) is compared with every other navigation expression; the random-access laws are checked
// for ALL pairs (i,j) of 1-D positions and all pairs within rows/columns; seeded locator walks.
// Only in-range positions are dereferenced; past-the-end iterators are compared and subtracted.
#include <boost/gil.hpp>
#include "common/vh.hpp"
#include "common/ledger.hpp"
#include "common/views.hpp"

#ifndef ORG
#define ORG 1
#endif
namespace gil = boost::gil;
using namespace vw;

static std::string g_org;
static inline std::string key(const char* what) { return vh::cat(what, ".", g_org); }
static uint64_t n_checks = 0, n_views = 0;

struct mem_id { template <class R> pt::pixid operator()(R const& r) const { return pt::id_of(r); } };
// views whose dereference yields a computed value (dereference adaptors): identity = the channel values,
// which the harness makes unique per source pixel
struct val_id {
    template <class R> pt::pixid operator()(R const& r) const {
        pt::pixid o; o.n = (int)gil::num_channels<R>::value;
        for (int c = 0; c < o.n; ++c) o.bitpos[c] = (uint64_t)(long)r[c];
        return o;
    }
};
// stateful converter to rgb16: every destination channel encodes the source's red value and the converter's state
struct code_cc {
    int off;
    code_cc() : off(0) {}
    explicit code_cc(int o) : off(o) {}
    static long want(long code, int c, int off) { return (c + 1) * code + c + off; }
    template <class S, class D> void operator()(S const& src, D& dst) const {
        long code = (long)gil::get_color(src, gil::red_t());
        gil::get_color(dst, gil::red_t()) = (uint16_t)want(code, 0, off);
        gil::get_color(dst, gil::green_t()) = (uint16_t)want(code, 1, off);
        gil::get_color(dst, gil::blue_t()) = (uint16_t)want(code, 2, off);
    }
};

template <class W, class IdFn>
struct nav {
    W const& v; IdFn idf; std::string word;
    long w, h, n;
    std::vector<pt::pixid> id;
    nav(W const& v_, IdFn f, std::string const& wd) : v(v_), idf(f), word(wd), w(v_.width()), h(v_.height()), n(v_.width() * v_.height()) {}
    pt::pixid const& at(long x, long y) const { return id[(size_t)(y * w + x)]; }
    void bad(const char* what, std::string const& d) { vh::viol(key(what), vh::cat("view=", word, " ", w, "x", h, " ", d)); }
    template <class R> void same(R const& r, long x, long y, const char* what) {
        ++n_checks;
        pt::pixid g = idf(r);
        if (g != at(x, y)) bad(what, vh::cat("at (", x, ",", y, ") reaches ", g.str(), " but view(x,y) is ", at(x, y).str()));
    }

    void run(vh::rng& r, int walk_len) {
        ++n_views;
        typedef typename W::iterator it_t;
        typedef typename W::x_iterator xit_t;
        typedef typename W::y_iterator yit_t;
        typedef typename W::xy_locator loc_t;
        typedef typename W::point_t point_t;
        // ---- empty views: only iterator algebra, no dereference
        if (v.size() != (typename W::size_type)n) bad("size", "size() != w*h");
        if ((v.end() - v.begin()) != n) bad("end-begin", vh::cat("end()-begin() = ", (long)(v.end() - v.begin()), " expected ", n));
        if (n == 0) {
            if (!(v.begin() == v.end())) bad("empty-begin-end", "begin() != end() on an empty view");
            if (!v.empty()) bad("empty", "empty() is false");
            if (v.rbegin() != v.rend()) bad("empty-rbegin-rend", "rbegin() != rend()");
            n_checks += 4;
            return;
        }
        id.resize((size_t)n);
        for (long y = 0; y < h; ++y) for (long x = 0; x < w; ++x) id[(size_t)(y * w + x)] = idf(v(x, y));
        // different coordinates are different pixels
        { std::vector<pt::pixid> s = id; std::sort(s.begin(), s.end()); for (size_t i = 1; i < s.size(); ++i) if (s[i] == s[i - 1]) { bad("distinct", "two coordinates share one pixel identity"); break; } }

        // ---- every navigation expression against view(x,y)
        it_t b = v.begin();
        for (long y = 0; y < h; ++y)
            for (long x = 0; x < w; ++x) {
                long i = y * w + x;
                same(v(point_t(x, y)), x, y, "call-point");
                same(v.row_begin(y)[x], x, y, "row_begin-index");
                same(*(v.row_begin(y) + x), x, y, "row_begin-plus");
                same(*v.x_at(x, y), x, y, "x_at");
                same(v.col_begin(x)[y], x, y, "col_begin-index");
                same(*(v.col_begin(x) + y), x, y, "col_begin-plus");
                same(*v.y_at(x, y), x, y, "y_at");
                same(b[i], x, y, "begin-index");
                same(*(b + i), x, y, "begin-plus");
                same(v[i], x, y, "view-index");
                same(*v.at(i), x, y, "at-i");
                same(*v.at(x, y), x, y, "at-xy");
                same(*v.at(point_t(x, y)), x, y, "at-point");
                same(v.rbegin()[n - 1 - i], x, y, "rbegin-index");
                same(*v.xy_at(x, y), x, y, "xy_at");
                same(v.pixels()(x, y), x, y, "locator-call");
                same(*v.template axis_iterator<0>(point_t(x, y)), x, y, "axis_iterator0");
                same(*v.template axis_iterator<1>(point_t(x, y)), x, y, "axis_iterator1");
                same(*(v.row_end(y) - (w - x)), x, y, "row_end-minus");
                same(*(v.col_end(x) - (h - y)), x, y, "col_end-minus");
                same(*(v.end() - (n - i)), x, y, "end-minus");
            }
        same(v.front(), 0, 0, "front");
        same(v.back(), w - 1, h - 1, "back");
        // ---- relative access from every anchor, cached locations
        long anchors = 0;
        for (long ay = 0; ay < h; ++ay)
            for (long ax = 0; ax < w; ++ax) {
                // all anchors for small views, a seeded quarter of them for larger ones
                if (n > 36 && r.below(4) != 0) continue;
                ++anchors;
                loc_t loc = v.xy_at(ax, ay);
                for (long y = 0; y < h; ++y)
                    for (long x = 0; x < w; ++x) {
                        same(loc(x - ax, y - ay), x, y, "locator-relative");
                        same(loc[loc.cache_location(x - ax, y - ay)], x, y, "cached-location");
                        same(loc[loc.cache_location(point_t(x - ax, y - ay))], x, y, "cached-location-point");
                        same(*loc.x_at(x - ax, y - ay), x, y, "locator-x_at");
                        same(*loc.y_at(x - ax, y - ay), x, y, "locator-y_at");
                        same(*loc.xy_at(x - ax, y - ay), x, y, "locator-xy_at");
                        same(*(loc + point_t(x - ax, y - ay)), x, y, "locator-plus");
                        same(*(loc - point_t(ax - x, ay - y)), x, y, "locator-minus");
                        loc_t l2 = v.xy_at(x, y);
                        ++n_checks;
                        if (loc.y_distance_to(l2, x - ax) != y - ay) bad("y_distance_to", vh::cat("from (", ax, ",", ay, ") to (", x, ",", y, ") gives ", (long)loc.y_distance_to(l2, x - ax)));
                        if (((l2 == loc) != (x == ax && y == ay))) bad("locator-equality", vh::cat("(", ax, ",", ay, ") vs (", x, ",", y, ")"));
                    }
            }
        // ---- random-access laws on the 1-D iterator, all pairs i,j in [0..n]
        for (long i = 0; i <= n; ++i) {
            it_t bi = b + i;
            ++n_checks;
            if ((bi - b) != i) bad("it-distance-from-begin", vh::cat("(begin+", i, ")-begin = ", (long)(bi - b)));
            if ((v.end() - bi) != n - i) bad("it-distance-to-end", vh::cat("end-(begin+", i, ") = ", (long)(v.end() - bi)));
            { it_t t = bi; if (i < n) { ++t; if (!(t == b + (i + 1))) bad("it-increment", vh::cat("++(begin+", i, ") != begin+", i + 1)); --t; if (!(t == bi)) bad("it-inc-dec", vh::cat("--(++(begin+", i, ")) != begin+", i)); } }
            { it_t t = bi; if (i > 0) { --t; if (!(t == b + (i - 1))) bad("it-decrement", vh::cat("--(begin+", i, ") != begin+", i - 1)); ++t; if (!(t == bi)) bad("it-dec-inc", vh::cat("++(--(begin+", i, "))")); } }
            { it_t t = bi; if (i < n) { it_t o = t++; if (!(o == bi) || !(t == b + (i + 1))) bad("it-postincrement", vh::cat("at ", i)); } }
            { it_t t; t = bi; it_t u(b); using std::swap; swap(t, u); ++n_checks; if (!(u == bi) || !(t == b) || (u - t) != i) bad("it-assign-swap", vh::cat("default-constructed iterator assigned begin+", i, " then swapped with begin")); }
            for (long j = 0; j <= n; ++j) {
                it_t bj = b + j;
                ++n_checks;
                if (!((bi + (j - i)) == bj)) bad("it-add-assoc", vh::cat("(begin+", i, ")+(", j - i, ") != begin+", j));
                if ((bj - bi) != j - i) bad("it-difference", vh::cat("(begin+", j, ")-(begin+", i, ") = ", (long)(bj - bi)));
                if ((bi < bj) != (i < j) || (bi <= bj) != (i <= j) || (bi > bj) != (i > j) || (bi >= bj) != (i >= j) || (bi == bj) != (i == j) || (bi != bj) != (i != j))
                    bad("it-order", vh::cat("comparison of begin+", i, " and begin+", j, " inconsistent with their distance"));
                { it_t t = bi; t += (j - i); if (!(t == bj)) bad("it-plus-assign", vh::cat("(begin+", i, ")+=", j - i)); t -= (j - i); if (!(t == bi)) bad("it-minus-assign", vh::cat("i=", i, " j=", j)); }
                if (j < n) same(bi[j - i], j % w, j / w, "it-index");
            }
        }
        // ---- conversions mutable -> const of iterators and locators keep the position
        {
            typedef typename W::const_t CW;
            CW cv(v);
            typename CW::iterator cb = cv.begin();
            for (long i = 0; i <= n; ++i) {
                typename CW::iterator ci(b + i);               // converting constructor
                ++n_checks;
                if (!(ci == cb + i)) bad("const-it-conversion-equal", vh::cat("const_iterator(begin+", i, ") != const_view.begin()+", i));
                if ((ci - cb) != i) bad("const-it-conversion-distance", vh::cat("const_iterator(begin+", i, ") - cbegin = ", (long)(ci - cb)));
                if ((cv.end() - ci) != n - i) bad("const-it-conversion-to-end", vh::cat("cend - const_iterator(begin+", i, ") = ", (long)(cv.end() - ci)));
                if (i < n) same(*ci, i % w, i / w, "const-it-conversion-deref");
                if (i > 0) { typename CW::iterator t = ci; --t; if (!(t == cb + (i - 1))) bad("const-it-conversion-decrement", vh::cat("--const_iterator(begin+", i, ")")); }
            }
            for (long y = 0; y < h; ++y)
                for (long x = 0; x < w; ++x) {
                    { loc_t l; l = v.xy_at(x, y); loc_t l0 = v.xy_at(0, 0); using std::swap; swap(l, l0); same(*l0, x, y, "locator-assign-swap"); same(*l, 0, 0, "locator-assign-swap");
                      xit_t xi; xi = v.x_at(x, y); xit_t x0 = v.row_begin(y); swap(xi, x0); same(*x0, x, y, "x-assign-swap"); if ((x0 - xi) != x) bad("x-assign-swap", vh::cat("(", x, ",", y, ")"));
                      yit_t yi; yi = v.y_at(x, y); yit_t y0 = v.col_begin(x); swap(yi, y0); same(*y0, x, y, "y-assign-swap"); if ((y0 - yi) != y) bad("y-assign-swap", vh::cat("(", x, ",", y, ")")); }
                    typename CW::xy_locator cl(v.xy_at(x, y));
                    same(*cl, x, y, "const-locator-conversion");
                    if (!(cl == cv.xy_at(x, y))) bad("const-locator-conversion-equal", vh::cat("(", x, ",", y, ")"));
                    typename CW::x_iterator cx(v.x_at(x, y));
                    same(*cx, x, y, "const-x-iterator-conversion");
                    if ((cx - cv.row_begin(y)) != x) bad("const-x-iterator-conversion-distance", vh::cat("(", x, ",", y, ")"));
                    typename CW::y_iterator cy(v.y_at(x, y));
                    same(*cy, x, y, "const-y-iterator-conversion");
                    if ((cy - cv.col_begin(x)) != y) bad("const-y-iterator-conversion-distance", vh::cat("(", x, ",", y, ")"));
                }
        }
        // reverse iterator round trip
        for (long i = 0; i <= n; ++i) {
            typename W::reverse_iterator ri = v.rbegin() + i;
            ++n_checks;
            if (!(ri.base() == v.end() - i)) bad("reverse-base", vh::cat("(rbegin+", i, ").base() != end-", i));
            if ((v.rend() - ri) != n - i) bad("reverse-distance", vh::cat("rend-(rbegin+", i, ")"));
        }
        // ---- x iterators within each row (incl. negative steps), all pairs a,b in [0..w]
        for (long y = 0; y < h; ++y) {
            xit_t r0 = v.row_begin(y);
            ++n_checks;
            if ((v.row_end(y) - r0) != w) bad("row-length", vh::cat("row_end(", y, ")-row_begin = ", (long)(v.row_end(y) - r0)));
            for (long a = 0; a <= w; ++a) {
                xit_t ra = r0 + a;
                { xit_t t = ra; if (a < w) { ++t; --t; if (!(t == ra)) bad("x-inc-dec", vh::cat("row ", y, " at ", a)); } }
                for (long c = 0; c <= w; ++c) {
                    xit_t rc = r0 + c;
                    ++n_checks;
                    if (!((ra + (c - a)) == rc)) bad("x-add-assoc", vh::cat("row ", y, ": (begin+", a, ")+(", c - a, ") != begin+", c));
                    if ((rc - ra) != c - a) bad("x-difference", vh::cat("row ", y, ": (begin+", c, ")-(begin+", a, ") = ", (long)(rc - ra)));
                    if ((ra < rc) != (a < c) || (ra <= rc) != (a <= c) || (ra > rc) != (a > c) || (ra >= rc) != (a >= c) || (ra == rc) != (a == c))
                        bad("x-order", vh::cat("row ", y, ": comparison of begin+", a, " and begin+", c));
                    { xit_t t = ra; t += (c - a); if (!(t == rc)) bad("x-plus-assign", vh::cat("row ", y)); t -= (c - a); if (!(t == ra)) bad("x-minus-assign", vh::cat("row ", y)); }
                    if (c < w) same(ra[c - a], c, y, "x-index");
                }
            }
        }
        // ---- y iterators within each column
        for (long x = 0; x < w; ++x) {
            yit_t c0 = v.col_begin(x);
            ++n_checks;
            if ((v.col_end(x) - c0) != h) bad("col-length", vh::cat("col_end(", x, ")-col_begin = ", (long)(v.col_end(x) - c0)));
            for (long a = 0; a <= h; ++a) {
                yit_t ca = c0 + a;
                { yit_t t = ca; if (a < h) { ++t; --t; if (!(t == ca)) bad("y-inc-dec", vh::cat("col ", x, " at ", a)); } }
                for (long c = 0; c <= h; ++c) {
                    yit_t cc = c0 + c;
                    ++n_checks;
                    if (!((ca + (c - a)) == cc)) bad("y-add-assoc", vh::cat("col ", x, ": (begin+", a, ")+(", c - a, ")"));
                    if ((cc - ca) != c - a) bad("y-difference", vh::cat("col ", x, ": (begin+", c, ")-(begin+", a, ") = ", (long)(cc - ca)));
                    if ((ca < cc) != (a < c) || (ca <= cc) != (a <= c) || (ca > cc) != (a > c) || (ca >= cc) != (a >= c) || (ca == cc) != (a == c))
                        bad("y-order", vh::cat("col ", x, ": comparison of begin+", a, " and begin+", c));
                    if (c < h) same(ca[c - a], x, c, "y-index");
                }
            }
        }
        // ---- is_1d_traversable() == true  =>  stepping past a row end lands on the next row
        if (v.is_1d_traversable()) {
            vh::obs("1d-traversable");
            for (long y = 0; y + 1 < h; ++y) {
                ++n_checks;
                if (!((v.row_begin(y) + w) == v.row_begin(y + 1))) bad("1d-traversable", vh::cat("row_begin(", y, ")+w != row_begin(", y + 1, ")"));
                same(*(v.row_begin(y) + w), 0, y + 1, "1d-traversable-deref");
                same(v.row_begin(0)[(y + 1) * w + (w - 1)], w - 1, y + 1, "1d-traversable-index");
            }
        } else vh::obs("not-1d-traversable");
        // ---- seeded locator walks against a shadow position
        for (int walk = 0; walk < 4; ++walk) {
            long sx = (long)r.below((uint64_t)w), sy = (long)r.below((uint64_t)h);
            loc_t loc = v.xy_at(sx, sy);
            for (int s = 0; s < walk_len; ++s) {
                long tx = (long)r.below((uint64_t)w), ty = (long)r.below((uint64_t)h);
                switch (r.below(9)) {
                case 0: loc += point_t(tx - sx, ty - sy); sx = tx; sy = ty; break;
                case 1: loc -= point_t(sx - tx, sy - ty); sx = tx; sy = ty; break;
                case 2: if (sx + 1 < w) { ++loc.x(); ++sx; } break;
                case 3: if (sx > 0) { --loc.x(); --sx; } break;
                case 4: loc.x() += (tx - sx); sx = tx; break;
                case 5: loc.y() -= (sy - ty); sy = ty; break;
                case 6: if (sy + 1 < h) { ++loc.y(); ++sy; } break;
                case 7: if (sy > 0) { --loc.y(); --sy; } break;
                default: loc = loc.xy_at(tx - sx, ty - sy); sx = tx; sy = ty; break;
                }
                same(*loc, sx, sy, "locator-walk");
                same(*loc.x(), sx, sy, "locator-walk-x");
                same(*loc.y(), sx, sy, "locator-walk-y");
            }
        }
    }
};

// ---- dereference-adaptor views over a view d whose red channel is unique per pixel:
// colour-converting view with a stateful converter, channel views of it (run-time index != 0 and
// compile-time), and transformations applied on top of the adaptor (step iterators over adaptors).
// Every navigation path must yield the value computed from the source pixel by THIS converter.
template <class CV, class D> void deref_run(CV const& cv, D const& d, std::string const& word, vh::rng& r, int walk_len, int off, int first_ch, bool flip_lr, long sx_step, long sy_step) {
    nav<CV, val_id> n(cv, val_id(), word);
    n.run(r, walk_len);
    for (long y = 0; y < cv.height(); ++y)
        for (long x = 0; x < cv.width(); ++x) {
            long dx = flip_lr ? d.width() - 1 - x * sx_step : x * sx_step, dy = y * sy_step;
            long code = (long)gil::get_color(d(dx, dy), gil::red_t());
            pt::pixid got = val_id()(cv(x, y));
            ++n_checks;
            for (int c = 0; c < got.n; ++c)
                if ((long)got.bitpos[c] != (code_cc::want(code, first_ch + c, off) & 0xFFFF)) { n.bad("deref-value", vh::cat("(", x, ",", y, ") channel ", c, " reads ", (long)got.bitpos[c], " expected ", code_cc::want(code, first_ch + c, off) & 0xFFFF)); return; }
        }
}
template <class D> void deref_views(D const& d, std::string const& word, vh::rng& r, int walk_len) {
    int off = 100 + (int)(d.width() * 3 + d.height());
    auto ccv = gil::color_converted_view<gil::rgb32_pixel_t>(d, code_cc(off));   // a pixel type no source has: a same-type "conversion" returns the source view
    deref_run(ccv, d, word + ".ccv", r, walk_len, off, 0, false, 1, 1);
    deref_run(gil::nth_channel_view(ccv, 2), d, word + ".ccv.nth2", r, walk_len, off, 2, false, 1, 1);
    deref_run(gil::kth_channel_view<1>(ccv), d, word + ".ccv.kth1", r, walk_len, off, 1, false, 1, 1);
    deref_run(gil::flipped_left_right_view(ccv), d, word + ".ccv.flipLR", r, walk_len, off, 0, true, 1, 1);
    deref_run(gil::subsampled_view(gil::nth_channel_view(ccv, 1), 2, 3), d, word + ".ccv.nth1.subsampled23", r, walk_len, off, 1, false, 2, 3);
}

#if ORG < 100
typedef org<ORG, led::alloc<unsigned char>>::image_t image_t;
typedef image_t::view_t view_t;

struct visitor {
    vh::rng& r; int walk_len;
    visitor(vh::rng& r_, int wl) : r(r_), walk_len(wl) {}
    template <class W> void operator()(W const& d, mapping const& m) {
        nav<W, mem_id> n(d, mem_id(), m.word());
        n.run(r, walk_len);
        channel(d, m, std::integral_constant<bool, ((ORG >= 1 && ORG <= 11 && ORG != 6) || ORG == 25 || ORG == 26)>());
        deref(d, m, std::integral_constant<bool, (ORG == 1 || ORG == 2 || ORG == 9)>());
    }
    template <class W> void deref(W const& d, mapping const& m, std::true_type) { if (m.steps.size() <= 1) { vh::obs("deref-adaptor-views"); deref_views(d, m.word(), r, walk_len); } }
    template <class W> void deref(W const&, mapping const&, std::false_type) {}
    template <class W> void channel(W const& d, mapping const& m, std::true_type) {
        auto cv = gil::nth_channel_view(d, (int)(m.steps.size() % pt::nch<typename W::value_type>::value));
        nav<decltype(cv), mem_id> n(cv, mem_id(), m.word() + ".nth_channel");
        n.run(r, walk_len);
    }
    template <class W> void channel(W const&, mapping const&, std::false_type) {}
};

template <class V> void fill_codes(V const& v, std::true_type) {
    for (long y = 0; y < v.height(); ++y) for (long x = 0; x < v.width(); ++x) {
        gil::get_color(v(x, y), gil::red_t()) = (uint8_t)(y * 16 + x + 1);
        gil::get_color(v(x, y), gil::green_t()) = (uint8_t)(255 - (y * 16 + x));
        gil::get_color(v(x, y), gil::blue_t()) = 7;
    }
}
template <class V> void fill_codes(V const&, std::false_type) {}

int main(int argc, char** argv) {
    vh::init(argc, argv);
    g_org = org<ORG, led::alloc<unsigned char>>::name();
    const int N = vh::thorough() ? 12 : 7;
    static const size_t aligns[] = {0, 4, 16};
    for (long h = 0; h <= N; ++h)
        for (long w = 0; w <= N; ++w) {
            size_t al = aligns[(w + h) % 3];
            if (!vh::begin_case(g_org, vh::cat(w, "x", h, "a", al))) continue;
            vh::sample(vh::cat(g_org, " ", w, "x", h, " align ", al, ": base view + every depth-1 transformation (+nth_channel): all navigation expressions vs view(x,y); iterator laws for all pairs (i,j)"));
            n_checks = 0; n_views = 0;
            {
                image_t img(w, h, al);
                view_t v = gil::view(img);
                fill_codes(v, std::integral_constant<bool, (ORG == 1 || ORG == 2 || ORG == 9)>());
                vh::rng r = vh::case_rng();
                visitor vis(r, vh::thorough() ? 64 : 16);
                int depth = (vh::thorough() && w * h <= 36) ? 2 : 1;
                for_each_word(v, depth, vis);
                // default-constructed views
                view_t dv; nav<view_t, mem_id> nd(dv, mem_id(), "default"); nd.run(r, 0);
                typedef dyn<view_t>::type DV; DV ddv; nav<DV, mem_id> ndd(ddv, mem_id(), "default-dyn"); ndd.run(r, 0);
            }
            for (auto& a : led::L().anomalies) vh::viol(key("ledger"), a);
            led::L().anomalies.clear();
            vh::evals(n_checks); vh::distinct(n_views);
            vh::count("views", n_views);
        }
    return vh::finish();
}
#else
// ---- virtual locator: identity is the coordinate pair the functor receives
struct coord_fn {
    typedef gil::point_t point_t;
    typedef coord_fn const_t;
    typedef gil::rgb16_pixel_t value_type;
    typedef value_type reference;
    typedef value_type const_reference;
    typedef point_t argument_type;
    typedef reference result_type;
    static constexpr bool is_mutable = false;
    result_type operator()(point_t const& p) const { return value_type((uint16_t)(p.y * 64 + p.x + 1), (uint16_t)(p.x + 1000), (uint16_t)(p.y + 2000)); }
};
struct virt_id { pt::pixid operator()(gil::rgb16_pixel_t const& p) const { pt::pixid o; o.n = 2; o.bitpos[0] = p[1]; o.bitpos[1] = p[2]; return o; } };
typedef gil::virtual_2d_locator<coord_fn, false> vloc_t;
typedef gil::image_view<vloc_t> vview_t;
template <class W> void vrun(W const& v, std::string const& word, vh::rng& r) { nav<W, virt_id> n(v, virt_id(), word); n.run(r, 16); vh::obs("deref-adaptor-views"); deref_views(v, word, r, 8); }

int main(int argc, char** argv) {
    vh::init(argc, argv);
    g_org = "virtual";
    const int N = vh::thorough() ? 12 : 7;
    for (long h = 0; h <= N; ++h)
        for (long w = 0; w <= N; ++w) {
            if (!vh::begin_case("virtual", vh::cat(w, "x", h))) continue;
            n_checks = 0; n_views = 0;
            vh::rng r = vh::case_rng();
            vview_t v(gil::point_t(w, h), vloc_t(gil::point_t(0, 0), gil::point_t(1, 1), coord_fn()));
            vrun(v, "id", r);
            vrun(gil::flipped_up_down_view(v), "flipUD", r);
            vrun(gil::flipped_left_right_view(v), "flipLR", r);
            vrun(gil::transposed_view(v), "transposed", r);
            vrun(gil::rotated90cw_view(v), "rot90cw", r);
            vrun(gil::rotated180_view(v), "rot180", r);
            vrun(gil::subsampled_view(v, 2, 3), "subsampled23", r);
            vrun(gil::flipped_up_down_view(gil::transposed_view(v)), "transposed.flipUD", r);
            vrun(gil::subsampled_view(gil::rotated90ccw_view(v), 2, 1), "rot90ccw.subsampled21", r);
            vh::evals(n_checks); vh::distinct(n_views); vh::count("views", n_views);
        }
    return vh::finish();
}
#endif
