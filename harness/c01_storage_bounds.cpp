// C01 -- pixel access through images and views never leaves the image's storage.
// Oracle: no sanitizer report / guard-page fault / libstdc++ assertion while every in-range pixel of
// an image (created by every path) and of every derived view is read and written through every
// accessor and pixel algorithm; allocator ledger consistent.
//   asan build  : ledger allocator over malloc -> ASan red zones, byte-exact at the block ends
//   native build: ledger allocator over guard pages, payload flush against the trailing page
//                 (--backing 1) or the leading page (--backing 2)
// The same for views over caller-supplied buffers of exactly height x row-bytes.
#include <boost/gil.hpp>
#include "common/vh.hpp"
#include "common/ledger.hpp"
#include "common/views.hpp"

#ifndef ORG
#define ORG 1
#endif
namespace gil = boost::gil;
using namespace vw;

typedef led::alloc<unsigned char> alloc_t;
typedef org<ORG, alloc_t>::image_t image_t;
typedef image_t::view_t view_t;
typedef image_t::value_type value_t;
static const bool is_planar_org = (ORG >= 9 && ORG <= 11) || ORG == 25 || ORG == 26;
// weakest address alignment a conforming byte allocator may return for this organisation's pixels:
// byte-addressed data (8-bit channels, packed-in-u8, bit-aligned) 1, otherwise the channel/bit-field alignment
template <bool Planar, class V> struct elem_align { static const size_t value = alignof(typename V::value_type); };
template <class V> struct elem_align<true, V> { static const size_t value = alignof(typename gil::channel_type<V>::type); };
static const size_t ELEM_ALIGN = (ORG >= 16 && ORG <= 24) ? 1 : elem_align<is_planar_org, view_t>::value;
static std::string g_org;
static uint64_t n_touch = 0, n_views = 0;
static uint64_t g_sink = 0;

static inline std::string key(const char* what) { return vh::cat(what, ".", g_org); }

struct touch_fn {      // for_each_pixel / transform functor: reads and rewrites the pixel
    template <class R> void operator()(R const& r) const { pt::pixval v = pt::get_pix(r); g_sink += v.ch[0]; }
};
struct rw_fn { template <class R> void operator()(R&& r) const { pt::pixval v = pt::get_pix(r); g_sink += v.ch[0]; pt::set_pix(r, v); } };

template <class R> static inline void rw(R&& r) { pt::pixval v = pt::get_pix(r); g_sink += v.ch[0]; pt::set_pix(r, v); ++n_touch; }
template <class R> static inline void rwl(R& r) { pt::pixval v = pt::get_pix(r); g_sink += v.ch[0]; pt::set_pix(r, v); ++n_touch; }

// Every accessor, every in-range position: read the pixel and write it back.
template <class W> void touch_all(W const& v) {
    typedef typename W::point_t point_t;
    const long w = v.width(), h = v.height(), n = w * h;
    ++n_views;
    if (n == 0) { g_sink += (v.begin() == v.end()); return; }
    for (long y = 0; y < h; ++y) for (long x = 0; x < w; ++x) rw(v(x, y));
    for (long y = 0; y < h; ++y) for (typename W::x_iterator it = v.row_begin(y); it != v.row_end(y); ++it) rw(*it);
    for (long y = 0; y < h; ++y) { typename W::x_iterator it = v.row_begin(y); for (long x = 0; x < w; ++x) rw(it[x]); }
    for (long x = 0; x < w; ++x) for (typename W::y_iterator it = v.col_begin(x); it != v.col_end(x); ++it) rw(*it);
    for (long x = 0; x < w; ++x) { typename W::y_iterator it = v.col_begin(x); for (long y = 0; y < h; ++y) rw(it[y]); }
    for (typename W::iterator it = v.begin(); it != v.end(); ++it) rw(*it);
    for (typename W::reverse_iterator it = v.rbegin(); it != v.rend(); ++it) rw(*it);
    { typename W::iterator e = v.end(); while (e != v.begin()) { --e; rw(*e); } }
    for (long i = 0; i < n; ++i) { rw(*v.at(i)); rw(v[i]); rw(v.begin()[i]); }
    for (long y = 0; y < h; ++y) for (long x = 0; x < w; ++x) { rw(*v.at(x, y)); rw(*v.xy_at(x, y)); rw(*v.x_at(x, y)); rw(*v.y_at(x, y)); }
    // locator walk from the centre, relative and cached access
    {
        long cx = w / 2, cy = h / 2;
        typename W::xy_locator loc = v.xy_at(cx, cy);
        for (long y = 0; y < h; ++y) for (long x = 0; x < w; ++x) {
            rw(loc(x - cx, y - cy));
            rw(loc[loc.cache_location(x - cx, y - cy)]);
            rw(*loc.xy_at(x - cx, y - cy));
        }
        typename W::xy_locator l2 = v.xy_at(0, 0);
        for (long y = 0; y < h; ++y) {
            for (long x = 0; x < w; ++x) { rw(*l2); if (x + 1 < w) ++l2.x(); }
            l2 += point_t(-(w - 1), 0);
            if (y + 1 < h) ++l2.y();
        }
    }
    rw(v.front()); rw(v.back());
    // backward and mixed random-access jumps that land on every pixel (1-D, x and y iterators, locators)
    {
        typename W::iterator b = v.begin(), e = v.end();
        for (long i = 0; i < n; ++i) {
            rw(*(e - (n - i)));
            rw(e[-(n - i)]);
            { typename W::iterator t = e; t -= (n - i); rw(*t); }
            long j = (i * 7 + 3) % n;                      // from another in-range position, either direction
            rw((b + j)[i - j]);
            { typename W::iterator t = b + j; t += (i - j); rw(*t); }
            rw(v.rbegin()[n - 1 - i]);
        }
        for (long y = 0; y < h; ++y) for (long x = 0; x < w; ++x) {
            rw(*(v.row_end(y) - (w - x)));
            rw(v.row_end(y)[-(w - x)]);
            rw(*(v.col_end(x) - (h - y)));
            rw(v.col_end(x)[-(h - y)]);
            typename W::xy_locator last = v.xy_at(w - 1, h - 1);
            rw(last(x - (w - 1), y - (h - 1)));
            rw(*(last - point_t((w - 1) - x, (h - 1) - y)));
        }
    }
}
// the std algorithms GIL overloads for its 1-D iterators, on ranges that start and end in the middle of a row
template <class W> void range_algorithms(W const& v) {
    typedef typename W::value_type val_t;
    const long n = (long)v.size();
    if (n < 2) return;
    val_t px; pt::set_pix(px, pt::pattern_pix(vh::seed(), 9, 3, 1, pt::nch<val_t>::value));
    std::vector<val_t> buf((size_t)n, px);
    const long w = v.width();
    const long starts[] = {0, 1, w / 2, w - 1, w, w + 1};
    for (long a : starts) {
        if (a < 0 || a >= n) continue;
        const long ends[] = {n, n - 1, a + 1, a + w, a + w + 1, n - w / 2};
        for (long e : ends) {
            if (e <= a || e > n) continue;
            std::fill(v.begin() + a, v.begin() + e, px);
            std::copy(v.begin() + a, v.begin() + e, buf.begin());
            std::copy(buf.begin(), buf.begin() + (e - a), v.begin() + a);
            g_sink += std::equal(v.begin() + a, v.begin() + e, buf.begin());
            std::for_each(v.begin() + a, v.begin() + e, rw_fn());
            n_touch += 5 * (uint64_t)(e - a);
        }
    }
}

// pixel algorithms over the view, with a plain interleaved twin image of the view's value type
template <class W> void algorithms(W const& v) {
    typedef typename W::value_type val_t;
    gil::image<val_t, false> twin(v.dimensions());
    val_t px; pt::set_pix(px, pt::pattern_pix(vh::seed(), 7, 1, 2, pt::nch<val_t>::value));
    gil::fill_pixels(gil::view(twin), px);
    gil::fill_pixels(v, px);
    gil::copy_pixels(v, gil::view(twin));
    gil::copy_pixels(gil::const_view(twin), v);
    g_sink += gil::equal_pixels(v, gil::const_view(twin));
    g_sink += gil::equal_pixels(gil::const_view(twin), v);
    gil::for_each_pixel(v, rw_fn());
    struct gen { val_t p; val_t operator()() const { return p; } } g = {px};
    gil::generate_pixels(v, g);
    struct idf { val_t operator()(val_t const& a) const { return a; } };
    struct idf2 { val_t operator()(val_t const& a, val_t const&) const { return a; } };
    gil::transform_pixels(v, gil::view(twin), idf());
    gil::transform_pixels(gil::const_view(twin), v, idf());
    gil::transform_pixels(v, gil::const_view(twin), v, idf2());
    n_touch += 10 * (uint64_t)v.size();
}
// equal_pixels between two views of the very same type (memcmp fast paths)
template <class W> void self_equal(W const& v) { g_sink += gil::equal_pixels(v, v); gil::copy_pixels(v, v); }

struct visitor {
    bool algos;
    template <class W> void operator()(W const& d, mapping const& m) {
        touch_all(d);
        if (algos || m.steps.size() <= 1) { algorithms(d); self_equal(d); range_algorithms(d); }
        channel(d, m, std::integral_constant<bool, (ORG <= 11 || ORG >= 25)>());
    }
    template <class W> void channel(W const& d, mapping const& m, std::true_type) {
        int k = (int)((m.steps.size() + m.w) % pt::nch<typename W::value_type>::value);
        auto cv = gil::nth_channel_view(d, k);
        touch_all(cv);
        if (m.steps.size() <= 1) algorithms(cv);
    }
    template <class W> void channel(W const&, mapping const&, std::false_type) {}
};

static void check_ledger(const char* where, bool expect_empty) {
    for (auto& a : led::L().anomalies) vh::viol(key("ledger"), vh::cat(where, ": ", a));
    led::L().anomalies.clear();
    if (expect_empty && !led::L().live.empty()) { vh::viol(key("leak"), vh::cat(where, ": ", led::L().live.size(), " block(s) still live")); for (auto& kv : std::map<void*, led::rec>(led::L().live)) led::do_deallocate(kv.first, kv.second.bytes, kv.second.resource); led::L().anomalies.clear(); }
    if (led::L().live.size() > 4) vh::viol(key("blocks"), vh::cat(where, ": more live blocks than images"));
}

// the "Pixel" parameter of image<>: the value type, except for bit-aligned images where it is the reference proxy
typedef std::conditional<(ORG >= 16 && ORG <= 24), view_t::reference, value_t>::type fill_t;
static value_t g_fill_storage;
static fill_t fill_value() { pt::set_pix(g_fill_storage, pt::pattern_pix(vh::seed(), 3, 5, 6, pt::nch<value_t>::value)); return fill_t(g_fill_storage); }

static const char* path_name(int p) {
    static const char* n[] = {"ctor", "ctor-fill", "copy-ctor", "assign-other-size", "recreate-grow", "recreate-shrink", "recreate-realign", "recreate-fill", "ctor-from-view", "move", "swap", "assign-same-size",
                              "ctor-from-subview", "ctor-from-padded-view", "ctor-from-stepped-view", "converting-ctor", "converting-assign"};
    return n[p];
}
static const int NPATHS = 17;
// the same pixel type in the other planarity (homogeneous organisations) - or the same image type
typedef std::conditional<((ORG >= 1 && ORG <= 11 && ORG != 6) || ORG >= 25), gil::image<value_t, !is_planar_org, alloc_t>, image_t>::type other_image_t;   // (no planar form of a one-channel pixel)

// a w x h source view with non-unit steps; constructing a planar image from a stepped planar view does not
// instantiate upstream (uninitialized_copy_pixels needs plain planar iterators), so planar organisations
// use a padded sub-view of a wider image instead
template <class V> static auto stepped_source(V const& v, long, long, std::false_type) -> decltype(gil::flipped_left_right_view(gil::subsampled_view(v, 2, 3))) { return gil::flipped_left_right_view(gil::subsampled_view(v, 2, 3)); }
template <class V> static V stepped_source(V const& v, long w, long h, std::true_type) { return gil::subimage_view(v, w / 2, h, w, h); }
static void run_case(long w, long h, size_t al, int path, int depth) {
    {
        image_t img;
        switch (path) {
        case 0: { image_t t(w, h, al); img.swap(t); break; }
        case 1: { image_t t(w, h, fill_value(), al); img.swap(t); break; }
        case 2: { image_t t(w, h, al); pt::fill_pattern(gil::view(t), vh::seed(), 1); image_t c(t); img.swap(c); break; }
        case 3: { image_t t(w, h, al); image_t o((w + 2) % 5, (h + 1) % 4, 0); o = t; img.swap(o); break; }
        case 4: { image_t t(w / 2, h / 2, 0); t.recreate(w, h, al); img.swap(t); break; }
        case 5: { image_t t(w + 3, h + 2, al); t.recreate(w, h, al); img.swap(t); break; }
        case 6: { image_t t(w, h, al == 0 ? 16 : 0); t.recreate(w, h, al); img.swap(t); break; }
        case 7: { image_t t(w + 1, h, 2); t.recreate(gil::point_t(w, h), fill_value(), al); img.swap(t); break; }
        case 8: { image_t t(w, h, 0); image_t c(gil::view(t), al); img.swap(c); break; }
        case 9: { image_t t(w, h, al); image_t c(std::move(t)); image_t d2; d2 = std::move(c); img.swap(d2); break; }
        case 10: { image_t t(w, h, al); image_t o(1, 1); swap(t, o); img.swap(o); break; }
        case 11: { image_t t(w, h, al); image_t o(w, h, al == 4 ? 0 : 4); pt::fill_pattern(gil::view(t), vh::seed(), 2); o = t; img.swap(o); break; }
        // images constructed from views that are not one contiguous run of pixels
        case 12: { image_t t(w + 3, h + 2, 0); image_t c(gil::subimage_view(gil::view(t), 2, 1, w, h), al); img.swap(c); break; }
        case 13: { image_t t(w, h, al == 16 ? 32 : 16); image_t c(gil::view(t), al); img.swap(c); break; }
        case 14: { image_t t(2 * w, 3 * h, 2); image_t c(stepped_source(gil::view(t), w, h, std::integral_constant<bool, is_planar_org>()), al); img.swap(c); break; }
        // from an image of the other planarity, with a different row alignment on either side
        case 15: { other_image_t t(w, h, al == 0 ? 8 : 0); image_t c(t); image_t d2(w, h, al); d2 = c; img.swap(d2); break; }
        default: { other_image_t t(w, h, 4); image_t c(w, h, al); c = t; img.swap(c); break; }
        }
        if (img.width() != w || img.height() != h) {
            // F24-style dimension loss for degenerate shapes is C10's subject; here only touch what exists
            if (w != 0 && h != 0) vh::viol(key("dims"), vh::cat(path_name(path), " requested ", w, "x", h, " got ", img.width(), "x", img.height()));
        }
        view_t v = gil::view(img);
        visitor vis; vis.algos = (w * h <= 36);
        for_each_word(v, depth, vis);
        // const view reads
        { auto cv = gil::const_view(img); for (long y = 0; y < cv.height(); ++y) for (long x = 0; x < cv.width(); ++x) g_sink += pt::get_pix(cv(x, y)).ch[0]; }
        check_ledger(path_name(path), false);
    }
    check_ledger(path_name(path), true);
}

// ---- views over caller-supplied buffers of exactly height x row-bytes --------------------
// (templates on the view type so that only the kind matching ORG is instantiated)
template <int Kind> struct raw;     // 0 interleaved/packed, 1 planar, 2 bit-aligned
template <> struct raw<0> {   // x_iterator is a pixel pointer
    template <class V> static void run(long w, long h, int depth, gb::side_t side, bool use_guard) {
        typedef typename V::x_iterator xit;
        typedef typename V::value_type val_t;
        size_t rowbytes = (size_t)w * sizeof(val_t);
        size_t bytes = rowbytes * (size_t)h;
        unsigned char* buf = use_guard ? (unsigned char*)gb::guard_alloc(bytes, side) : (unsigned char*)malloc(bytes ? bytes : 1);
        memset(buf, 0x5A, bytes);
        // both overloads: (width, height, ...) and (point, ...)
        V v = ((w + h) & 1) ? gil::interleaved_view(gil::point<std::ptrdiff_t>(w, h), (xit)(void*)buf, (std::ptrdiff_t)rowbytes)
                            : gil::interleaved_view((std::size_t)w, (std::size_t)h, (xit)(void*)buf, (std::ptrdiff_t)rowbytes);
        visitor vis; vis.algos = (w * h <= 36);
        for_each_word(v, depth, vis);
        if (use_guard) gb::guard_free(buf); else free(buf);
    }
};
template <> struct raw<1> {    // planar rgb8 / rgba16 / cmyk32f
    template <class V> static void run(long w, long h, int depth, gb::side_t side, bool use_guard) {
        typedef typename gil::channel_type<V>::type ch_t;
        const int nc = gil::num_channels<V>::value;
        size_t rowbytes = (size_t)w * sizeof(ch_t);
        size_t bytes = rowbytes * (size_t)h;
        unsigned char* b[4];
        for (int c = 0; c < nc; ++c) { b[c] = use_guard ? (unsigned char*)gb::guard_alloc(bytes, side) : (unsigned char*)malloc(bytes ? bytes : 1); memset(b[c], 0x5A, bytes); }
        V v = make<V>(w, h, b, (std::ptrdiff_t)rowbytes, std::integral_constant<int, gil::num_channels<V>::value>(), typename gil::color_space_type<V>::type());
        visitor vis; vis.algos = (w * h <= 36);
        for_each_word(v, depth, vis);
        for (int c = 0; c < nc; ++c) { if (use_guard) gb::guard_free(b[c]); else free(b[c]); }
    }
    template <class V, class CS> static V make(long w, long h, unsigned char** b, std::ptrdiff_t rb, std::integral_constant<int, 3>, CS) {
        typedef typename gil::channel_type<V>::type ch_t;
        return gil::planar_rgb_view(w, h, (ch_t*)b[0], (ch_t*)b[1], (ch_t*)b[2], rb);
    }
    template <class V> static V make(long w, long h, unsigned char** b, std::ptrdiff_t rb, std::integral_constant<int, 4>, gil::rgba_t) {
        typedef typename gil::channel_type<V>::type ch_t;
        return gil::planar_rgba_view(w, h, (ch_t*)b[0], (ch_t*)b[1], (ch_t*)b[2], (ch_t*)b[3], rb);
    }
    template <class V> static V make(long w, long h, unsigned char** b, std::ptrdiff_t rb, std::integral_constant<int, 4>, gil::cmyk_t) {
        typedef typename gil::channel_type<V>::type ch_t;
        return gil::planar_cmyk_view(w, h, (ch_t*)b[0], (ch_t*)b[1], (ch_t*)b[2], (ch_t*)b[3], rb);
    }
};
template <> struct raw<3> {   // planar devicen: planar_devicen_view does not instantiate upstream; no raw-buffer factory to exercise
    template <class V> static void run(long, long, int, gb::side_t, bool) {}
};
template <> struct raw<2> {   // bit-aligned view over a raw buffer of exactly h x ceil(w*bits/8) bytes
    template <class V> static void run(long w, long h, int depth, gb::side_t side, bool use_guard) {
        typedef typename V::x_iterator xit;
        typedef typename V::locator loc_t;
        const long bits = (long)gil::memunit_step(xit());       // bits per pixel
        size_t rowbytes = (size_t)((w * bits + 7) / 8);
        size_t bytes = rowbytes * (size_t)h;
        unsigned char* buf = use_guard ? (unsigned char*)gb::guard_alloc(bytes, side) : (unsigned char*)malloc(bytes ? bytes : 1);
        memset(buf, 0x5A, bytes);
        V v(gil::point_t(w, h), loc_t(xit(buf, 0), (std::ptrdiff_t)rowbytes * 8));
        visitor vis; vis.algos = (w * h <= 36);
        for_each_word(v, depth, vis);
        if (use_guard) gb::guard_free(buf); else free(buf);
    }
};

int main(int argc, char** argv) {
    vh::init(argc, argv);
    g_org = org<ORG, alloc_t>::name();
    long backing = vh::opt_long("backing", 0);     // 0 malloc (asan), 1 guard trailing, 2 guard leading
    led::L().backing = (int)backing;
    long misalign_opt = vh::opt_long("misalign", -1);
    const bool T = vh::thorough();
    static const long dimsq[] = {0, 1, 2, 3, 5, 8, 9, 16};
    static const long dimst[] = {0, 1, 2, 3, 4, 5, 7, 8, 9, 15, 16, 17, 31, 33};
    const long* dims = T ? dimst : dimsq; const int nd = T ? 14 : 8;
    static const size_t aligns[] = {0, 1, 2, 4, 8, 16, 32};
    for (int hi = 0; hi < nd; ++hi)
        for (int wi = 0; wi < nd; ++wi) {
            long w = dims[wi], h = dims[hi];
            for (int ai = 0; ai < 7; ++ai) {
                size_t al = aligns[ai];
                // every creation path for small shapes; a rotating subset for the larger ones
                for (int path = 0; path < NPATHS; ++path) {
                    bool small = (w * h <= 25);
                    if (!small && !T && (path != (wi + hi + ai) % NPATHS) && path != 0) continue;
                    if (!vh::begin_case(vh::cat(g_org, ".", path_name(path)), vh::cat(w, "x", h, "a", al))) continue;
                    vh::sample(vh::cat(g_org, " ", path_name(path), " ", w, "x", h, " align ", al, " backing ", backing, ": every accessor + algorithm on the image view and on every word of transformations"));
                    n_touch = 0; n_views = 0;
                    // malloc backing: every other case hands out blocks at the worst-case address 1 (mod 64)
                    led::L().misalign = (misalign_opt >= 0) ? (int)misalign_opt : (((wi + hi + ai + path) & 1) ? (int)ELEM_ALIGN : 0);
                    int depth = (w * h <= 25) ? (T ? 3 : 2) : (w * h <= 100 ? 1 : (path == 0 ? 1 : 0));
                    if (path != 0 && depth > 1) depth = 1;
                    run_case(w, h, al, path, depth);
                    vh::evals(n_touch); vh::distinct(n_views);
                }
            }
            // caller-supplied buffers of exactly h x row-bytes, guarded on both sides in turn
            for (int side = 0; side < 2; ++side) {
                if (!vh::begin_case(vh::cat(g_org, ".raw-buffer"), vh::cat(w, "x", h, side ? "-leading" : "-trailing"))) continue;
                n_touch = 0; n_views = 0;
                int depth = (w * h <= 25) ? 2 : (w * h <= 100 ? 1 : 0);
                raw<(ORG >= 25 ? 3 : (ORG >= 16 ? 2 : (is_planar_org ? 1 : 0)))>::run<view_t>(w, h, depth, side ? gb::LEADING : gb::TRAILING, backing != 0);
                vh::evals(n_touch); vh::distinct(n_views);
            }
        }
    if (g_sink == 0x123456789ull) printf("sink\n");
    return vh::finish();
}
