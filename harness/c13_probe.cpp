// C13 instantiation probes (built, never run): ways of reading that the public API offers but that do
// not compile.  A probe that fails to compile is reported as C13|uninstantiable|<probe>|<GIL header>.
#include <boost/gil.hpp>
#include <boost/gil/extension/io/bmp.hpp>
#include <sstream>
#include <cstdio>
namespace gil = boost::gil;
#if C13_PROBE == 0
// make_scanline_reader(Device&, tag): the overload for devices forwards to an overload that does not exist
int main() { std::stringstream ss; auto r = gil::make_scanline_reader(ss, gil::bmp_tag()); (void)r; }
#elif C13_PROBE == 1
int main() { FILE* f = tmpfile(); auto r = gil::make_scanline_reader(f, gil::bmp_tag()); (void)r; }
#elif C13_PROBE == 2
// control: the file-name overload compiles
int main() { auto r = gil::make_scanline_reader("x.bmp", gil::bmp_tag()); (void)r; }
#endif
