// C13 instantiation probes (built, never run): ways of reading that the public API offers but that do
// not compile.  A probe that fails to compile is reported as C13|uninstantiable|<probe>|<GIL header>.
#include <boost/gil.hpp>
#include <boost/gil/extension/io/bmp.hpp>
#include <sstream>
#include <cstdio>
namespace gil = boost::gil;
#if C13_PROBE == 0
// make_scanline_reader(Device&, tag): the overload for devices forwards to an overload that does not exist
int main() { std::stringstream ss; auto r = gil::make_scanline_reader(ss, gil::bmp_tag()); (void)r; }
#elif C13_PROBE == 1
int main() { FILE* f = tmpfile(); auto r = gil::make_scanline_reader(f, gil::bmp_tag()); (void)r; }
#elif C13_PROBE == 2
// control: the file-name overload compiles
int main() { auto r = gil::make_scanline_reader("x.bmp", gil::bmp_tag()); (void)r; }
#elif C13_PROBE == 3
// make_scanline_reader(filesystem::path, tag) forwards read settings to an overload that takes a format tag
int main() { gil::detail::filesystem::path p("x.bmp"); auto r = gil::make_scanline_reader(p, gil::bmp_tag()); (void)r; }
#elif C13_PROBE == 4
#include <boost/gil/extension/io/tiff.hpp>
int main() { std::wstring p(L"x.tif"); gil::rgb8_image_t im; gil::read_image(p, im, gil::tiff_tag()); }
#elif C13_PROBE == 5
#include <boost/gil/extension/io/tiff.hpp>
int main() { FILE* f = tmpfile(); gil::rgb8_image_t im; gil::read_image(f, im, gil::tiff_tag()); }
#elif C13_PROBE == 6
// control: a std::wstring name compiles for a non-TIFF format
int main() { std::wstring p(L"x.bmp"); gil::rgb8_image_t im; gil::read_image(p, im, gil::bmp_tag()); }
#endif
