// C13 (names) -- every way of *naming* the file x every kind of argument x every entry point.
// The overload sets of io/make_reader.hpp, make_backend.hpp, make_dynamic_image_reader.hpp,
// make_scanline_reader.hpp and read_*.hpp are written out once per name type (char const*, std::string,
// std::wstring, filesystem::path, FILE*, std::istream&, TIFF*) and per argument kind (format tag, read
// settings); each copy has to pass the caller's argument on.  Every (name, argument, entry point)
// combination that compiles is called with a non-default argument whose effect is observable (a
// sub-rectangle; plus a format option) and must give what the same call gives through a one-piece
// std::istringstream, whose result in turn must have exactly the requested region's dimensions.
// One TU per format (-DC13N_PART=0..5: bmp pnm targa png jpeg tiff).  Combinations that do not compile on
// the unchanged tree are switched off in `enabled<>` below and listed in propcfg/c13.py (probes).
#ifndef C13N_PART
#error "compile with -DC13N_PART=<k>"
#endif
#include <boost/gil.hpp>
#if C13N_PART == 0
#include <boost/gil/extension/io/bmp.hpp>
typedef boost::gil::bmp_tag tag_t; static const char* FMT = "bmp"; static const char* EXT = "bmp";
#elif C13N_PART == 1
#include <boost/gil/extension/io/pnm.hpp>
typedef boost::gil::pnm_tag tag_t; static const char* FMT = "pnm"; static const char* EXT = "pnm";
#elif C13N_PART == 2
#include <boost/gil/extension/io/targa.hpp>
typedef boost::gil::targa_tag tag_t; static const char* FMT = "targa"; static const char* EXT = "tga";
#elif C13N_PART == 3
#include <boost/gil/extension/io/png.hpp>
typedef boost::gil::png_tag tag_t; static const char* FMT = "png"; static const char* EXT = "png";
#elif C13N_PART == 4
#include <boost/gil/extension/io/jpeg.hpp>
typedef boost::gil::jpeg_tag tag_t; static const char* FMT = "jpeg"; static const char* EXT = "jpg";
#elif C13N_PART == 5
#include <boost/gil/extension/io/tiff.hpp>
typedef boost::gil::tiff_tag tag_t; static const char* FMT = "tiff"; static const char* EXT = "tif";
#define C13N_TIFF 1
#endif
#include <algorithm>
#include <fstream>
#include "c12_io_common.hpp"

namespace gil = boost::gil;
typedef gil::rgb8_image_t img_t;                 // the native type of every file of this harness
typedef gil::rgb16_image_t conv_t;               // conversion target
typedef gil::any_image<gil::gray8_image_t, gil::rgb8_image_t> any_t;
typedef gil::image_read_settings<tag_t> settings_t;

enum { N_CSTR, N_STRING, N_WSTRING, N_PATH, N_FILEPTR, N_ISTREAM, N_TIFFPTR, N_COUNT };
static const char* name_kind(int n) { static const char* s[] = { "char-const-ptr", "std-string", "std-wstring", "filesystem-path", "FILEptr", "istream", "TIFFptr" }; return s[n]; }
enum { A_TAG, A_DEFAULT, A_SUBRECT, A_OPTION, A_COUNT };
static const char* arg_kind(int a) { static const char* s[] = { "tag", "default-settings", "subrect-settings", "subrect+option-settings" }; return s[a]; }
enum { E_READ_IMAGE, E_READ_VIEW, E_CONVERT_IMAGE, E_CONVERT_VIEW, E_INFO, E_ANY, E_READER_OBJECT, E_SCANLINE, E_COUNT };
static const char* entry_kind(int e) { static const char* s[] = { "read_image", "read_view", "read_and_convert_image", "read_and_convert_view", "read_image_info", "any_image", "make_reader", "make_scanline_reader" }; return s[e]; }

#ifndef C13N_EXTRA_DISABLED
#define C13N_EXTRA_DISABLED
#endif
// ---- which combinations exist on the unchanged tree ---------------------------------------------
// (found by compiling; everything switched off here is named in the report / propcfg assumptions)
template <int N, int A, int E> struct enabled {
    static const bool tiff =
#ifdef C13N_TIFF
        true;
#else
        false;
#endif
    static const bool value =
        // TIFF has its own handle type and no FILE* device
        (N == N_TIFFPTR ? tiff : true) && !(tiff && N == N_FILEPTR)
        // scanline readers can only be made from names and only with a format tag (no settings overload);
        // the device overloads (F53) and the filesystem::path overload do not compile
        && (E != E_SCANLINE || (A == A_TAG && (N == N_CSTR || N == N_STRING || N == N_WSTRING)))
        C13N_EXTRA_DISABLED;
};

struct region_t { long x0, y0, dx, dy; };

// ---- the name objects -------------------------------------------------------------------------------
template <int N> struct name_src;
template <> struct name_src<N_CSTR> { std::string p; char const* c; explicit name_src(std::string const& path) : p(path), c(p.c_str()) {} char const* const& ref() { return c; } };
template <> struct name_src<N_STRING> { std::string p; explicit name_src(std::string const& path) : p(path) {} std::string const& ref() { return p; } };
template <> struct name_src<N_WSTRING> { std::wstring p; explicit name_src(std::string const& path) : p(path.begin(), path.end()) {} std::wstring const& ref() { return p; } };
template <> struct name_src<N_PATH> { gil::detail::filesystem::path p; explicit name_src(std::string const& path) : p(path) {} gil::detail::filesystem::path const& ref() { return p; } };
template <> struct name_src<N_FILEPTR> { FILE* f; explicit name_src(std::string const& path) : f(fopen(path.c_str(), "rb")) { if (!f) vh::fatal_monitor("harness", "fopen " + path); } FILE*& ref() { return f; } };   // GIL closes it
template <> struct name_src<N_ISTREAM> { std::ifstream in; explicit name_src(std::string const& path) : in(path.c_str(), std::ios::in | std::ios::binary) {} std::istream& ref() { return in; } };
#ifdef C13N_TIFF
template <> struct name_src<N_TIFFPTR> { TIFF* t; explicit name_src(std::string const& path) : t(TIFFOpen(path.c_str(), "r")) { if (!t) vh::fatal_monitor("harness", "TIFFOpen " + path); } TIFF*& ref() { return t; } };   // GIL closes it
#else
template <> struct name_src<N_TIFFPTR> { explicit name_src(std::string const&) {} int& ref() { static int i; return i; } };
#endif

// ---- the argument objects ----------------------------------------------------------------------------
static void set_option(settings_t& s) {
#if C13N_PART == 3
    s._apply_screen_gamma = true; s._screen_gamma = 2.2;
#elif C13N_PART == 4
    s._dct_method = gil::jpeg_dct_method::fast;
#else
    (void)s;
#endif
}
template <int A> struct arg_of { typedef settings_t type;
    static settings_t make(region_t const& q) {
        if (A == A_DEFAULT) return settings_t();
        settings_t s(gil::point_t(q.x0, q.y0), gil::point_t(q.dx, q.dy));
        if (A == A_OPTION) set_option(s);
        return s;
    } };
template <> struct arg_of<A_TAG> { typedef tag_t type; static tag_t make(region_t const&) { return tag_t(); } };

// ---- the entry points ----------------------------------------------------------------------------------
template <class I> static std::string digest(I const& im) { return vh::cat(im.width(), "x", im.height(), ":", cio::hash_view(gil::const_view(im))); }
struct any_digest { typedef void result_type; std::string* out; template <class Image> void operator()(Image const& im) { *out = digest(im); } };

template <int E> struct entry;
template <> struct entry<E_READ_IMAGE> { template <class S, class Ar> static std::string run(S& s, Ar const& a, region_t const&) { img_t B; gil::read_image(s, B, a); return digest(B); } };
template <> struct entry<E_READ_VIEW> { template <class S, class Ar> static std::string run(S& s, Ar const& a, region_t const& q) { img_t B(q.dx, q.dy); gil::read_view(s, gil::view(B), a); return digest(B); } };
template <> struct entry<E_CONVERT_IMAGE> { template <class S, class Ar> static std::string run(S& s, Ar const& a, region_t const&) { conv_t C; gil::read_and_convert_image(s, C, a); return digest(C); } };
template <> struct entry<E_CONVERT_VIEW> { template <class S, class Ar> static std::string run(S& s, Ar const& a, region_t const& q) { conv_t C(q.dx, q.dy); gil::read_and_convert_view(s, gil::view(C), a); return digest(C); } };
template <> struct entry<E_INFO> { template <class S, class Ar> static std::string run(S& s, Ar const& a, region_t const&) {
    auto b = gil::read_image_info(s, a);
    return vh::cat((long)b._info._width, "x", (long)b._info._height, " settings(", (long)b._settings._top_left.x, ",", (long)b._settings._top_left.y, ")+", (long)b._settings._dim.x, "x", (long)b._settings._dim.y); } };
template <> struct entry<E_ANY> { template <class S, class Ar> static std::string run(S& s, Ar const& a, region_t const&) {
    any_t any; gil::read_image(s, any, a); std::string d; any_digest ad{ &d }; boost::variant2::visit(ad, any); return vh::cat("alt", (long)any.index(), " ", d); } };
template <> struct entry<E_READER_OBJECT> { template <class S, class Ar> static std::string run(S& s, Ar const& a, region_t const&) {
    auto rd = gil::make_reader(s, a, gil::detail::read_and_no_convert()); img_t B; gil::read_image(rd, B); return digest(B); } };
template <> struct entry<E_SCANLINE> { template <class S, class Ar> static std::string run(S& s, Ar const& a, region_t const&) {
    auto reader = gil::make_scanline_reader(s, a);
    auto it = reader.begin(); auto end = reader.end();
    uint64_t h = 1469598103934665603ull; long rows = 0;
    for (; it != end; ++it, ++rows) { gil::byte_t* rowp = *it; h = vh::hash_bytes(rowp, (size_t)reader._scanline_length, h); if (rows > 100000) break; }
    return vh::cat(rows, " rows of ", (size_t)reader._scanline_length, " bytes:", h); } };

// reference: the same entry point and argument through a one-piece istringstream (scanline: through the
// std::string name, the one overload the earlier checks already compare with read_image)
template <int A, int E> static std::string reference(std::string const& bytes, std::string const& path, region_t const& q, std::true_type /*scanline*/) {
    try { std::string p = path; return entry<E>::run(p, arg_of<A>::make(q), q); } catch (std::exception const& e) { return std::string("exception: ") + e.what(); }
}
template <int A, int E> static std::string reference(std::string const& bytes, std::string const&, region_t const& q, std::false_type) {
    try { std::istringstream in(bytes, std::ios::in | std::ios::binary); std::istream& is = in; return entry<E>::run(is, arg_of<A>::make(q), q); }
    catch (std::exception const& e) { return std::string("exception: ") + e.what(); }
}

struct file_t { std::string name; std::string bytes; std::string path; long W, H; };

template <int N, int A, int E> static void one(file_t const& f, region_t const& q, long& n, std::true_type) {
    std::string ref = reference<A, E>(f.bytes, f.path, q, std::integral_constant<bool, E == E_SCANLINE>());
    std::string got;
    try { name_src<N> s(f.path); got = entry<E>::run(s.ref(), arg_of<A>::make(q), q); }
    catch (std::exception const& e) { got = std::string("exception: ") + e.what(); }
    vh::evals(1); ++n;
    std::string key = vh::cat(FMT, ".", name_kind(N), ".", arg_kind(A), ".", entry_kind(E));
    // the reference itself must show the argument's effect: exactly the requested region
    if (E != E_INFO && E != E_SCANLINE) {
        std::string want = vh::cat(q.dx, "x", q.dy, ":");
        size_t at = ref.find(want);
        if (at == std::string::npos || (at != 0 && E != E_ANY)) vh::viol("names-reference." + key, vh::cat(f.name, ": the istringstream reference gives [", ref.substr(0, 100), "], requested region ", q.dx, "x", q.dy));
    }
    if (E == E_INFO && A >= A_SUBRECT && ref.find(vh::cat("settings(", q.x0, ",", q.y0, ")+", q.dx, "x", q.dy)) == std::string::npos)
        vh::viol("names-reference." + key, vh::cat(f.name, ": backend settings of the reference [", ref, "]"));
    if (got != ref)
        vh::viol("names." + key, vh::cat(f.name, " ", f.W, "x", f.H, " region (", q.x0, ",", q.y0, ")+", q.dx, "x", q.dy, ": ", entry_kind(E), "(", name_kind(N), ", ", arg_kind(A), ") gives [", got.substr(0, 140),
                                        "], the same call on a std::istringstream gives [", ref.substr(0, 140), "]"));
    vh::obs(vh::cat("names.entry.", entry_kind(E)));
    if (ref.compare(0, 10, "exception:") != 0) vh::obs(vh::cat("names.ok.", entry_kind(E), ".", arg_kind(A)));
}
template <int N, int A, int E> static void one(file_t const&, region_t const&, long&, std::false_type) {}

// one case per (file, name kind, argument kind, entry point): a fatal report in one entry point must not
// hide the others, and its key names all three
template <int N, int A, int E> static void one_case(file_t const& f, std::true_type) {
    if (!vh::begin_case(vh::cat("c13.", FMT, ".names.", name_kind(N), ".", arg_kind(A), ".", entry_kind(E)), f.name)) return;
    region_t q = { 0, 0, f.W, f.H };
    if (A >= A_SUBRECT) { q.x0 = std::max(1L, f.W / 3); q.y0 = std::max(1L, f.H / 4); q.dx = std::max(1L, (f.W - q.x0) / 2); q.dy = std::max(1L, (f.H - q.y0) * 2 / 3); }
    long n = 0;
    one<N, A, E>(f, q, n, std::true_type());
    vh::distinct(n);
    vh::obs(vh::cat("names.", name_kind(N)));
    vh::obs(vh::cat("names.arg.", arg_kind(A)));
}
template <int N, int A, int E> static void one_case(file_t const&, std::false_type) {}
template <int N, int A, int E> struct entries {
    static void run(file_t const& f) {
        one_case<N, A, E>(f, std::integral_constant<bool, enabled<N, A, E>::value>());
        entries<N, A, E + 1>::run(f);
    }
};
template <int N, int A> struct entries<N, A, E_COUNT> { static void run(file_t const&) {} };
template <int N, int A> static void name_arg(file_t const& f) { entries<N, A, 0>::run(f); }
template <int N, int A> struct args { static void run(file_t const& f) { name_arg<N, A>(f); args<N, A + 1>::run(f); } };
template <int N> struct args<N, A_COUNT> { static void run(file_t const&) {} };
template <int N> struct names { static void run(file_t const& f) { args<N, 0>::run(f); names<N + 1>::run(f); } };
template <> struct names<N_COUNT> { static void run(file_t const&) {} };

int main(int argc, char** argv) {
    vh::init(argc, argv);
    cio::install_cleanup();
    const int sizes[][2] = { { 13, 9 }, { 120, 90 }, { 5, 4 } };
    int k = 0;
    for (auto& sz : sizes) {
        file_t f; f.W = sz[0]; f.H = sz[1];
        f.name = vh::cat("rgb8-", sz[0], "x", sz[1]);
        img_t src(sz[0], sz[1]); cio::fill_view(gil::view(src), vh::mix(vh::seed(), 4242 + k++), 0);
        { std::stringstream ss(std::ios::in | std::ios::out | std::ios::binary); gil::write_view(ss, gil::const_view(src), tag_t()); f.bytes = ss.str(); }
        // the file exists for the whole sweep over names and arguments of this file
        cio::scratch_file sf("c13n", EXT);
        if (!cio::spill(sf.path, f.bytes)) vh::fatal_monitor("harness", "cannot write " + sf.path);
        f.path = sf.path;
        names<0>::run(f);
    }
    return vh::finish();
}
