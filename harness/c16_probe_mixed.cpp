// C16 instantiation probes: thresholding with source and destination of different channel types where exactly one
// side has float32 channels.  Each variant only has to compile.
#include <boost/gil.hpp>
#include <boost/gil/image_processing/threshold.hpp>
namespace gil = boost::gil;
int main() {
#if C16_PROBE == 0      // threshold_truncate gray32f -> gray8
    gil::gray32f_image_t a(2, 2); gil::gray8_image_t b(2, 2);
    gil::threshold_truncate(gil::const_view(a), gil::view(b), std::uint8_t(1), gil::threshold_truncate_mode::threshold, gil::threshold_direction::regular);
#else                   // threshold_truncate gray8 -> gray32f
    gil::gray8_image_t a(2, 2); gil::gray32f_image_t b(2, 2);
    gil::threshold_truncate(gil::const_view(a), gil::view(b), gil::float32_t(0.5f), gil::threshold_truncate_mode::threshold, gil::threshold_direction::regular);
#endif
    return 0;
}
