// C10 -- image is a leak-free deep-value container over any operation history.
// One case = one seeded history of operations over a pool of three images and two allocator
// resources, run fault-free and then once per allocation point / element-construction point with a
// failure injected there.  After EVERY operation: allocator ledger (no double free, no foreign free,
// size and resource match), element live-set, shadow model (dimensions + every pixel of every live
// image), row alignment, storage reuse; at quiescence nothing is live.
//   -DIMG=0 rgb8 interleaved  1 rgb8 planar  2 gray16  3 bit-aligned rgb123  4 image<telem> (non-trivial element)
//   -DFLAV=0 always-equal allocator  1 stateful propagating  2 stateful sticky (POCMA=POCS=false)  3 std::pmr
#include <boost/gil.hpp>
#include <memory>
#include <set>
#include "common/vh.hpp"
#include "common/ledger.hpp"
#include "common/pixtools.hpp"

#ifndef IMG
#define IMG 0
#endif
#ifndef FLAV
#define FLAV 0
#endif
namespace gil = boost::gil;

// ---- tracked element -------------------------------------------------------------------
struct telem {
    int v;
    static std::set<const telem*>& live() { static std::set<const telem*> s; return s; }
    static long& ctor_points() { static long n = 0; return n; }
    static long& fail_at() { static long n = -1; return n; }
    static std::vector<std::string>& anomalies() { static std::vector<std::string> a; return a; }
    static void reg(const telem* p) {
        ++ctor_points();
        if (fail_at() == 0) { fail_at() = -1; throw std::runtime_error("injected element construction failure"); }
        if (fail_at() > 0) --fail_at();
        if (!live().insert(p).second && anomalies().size() < 8) anomalies().push_back("element constructed twice at one address");
    }
    telem() : v(0) { reg(this); }
    telem(int x) : v(x) { reg(this); }
    telem(telem const& o) : v(o.v) { reg(this); }
    telem& operator=(telem const& o) { v = o.v; if (!live().count(this) && anomalies().size() < 8) anomalies().push_back("assignment to an element that was never constructed"); return *this; }
    ~telem() { if (!live().erase(this) && anomalies().size() < 8) anomalies().push_back("destruction of an element that is not live (destroyed twice or never constructed)"); }
    bool operator==(telem const& o) const { return v == o.v; }
    bool operator!=(telem const& o) const { return v != o.v; }
};

// ---- allocator flavour
#if FLAV == 0
typedef led::alloc<unsigned char, led::traits_always_equal> alloc_t;
static const char* FLAVN = "always-equal";
static alloc_t make_alloc(int) { return alloc_t(0); }
#elif FLAV == 1
typedef led::alloc<unsigned char, led::traits_propagate> alloc_t;
static const char* FLAVN = "propagating";
static alloc_t make_alloc(int r) { return alloc_t(r); }
#elif FLAV == 2
typedef led::alloc<unsigned char, led::traits_sticky> alloc_t;
static const char* FLAVN = "sticky";
static alloc_t make_alloc(int r) { return alloc_t(r); }
#else
typedef std::pmr::polymorphic_allocator<unsigned char> alloc_t;
static const char* FLAVN = "pmr";
static led::resource g_res1(1), g_res2(2);
static alloc_t make_alloc(int r) { return alloc_t(r == 2 ? &g_res2 : &g_res1); }
#endif
static const bool STATEFUL = (FLAV != 0);
static const bool PROPAGATES_SWAP = (FLAV <= 1) || (__cplusplus < 201703L);   // C++14 mode: image::swap always swaps allocators

// ---- image type + element access
#if IMG == 0
typedef gil::image<gil::rgb8_pixel_t, false, alloc_t> img_t;
typedef gil::image<gil::rgb8_pixel_t, true, alloc_t> other_t;      // converting copies come from this organisation
static const char* IMGN = "rgb8";
#elif IMG == 1
typedef gil::image<gil::rgb8_pixel_t, true, alloc_t> img_t;
typedef gil::image<gil::bgr8_pixel_t, false, alloc_t> other_t;
static const char* IMGN = "rgb8_planar";
#elif IMG == 2
typedef gil::image<gil::gray16_pixel_t, false, alloc_t> img_t;
typedef gil::image<gil::gray16_pixel_t, false, alloc_t> other_t;
static const char* IMGN = "gray16";
#elif IMG == 3
typedef gil::bit_aligned_image3_type<1, 2, 3, gil::rgb_layout_t, alloc_t>::type img_t;
typedef img_t other_t;
static const char* IMGN = "ba_rgb123";
#else
typedef gil::image<telem, false, alloc_t> img_t;
typedef img_t other_t;
static const char* IMGN = "telem";
#endif
typedef img_t::view_t view_t;

#if IMG == 4
typedef telem fill_t;
static uint64_t rd(view_t const& v, long x, long y) { return (uint64_t)(unsigned)v(x, y).v; }
static void wr(view_t const& v, long x, long y, uint64_t val) { v(x, y).v = (int)(val & 0x7fffffff); }
static uint64_t normv(uint64_t val) { return val & 0x7fffffff; }
static fill_t make_fill(uint64_t val) { return telem((int)(val & 0x7fffffff)); }
template <class V> static uint64_t rdo(V const& v, long x, long y) { return (uint64_t)(unsigned)v(x, y).v; }
template <class V> static void wro(V const& v, long x, long y, uint64_t val) { v(x, y).v = (int)(val & 0x7fffffff); }
static uintptr_t row_addr(view_t const& v, long y) { return (uintptr_t)&v(0, y); }
static unsigned row_bit(view_t const&, long) { return 0; }
#else
typedef img_t::value_type value_t;
typedef std::conditional<(IMG == 3), view_t::reference, value_t>::type fill_t;
static value_t g_fill_store;
// a pixel value is represented by a 64-bit hash seed expanded per channel and normalised to the channel widths
static pt::pixval expand(uint64_t val) { pt::pixval p; p.n = pt::nch<value_t>::value; for (int i = 0; i < p.n; ++i) p.ch[i] = vh::mix(val, (uint64_t)i + 11); return pt::norm_pix<value_t>(p); }
static uint64_t fold(pt::pixval const& p) { uint64_t h = 1469598103934665603ull; for (int i = 0; i < p.n; ++i) h = vh::mix(h, p.ch[i]); return h; }
static uint64_t normv(uint64_t val) { return fold(expand(val)); }
static uint64_t rd(view_t const& v, long x, long y) { return fold(pt::get_pix(v(x, y))); }
static void wr(view_t const& v, long x, long y, uint64_t val) { pt::set_pix(v(x, y), expand(val)); }
static fill_t make_fill(uint64_t val) { pt::set_pix(g_fill_store, expand(val)); return fill_t(g_fill_store); }
// the "other" organisation holds the same colours (rgb8 planar / bgr8): values are written by colour, so that a
// converting copy must reproduce them channel by channel
template <class V> static uint64_t rdo(V const& v, long x, long y) { value_t t; gil::color_convert(v(x, y), t); return fold(pt::get_pix(t)); }
template <class V> static void wro(V const& v, long x, long y, uint64_t val) { value_t t; pt::set_pix(t, expand(val)); typename V::value_type o(t); v(x, y) = o; }
static uintptr_t row_addr(view_t const& v, long y) { pt::pixid id = pt::id_of(v(0, y)); return (uintptr_t)(id.bitpos[0] >> 3); }
static unsigned row_bit(view_t const& v, long y) { pt::pixid id = pt::id_of(v(0, y)); return (unsigned)(id.bitpos[0] & 7); }
#endif

// ---- shadow model
struct shadow {
    bool alive = false;
    long w = 0, h = 0;
    size_t align = 0;
    bool align_known = true;     // false after a move (source) or an exception: the recorded alignment is then unspecified
    std::vector<uint64_t> px;
    uint64_t& at(long x, long y) { return px[(size_t)(y * w + x)]; }
    void resize(long W, long H) { w = W; h = H; px.assign((size_t)(W * H), 0); }
};
static const int NS = 3;
static std::unique_ptr<img_t> g_img[NS];
static shadow g_sh[NS];
static std::unique_ptr<other_t> g_other;     // one image of the other organisation
static shadow g_osh;
static std::string g_opname;
static std::string g_hist;
static uint64_t n_ops = 0, n_checks = 0;

static std::string key(const std::string& what) { return vh::cat(what, ".", g_opname, ".", FLAVN, ".", IMGN); }

static int alloc_res_of(img_t const& im) {
#if FLAV == 0
    return 0;
#elif FLAV == 3
    return im.allocator().resource() == &g_res2 ? 2 : 1;
#else
    return im.allocator().resource;
#endif
}
static void sync_from_image(int s) {      // after moves / exceptions: the state is "whatever it reports", but it must be readable
    shadow& sh = g_sh[s];
    view_t v = gil::view(*g_img[s]);
    sh.resize(v.width(), v.height());
    for (long y = 0; y < sh.h; ++y) for (long x = 0; x < sh.w; ++x) sh.at(x, y) = rd(v, x, y);
}
static void fill_pattern_into(int s, uint64_t salt) {
    shadow& sh = g_sh[s]; view_t v = gil::view(*g_img[s]);
    for (long y = 0; y < sh.h; ++y) for (long x = 0; x < sh.w; ++x) { uint64_t val = vh::mix(salt, (uint64_t)(y * 131 + x)); wr(v, x, y, val); sh.at(x, y) = normv(val); }
}

static void check_all(const char* phase) {
    for (auto& a : led::L().anomalies) vh::viol(key("ledger"), vh::cat(phase, ": ", a, " | history: ", g_hist));
    led::L().anomalies.clear();
    for (auto& a : telem::anomalies()) vh::viol(key("element-lifetime"), vh::cat(phase, ": ", a, " | history: ", g_hist));
    telem::anomalies().clear();
    int alive = 0;
    for (int s = 0; s < NS; ++s) {
        shadow& sh = g_sh[s];
        if (!sh.alive) continue;
        ++alive;
        img_t& im = *g_img[s];
        ++n_checks;
        if (im.width() != sh.w || im.height() != sh.h) { vh::viol(key("dims"), vh::cat(phase, ": image ", s, " is ", im.width(), "x", im.height(), " model ", sh.w, "x", sh.h, " | history: ", g_hist)); sync_from_image(s); continue; }
        view_t v = gil::view(im);
        bool bad = false;
        for (long y = 0; y < sh.h && !bad; ++y) for (long x = 0; x < sh.w; ++x)
            if (rd(v, x, y) != sh.at(x, y)) { vh::viol(key("contents"), vh::cat(phase, ": image ", s, " pixel (", x, ",", y, ") differs from the model (an operation on another image or a lost copy): reads ", rd(v, x, y), " model ", sh.at(x, y), " | history: ", g_hist)); bad = true; break; }
        if (bad) sync_from_image(s);
        if (sh.align_known && sh.align > 0)
            for (long y = 0; y < sh.h; ++y)
                if (sh.w > 0 && (row_addr(v, y) % sh.align != 0 || row_bit(v, y) != 0)) { vh::viol(key("row-alignment"), vh::cat(phase, ": image ", s, " row ", y, " starts at ", (void*)row_addr(v, y), " bit ", row_bit(v, y), " alignment ", sh.align, " | history: ", g_hist)); break; }
    }
    // storage must come from the image's own allocator: report a foreign block where it first appears (at the
    // operation that adopted it) and re-label it, so that its later deallocation is not reported a second time
    if (STATEFUL)
        for (int s = 0; s < NS; ++s) {
            if (!g_sh[s].alive || g_sh[s].w * g_sh[s].h == 0) continue;
            uintptr_t addr = row_addr(gil::view(*g_img[s]), 0);
            for (auto& kv : led::L().live) {
                uintptr_t b = (uintptr_t)kv.first;
                if (addr >= b && addr < b + kv.second.bytes) {
                    int want = alloc_res_of(*g_img[s]);
                    if (kv.second.resource != want) {
                        vh::viol(key("foreign-storage"), vh::cat(phase, ": image ", s, " with allocator resource ", want, " holds a block of resource ", kv.second.resource, " | history: ", g_hist));
                        kv.second.resource = want;
                    }
                    break;
                }
            }
        }
    if (g_osh.alive) ++alive;
    ++n_checks;
    if ((long)led::L().live.size() > alive) vh::viol(key("blocks"), vh::cat(phase, ": ", led::L().live.size(), " live allocations for ", alive, " live images (leak) | history: ", g_hist));
#if IMG == 4
    { long expect = g_osh.alive ? g_osh.w * g_osh.h : 0; for (int s = 0; s < NS; ++s) if (g_sh[s].alive) expect += g_sh[s].w * g_sh[s].h;
      // the fill value and temporaries are gone by now: live elements == pixels of live images
      if ((long)telem::live().size() != expect) vh::viol(key("element-count"), vh::cat(phase, ": ", telem::live().size(), " live elements, images hold ", expect, " | history: ", g_hist)); }
#endif
}

static void destroy_all() {
    for (int s = 0; s < NS; ++s) { g_img[s].reset(); g_sh[s].alive = false; }
    g_other.reset(); g_osh.alive = false;
}
static void quiesce(const char* phase) {
    destroy_all();
    for (auto& a : led::L().anomalies) vh::viol(key("ledger"), vh::cat(phase, "/quiescence: ", a, " | history: ", g_hist));
    led::L().anomalies.clear();
    if (!led::L().live.empty()) {
        vh::viol(key("leak"), vh::cat(phase, ": ", led::L().live.size(), " allocation(s), ", led::L().live_bytes(), " bytes still live after every image was destroyed | history: ", g_hist));
        for (auto& kv : std::map<void*, led::rec>(led::L().live)) led::do_deallocate(kv.first, kv.second.bytes, kv.second.resource);
        led::L().anomalies.clear();
    }
    if (!telem::live().empty()) { vh::viol(key("element-leak"), vh::cat(phase, ": ", telem::live().size(), " elements never destroyed | history: ", g_hist)); telem::live().clear(); }
    for (auto& a : telem::anomalies()) vh::viol(key("element-lifetime"), vh::cat(phase, "/quiescence: ", a)); telem::anomalies().clear();
}

// ---- operations --------------------------------------------------------------------------
struct op { int kind; int a, b; long w, h; size_t al; int res; uint64_t val; };
enum { O_CTOR, O_CTOR_FILL, O_CTOR_DEFAULT, O_COPY, O_MOVE, O_CONV_COPY, O_ASSIGN, O_CONV_ASSIGN, O_MOVE_ASSIGN,
       O_RECREATE, O_RECREATE_FILL, O_RECREATE_ALLOC, O_RECREATE_FILL_ALLOC, O_RECREATE_SAME, O_SWAP, O_SWAP_FREE, O_WRITE, O_DESTROY,
       O_CTOR_VIEW, O_SELF_ASSIGN, O_OTHER_MAKE, O_KINDS };
static const char* op_name(int k) {
    static const char* n[] = {"ctor", "ctor-fill", "ctor-default", "copy-ctor", "move-ctor", "converting-copy", "assign", "converting-assign", "move-assign",
                              "recreate", "recreate-fill", "recreate-alloc", "recreate-fill-alloc", "recreate-same-or-smaller", "swap", "swap-free", "write", "destroy",
                              "ctor-from-view", "self-assign", "other-make"};
    return n[k];
}
static const long DW[] = {0, 1, 2, 3, 5, 8}, DH[] = {0, 1, 2, 4, 3};
static const size_t AL[] = {0, 1, 2, 4, 8, 16, 32};

static bool equal_or_propagating(int a, int b) { return PROPAGATES_SWAP || alloc_res_of(*g_img[a]) == alloc_res_of(*g_img[b]); }

static op gen_op(vh::rng& r) {
    op o; o.kind = (int)r.below(O_KINDS); o.a = (int)r.below(NS); o.b = (int)r.below(NS);
    o.w = DW[r.below(6)]; o.h = DH[r.below(5)]; o.al = AL[r.below(7)]; o.res = 1 + (int)r.below(2); o.val = r.next();
    return o;
}
static std::string op_str(op const& o) { return vh::cat(op_name(o.kind), "(", o.a, ",", o.b, ",", o.w, "x", o.h, ",a", o.al, ",r", o.res, ")"); }

template <class I, class V> static I* from_view(V const& v, size_t al, alloc_t a, std::true_type) { return new I(v, al, a); }
template <class I, class V> static I* from_view(V const&, size_t, alloc_t, std::false_type) { return nullptr; }   // not provided for non-pixel / bit-aligned images

// Applies one operation to the pool and to the shadow model.  Returns false when the op is not applicable.
static bool apply(op const& o) {
    const int a = o.a, b = o.b;
    shadow& sa = g_sh[a];
    bool alloc_differs = false;
    auto need = [&](int s) { return g_sh[s].alive; };
    switch (o.kind) {
    case O_CTOR: if (need(a)) return false;
        g_img[a].reset(new img_t(o.w, o.h, o.al, make_alloc(o.res))); sa.alive = true; sa.align = o.al;
        sa.resize(o.w, o.h);      // exact dimensions, also for w x 0 and 0 x h
        if (IMG == 4) { for (auto& p : sa.px) p = 0; } else fill_pattern_into(a, o.val);
        if (IMG == 4) fill_pattern_into(a, o.val);
        return true;
    case O_CTOR_FILL: if (need(a)) return false;
        { fill_t f = make_fill(o.val); g_img[a].reset(new img_t(gil::point_t(o.w, o.h), f, o.al, make_alloc(o.res))); }
        sa.alive = true; sa.align = o.al;
        sa.resize(o.w, o.h);
        for (auto& p : sa.px) p = normv(o.val);
        return true;
    case O_CTOR_DEFAULT: if (need(a)) return false;
        g_img[a].reset(new img_t(o.al, make_alloc(o.res))); sa.alive = true; sa.align = o.al; sa.resize(0, 0); return true;
    case O_COPY: if (need(a) || !need(b) || a == b) return false;
        g_img[a].reset(new img_t(*g_img[b])); sa = g_sh[b];
        if (!(*g_img[a] == *g_img[b])) vh::viol(key("copy-not-equal"), vh::cat("copy is ", g_img[a]->width(), "x", g_img[a]->height(), " source ", g_img[b]->width(), "x", g_img[b]->height(), " | history: ", g_hist));
        return true;
    case O_MOVE: if (need(a) || !need(b) || a == b) return false;
        g_img[a].reset(new img_t(std::move(*g_img[b]))); sa = g_sh[b]; sync_from_image(b); g_sh[b].align_known = false; return true;
    case O_CONV_COPY: if (need(a) || !g_osh.alive) return false;
        g_img[a].reset(new img_t(*g_other)); sa = g_osh; sa.alive = true;
        return true;
    case O_ASSIGN: if (!need(a) || !need(b) || a == b) return false;
        { bool same = (g_img[a]->dimensions() == g_img[b]->dimensions()); size_t keep = sa.align;
          bool keepk = sa.align_known; *g_img[a] = *g_img[b]; sa = g_sh[b]; if (same) { sa.align = keep; sa.align_known = keepk; }
          if (!(*g_img[a] == *g_img[b])) vh::viol(key("copy-not-equal"), vh::cat("after assignment | history: ", g_hist));
          }
        return true;
    case O_CONV_ASSIGN: if (!need(a) || !g_osh.alive) return false;
        { bool same = (g_img[a]->dimensions() == g_other->dimensions()); size_t keep = sa.align;
          bool keepk = sa.align_known; *g_img[a] = *g_other; sa = g_osh; sa.alive = true; if (same) { sa.align = keep; sa.align_known = keepk; }
          }
        return true;
    case O_MOVE_ASSIGN: if (!need(a) || !need(b) || a == b) return false;
        *g_img[a] = std::move(*g_img[b]); sa = g_sh[b]; sync_from_image(b); g_sh[b].align_known = false; return true;
    case O_RECREATE: if (!need(a)) return false;
        g_img[a]->recreate(o.w, o.h, o.al); break;
    case O_RECREATE_FILL: if (!need(a)) return false;
        { fill_t f = make_fill(o.val); g_img[a]->recreate(gil::point_t(o.w, o.h), f, o.al); } break;
    case O_RECREATE_ALLOC: if (!need(a)) return false;
        // with an allocator argument the documented no-op also requires alloc_in == the image's allocator
        alloc_differs = STATEFUL && PROPAGATES_SWAP && alloc_res_of(*g_img[a]) != o.res;
        // a different allocator can only be adopted by swapping allocators (undefined for unequal sticky ones)
        g_img[a]->recreate(o.w, o.h, o.al, (PROPAGATES_SWAP ? make_alloc(o.res) : g_img[a]->allocator())); break;
    case O_RECREATE_FILL_ALLOC: if (!need(a)) return false;
        alloc_differs = STATEFUL && PROPAGATES_SWAP && alloc_res_of(*g_img[a]) != o.res;
        { fill_t f = make_fill(o.val); g_img[a]->recreate(gil::point_t(o.w, o.h), f, o.al, (PROPAGATES_SWAP ? make_alloc(o.res) : g_img[a]->allocator())); } break;
    case O_RECREATE_SAME: if (!need(a) || !sa.align_known) return false;
        { // same or smaller dimensions with the same alignment: the storage must be reused
          long nw = sa.w > 0 ? sa.w - (long)(o.val % 2) : 0, nh = sa.h;
          long before = led::L().n_alloc;
          g_img[a]->recreate(nw, nh, sa.align);
          if (led::L().n_alloc != before) vh::viol(key("no-reuse"), vh::cat("recreate from ", sa.w, "x", sa.h, " to ", nw, "x", nh, " with the same alignment ", sa.align, " allocated | history: ", g_hist));
          if (g_img[a]->width() != nw || g_img[a]->height() != nh) vh::viol(key("recreate-dims"), vh::cat("requested ", nw, "x", nh, " got ", g_img[a]->width(), "x", g_img[a]->height(), " | history: ", g_hist));
          bool unchanged = (nw == sa.w && nh == sa.h);
          if (!unchanged) { sa.resize(nw, nh); fill_pattern_into(a, o.val); }
          return true; }
    case O_SWAP: case O_SWAP_FREE: if (!need(a) || !need(b) || a == b) return false;
        if (!equal_or_propagating(a, b)) return false;
        if (o.kind == O_SWAP) g_img[a]->swap(*g_img[b]); else { using std::swap; swap(*g_img[a], *g_img[b]); }
        std::swap(g_sh[a], g_sh[b]); return true;
    case O_WRITE: if (!need(a) || sa.w * sa.h == 0) return false;
        { long x = (long)(o.val % (uint64_t)sa.w), y = (long)((o.val >> 20) % (uint64_t)sa.h); wr(gil::view(*g_img[a]), x, y, o.val); sa.at(x, y) = normv(o.val); }
        return true;
    case O_DESTROY: if (!need(a)) return false;
        g_img[a].reset(); sa.alive = false; return true;
    case O_CTOR_VIEW: if (need(a) || !need(b) || a == b || IMG == 3 || IMG == 4) return false;
        g_img[a].reset(from_view<img_t>(gil::view(*g_img[b]), o.al, make_alloc(o.res), std::integral_constant<bool, (IMG < 3)>())); sa = g_sh[b]; sa.align = o.al;
        return true;
    case O_SELF_ASSIGN: if (!need(a)) return false;
        { img_t& r = *g_img[a]; *g_img[a] = r; *g_img[a] = std::move(r); } return true;
    case O_OTHER_MAKE:
        g_other.reset(); g_osh.alive = false;
        g_other.reset(new other_t(o.w, o.h, o.al, make_alloc(o.res))); g_osh.alive = true; g_osh.align = o.al; g_osh.align_known = true;
        g_osh.resize(g_other->width(), g_other->height());
        { auto ov = gil::view(*g_other); for (long y = 0; y < g_osh.h; ++y) for (long x = 0; x < g_osh.w; ++x) { uint64_t val = vh::mix(o.val, (uint64_t)(y * 71 + x)); wro(ov, x, y, val); g_osh.at(x, y) = rdo(ov, x, y); } }
        return true;
    default: return false;
    }
    // common tail of the four general recreate overloads: exact dimensions, contents per overload
    {
        bool unchanged = (o.w == sa.w && o.h == sa.h && o.al == sa.align && !alloc_differs);
        if (g_img[a]->width() != o.w || g_img[a]->height() != o.h) vh::viol(key("recreate-dims"), vh::cat("requested ", o.w, "x", o.h, " got ", g_img[a]->width(), "x", g_img[a]->height(), " | history: ", g_hist));
        if (!sa.align_known) {                         // cannot tell a no-op from a re-creation: take the contents as they are
            sa.align = o.al; sa.align_known = true; sync_from_image(a); return true;
        }
        if (unchanged) return true;                    // documented no-op
        sa.align = o.al; sa.resize(g_img[a]->width(), g_img[a]->height());
        if (o.kind == O_RECREATE_FILL || o.kind == O_RECREATE_FILL_ALLOC) { for (auto& p : sa.px) p = normv(o.val); }
        else fill_pattern_into(a, o.val);              // contents after a plain recreate are unspecified: define them
        return true;
    }
}

// After an operation has thrown, every surviving image must be a fully valid image - including the state that
// only later operations consult (recorded alignment, capacity, allocator).  The probe re-creates each image in
// place with the failed operation's alignment and with another one (same dimensions: only the recorded alignment
// decides between "nothing to do" and a new layout), checks the requested row alignment, then shrinks it within
// its capacity and rewrites every pixel (any stale capacity or pointer ends in a sanitizer report).
static void post_failure_probe(op const& failed, const char* phase) {
    for (int s = 0; s < NS; ++s) {
        if (!g_img[s]) continue;
        img_t& im = *g_img[s];
        const size_t als[2] = {failed.al, (size_t)(failed.al == 16 ? 4 : 16)};
        for (size_t al : als) {
            long w = im.width(), h = im.height();
            im.recreate(w, h, al);
            ++n_checks;
            if (im.width() != w || im.height() != h) vh::viol(key("post-failure-recreate-dims"), vh::cat(phase, ": image ", s, " | history: ", g_hist));
            view_t v = gil::view(im);
            if (al > 0 && w > 0)
                for (long y = 0; y < h; ++y)
                    if (row_addr(v, y) % al != 0 || row_bit(v, y) != 0) { vh::viol(key("post-failure-row-alignment"), vh::cat(phase, ": after the failed operation, recreate(", w, "x", h, ", alignment ", al, ") left row ", y, " at ", (void*)row_addr(v, y), " | history: ", g_hist)); break; }
        }
        if (im.width() > 1) im.recreate(im.width() - 1, im.height(), als[1]);
        shadow& sh = g_sh[s];
        sh.alive = true; sh.align = als[1]; sh.align_known = true; sh.resize(im.width(), im.height());
        fill_pattern_into(s, 0x9e3779b9ull + (uint64_t)s);
    }
}

// Runs a history.  fail_alloc / fail_ctor >= 0: inject a failure at that allocation / construction point.
static void run_history(std::vector<op> const& ops, long fail_alloc, long fail_ctor, long& alloc_points, long& ctor_points) {
    led::L().alloc_points = 0; telem::ctor_points() = 0;
    led::L().fail_at = fail_alloc; telem::fail_at() = fail_ctor;
    const char* phase = (fail_alloc >= 0) ? "alloc-fault" : (fail_ctor >= 0 ? "ctor-fault" : "fault-free");
    for (size_t i = 0; i < ops.size(); ++i) {
        g_opname = op_name(ops[i].kind);
        try {
            if (!apply(ops[i])) continue;
            ++n_ops;
        } catch (std::bad_alloc const&) {
            vh::obs(vh::cat("exception-survived.", g_opname));
            // the target must still hold a valid image: it is re-read completely (any sanitizer report here is a refutation)
            for (int s = 0; s < NS; ++s) { if (g_img[s]) { g_sh[s].alive = true; sync_from_image(s); g_sh[s].align_known = false; } else g_sh[s].alive = false; }
            if (!g_other) g_osh.alive = false;
            check_all(phase);
            post_failure_probe(ops[i], phase);
        } catch (std::runtime_error const&) {
            vh::obs(vh::cat("ctor-exception-survived.", g_opname));
            for (int s = 0; s < NS; ++s) { if (g_img[s]) { g_sh[s].alive = true; sync_from_image(s); g_sh[s].align_known = false; } else g_sh[s].alive = false; }
            if (!g_other) g_osh.alive = false;
            check_all(phase);
            post_failure_probe(ops[i], phase);
        }
        check_all(phase);
    }
    alloc_points = led::L().alloc_points; ctor_points = telem::ctor_points();
    led::L().fail_at = -1; telem::fail_at() = -1;
    g_opname = "quiescence";
    quiesce(phase);
}

// weakest address alignment a conforming byte allocator may return for this image type (see C01)
#if IMG == 2
static const int ELEM_ALIGN = 2;
#elif IMG == 4
static const int ELEM_ALIGN = (int)alignof(telem);
#else
static const int ELEM_ALIGN = 1;
#endif

// Deterministic parameters for the exhaustive op-triple enumeration: the op kind is given, slots and
// sizes come from small fixed tables chosen so that "same or smaller", "larger", other slot, equal and
// unequal resources all occur.
static op scripted_op(int kind, int pos, int variant) {
    static const long W[] = {2, 3, 5, 1}, H[] = {2, 1, 4, 3};
    op o; o.kind = kind; o.a = (pos + variant) & 1; o.b = 1 - o.a;
    o.w = W[(pos + 2 * variant) & 3]; o.h = H[(pos + variant) & 3];
    o.al = AL[(pos * 3 + variant) % 7]; o.res = 1 + ((pos + variant) & 1); o.val = 0x9E3779B97F4A7C15ull * (uint64_t)(pos + 7 * variant + 1);
    return o;
}

int main(int argc, char** argv) {
    vh::init(argc, argv);
    // (1) every ordered triple of operation kinds after a fixed prelude (two live images), followed by a postlude
    //     that touches, re-creates and moves what is left -- complete over kinds^3 (x2 parameter variants in thorough)
    {
        const int variants = vh::thorough() ? 2 : 1;
        for (int k1 = 0; k1 < O_KINDS; ++k1)
            for (int k2 = 0; k2 < O_KINDS; ++k2) {
                if (!vh::begin_case(vh::cat(IMGN, ".", FLAVN, ".triples"), vh::cat(op_name(k1), "+", op_name(k2)))) continue;
                led::L().misalign = ((k1 + k2) & 1) ? ELEM_ALIGN : 0;
                for (int k3 = 0; k3 < O_KINDS; ++k3)
                    for (int v = 0; v < variants; ++v) {
                        std::vector<op> ops;
                        op pre0 = scripted_op(O_CTOR, 0, v); pre0.a = 0; pre0.w = 3; pre0.h = 2; pre0.res = 1; ops.push_back(pre0);
                        op pre1 = scripted_op(O_CTOR_FILL, 1, v); pre1.a = 1; pre1.w = 5; pre1.h = 4; pre1.res = 2; ops.push_back(pre1);
                        op pre2 = scripted_op(O_OTHER_MAKE, 2, v); ops.push_back(pre2);
                        ops.push_back(scripted_op(k1, 3, v)); ops.push_back(scripted_op(k2, 4, v)); ops.push_back(scripted_op(k3, 5, v));
                        for (int slot = 0; slot < 2; ++slot) {       // postlude: use whatever is there
                            op w = scripted_op(O_WRITE, 6 + slot, v); w.a = slot; ops.push_back(w);
                            op r = scripted_op(O_RECREATE, 8 + slot, v); r.a = slot; r.w = 2; r.h = 2; ops.push_back(r);
                            op w2 = scripted_op(O_WRITE, 10 + slot, v); w2.a = slot; ops.push_back(w2);
                        }
                        g_hist.clear(); for (auto& o : ops) g_hist += op_str(o) + " ";
                        long P = 0, Q = 0, p2, q2;
                        run_history(ops, -1, -1, P, Q);
                        if (k3 == (k1 + k2) % O_KINDS) for (long k = 0; k < P; ++k) run_history(ops, k, -1, p2, q2);   // fault points on a diagonal slice
                        vh::count("triple_histories");
                    }
                vh::evals(n_checks); n_checks = 0; vh::count("operations", n_ops); n_ops = 0;
                vh::distinct((uint64_t)O_KINDS * variants);
            }
    }
    const long NH = vh::opt_long("histories", vh::thorough() ? 10000 : 150);
    const int maxlen = vh::thorough() ? 40 : 12;
    for (long hno = 0; hno < NH; ++hno) {
        if (!vh::begin_case(vh::cat(IMGN, ".", FLAVN), vh::cat("history", hno))) continue;
        vh::rng r = vh::case_rng();
        led::L().misalign = (hno & 1) ? ELEM_ALIGN : 0;     // every other history: blocks at the weakest legal alignment
        int len = 3 + (int)r.below((uint64_t)maxlen - 2);
        std::vector<op> ops; g_hist.clear();
        uint64_t hh = 7;
        for (int i = 0; i < len; ++i) { ops.push_back(gen_op(r)); if (i < 14) g_hist += op_str(ops.back()) + " "; hh = vh::mix(hh, vh::hash_str(op_str(ops.back()))); }
        vh::distinct_hash(hh);
        if (hno < 2) vh::sample(vh::cat(IMGN, "/", FLAVN, ": ", g_hist));
        long P = 0, Q = 0, p2, q2;
        run_history(ops, -1, -1, P, Q);
        vh::count("histories");
        // every allocation point, every element construction point (complete per history)
        for (long k = 0; k < P; ++k) { run_history(ops, k, -1, p2, q2); vh::count("alloc_fault_runs"); }
        if (IMG == 4) { long step = Q > 400 ? Q / 200 : 1; for (long k = 0; k < Q; k += step) { run_history(ops, -1, k, p2, q2); vh::count("ctor_fault_runs"); } }
        vh::evals(n_checks); n_checks = 0;
        vh::count("operations", n_ops); n_ops = 0;
        vh::count("alloc_points", (uint64_t)P); vh::count("ctor_points", (uint64_t)Q);
    }
    return vh::finish();
}
