// C16 (part 2) -- dilate / erode / opening / closing / morphological_gradient with symmetric structuring elements and
// median_filter equal their per-pixel definitions; order, monotonicity and idempotence laws.
// See DESIGN.md section 5, C16.  Destinations live in noise-filled arenas, sources are tight heap images.
#include <boost/gil.hpp>
#include <boost/gil/image_processing/morphology.hpp>
#include <boost/gil/image_processing/filter.hpp>
#include <algorithm>
#include <cmath>
#include <limits>
#include <vector>
#include "common/vh.hpp"
#include "c15_util.hpp"

namespace gil = boost::gil;

// ---- channel models and content classes ---------------------------------------------------
// Every instantiated channel type gets the same content classes; three of them concentrate on the
// special values of the type (min, min+1, -1, 0, 1, max-1, max and their neighbours), so that "a pixel
// equals a special value while a neighbour under the structuring element / in the window is more
// extreme" occurs in every case, for every type.
template <class T> struct MT {
    static const bool is_float = false;
    static double lo() { return (double)std::numeric_limits<T>::min(); }
    static double hi() { return (double)std::numeric_limits<T>::max(); }
    static double clamp(double v) { return std::min(hi(), std::max(lo(), v)); }
    static double rnd(vh::rng& r) { return lo() + (double)r.below((uint64_t)(hi() - lo()) + 1); }
    static double step(double v, int d) { return clamp(v + d); }              // neighbour of a value
    static double special(vh::rng& r) {
        const double sp[7] = {lo(), lo() + 1, -1, 0, 1, hi() - 1, hi()};
        return clamp(sp[r.below(7)]);
    }
    static double bump(double v, vh::rng& r) { return clamp(v + (double)r.below(3) * (double)r.below(40)); }   // >= v
    static T make(double v) { return (T)(long long)v; }
};
template <> struct MT<gil::float32_t> {
    static const bool is_float = true;
    static double lo() { return 0.0; }
    static double hi() { return 1.0; }
    static double clamp(double v) { return std::min(1.0, std::max(0.0, v)); }
    static double rnd(vh::rng& r) { return (double)(float)r.unit(); }
    static double step(double v, int d) { return clamp((double)std::nextafter((float)v, d > 0 ? 2.0f : -1.0f)); }
    static double special(vh::rng& r) {
        const float sp[7] = {0.0f, std::nextafter(0.0f, 1.0f), std::numeric_limits<float>::min(), 0.5f, std::nextafter(0.5f, 1.0f), std::nextafter(1.0f, 0.0f), 1.0f};
        return (double)sp[r.below(7)];
    }
    static double bump(double v, vh::rng& r) { return r.below(3) == 0 ? v : clamp((double)(float)(v + r.unit() * 0.25)); }
    static gil::float32_t make(double v) { return gil::float32_t((float)v); }
};
enum { CM_FULL, CM_FEW, CM_IMPULSE, CM_SPECIAL_MIX, CM_SPECIAL_ONLY, CM_SPECIAL_NEIGHBOURS, CM_N };
static const char* cmname(int m) { static const char* n[CM_N] = {"full-range", "few-levels", "impulses", "special-mix", "special-only", "special-neighbours"}; return n[m]; }
template <class T> void fill_content(std::vector<double>& v, int mode, vh::rng& r) {
    typedef MT<T> M;
    double centre = M::special(r);
    for (double& x : v) {
        switch (mode) {
            case CM_FULL: x = M::rnd(r); break;
            case CM_FEW: x = M::is_float ? (double)(float)(r.below(4) / 4.0) : M::clamp((double)r.below(4)); break;
            case CM_IMPULSE: x = r.below(6) == 0 ? M::hi() : (r.below(6) == 0 ? M::lo() : M::step(M::lo(), +1)); break;
            case CM_SPECIAL_MIX: x = r.coin() ? M::special(r) : M::rnd(r); break;      // half special values, half seeded
            case CM_SPECIAL_ONLY: x = M::special(r); break;
            default: {   // one special value and its immediate neighbours
                int d = (int)r.below(3) - 1;
                x = d == 0 ? centre : M::step(centre, d);
                break;
            }
        }
    }
}

// plain model image: v[c][y*w+x]
struct plane_img {
    int w = 0, h = 0, nc = 0;
    std::vector<double> v;
    plane_img() {}
    plane_img(int w_, int h_, int nc_) : w(w_), h(h_), nc(nc_), v((size_t)w_ * h_ * nc_, 0.0) {}
    double& at(int x, int y, int c) { return v[((size_t)c * h + y) * w + x]; }
    double at(int x, int y, int c) const { return v[((size_t)c * h + y) * w + x]; }
};
// plane index = COLOUR index (position in the colour space), whatever the channel order of the view
template <class View> plane_img to_plane(View const& v) {
    const int NC = gil::num_channels<View>::value;
    const std::vector<int> ph = cu::phys_of_colour<typename View::value_type>();
    plane_img p((int)v.width(), (int)v.height(), NC);
    for (int y = 0; y < p.h; ++y)
        for (int x = 0; x < p.w; ++x)
            for (int c = 0; c < NC; ++c) p.at(x, y, c) = cu::num(v(x, y)[ph[(size_t)c]]);
    return p;
}
template <class Image> void from_plane(plane_img const& p, Image& img) {
    typedef typename Image::value_type P;
    typedef typename gil::channel_type<P>::type ch_t;
    const std::vector<int> ph = cu::phys_of_colour<P>();
    img.recreate(p.w, p.h);
    auto v = gil::view(img);
    for (int y = 0; y < p.h; ++y)
        for (int x = 0; x < p.w; ++x)
            for (int c = 0; c < p.nc; ++c) v(x, y)[ph[(size_t)c]] = MT<ch_t>::make(p.at(x, y, c));
}

// structuring element: n x n, centred, entries 0/1, row-major se[r*n+c]
struct selem {
    int n;
    std::vector<int> e;
    bool on(int dx, int dy) const {
        int r = n / 2 + dy, c = n / 2 + dx;
        return r >= 0 && r < n && c >= 0 && c < n && e[(size_t)r * n + c] != 0;
    }
};
// max (dil=true) / min over the in-image neighbourhood; the centre always takes part
static plane_img model_morph(plane_img const& s, selem const& se, bool dil) {
    plane_img o(s.w, s.h, s.nc);
    const int R = se.n / 2;
    for (int c = 0; c < s.nc; ++c)
        for (int y = 0; y < s.h; ++y)
            for (int x = 0; x < s.w; ++x) {
                double t = s.at(x, y, c);
                for (int dy = -R; dy <= R; ++dy)
                    for (int dx = -R; dx <= R; ++dx) {
                        if (!se.on(dx, dy)) continue;
                        int xx = x + dx, yy = y + dy;
                        if (xx < 0 || xx >= s.w || yy < 0 || yy >= s.h) continue;
                        t = dil ? std::max(t, s.at(xx, yy, c)) : std::min(t, s.at(xx, yy, c));
                    }
                o.at(x, y, c) = t;
            }
    return o;
}
static bool leq(plane_img const& a, plane_img const& b, std::string& wit) {
    for (int c = 0; c < a.nc; ++c)
        for (int y = 0; y < a.h; ++y)
            for (int x = 0; x < a.w; ++x)
                if (!(a.at(x, y, c) <= b.at(x, y, c))) { wit = vh::cat("(", x, ",", y, ")[", c, "]: ", a.at(x, y, c), " > ", b.at(x, y, c)); return false; }
    return true;
}
static bool eq(plane_img const& a, plane_img const& b, std::string& wit) {
    for (int c = 0; c < a.nc; ++c)
        for (int y = 0; y < a.h; ++y)
            for (int x = 0; x < a.w; ++x)
                if (a.at(x, y, c) != b.at(x, y, c)) { wit = vh::cat("(", x, ",", y, ")[", c, "]: ", a.at(x, y, c), " != ", b.at(x, y, c)); return false; }
    return true;
}

static selem make_se(int n, int kind, vh::rng& r) {
    selem se; se.n = n; se.e.assign((size_t)n * n, 0);
    auto at = [&](int rr, int cc) -> int& { return se.e[(size_t)rr * n + cc]; };
    if (kind == 0) { for (int& x : se.e) x = 1; }                                  // full square
    else if (kind == 1) { for (int i = 0; i < n; ++i) { at(n / 2, i) = 1; at(i, n / 2) = 1; } }   // cross
    else if (kind == 2) { /* all zero: only the implicit centre */ }
    else {
        // seeded, then closed under transposition and 180-degree rotation (symmetric in both senses)
        int dens = 1 + (int)r.below(3);
        for (int rr = 0; rr < n; ++rr)
            for (int cc = 0; cc < n; ++cc)
                if ((int)r.below(4) < dens) {
                    at(rr, cc) = 1; at(cc, rr) = 1; at(n - 1 - rr, n - 1 - cc) = 1; at(n - 1 - cc, n - 1 - rr) = 1;
                }
    }
    return se;
}

// morphological_gradient does not instantiate for float32 channels (pixel - pixel of a class-type channel in
// detail::difference_impl); it is not named by the property, so that combination is simply not exercised.
template <class SV, class DV, class K> void call_gradient(SV const& s, DV const& d, K const& k, std::true_type) { gil::morphological_gradient(s, d, k); }
template <class SV, class DV, class K> void call_gradient(SV const&, DV const&, K const&, std::false_type) {}
enum { MOP_DILATE, MOP_ERODE, MOP_OPENING, MOP_CLOSING, MOP_GRADIENT };
static const char* mopname(int op) { static const char* n[] = {"dilate", "erode", "opening", "closing", "gradient"}; return n[op]; }

// Image = source image type; P = destination pixel type (same colour space, possibly another channel order)
template <class Image, class P = typename Image::value_type> void run_morphology(const char* pxname) {
    const std::vector<int> dp = cu::phys_of_colour<P>();
    typedef typename gil::channel_type<P>::type ch_t;
    const int NC = gil::num_channels<P>::value;
    const double HI = MT<ch_t>::hi(), LO = MT<ch_t>::lo();
    const int maxdim = vh::thorough() ? 12 : 7;
    const int maxn = vh::thorough() ? 7 : 5;
    const int nrand = vh::thorough() ? 6 : 3;
    std::string cls = vh::cat("morph.", pxname);
    for (int w = 0; w <= maxdim; ++w)
        for (int h = 0; h <= maxdim; ++h) {
            if ((w == 0 || h == 0) && !(w + h == 0 || w + h == 3)) continue;      // empties: 0x0, 0x3, 3x0
            if (!vh::begin_case(cls, vh::cat(w, "x", h))) continue;
            vh::rng r = vh::case_rng();
            if (w == 4 && h == 3)
                vh::sample(vh::cat("dilate/erode/opening/closing(", pxname, " ", w, "x", h, ", symmetric SE n=1,3,..", maxn,
                                   ") == max/min over the in-image neighbourhood; order, monotone, idempotent; dst in noise arena"));
            const uint64_t mode_offset = r.below(CM_N);
            uint64_t iter = 0;
            for (int n = 1; n <= maxn; n += 2)
                for (int kind = 0; kind < 3 + nrand; ++kind) {
                    selem se = make_se(n, kind, r);
                    std::vector<float> kv(se.e.begin(), se.e.end());
                    gil::detail::kernel_2d<float> ker(kv.begin(), kv.size(), (std::size_t)(n / 2), (std::size_t)(n / 2));
                    // source contents: the content classes rotate so that every class meets every SE size/kind over the cases
                    plane_img s(w, h, NC);
                    const int mode = (int)((mode_offset + iter++) % CM_N);
                    fill_content<ch_t>(s.v, mode, r);
                    plane_img s2 = s;        // pointwise >= s
                    for (double& x : s2.v) x = MT<ch_t>::bump(x, r);
                    vh::obs(vh::cat("morph.content.", pxname, ".", cmname(mode)));
                    Image src, src2;
                    from_plane(s, src);
                    from_plane(s2, src2);
                    std::vector<double> snap = cu::values_of(gil::const_view(src));
                    std::string ctx = vh::cat(pxname, " ", w, "x", h, " SE ", n, "x", n, " kind ", kind, " content ", cmname(mode), ": ");

                    auto exec = [&](int op, int iters, Image const& in, plane_img const& want, const char* oracle) -> plane_img {
                        cu::arena<P> ar(w, h, r, 2, 2);
                        auto dv = ar.dst();
                        auto sv = gil::subimage_view(gil::const_view(in), 0, 0, w, h);   // explicit dimensions (an image built as 0xN reports 0x0)
                        switch (op) {
                            case MOP_DILATE: gil::dilate(sv, dv, ker, iters); break;
                            case MOP_ERODE: gil::erode(sv, dv, ker, iters); break;
                            case MOP_OPENING: gil::opening(sv, dv, ker); break;
                            case MOP_CLOSING: gil::closing(sv, dv, ker); break;
                            case MOP_GRADIENT: call_gradient(sv, dv, ker, std::integral_constant<bool, !MT<ch_t>::is_float>()); break;
                        }
                        plane_img out = to_plane(gil::const_view(ar.real));   // whole arena; cropped below
                        plane_img got(w, h, NC);
                        for (int c = 0; c < NC; ++c)
                            for (int y = 0; y < h; ++y)
                                for (int x = 0; x < w; ++x) {
                                    got.at(x, y, c) = out.at(x + 2, y + 2, c);
                                    double wv = want.at(x, y, c);
                                    // a wanted value outside the channel range (gradient of a signed image) is not representable: not judged
                                    ar.set(x, y, dp[(size_t)c], (wv < LO || wv > HI) ? got.at(x, y, c) : wv, cu::K_A);     // c is a colour index
                                }
                        cu::cmp_result res = ar.compare(0.0);
                        if (res.outside_bad) vh::viol(vh::cat("outside-dst.", mopname(op), ".", pxname), ctx + res.first_outside);
                        if (res.bad[cu::K_A]) vh::viol(vh::cat(oracle, ".", pxname), ctx + vh::cat(mopname(op), " iterations ", iters, ": ") + res.first[cu::K_A]);
                        vh::evals(1);
                        return got;
                    };

                    plane_img mD = model_morph(s, se, true), mE = model_morph(s, se, false);
                    plane_img D = exec(MOP_DILATE, 1, src, mD, "dilate-def");
                    plane_img E = exec(MOP_ERODE, 1, src, mE, "erode-def");
                    std::string wit;
                    if (!leq(E, s, wit) || !leq(s, D, wit)) vh::viol(vh::cat("order-erode-src-dilate.", pxname), ctx + wit);
                    // monotone in the source
                    plane_img D2 = exec(MOP_DILATE, 1, src2, model_morph(s2, se, true), "dilate-def");
                    plane_img E2 = exec(MOP_ERODE, 1, src2, model_morph(s2, se, false), "erode-def");
                    if (!leq(D, D2, wit)) vh::viol(vh::cat("monotone-dilate.", pxname), ctx + wit);
                    if (!leq(E, E2, wit)) vh::viol(vh::cat("monotone-erode.", pxname), ctx + wit);
                    // opening / closing
                    plane_img mO = model_morph(mE, se, true), mC = model_morph(mD, se, false);
                    plane_img O = exec(MOP_OPENING, 1, src, mO, "opening-def");
                    plane_img C = exec(MOP_CLOSING, 1, src, mC, "closing-def");
                    if (!leq(O, s, wit) || !leq(s, C, wit)) vh::viol(vh::cat("order-opening-src-closing.", pxname), ctx + wit);
                    {
                        Image oi, ci;
                        from_plane(O, oi);
                        from_plane(C, ci);
                        plane_img OO = exec(MOP_OPENING, 1, oi, model_morph(model_morph(O, se, false), se, true), "opening-def");
                        plane_img CC = exec(MOP_CLOSING, 1, ci, model_morph(model_morph(C, se, true), se, false), "closing-def");
                        if (!eq(OO, O, wit)) vh::viol(vh::cat("idempotent-opening.", pxname), ctx + wit);
                        if (!eq(CC, C, wit)) vh::viol(vh::cat("idempotent-closing.", pxname), ctx + wit);
                    }
                    // morphological gradient = dilation - erosion (judged where the difference fits the channel type)
                    if (!MT<ch_t>::is_float) {
                        plane_img mG(w, h, NC);
                        for (size_t i = 0; i < mG.v.size(); ++i) mG.v[i] = MT<ch_t>::is_float ? (double)((float)mD.v[i] - (float)mE.v[i]) : mD.v[i] - mE.v[i];
                        exec(MOP_GRADIENT, 1, src, mG, "gradient-def");
                    }
                    // iterations: 0 = copy, 2 = applied twice
                    exec(MOP_DILATE, 0, src, s, "iterations-0");
                    exec(MOP_ERODE, 0, src, s, "iterations-0");
                    exec(MOP_DILATE, 2, src, model_morph(mD, se, true), "iterations-2");
                    exec(MOP_ERODE, 2, src, model_morph(mE, se, false), "iterations-2");
                    if (cu::values_of(gil::const_view(src)) != snap) vh::viol(vh::cat("src-modified.morph.", pxname), ctx + "source values changed");
                    vh::distinct(1);
                }
        }
}

template <class Image, class P = typename Image::value_type> void run_median(const char* pxname) {
    const std::vector<int> dp = cu::phys_of_colour<P>();
    typedef typename gil::channel_type<P>::type ch_t;
    const int NC = gil::num_channels<P>::value;
    const int maxdim = vh::thorough() ? 12 : 7;
    const int maxk = vh::thorough() ? 7 : 5;
    const int reps = vh::thorough() ? 2 * CM_N : CM_N;
    std::string cls = vh::cat("median.", pxname);
    for (int w = 1; w <= maxdim; ++w)
        for (int h = 1; h <= maxdim; ++h) {
            if (!vh::begin_case(cls, vh::cat(w, "x", h))) continue;
            vh::rng r = vh::case_rng();
            if (w == 4 && h == 3)
                vh::sample(vh::cat("median_filter(", pxname, " ", w, "x", h, ", k=1,3,..", maxk, ") == median of the k x k neighbourhood under edge replication; dst in noise arena"));
            for (int k = 1; k <= maxk; k += 2)
                for (int rep = 0; rep < reps; ++rep) {
                    plane_img s(w, h, NC);
                    const int mode = rep % CM_N;     // every content class for every k
                    fill_content<ch_t>(s.v, mode, r);
                    vh::obs(vh::cat("median.content.", pxname, ".", cmname(mode)));
                    Image src;
                    from_plane(s, src);
                    std::vector<double> snap = cu::values_of(gil::const_view(src));
                    cu::arena<P> ar(w, h, r, 2, 2);
                    gil::median_filter(gil::subimage_view(gil::const_view(src), 0, 0, w, h), ar.dst(), (std::size_t)k);
                    const int R = k / 2;
                    std::vector<double> win;
                    for (int c = 0; c < NC; ++c)
                        for (int y = 0; y < h; ++y)
                            for (int x = 0; x < w; ++x) {
                                win.clear();
                                for (int dy = -R; dy <= R; ++dy)
                                    for (int dx = -R; dx <= R; ++dx) {
                                        int xx = std::min(std::max(x + dx, 0), w - 1), yy = std::min(std::max(y + dy, 0), h - 1);   // edge replication
                                        win.push_back(s.at(xx, yy, c));
                                    }
                                std::sort(win.begin(), win.end());
                                bool edge = x - R < 0 || x + R >= w || y - R < 0 || y + R >= h;
                                ar.set(x, y, dp[(size_t)c], win[win.size() / 2], edge ? cu::K_B : cu::K_A);     // c is a colour index
                            }
                    cu::cmp_result res = ar.compare(0.0);
                    std::string ctx = vh::cat("median_filter ", pxname, " ", w, "x", h, " k=", k, " content ", cmname(mode), ": ");
                    if (res.outside_bad) vh::viol(vh::cat("outside-dst.median.", pxname), ctx + res.first_outside);
                    if (res.bad[cu::K_A]) vh::viol(vh::cat("median-interior.", pxname, ".k", k), ctx + res.first[cu::K_A]);
                    if (res.bad[cu::K_B]) vh::viol(vh::cat("median-edge.", pxname, ".k", k), ctx + res.first[cu::K_B]);
                    if (cu::values_of(gil::const_view(src)) != snap) vh::viol(vh::cat("src-modified.median.", pxname), ctx + "source values changed");
                    vh::evals(1);
                    vh::distinct(1);
                }
        }
}

int main(int argc, char** argv) {
    vh::init(argc, argv);
#ifndef C16_MPART
#define C16_MPART 0
#endif
#if C16_MPART == 0
    run_morphology<gil::gray8_image_t>("gray8");
    run_morphology<gil::rgb8_image_t>("rgb8");
#elif C16_MPART == 1
    run_median<gil::gray8_image_t>("gray8");
    run_median<gil::rgb8_image_t>("rgb8");
    run_median<gil::gray16_image_t>("gray16");
    run_morphology<gil::gray16s_image_t>("gray16s");
#elif C16_MPART == 2
    run_morphology<gil::gray8s_image_t>("gray8s");
    run_morphology<gil::gray32f_image_t>("gray32f");
#elif C16_MPART == 4   // differing channel orders, compared per colour
    run_morphology<gil::rgb8_image_t, gil::bgr8_pixel_t>("rgb8-to-bgr8");
    run_morphology<gil::bgr8_image_t, gil::rgb8_pixel_t>("bgr8-to-rgb8");
#elif C16_MPART == 5
    run_morphology<gil::rgba8_image_t, gil::abgr8_pixel_t>("rgba8-to-abgr8");
    run_morphology<gil::rgb8_planar_image_t, gil::bgr8_pixel_t>("rgb8planar-to-bgr8");
#elif C16_MPART == 6
    run_median<gil::rgb8_image_t, gil::bgr8_pixel_t>("rgb8-to-bgr8");
    run_median<gil::bgr8_image_t, gil::rgb8_pixel_t>("bgr8-to-rgb8");
    run_median<gil::rgba8_image_t, gil::abgr8_pixel_t>("rgba8-to-abgr8");
    run_median<gil::rgb8_planar_image_t, gil::bgr8_pixel_t>("rgb8planar-to-bgr8");
#else
    run_median<gil::gray8s_image_t>("gray8s");
    run_median<gil::gray16s_image_t>("gray16s");
    run_median<gil::gray32f_image_t>("gray32f");
    run_morphology<gil::gray16_image_t>("gray16");
#endif
    return vh::finish();
}
