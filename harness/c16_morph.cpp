// C16 (part 2) -- dilate / erode / opening / closing with symmetric structuring elements and
// median_filter equal their per-pixel definitions; order, monotonicity and idempotence laws.
// See DESIGN.md section 5, C16.  Destinations live in noise-filled arenas, sources are tight heap images.
#include <boost/gil.hpp>
#include <boost/gil/image_processing/morphology.hpp>
#include <boost/gil/image_processing/filter.hpp>
#include <algorithm>
#include <cmath>
#include <limits>
#include <vector>
#include "common/vh.hpp"
#include "c15_util.hpp"

namespace gil = boost::gil;

// plain model image: v[c][y*w+x]
struct plane_img {
    int w = 0, h = 0, nc = 0;
    std::vector<double> v;
    plane_img() {}
    plane_img(int w_, int h_, int nc_) : w(w_), h(h_), nc(nc_), v((size_t)w_ * h_ * nc_, 0.0) {}
    double& at(int x, int y, int c) { return v[((size_t)c * h + y) * w + x]; }
    double at(int x, int y, int c) const { return v[((size_t)c * h + y) * w + x]; }
};
template <class View> plane_img to_plane(View const& v) {
    const int NC = gil::num_channels<View>::value;
    plane_img p((int)v.width(), (int)v.height(), NC);
    for (int y = 0; y < p.h; ++y)
        for (int x = 0; x < p.w; ++x)
            for (int c = 0; c < NC; ++c) p.at(x, y, c) = cu::num(v(x, y)[c]);
    return p;
}
template <class Image> void from_plane(plane_img const& p, Image& img) {
    typedef typename Image::value_type P;
    typedef typename gil::channel_type<P>::type ch_t;
    img.recreate(p.w, p.h);
    auto v = gil::view(img);
    for (int y = 0; y < p.h; ++y)
        for (int x = 0; x < p.w; ++x)
            for (int c = 0; c < p.nc; ++c) v(x, y)[c] = (ch_t)p.at(x, y, c);
}

// structuring element: n x n, centred, entries 0/1, row-major se[r*n+c]
struct selem {
    int n;
    std::vector<int> e;
    bool on(int dx, int dy) const {
        int r = n / 2 + dy, c = n / 2 + dx;
        return r >= 0 && r < n && c >= 0 && c < n && e[(size_t)r * n + c] != 0;
    }
};
// max (dil=true) / min over the in-image neighbourhood; the centre always takes part
static plane_img model_morph(plane_img const& s, selem const& se, bool dil) {
    plane_img o(s.w, s.h, s.nc);
    const int R = se.n / 2;
    for (int c = 0; c < s.nc; ++c)
        for (int y = 0; y < s.h; ++y)
            for (int x = 0; x < s.w; ++x) {
                double t = s.at(x, y, c);
                for (int dy = -R; dy <= R; ++dy)
                    for (int dx = -R; dx <= R; ++dx) {
                        if (!se.on(dx, dy)) continue;
                        int xx = x + dx, yy = y + dy;
                        if (xx < 0 || xx >= s.w || yy < 0 || yy >= s.h) continue;
                        t = dil ? std::max(t, s.at(xx, yy, c)) : std::min(t, s.at(xx, yy, c));
                    }
                o.at(x, y, c) = t;
            }
    return o;
}
static bool leq(plane_img const& a, plane_img const& b, std::string& wit) {
    for (int c = 0; c < a.nc; ++c)
        for (int y = 0; y < a.h; ++y)
            for (int x = 0; x < a.w; ++x)
                if (!(a.at(x, y, c) <= b.at(x, y, c))) { wit = vh::cat("(", x, ",", y, ")[", c, "]: ", a.at(x, y, c), " > ", b.at(x, y, c)); return false; }
    return true;
}
static bool eq(plane_img const& a, plane_img const& b, std::string& wit) {
    for (int c = 0; c < a.nc; ++c)
        for (int y = 0; y < a.h; ++y)
            for (int x = 0; x < a.w; ++x)
                if (a.at(x, y, c) != b.at(x, y, c)) { wit = vh::cat("(", x, ",", y, ")[", c, "]: ", a.at(x, y, c), " != ", b.at(x, y, c)); return false; }
    return true;
}

static selem make_se(int n, int kind, vh::rng& r) {
    selem se; se.n = n; se.e.assign((size_t)n * n, 0);
    auto at = [&](int rr, int cc) -> int& { return se.e[(size_t)rr * n + cc]; };
    if (kind == 0) { for (int& x : se.e) x = 1; }                                  // full square
    else if (kind == 1) { for (int i = 0; i < n; ++i) { at(n / 2, i) = 1; at(i, n / 2) = 1; } }   // cross
    else if (kind == 2) { /* all zero: only the implicit centre */ }
    else {
        // seeded, then closed under transposition and 180-degree rotation (symmetric in both senses)
        int dens = 1 + (int)r.below(3);
        for (int rr = 0; rr < n; ++rr)
            for (int cc = 0; cc < n; ++cc)
                if ((int)r.below(4) < dens) {
                    at(rr, cc) = 1; at(cc, rr) = 1; at(n - 1 - rr, n - 1 - cc) = 1; at(n - 1 - cc, n - 1 - rr) = 1;
                }
    }
    return se;
}

enum { MOP_DILATE, MOP_ERODE, MOP_OPENING, MOP_CLOSING };
static const char* mopname(int op) { static const char* n[] = {"dilate", "erode", "opening", "closing"}; return n[op]; }

template <class Image> void run_morphology(const char* pxname) {
    typedef typename Image::value_type P;
    typedef typename gil::channel_type<P>::type ch_t;
    const int NC = gil::num_channels<P>::value;
    const double HI = (double)std::numeric_limits<ch_t>::max(), LO = (double)std::numeric_limits<ch_t>::min();
    const int maxdim = vh::thorough() ? 12 : 7;
    const int maxn = vh::thorough() ? 7 : 5;
    const int nrand = vh::thorough() ? 6 : 3;
    std::string cls = vh::cat("morph.", pxname);
    for (int w = 0; w <= maxdim; ++w)
        for (int h = 0; h <= maxdim; ++h) {
            if ((w == 0 || h == 0) && !(w + h == 0 || w + h == 3)) continue;      // empties: 0x0, 0x3, 3x0
            if (!vh::begin_case(cls, vh::cat(w, "x", h))) continue;
            vh::rng r = vh::case_rng();
            if (w == 4 && h == 3)
                vh::sample(vh::cat("dilate/erode/opening/closing(", pxname, " ", w, "x", h, ", symmetric SE n=1,3,..", maxn,
                                   ") == max/min over the in-image neighbourhood; order, monotone, idempotent; dst in noise arena"));
            for (int n = 1; n <= maxn; n += 2)
                for (int kind = 0; kind < 3 + nrand; ++kind) {
                    selem se = make_se(n, kind, r);
                    std::vector<float> kv(se.e.begin(), se.e.end());
                    gil::detail::kernel_2d<float> ker(kv.begin(), kv.size(), (std::size_t)(n / 2), (std::size_t)(n / 2));
                    // source contents
                    plane_img s(w, h, NC);
                    const int mode = (int)r.below(3);
                    for (double& x : s.v) x = mode == 0 ? LO + (double)r.below((uint64_t)(HI - LO) + 1) : mode == 1 ? (double)r.below(4) : (r.below(8) == 0 ? HI : LO + 1);
                    plane_img s2 = s;        // pointwise >= s
                    for (double& x : s2.v) x = std::min(HI, x + (double)r.below(60));
                    Image src, src2;
                    from_plane(s, src);
                    from_plane(s2, src2);
                    std::vector<unsigned char> snap = cu::snapshot(src);
                    std::string ctx = vh::cat(pxname, " ", w, "x", h, " SE ", n, "x", n, " kind ", kind, ": ");

                    auto exec = [&](int op, int iters, Image const& in, plane_img const& want, const char* oracle) -> plane_img {
                        cu::arena<P> ar(w, h, r, 2, 2);
                        auto dv = ar.dst();
                        auto sv = gil::subimage_view(gil::const_view(in), 0, 0, w, h);   // explicit dimensions (an image built as 0xN reports 0x0)
                        switch (op) {
                            case MOP_DILATE: gil::dilate(sv, dv, ker, iters); break;
                            case MOP_ERODE: gil::erode(sv, dv, ker, iters); break;
                            case MOP_OPENING: gil::opening(sv, dv, ker); break;
                            case MOP_CLOSING: gil::closing(sv, dv, ker); break;
                        }
                        plane_img out = to_plane(gil::const_view(ar.real));   // whole arena; cropped below
                        plane_img got(w, h, NC);
                        for (int c = 0; c < NC; ++c)
                            for (int y = 0; y < h; ++y)
                                for (int x = 0; x < w; ++x) {
                                    got.at(x, y, c) = out.at(x + 2, y + 2, c);
                                    ar.set(x, y, c, want.at(x, y, c), cu::K_A);
                                }
                        cu::cmp_result res = ar.compare(0.0);
                        if (res.outside_bad) vh::viol(vh::cat("outside-dst.", mopname(op), ".", pxname), ctx + res.first_outside);
                        if (res.bad[cu::K_A]) vh::viol(vh::cat(oracle, ".", pxname), ctx + vh::cat(mopname(op), " iterations ", iters, ": ") + res.first[cu::K_A]);
                        vh::evals(1);
                        return got;
                    };

                    plane_img mD = model_morph(s, se, true), mE = model_morph(s, se, false);
                    plane_img D = exec(MOP_DILATE, 1, src, mD, "dilate-def");
                    plane_img E = exec(MOP_ERODE, 1, src, mE, "erode-def");
                    std::string wit;
                    if (!leq(E, s, wit) || !leq(s, D, wit)) vh::viol(vh::cat("order-erode-src-dilate.", pxname), ctx + wit);
                    // monotone in the source
                    plane_img D2 = exec(MOP_DILATE, 1, src2, model_morph(s2, se, true), "dilate-def");
                    plane_img E2 = exec(MOP_ERODE, 1, src2, model_morph(s2, se, false), "erode-def");
                    if (!leq(D, D2, wit)) vh::viol(vh::cat("monotone-dilate.", pxname), ctx + wit);
                    if (!leq(E, E2, wit)) vh::viol(vh::cat("monotone-erode.", pxname), ctx + wit);
                    // opening / closing
                    plane_img mO = model_morph(mE, se, true), mC = model_morph(mD, se, false);
                    plane_img O = exec(MOP_OPENING, 1, src, mO, "opening-def");
                    plane_img C = exec(MOP_CLOSING, 1, src, mC, "closing-def");
                    if (!leq(O, s, wit) || !leq(s, C, wit)) vh::viol(vh::cat("order-opening-src-closing.", pxname), ctx + wit);
                    {
                        Image oi, ci;
                        from_plane(O, oi);
                        from_plane(C, ci);
                        plane_img OO = exec(MOP_OPENING, 1, oi, model_morph(model_morph(O, se, false), se, true), "opening-def");
                        plane_img CC = exec(MOP_CLOSING, 1, ci, model_morph(model_morph(C, se, true), se, false), "closing-def");
                        if (!eq(OO, O, wit)) vh::viol(vh::cat("idempotent-opening.", pxname), ctx + wit);
                        if (!eq(CC, C, wit)) vh::viol(vh::cat("idempotent-closing.", pxname), ctx + wit);
                    }
                    // iterations: 0 = copy, 2 = applied twice
                    exec(MOP_DILATE, 0, src, s, "iterations-0");
                    exec(MOP_ERODE, 0, src, s, "iterations-0");
                    exec(MOP_DILATE, 2, src, model_morph(mD, se, true), "iterations-2");
                    exec(MOP_ERODE, 2, src, model_morph(mE, se, false), "iterations-2");
                    if (!cu::same_bytes(src, snap)) vh::viol(vh::cat("src-modified.morph.", pxname), ctx + "source bytes changed");
                    vh::distinct(1);
                }
        }
}

template <class Image> void run_median(const char* pxname) {
    typedef typename Image::value_type P;
    typedef typename gil::channel_type<P>::type ch_t;
    const int NC = gil::num_channels<P>::value;
    const double HI = (double)std::numeric_limits<ch_t>::max(), LO = (double)std::numeric_limits<ch_t>::min();
    const int maxdim = vh::thorough() ? 12 : 7;
    const int maxk = vh::thorough() ? 7 : 5;
    const int reps = vh::thorough() ? 6 : 3;
    std::string cls = vh::cat("median.", pxname);
    for (int w = 1; w <= maxdim; ++w)
        for (int h = 1; h <= maxdim; ++h) {
            if (!vh::begin_case(cls, vh::cat(w, "x", h))) continue;
            vh::rng r = vh::case_rng();
            if (w == 4 && h == 3)
                vh::sample(vh::cat("median_filter(", pxname, " ", w, "x", h, ", k=1,3,..", maxk, ") == median of the k x k neighbourhood under edge replication; dst in noise arena"));
            for (int k = 1; k <= maxk; k += 2)
                for (int rep = 0; rep < reps; ++rep) {
                    plane_img s(w, h, NC);
                    const int mode = rep % 3;     // full range / few levels (many ties) / impulses
                    for (double& x : s.v) x = mode == 0 ? LO + (double)r.below((uint64_t)(HI - LO) + 1) : mode == 1 ? (double)r.below(3) : (r.below(5) == 0 ? HI : LO + (double)r.below(2));
                    Image src;
                    from_plane(s, src);
                    std::vector<unsigned char> snap = cu::snapshot(src);
                    cu::arena<P> ar(w, h, r, 2, 2);
                    gil::median_filter(gil::subimage_view(gil::const_view(src), 0, 0, w, h), ar.dst(), (std::size_t)k);
                    const int R = k / 2;
                    std::vector<double> win;
                    for (int c = 0; c < NC; ++c)
                        for (int y = 0; y < h; ++y)
                            for (int x = 0; x < w; ++x) {
                                win.clear();
                                for (int dy = -R; dy <= R; ++dy)
                                    for (int dx = -R; dx <= R; ++dx) {
                                        int xx = std::min(std::max(x + dx, 0), w - 1), yy = std::min(std::max(y + dy, 0), h - 1);   // edge replication
                                        win.push_back(s.at(xx, yy, c));
                                    }
                                std::sort(win.begin(), win.end());
                                bool edge = x - R < 0 || x + R >= w || y - R < 0 || y + R >= h;
                                ar.set(x, y, c, win[win.size() / 2], edge ? cu::K_B : cu::K_A);
                            }
                    cu::cmp_result res = ar.compare(0.0);
                    std::string ctx = vh::cat("median_filter ", pxname, " ", w, "x", h, " k=", k, ": ");
                    if (res.outside_bad) vh::viol(vh::cat("outside-dst.median.", pxname), ctx + res.first_outside);
                    if (res.bad[cu::K_A]) vh::viol(vh::cat("median-interior.", pxname, ".k", k), ctx + res.first[cu::K_A]);
                    if (res.bad[cu::K_B]) vh::viol(vh::cat("median-edge.", pxname, ".k", k), ctx + res.first[cu::K_B]);
                    if (!cu::same_bytes(src, snap)) vh::viol(vh::cat("src-modified.median.", pxname), ctx + "source bytes changed");
                    vh::evals(1);
                    vh::distinct(1);
                }
        }
}

int main(int argc, char** argv) {
    vh::init(argc, argv);
#ifndef C16_MPART
#define C16_MPART 0
#endif
#if C16_MPART == 0
    run_morphology<gil::gray8_image_t>("gray8");
    run_morphology<gil::rgb8_image_t>("rgb8");
#else
    run_median<gil::gray8_image_t>("gray8");
    run_median<gil::rgb8_image_t>("rgb8");
    run_median<gil::gray16_image_t>("gray16");
    run_morphology<gil::gray16s_image_t>("gray16s");
#endif
    return vh::finish();
}
