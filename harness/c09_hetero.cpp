// C09 (continued) -- colour conversion INTO destinations whose channels have different bit depths.
//
// The converters name the destination's channel type per channel (color_element_type<P2, red_t> ...); with a
// homogeneous destination a slip between two of those names is invisible.  Here the destinations are
//   packed pixels        rgb565, bgr565, rgb332, bgr332 (semantic bits r2 g3 b3), rgba5551
//   bit-aligned pixels   rgb565, rgb232 (7 bits per pixel), rgba5551 -- written through the image view's reference
// and the sources are every core colour space and depth the other parts sweep: gray8/16/32f, rgb8, bgr8, rgb16,
// rgb32f, rgba8, cmyk8 and the packed pixels themselves.  Per destination channel k (bits from a hand-written table):
//   hetero-channel   the channel equals channel_convert<packed_channel_value<bits_k>> of the value the property
//                    assigns to it: the source channel (same colour space), v (gray -> rgb), channel_multiply(c,a)
//                    (from rgba), the cmyk->rgb8 channel (from cmyk)
//   hetero-linear    it is within one unit of THAT channel of the exact rescaling (independent of channel_convert)
//   hetero-neutral   white -> every channel at its own maximum, black -> 0, opaque -> alpha at its maximum
//   hetero-neighbour a bit-aligned write leaves the pixels on both sides untouched
// and weights.<packed source>-><gray> for rgb -> gray from packed / bit-aligned sources.  color_converted_view and
// copy_and_convert_pixels into packed and bit-aligned images are compared with color_convert pixel by pixel.
// What does not instantiate is not claimed: gray/rgb/cmyk -> rgba5551 and rgba5551 -> gray/rgb/cmyk use
// channel_type<P> of the packed pixel ("Supports homogeneous pixels only" in color_convert.hpp).
#include <boost/gil.hpp>
#include <algorithm>
#include <cmath>
#include <cstring>
#include <vector>
#include "common/vh.hpp"
#include "c09_cube.hpp"

#ifndef C09H_PART
#define C09H_PART 0
#endif

namespace gil = boost::gil;
namespace mp11 = boost::mp11;
typedef long double ld;

struct vlog {
    std::map<std::string, uint64_t> n;
    template <class F> void hit(const std::string& key, F make_detail) {
        uint64_t& c = n[key];
        if (c < 3) vh::viol(key, make_detail());
        ++c;
    }
    ~vlog() { for (auto& kv : n) vh::count("violating-results." + kv.first, kv.second); }
};

// ---- destinations ------------------------------------------------------------------------------------------
typedef gil::packed_pixel_type<uint16_t, mp11::mp_list_c<unsigned, 5, 6, 5>, gil::rgb_layout_t>::type rgb565_t;
typedef gil::packed_pixel_type<uint16_t, mp11::mp_list_c<unsigned, 5, 6, 5>, gil::bgr_layout_t>::type bgr565_t;
typedef gil::packed_pixel_type<uint8_t, mp11::mp_list_c<unsigned, 3, 3, 2>, gil::rgb_layout_t>::type rgb332_t;
typedef gil::packed_pixel_type<uint8_t, mp11::mp_list_c<unsigned, 3, 3, 2>, gil::bgr_layout_t>::type bgr332_t;   // blue 3, green 3, red 2
typedef gil::packed_pixel_type<uint16_t, mp11::mp_list_c<unsigned, 5, 5, 5, 1>, gil::rgba_layout_t>::type rgba5551_t;
typedef gil::bit_aligned_image3_type<5, 6, 5, gil::rgb_layout_t>::type ba565_image_t;
typedef gil::bit_aligned_image3_type<2, 3, 2, gil::rgb_layout_t>::type ba232_image_t;
typedef gil::bit_aligned_image4_type<5, 5, 5, 1, gil::rgba_layout_t>::type ba5551_image_t;

// the bit field type of a packed pixel
template <class P> struct bf { typedef typename std::decay<decltype(std::declval<P&>()._bitfield)>::type type; };

// semantic channels as integers
template <int K> struct sem_read {
    template <class P> static void run(const P& p, long* out) { out[K - 1] = (long)gil::semantic_at_c<K - 1>(p); sem_read<K - 1>::run(p, out); }
};
template <> struct sem_read<0> { template <class P> static void run(const P&, long*) {} };

// a packed pixel value as destination
template <class P, int N> struct packed_slot {
    typedef P value;
    static const bool bit_aligned = false;
    P d;
    packed_slot() : d((typename bf<P>::type)0) {}
    template <class S> void convert(const S& s) { d = P((typename bf<P>::type)0x5A5A); gil::color_convert(s, d); }
    void read(long* out) const { sem_read<N>::run(d, out); }
    bool neighbours_intact() const { return true; }
};
// the middle pixel of a 3x1 bit-aligned image, written through the view's reference
template <class Img, int N> struct bitaligned_slot {
    typedef typename Img::value_type value;
    static const bool bit_aligned = true;
    Img img;
    long left[4], right[4];
    bitaligned_slot() : img(3, 1) {}
    template <class S> void convert(const S& s) {
        auto v = gil::view(img);
        value a((typename bf<value>::type)0x2D), b((typename bf<value>::type)0x52), m((typename bf<value>::type)0x7F);
        v(0, 0) = a; v(1, 0) = m; v(2, 0) = b;
        sem_read<N>::run(a, left); sem_read<N>::run(b, right);
        auto ref = v(1, 0);
        gil::color_convert(s, ref);
    }
    void read(long* out) const { sem_read<N>::run(gil::const_view(img)(1, 0), out); }
    bool neighbours_intact() const {
        long l[4], r[4];
        sem_read<N>::run(gil::const_view(img)(0, 0), l); sem_read<N>::run(gil::const_view(img)(2, 0), r);
        for (int i = 0; i < N; ++i) if (l[i] != left[i] || r[i] != right[i]) return false;
        return true;
    }
};

// hand-written tables: bits of the semantic channels (red, green, blue[, alpha])
struct d_rgb565 { typedef packed_slot<rgb565_t, 3> slot; typedef mp11::mp_list_c<int, 5, 6, 5> bits; static const int N = 3; static const char* name() { return "rgb565"; } };
struct d_bgr565 { typedef packed_slot<bgr565_t, 3> slot; typedef mp11::mp_list_c<int, 5, 6, 5> bits; static const int N = 3; static const char* name() { return "bgr565"; } };
struct d_rgb332 { typedef packed_slot<rgb332_t, 3> slot; typedef mp11::mp_list_c<int, 3, 3, 2> bits; static const int N = 3; static const char* name() { return "rgb332"; } };
struct d_bgr332 { typedef packed_slot<bgr332_t, 3> slot; typedef mp11::mp_list_c<int, 2, 3, 3> bits; static const int N = 3; static const char* name() { return "bgr332"; } };
struct d_ba565 { typedef bitaligned_slot<ba565_image_t, 3> slot; typedef mp11::mp_list_c<int, 5, 6, 5> bits; static const int N = 3; static const char* name() { return "bitaligned-rgb565"; } };
struct d_ba232 { typedef bitaligned_slot<ba232_image_t, 3> slot; typedef mp11::mp_list_c<int, 2, 3, 2> bits; static const int N = 3; static const char* name() { return "bitaligned-rgb232"; } };
struct d_rgba5551 { typedef packed_slot<rgba5551_t, 4> slot; typedef mp11::mp_list_c<int, 5, 5, 5, 1> bits; static const int N = 4; static const char* name() { return "rgba5551"; } };
struct d_ba5551 { typedef bitaligned_slot<ba5551_image_t, 4> slot; typedef mp11::mp_list_c<int, 5, 5, 5, 1> bits; static const int N = 4; static const char* name() { return "bitaligned-rgba5551"; } };

// ---- the value the property assigns to each destination channel, as a pixel in semantic order ("effective" pixel) ----
template <class Ch> ld norm(const Ch& c) {
    typedef typename gil::channel_traits<Ch>::value_type V;
    V v = c;
    ld lo = (ld)(double)gil::channel_traits<V>::min_value(), hi = (ld)(double)gil::channel_traits<V>::max_value();
    return ((ld)(double)v - lo) / (hi - lo);
}
template <class S> gil::pixel<typename gil::channel_type<S>::type, gil::rgb_layout_t> effective(const S& s, gil::gray_t) {
    return gil::pixel<typename gil::channel_type<S>::type, gil::rgb_layout_t>(s[0], s[0], s[0]);
}
template <class S> const S& effective(const S& s, gil::rgb_t) { return s; }
template <class S> gil::pixel<typename gil::channel_type<S>::type, gil::rgb_layout_t> effective(const S& s, gil::rgba_t) {
    using namespace gil;
    return pixel<typename channel_type<S>::type, rgb_layout_t>(channel_multiply(get_color(s, red_t()), get_color(s, alpha_t())),
                                                               channel_multiply(get_color(s, green_t()), get_color(s, alpha_t())),
                                                               channel_multiply(get_color(s, blue_t()), get_color(s, alpha_t())));
}
template <class S> gil::pixel<typename gil::channel_type<S>::type, gil::rgb_layout_t> effective(const S& s, gil::cmyk_t) {
    gil::pixel<typename gil::channel_type<S>::type, gil::rgb_layout_t> e;
    gil::color_convert(s, e);     // cmyk -> rgb of the same depth is decided by the other parts
    return e;
}
// white / black of a source
template <class S> int neutral(const S& s, gil::gray_t) { ld v = norm(s[0]); return v == 1 ? 1 : v == 0 ? -1 : 0; }
template <class S> int neutral(const S& s, gil::rgb_t) {
    ld r = norm(gil::semantic_at_c<0>(s)), g = norm(gil::semantic_at_c<1>(s)), b = norm(gil::semantic_at_c<2>(s));
    return (r == 1 && g == 1 && b == 1) ? 1 : (r == 0 && g == 0 && b == 0) ? -1 : 0;
}
template <class S> int neutral(const S& s, gil::rgba_t) {
    if (norm(gil::semantic_at_c<3>(s)) != 1) return 0;
    ld r = norm(gil::semantic_at_c<0>(s)), g = norm(gil::semantic_at_c<1>(s)), b = norm(gil::semantic_at_c<2>(s));
    return (r == 1 && g == 1 && b == 1) ? 1 : (r == 0 && g == 0 && b == 0) ? -1 : 0;
}
template <class S> int neutral(const S& s, gil::cmyk_t) {
    if (!(norm(s[0]) == 0 && norm(s[1]) == 0 && norm(s[2]) == 0)) return 0;
    return norm(s[3]) == 0 ? 1 : norm(s[3]) == 1 ? -1 : 0;
}

template <int K> struct sem_show {
    template <class P> static std::string run(const P& p) { char b[48]; snprintf(b, sizeof b, "%s%.9g", K > 1 ? "," : "", (double)norm(gil::semantic_at_c<K - 1>(p)) ); return sem_show<K - 1>::run(p) + b; }
};
template <> struct sem_show<0> { template <class P> static std::string run(const P&) { return ""; } };
// semantic channels as fractions of full scale
template <class P> std::string showsem(const P& p) { return "(" + sem_show<gil::num_channels<P>::value>::run(p) + " of full scale)"; }

// per destination channel K-1: expectation and unit from the bits table
template <class Desc, int K> struct chan_check {
    template <class E> static void run(const E& e, const long* got, const std::string& pair, const std::string& srcshow, vlog& vl) {
        const int bits = mp11::mp_at_c<typename Desc::bits, K - 1>::value;
        typedef gil::packed_channel_value<bits> CV;
        const long maxv = (1l << bits) - 1;
        long g = got[K - 1];
        long expect = (long)(typename CV::integer_t)gil::channel_convert<CV>(gil::semantic_at_c<K - 1>(e));
        static const char* cn[4] = {"red", "green", "blue", "alpha"};
        if (g < 0 || g > maxv)
            vl.hit("hetero-range." + pair, [&] { return vh::cat(pair, " ", srcshow, ": ", cn[K - 1], " = ", g, " outside its ", bits, " bits"); });
        if (g != expect)
            vl.hit("hetero-channel." + pair, [&] { return vh::cat(pair, " ", srcshow, ": ", cn[K - 1], " (", bits, " bits) = ", g, " but channel_convert into that channel's type gives ", expect); });
        ld exact = norm(gil::semantic_at_c<K - 1>(e)) * maxv;
        if (fabsl((ld)g - exact) > 1.0L + 1e-6L)
            vl.hit("hetero-linear." + pair, [&] { return vh::cat(pair, " ", srcshow, ": ", cn[K - 1], " (", bits, " bits) = ", g, " but the exact rescaling is ", (double)exact); });
        chan_check<Desc, K - 1>::run(e, got, pair, srcshow, vl);
    }
    static void neutral(int nt, const long* got, const std::string& pair, vlog& vl) {
        const int bits = mp11::mp_at_c<typename Desc::bits, K - 1>::value;
        const long maxv = (1l << bits) - 1;
        static const char* cn[4] = {"red", "green", "blue", "alpha"};
        long want = (K == 4) ? maxv : (nt > 0 ? maxv : 0);     // alpha: opaque stays opaque
        if (got[K - 1] != want)
            vl.hit(vh::cat("hetero-neutral.", pair, nt > 0 ? ".white" : ".black"), [&] { return vh::cat(pair, " ", nt > 0 ? "white" : "black", ": ", cn[K - 1], " = ", got[K - 1], " expected ", want); });
        chan_check<Desc, K - 1>::neutral(nt, got, pair, vl);
    }
};
template <class Desc> struct chan_check<Desc, 0> {
    template <class E> static void run(const E&, const long*, const std::string&, const std::string&, vlog&) {}
    static void neutral(int, const long*, const std::string&, vlog&) {}
};

// ---- sources ---------------------------------------------------------------------------------------------
template <class S> void dedupe(std::vector<S>& v) {
    std::sort(v.begin(), v.end(), [](const S& a, const S& b) { return memcmp(&a, &b, sizeof(S)) < 0; });
    v.erase(std::unique(v.begin(), v.end(), [](const S& a, const S& b) { return memcmp(&a, &b, sizeof(S)) == 0; }), v.end());
}
static std::vector<float> unit_floats(vh::rng& r, int nrand) {
    std::vector<float> v = {0.f, 1.f, nextafterf(1.f, 0.f), nextafterf(0.f, 1.f), 0.5f};
    const int maxes[] = {1, 3, 7, 31, 63, 255};
    for (int m : maxes) for (int k = 0; k <= m; ++k) { v.push_back((float)k / m); v.push_back((float)((k + 0.499) / m)); v.push_back((float)((k + 0.501) / m)); }
    for (int i = 0; i < nrand; ++i) v.push_back((float)r.unit());
    for (float& x : v) { if (!(x >= 0.f)) x = 0.f; if (x > 1.f) x = 1.f; }
    std::sort(v.begin(), v.end()); v.erase(std::unique(v.begin(), v.end()), v.end());
    return v;
}
template <class S> struct src;
template <> struct src<gil::gray8_pixel_t> { static const char* name() { return "gray8"; }
    static std::vector<gil::gray8_pixel_t> make(vh::rng&) { std::vector<gil::gray8_pixel_t> v; for (int i = 0; i < 256; ++i) v.push_back(gil::gray8_pixel_t(i)); return v; } };
template <> struct src<gil::gray16_pixel_t> { static const char* name() { return "gray16"; }
    static std::vector<gil::gray16_pixel_t> make(vh::rng&) { std::vector<gil::gray16_pixel_t> v; for (long i = 0; i < 65536; ++i) v.push_back(gil::gray16_pixel_t((uint16_t)i)); return v; } };
template <> struct src<gil::gray32f_pixel_t> { static const char* name() { return "gray32f"; }
    static std::vector<gil::gray32f_pixel_t> make(vh::rng& r) { std::vector<gil::gray32f_pixel_t> v; for (float f : unit_floats(r, vh::thorough() ? 100000 : 5000)) v.push_back(gil::gray32f_pixel_t(f)); return v; } };
template <class RGB> std::vector<RGB> cube_subset(vh::rng& r) {
    std::vector<RGB> v;
    uint64_t salt = r.next();
    for (int k = 0; k < 16; ++k)
        cube::for_slab(k, false, salt, [&](int R, int G, int B) { RGB p; gil::get_color(p, gil::red_t()) = R; gil::get_color(p, gil::green_t()) = G; gil::get_color(p, gil::blue_t()) = B; v.push_back(p); });
    return v;
}
template <> struct src<gil::rgb8_pixel_t> { static const char* name() { return "rgb8"; } static std::vector<gil::rgb8_pixel_t> make(vh::rng& r) { return cube_subset<gil::rgb8_pixel_t>(r); } };
template <> struct src<gil::bgr8_pixel_t> { static const char* name() { return "bgr8"; } static std::vector<gil::bgr8_pixel_t> make(vh::rng& r) { return cube_subset<gil::bgr8_pixel_t>(r); } };
template <> struct src<gil::rgb16_pixel_t> { static const char* name() { return "rgb16"; }
    static std::vector<gil::rgb16_pixel_t> make(vh::rng& r) {
        std::vector<gil::rgb16_pixel_t> v;
        for (long i = 0; i < 65536; ++i) {      // every value of every channel: the diagonal and the three axes against both ends
            uint16_t x = (uint16_t)i;
            v.push_back(gil::rgb16_pixel_t(x, x, x));
            if (i % 3 == 0) { v.push_back(gil::rgb16_pixel_t(x, 0, 65535)); v.push_back(gil::rgb16_pixel_t(65535, x, 0)); v.push_back(gil::rgb16_pixel_t(0, 65535, x)); }
        }
        long nr = vh::thorough() ? 400000 : 40000;
        for (long i = 0; i < nr; ++i) { uint64_t z = r.next(); v.push_back(gil::rgb16_pixel_t((uint16_t)z, (uint16_t)(z >> 16), (uint16_t)(z >> 32))); }
        dedupe(v); return v;
    } };
template <> struct src<gil::rgb32f_pixel_t> { static const char* name() { return "rgb32f"; }
    static std::vector<gil::rgb32f_pixel_t> make(vh::rng& r) {
        std::vector<gil::rgb32f_pixel_t> v;
        std::vector<float> u = unit_floats(r, 200);
        for (float f : u) { v.push_back(gil::rgb32f_pixel_t(f, f, f)); v.push_back(gil::rgb32f_pixel_t(f, 0.f, 1.f)); v.push_back(gil::rgb32f_pixel_t(1.f, f, 0.f)); v.push_back(gil::rgb32f_pixel_t(0.f, 1.f, f)); }
        long nr = vh::thorough() ? 400000 : 40000;
        for (long i = 0; i < nr; ++i) v.push_back(gil::rgb32f_pixel_t(u[r.below(u.size())], u[r.below(u.size())], u[r.below(u.size())]));
        dedupe(v); return v;
    } };
template <> struct src<gil::rgba8_pixel_t> { static const char* name() { return "rgba8"; }
    static std::vector<gil::rgba8_pixel_t> make(vh::rng& r) {
        std::vector<gil::rgba8_pixel_t> v;
        for (int c = 0; c < 256; ++c) for (int a = 0; a < 256; ++a) v.push_back(gil::rgba8_pixel_t(c, (c * 7 + 3) & 255, 255 - c, a));
        for (int c = 0; c < 256; ++c) v.push_back(gil::rgba8_pixel_t(c, c, c, 255));
        long nr = vh::thorough() ? 400000 : 40000;
        for (long i = 0; i < nr; ++i) { uint64_t z = r.next(); v.push_back(gil::rgba8_pixel_t((uint8_t)z, (uint8_t)(z >> 8), (uint8_t)(z >> 16), (uint8_t)(z >> 24))); }
        dedupe(v); return v;
    } };
template <> struct src<gil::rgba16_pixel_t> { static const char* name() { return "rgba16"; }
    static std::vector<gil::rgba16_pixel_t> make(vh::rng& r) {
        std::vector<gil::rgba16_pixel_t> v;
        for (long c = 0; c < 65536; ++c) v.push_back(gil::rgba16_pixel_t((uint16_t)c, (uint16_t)(65535 - c), (uint16_t)(c * 3), (uint16_t)((c & 1) ? c : 65535)));
        for (long i = 0; i < 40000; ++i) { uint64_t z = r.next(); v.push_back(gil::rgba16_pixel_t((uint16_t)z, (uint16_t)(z >> 16), (uint16_t)(z >> 32), (uint16_t)(z >> 48))); }
        dedupe(v); return v;
    } };
template <> struct src<gil::cmyk8_pixel_t> { static const char* name() { return "cmyk8"; }
    static std::vector<gil::cmyk8_pixel_t> make(vh::rng& r) {
        std::vector<gil::cmyk8_pixel_t> v;
        for (int c = 0; c < 256; ++c) for (int k = 0; k < 256; k += (k < 16 || k > 239) ? 1 : 5) v.push_back(gil::cmyk8_pixel_t(c, 255 - c, (c * 5 + 1) & 255, k));
        for (int c = 0; c < 256; ++c) { v.push_back(gil::cmyk8_pixel_t(0, 0, 0, c)); v.push_back(gil::cmyk8_pixel_t(c, c, c, 0)); }
        long nr = vh::thorough() ? 400000 : 40000;
        for (long i = 0; i < nr; ++i) { uint64_t z = r.next(); v.push_back(gil::cmyk8_pixel_t((uint8_t)z, (uint8_t)(z >> 8), (uint8_t)(z >> 16), (uint8_t)(z >> 24))); }
        dedupe(v); return v;
    } };
template <class P> std::vector<P> all_bitfields(unsigned n) { std::vector<P> v; for (unsigned i = 0; i < n; ++i) v.push_back(P((typename bf<P>::type)i)); return v; }
template <> struct src<rgb565_t> { static const char* name() { return "rgb565"; } static std::vector<rgb565_t> make(vh::rng&) { return all_bitfields<rgb565_t>(65536); } };
template <> struct src<bgr565_t> { static const char* name() { return "bgr565"; } static std::vector<bgr565_t> make(vh::rng&) { return all_bitfields<bgr565_t>(65536); } };
template <> struct src<rgb332_t> { static const char* name() { return "rgb332"; } static std::vector<rgb332_t> make(vh::rng&) { return all_bitfields<rgb332_t>(256); } };
template <> struct src<rgba5551_t> { static const char* name() { return "rgba5551"; } static std::vector<rgba5551_t> make(vh::rng&) { return all_bitfields<rgba5551_t>(65536); } };

// ---- one (source type, destination) case -------------------------------------------------------------------
template <class S, class Desc> void into_case() {
    const std::string pair = vh::cat(src<S>::name(), "->", Desc::name());
    if (!vh::begin_case(vh::cat("hetero.", pair), "values")) return;
    typedef typename gil::color_space_type<S>::type cs;
    vh::rng r = vh::case_rng();
    std::vector<S> sources = src<S>::make(r);
    vlog vl;
    typename Desc::slot slot;
    uint64_t n = 0;
    bool neighbours_bad = false;
    for (const S& s : sources) {
        slot.convert(s);
        long got[4] = {0, 0, 0, 0};
        slot.read(got);
        ++n;
        auto e = effective(s, cs());
        chan_check<Desc, Desc::N>::run(e, got, pair, showsem(s), vl);
        int nt = neutral(s, cs());
        if (nt) chan_check<Desc, Desc::N>::neutral(nt, got, pair, vl);
        if (!neighbours_bad && !slot.neighbours_intact()) { neighbours_bad = true; vl.hit("hetero-neighbour." + pair, [&] { return vh::cat(pair, " ", showsem(s), ": the bit-aligned write changed a neighbouring pixel"); }); }
    }
    vh::evals(n * Desc::N); vh::distinct(n);
    vh::obs(vh::cat("hetero.", gil::num_channels<S>::value == 1 ? "gray" : std::is_same<cs, gil::rgb_t>::value ? "rgb" : std::is_same<cs, gil::rgba_t>::value ? "rgba" : "cmyk", "->", Desc::name()));
    vh::sample(vh::cat(pair, ": ", n, " distinct source pixels; every destination channel against channel_convert into its own bit depth, the exact rescaling (one unit), neutrals"));
}
// rgba sources into rgba destinations: the effective pixel is the source itself (same colour space, alpha carried)
template <class S, class Desc> void rgba_into_case() {
    const std::string pair = vh::cat(src<S>::name(), "->", Desc::name());
    if (!vh::begin_case(vh::cat("hetero.", pair), "values")) return;
    vh::rng r = vh::case_rng();
    std::vector<S> sources = src<S>::make(r);
    vlog vl;
    typename Desc::slot slot;
    uint64_t n = 0;
    bool neighbours_bad = false;
    for (const S& s : sources) {
        slot.convert(s);
        long got[4] = {0, 0, 0, 0};
        slot.read(got);
        ++n;
        chan_check<Desc, 4>::run(s, got, pair, showsem(s), vl);
        int nt = neutral(s, gil::rgba_t());
        if (nt) chan_check<Desc, 4>::neutral(nt, got, pair, vl);
        if (!neighbours_bad && !slot.neighbours_intact()) { neighbours_bad = true; vl.hit("hetero-neighbour." + pair, [&] { return vh::cat(pair, " ", showsem(s), ": the bit-aligned write changed a neighbouring pixel"); }); }
    }
    vh::evals(n * 4); vh::distinct(n);
    vh::obs(vh::cat("hetero.rgba->", Desc::name()));
    vh::sample(vh::cat(pair, ": ", n, " distinct source pixels; same colour space: every channel (alpha included) is channel_convert into its own bit depth; opaque neutrals"));
}

// heterogeneous source -> homogeneous destination of the same colour space (rgba5551 -> rgba8 ...)
template <class S, class D> void from_packed_same_space_case(const char* dname) {
    const std::string pair = vh::cat(src<S>::name(), "->", dname);
    if (!vh::begin_case(vh::cat("hetero.", pair), "values")) return;
    typedef typename gil::channel_type<D>::type DC;
    vh::rng r = vh::case_rng();
    std::vector<S> sources = src<S>::make(r);
    vlog vl;
    uint64_t n = 0;
    for (const S& s : sources) {
        D d;
        gil::color_convert(s, d);
        ++n;
        bool bad = false;
        ld worst = 0;
        DC e0 = gil::channel_convert<DC>(gil::semantic_at_c<0>(s)), e1 = gil::channel_convert<DC>(gil::semantic_at_c<1>(s)), e2 = gil::channel_convert<DC>(gil::semantic_at_c<2>(s));
        bad = !(gil::semantic_at_c<0>(d) == e0 && gil::semantic_at_c<1>(d) == e1 && gil::semantic_at_c<2>(d) == e2);
        worst = std::max(fabsl(norm(gil::semantic_at_c<0>(d)) - norm(gil::semantic_at_c<0>(s))), std::max(fabsl(norm(gil::semantic_at_c<1>(d)) - norm(gil::semantic_at_c<1>(s))), fabsl(norm(gil::semantic_at_c<2>(d)) - norm(gil::semantic_at_c<2>(s)))));
        if (bad) vl.hit("hetero-channel." + pair, [&] { return vh::cat(pair, " ", showsem(s), " -> ", showsem(d), " is not the per-channel channel_convert"); });
        if (worst > 1.0L / 255 + 1e-9L) vl.hit("hetero-linear." + pair, [&] { return vh::cat(pair, " ", showsem(s), " -> ", showsem(d), " is more than one 8-bit unit from the source channel"); });
    }
    vh::evals(n); vh::distinct(n);
}
template <class S, class D> void from_packed_rgba_case(const char* dname) {
    const std::string pair = vh::cat(src<S>::name(), "->", dname);
    if (!vh::begin_case(vh::cat("hetero.", pair), "values")) return;
    typedef typename gil::channel_type<D>::type DC;
    vh::rng r = vh::case_rng();
    std::vector<S> sources = src<S>::make(r);
    vlog vl;
    uint64_t n = 0;
    for (const S& s : sources) {
        D d;
        gil::color_convert(s, d);
        ++n;
        DC e[4] = {gil::channel_convert<DC>(gil::semantic_at_c<0>(s)), gil::channel_convert<DC>(gil::semantic_at_c<1>(s)), gil::channel_convert<DC>(gil::semantic_at_c<2>(s)), gil::channel_convert<DC>(gil::semantic_at_c<3>(s))};
        if (!(gil::semantic_at_c<0>(d) == e[0] && gil::semantic_at_c<1>(d) == e[1] && gil::semantic_at_c<2>(d) == e[2] && gil::semantic_at_c<3>(d) == e[3]))
            vl.hit("hetero-channel." + pair, [&] { return vh::cat(pair, " ", showsem(s), " -> ", showsem(d), " is not the per-channel channel_convert"); });
        ld a = norm(gil::semantic_at_c<3>(s));
        if ((a == 1 || a == 0) && norm(gil::semantic_at_c<3>(d)) != a) vl.hit("hetero-neutral." + pair + ".alpha", [&] { return vh::cat(pair, " ", showsem(s), " -> ", showsem(d)); });
    }
    vh::evals(n); vh::distinct(n);
}

// rgb -> gray from a packed / bit-aligned source: within one unit of the weights, monotone in each channel, neutrals
template <class S, class G> void packed_to_gray_case(const char* gname) {
    const std::string pair = vh::cat(src<S>::name(), "->", gname);
    if (!vh::begin_case(vh::cat("hetero.", pair), "values")) return;
    typedef typename gil::channel_type<G>::type GC;
    vh::rng r = vh::case_rng();
    std::vector<S> sources = src<S>::make(r);
    vlog vl;
    uint64_t n = 0;
    const ld unit = std::is_same<GC, gil::float32_t>::value ? 1e-6L : 1.0L / (ld)(double)gil::channel_traits<GC>::max_value();
    for (const S& s : sources) {
        G d;
        gil::color_convert(s, d);
        ++n;
        ld w = 0.30L * norm(gil::semantic_at_c<0>(s)) + 0.59L * norm(gil::semantic_at_c<1>(s)) + 0.11L * norm(gil::semantic_at_c<2>(s));
        ld y = norm(d[0]);
        if (!(y >= 0 && y <= 1)) vl.hit("range." + pair, [&] { return vh::cat(pair, " ", showsem(s), " -> ", (double)y); });
        if (fabsl(y - w) > unit * 1.0000001L) vl.hit("weights." + pair, [&] { return vh::cat(pair, " ", showsem(s), " -> ", (double)y, " of full scale, the weights give ", (double)w, ", one unit is ", (double)unit); });
        int nt = neutral(s, gil::rgb_t());
        if (nt > 0 && y != 1) vl.hit("neutral." + pair + ".white", [&] { return vh::cat("white -> ", (double)y); });
        if (nt < 0 && y != 0) vl.hit("neutral." + pair + ".black", [&] { return vh::cat("black -> ", (double)y); });
        // monotone: the next value of one channel
        S s2 = s;
        bool bumped = false;
        switch (n % 3) {
            case 0: if (norm(gil::semantic_at_c<0>(s)) < 1) { gil::semantic_at_c<0>(s2) = (int)gil::semantic_at_c<0>(s) + 1; bumped = true; } break;
            case 1: if (norm(gil::semantic_at_c<1>(s)) < 1) { gil::semantic_at_c<1>(s2) = (int)gil::semantic_at_c<1>(s) + 1; bumped = true; } break;
            default: if (norm(gil::semantic_at_c<2>(s)) < 1) { gil::semantic_at_c<2>(s2) = (int)gil::semantic_at_c<2>(s) + 1; bumped = true; } break;
        }
        if (bumped) { G d2; gil::color_convert(s2, d2); if (norm(d2[0]) < y) vl.hit("monotone." + pair, [&] { return vh::cat(pair, " ", showsem(s), " -> ", (double)y, " but ", showsem(s2), " -> ", (double)norm(d2[0])); }); }
    }
    vh::evals(n); vh::distinct(n);
    vh::sample(vh::cat(pair, ": every ", src<S>::name(), " pixel: weights within one unit, monotone, neutrals"));
}
// the same with the source read through a bit-aligned image view's (const) reference
static void bitaligned_to_gray_case() {
    if (!vh::begin_case("hetero.bitaligned-rgb565->gray8", "values")) return;
    vlog vl;
    ba565_image_t img(3, 1);
    auto v = gil::view(img);
    uint64_t n = 0;
    for (unsigned i = 0; i < 65536; ++i) {
        ba565_image_t::value_type p((uint16_t)i);
        v(1, 0) = p;
        gil::gray8_pixel_t a, b; gil::rgb8_pixel_t c, d;
        gil::color_convert(gil::const_view(img)(1, 0), a); gil::color_convert(p, b);
        gil::color_convert(gil::const_view(img)(1, 0), c); gil::color_convert(p, d);
        ++n;
        ld w = 255.0L * (0.30L * norm(gil::semantic_at_c<0>(p)) + 0.59L * norm(gil::semantic_at_c<1>(p)) + 0.11L * norm(gil::semantic_at_c<2>(p)));
        if (fabsl((ld)a[0] - w) > 1.0L) vl.hit("weights.bitaligned-rgb565->gray8", [&] { return vh::cat(showsem(p), " -> gray8 ", (int)a[0], " weights give ", (double)w); });
        if (a != b || c != d) vl.hit("reference-vs-value.bitaligned-rgb565", [&] { return vh::cat(showsem(p), ": through the view's reference gray8 ", (int)a[0], " rgb8 ", showsem(c), ", from the pixel value gray8 ", (int)b[0], " rgb8 ", showsem(d)); });
    }
    vh::evals(n); vh::distinct(n);
}

// ---- views into packed / bit-aligned images ---------------------------------------------------------------------
template <class V1, class V2, int N> bool same_pixels(const V1& a, const V2& b, std::ptrdiff_t& bx, std::ptrdiff_t& by) {
    for (std::ptrdiff_t y = 0; y < a.height(); ++y)
        for (std::ptrdiff_t x = 0; x < a.width(); ++x) {
            long p[4] = {0, 0, 0, 0}, q[4] = {0, 0, 0, 0};
            sem_read<N>::run(a(x, y), p); sem_read<N>::run(b(x, y), q);
            for (int i = 0; i < N; ++i) if (p[i] != q[i]) { bx = x; by = y; return false; }
        }
    return true;
}
template <class S, class DstImg, int N> void view_case(const char* dname) {
    const std::string pair = vh::cat(src<S>::name(), "->", dname);
    if (!vh::begin_case(vh::cat("hetero-view.", pair), "9x5")) return;
    typedef typename DstImg::value_type DV;
    vh::rng r = vh::case_rng();
    std::vector<S> sources = src<S>::make(r);
    vlog vl;
    const int w = 9, h = 5;
    gil::image<S, false> simg(w, h);
    for (int y = 0; y < h; ++y) for (int x = 0; x < w; ++x) gil::view(simg)(x, y) = sources[r.below(sources.size())];
    // a few structured pixels: the ends and the middle of the source list
    gil::view(simg)(0, 0) = sources.front(); gil::view(simg)(w - 1, h - 1) = sources.back(); gil::view(simg)(w / 2, h / 2) = sources[sources.size() / 2];
    auto sv = gil::const_view(simg);
    // expectation: color_convert pixel by pixel into a destination image through its view's references
    DstImg expect(w, h), viacopy(w, h), viaccv(w, h), viastep(w, h);
    for (int y = 0; y < h; ++y) for (int x = 0; x < w; ++x) { auto&& ref = gil::view(expect)(x, y); gil::color_convert(sv(x, y), ref); }
    gil::copy_and_convert_pixels(sv, gil::view(viacopy));
    auto cv = gil::color_converted_view<DV>(sv);
    for (int y = 0; y < h; ++y) for (int x = 0; x < w; ++x) { DV p = cv(x, y); gil::view(viaccv)(x, y) = p; }
    std::ptrdiff_t bx = 0, by = 0;
    if (!same_pixels<decltype(gil::const_view(expect)), decltype(gil::const_view(viacopy)), N>(gil::const_view(expect), gil::const_view(viacopy), bx, by))
        vl.hit("hetero-view.copy_and_convert_pixels." + pair, [&] { return vh::cat(pair, " pixel (", bx, ",", by, ") of copy_and_convert_pixels differs from color_convert of ", showsem(sv(bx, by))); });
    if (!same_pixels<decltype(gil::const_view(expect)), decltype(gil::const_view(viaccv)), N>(gil::const_view(expect), gil::const_view(viaccv), bx, by))
        vl.hit("hetero-view.color_converted_view." + pair, [&] { return vh::cat(pair, " pixel (", bx, ",", by, ") of color_converted_view differs from color_convert of ", showsem(sv(bx, by))); });
    // a stepped source into a sub-view of the destination
    gil::copy_and_convert_pixels(gil::subsampled_view(sv, 2, 1), gil::subimage_view(gil::view(viastep), 1, 0, (w + 1) / 2, h));
    bool stepbad = false;
    for (int y = 0; y < h && !stepbad; ++y) for (int x = 0; x < (w + 1) / 2 && !stepbad; ++x) {
        long p[4] = {0, 0, 0, 0}, q[4] = {0, 0, 0, 0};
        sem_read<N>::run(gil::const_view(viastep)(1 + x, y), p); sem_read<N>::run(gil::const_view(expect)(2 * x, y), q);
        for (int i = 0; i < N; ++i) if (p[i] != q[i]) stepbad = true;
        if (stepbad) vl.hit("hetero-view.copy_and_convert_pixels-stepped." + pair, [&] { return vh::cat(pair, " stepped source, destination pixel (", 1 + x, ",", y, ") differs from color_convert of ", showsem(sv(2 * x, y))); });
    }
    vh::evals(3 * w * h);
    vh::distinct_hash(vh::mix(vh::hash_str(pair), vh::hash_bytes(&gil::view(simg)(0, 0), sizeof(S) * w * h)));
    vh::obs("hetero-view");
    vh::sample(vh::cat(pair, ": 9x5 seeded image; copy_and_convert_pixels (whole and stepped source into a sub-view) and color_converted_view against color_convert into the same kind of image"));
}

template <class S> void into_rgb_destinations() {
#if C09H_PART == 0
    into_case<S, d_rgb565>(); into_case<S, d_bgr565>(); into_case<S, d_rgb332>();
#else
    into_case<S, d_bgr332>(); into_case<S, d_ba565>(); into_case<S, d_ba232>();
#endif
}

int main(int argc, char** argv) {
    vh::init(argc, argv);
    into_rgb_destinations<gil::gray8_pixel_t>();
    into_rgb_destinations<gil::gray16_pixel_t>();
    into_rgb_destinations<gil::gray32f_pixel_t>();
    into_rgb_destinations<gil::rgb8_pixel_t>();
    into_rgb_destinations<gil::bgr8_pixel_t>();
    into_rgb_destinations<gil::rgb16_pixel_t>();
    into_rgb_destinations<gil::rgb32f_pixel_t>();
    into_rgb_destinations<gil::rgba8_pixel_t>();
    into_rgb_destinations<gil::cmyk8_pixel_t>();
    into_rgb_destinations<rgb565_t>();
    into_rgb_destinations<rgb332_t>();
#if C09H_PART == 0
    rgba_into_case<gil::rgba8_pixel_t, d_rgba5551>();
    rgba_into_case<gil::rgba16_pixel_t, d_rgba5551>();
    rgba_into_case<rgba5551_t, d_rgba5551>();
    from_packed_rgba_case<rgba5551_t, gil::rgba8_pixel_t>("rgba8");
    from_packed_rgba_case<rgba5551_t, gil::bgra8_pixel_t>("bgra8");
    from_packed_same_space_case<rgb332_t, gil::rgb8_pixel_t>("rgb8");
    from_packed_same_space_case<bgr565_t, gil::rgb8_pixel_t>("rgb8");
    packed_to_gray_case<rgb332_t, gil::gray8_pixel_t>("gray8");
    packed_to_gray_case<rgb332_t, gil::gray16_pixel_t>("gray16");
    packed_to_gray_case<rgb332_t, gil::gray32f_pixel_t>("gray32f");
    packed_to_gray_case<bgr565_t, gil::gray8_pixel_t>("gray8");
    packed_to_gray_case<rgb565_t, gil::gray16_pixel_t>("gray16");
    packed_to_gray_case<rgb565_t, gil::gray32f_pixel_t>("gray32f");
    view_case<gil::gray8_pixel_t, gil::image<rgb565_t>, 3>("rgb565-image");
    view_case<gil::gray16_pixel_t, gil::image<bgr565_t>, 3>("bgr565-image");
    view_case<gil::rgb8_pixel_t, gil::image<rgb565_t>, 3>("rgb565-image");
    view_case<gil::rgb32f_pixel_t, gil::image<rgb332_t>, 3>("rgb332-image");
    view_case<gil::rgba8_pixel_t, gil::image<bgr332_t>, 3>("bgr332-image");
    view_case<gil::cmyk8_pixel_t, gil::image<rgb565_t>, 3>("rgb565-image");
    view_case<gil::rgba8_pixel_t, gil::image<rgba5551_t>, 4>("rgba5551-image");
#else
    rgba_into_case<gil::rgba8_pixel_t, d_ba5551>();
    rgba_into_case<rgba5551_t, d_ba5551>();
    bitaligned_to_gray_case();
    view_case<gil::gray8_pixel_t, ba565_image_t, 3>("bitaligned-rgb565-image");
    view_case<gil::gray32f_pixel_t, ba232_image_t, 3>("bitaligned-rgb232-image");
    view_case<gil::rgb8_pixel_t, ba232_image_t, 3>("bitaligned-rgb232-image");
    view_case<gil::bgr8_pixel_t, ba565_image_t, 3>("bitaligned-rgb565-image");
    view_case<gil::rgb16_pixel_t, ba565_image_t, 3>("bitaligned-rgb565-image");
    view_case<gil::cmyk8_pixel_t, ba232_image_t, 3>("bitaligned-rgb232-image");
    view_case<gil::rgba8_pixel_t, ba5551_image_t, 4>("bitaligned-rgba5551-image");
    view_case<rgb565_t, ba232_image_t, 3>("bitaligned-rgb232-image");
#endif
    return vh::finish();
}
