// C05 -- pixel construction / assignment / equality pair channels by colour name, whatever the
// layout, planarity or packing of either side; at_c is memory order, semantic_at_c / get_color are
// colour order, related exactly by the layout's mapping; static_* colour-base algorithms visit
// each channel once and pair their arguments by colour.   See DESIGN.md section 5, C05.
//
// Oracle: hand-written layout tables (the *name* of a layout, e.g. "argb", is the order of the
// colours in memory) and raw memory.  Every model is wrapped in a holder that owns the storage
// and reads / writes one named colour through raw bytes / bits without going through GIL:
//   H_pix    pixel<T,L> placed in a byte buffer      colour k at byte  phys(k)*sizeof(T)
//   H_planar planar_pixel_reference<T&|T const&,CS>  colour k in its own (scrambled) plane
//   H_packed packed_pixel<BitField,...,L>            colour k at bit   sum of the sizes stored before it (LSB first)
//   H_bits   bit_aligned_pixel_reference<...,L,mut>  the same bit string at a run-time bit offset in a byte buffer
// One case per ordered pair (source model, destination model) of a family of compatible models,
// plus one case per model for the unary checks.
#include <boost/gil.hpp>
#include <algorithm>
#include <cmath>
#include <cstring>
#include <new>
#include <utility>
#include <vector>
#include "common/vh.hpp"

namespace gil = boost::gil;
namespace mp11 = boost::mp11;

#ifndef C05_PART
#define C05_PART 0
#endif

template <class... T> struct TL { static const int size = sizeof...(T); };
template <class L, int K> struct tl_at;
template <class H, class... T, int K> struct tl_at<TL<H, T...>, K> : tl_at<TL<T...>, K - 1> {};
template <class H, class... T> struct tl_at<TL<H, T...>, 0> { typedef H type; };

constexpr int cfind(const char* s, char c, int i = 0) { return s[i] == c ? i : (s[i] == 0 ? -1 : cfind(s, c, i + 1)); }

template <int K, int N> struct KLoop {
    template <class F> static void run(F& f) { f(std::integral_constant<int, K>()); KLoop<K + 1, N>::run(f); }
};
template <int N> struct KLoop<N, N> { template <class F> static void run(F&) {} };

// ---- colour spaces (hand-written: order of the colours in the colour space, tags, names) ---------
struct CS_gray {
    typedef gil::gray_t cs; static constexpr int N = 1;
    static constexpr const char* order() { return "y"; }
    static const char* name() { return "gray"; }
    static const char* cname(int) { return "gray"; }
    typedef TL<gil::gray_color_t> tags;
};
struct CS_rgb {
    typedef gil::rgb_t cs; static constexpr int N = 3;
    static constexpr const char* order() { return "rgb"; }
    static const char* name() { return "rgb"; }
    static const char* cname(int k) { static const char* n[] = {"red", "green", "blue"}; return n[k]; }
    typedef TL<gil::red_t, gil::green_t, gil::blue_t> tags;
};
struct CS_rgba {
    typedef gil::rgba_t cs; static constexpr int N = 4;
    static constexpr const char* order() { return "rgba"; }
    static const char* name() { return "rgba"; }
    static const char* cname(int k) { static const char* n[] = {"red", "green", "blue", "alpha"}; return n[k]; }
    typedef TL<gil::red_t, gil::green_t, gil::blue_t, gil::alpha_t> tags;
};
struct CS_cmyk {
    typedef gil::cmyk_t cs; static constexpr int N = 4;
    static constexpr const char* order() { return "cmyk"; }
    static const char* name() { return "cmyk"; }
    static const char* cname(int k) { static const char* n[] = {"cyan", "magenta", "yellow", "black"}; return n[k]; }
    typedef TL<gil::cyan_t, gil::magenta_t, gil::yellow_t, gil::black_t> tags;
};
template <int N_> struct CS_dev {
    typedef typename gil::devicen_t<N_>::type cs; static constexpr int N = N_;
    static constexpr const char* order() { return "01234"; }
    static const char* name() { static std::string s = "devicen" + std::to_string(N_); return s.c_str(); }
    static const char* cname(int k) { static const char* n[] = {"dev0", "dev1", "dev2", "dev3", "dev4"}; return n[k]; }
    typedef TL<gil::devicen_color_t<0>, gil::devicen_color_t<1>, gil::devicen_color_t<2>, gil::devicen_color_t<3>, gil::devicen_color_t<4>> tags;
};

// ---- layouts: mem() spells the order of the colours in memory --------------------------------------
template <class CSI, class GL> struct LYbase { typedef CSI csi; typedef GL type; };
#define LAYOUT(NAME, CSI, GL, MEM) struct NAME : LYbase<CSI, GL> { static constexpr const char* mem() { return MEM; } };
LAYOUT(L_gray, CS_gray, gil::gray_layout_t, "y")
LAYOUT(L_rgb, CS_rgb, gil::rgb_layout_t, "rgb")
LAYOUT(L_bgr, CS_rgb, gil::bgr_layout_t, "bgr")
LAYOUT(L_rgba, CS_rgba, gil::rgba_layout_t, "rgba")
LAYOUT(L_bgra, CS_rgba, gil::bgra_layout_t, "bgra")
LAYOUT(L_argb, CS_rgba, gil::argb_layout_t, "argb")
LAYOUT(L_abgr, CS_rgba, gil::abgr_layout_t, "abgr")
LAYOUT(L_cmyk, CS_cmyk, gil::cmyk_layout_t, "cmyk")
// user-defined layouts (layout<ColorSpace, Mapping>, Mapping[colour] = position in memory); they are
// the only way to reach a non-trivial mapping for cmyk and for the 2- and 5-channel colour bases
typedef gil::layout<gil::cmyk_t, mp11::mp_list_c<int, 3, 2, 1, 0>> kymc_layout;
LAYOUT(L_kymc, CS_cmyk, kymc_layout, "kymc")
LAYOUT(L_dev2, CS_dev<2>, gil::devicen_layout_t<2>, "01")
typedef gil::layout<gil::devicen_t<2>::type, mp11::mp_list_c<int, 1, 0>> dev2x_layout;
LAYOUT(L_dev2x, CS_dev<2>, dev2x_layout, "10")
LAYOUT(L_dev3, CS_dev<3>, gil::devicen_layout_t<3>, "012")
typedef gil::layout<gil::devicen_t<3>::type, mp11::mp_list_c<int, 2, 0, 1>> dev3r_layout;
LAYOUT(L_dev3r, CS_dev<3>, dev3r_layout, "120")
LAYOUT(L_dev4, CS_dev<4>, gil::devicen_layout_t<4>, "0123")
typedef gil::layout<gil::devicen_t<4>::type, mp11::mp_list_c<int, 1, 2, 3, 0>> dev4r_layout;
LAYOUT(L_dev4r, CS_dev<4>, dev4r_layout, "3012")
LAYOUT(L_dev5, CS_dev<5>, gil::devicen_layout_t<5>, "01234")
typedef gil::layout<gil::devicen_t<5>::type, mp11::mp_list_c<int, 3, 4, 0, 1, 2>> dev5r_layout;
LAYOUT(L_dev5r, CS_dev<5>, dev5r_layout, "23401")

// position in memory of colour k / colour stored at memory position p
template <class LY> constexpr int phys(int k) { return cfind(LY::mem(), LY::csi::order()[k]); }
template <class LY> constexpr int sem_of_phys(int p) { return cfind(LY::csi::order(), LY::mem()[p]); }

// ---- channel value plumbing: everything the oracle handles is a double (exact for <=32-bit ints, floats)
template <class T> struct RT;
template <> struct RT<uint8_t> { typedef uint8_t raw; static const char* name() { return "u8"; } static double maxv() { return 255; } static const bool is_float = false; };
template <> struct RT<uint16_t> { typedef uint16_t raw; static const char* name() { return "u16"; } static double maxv() { return 65535; } static const bool is_float = false; };
template <> struct RT<gil::float32_t> { typedef float raw; static const char* name() { return "f32"; } static double maxv() { return 1; } static const bool is_float = true; };
template <> struct RT<uint64_t> { typedef uint64_t raw; static const char* name() { return "u64"; } static double maxv() { return 18446744073709551615.0; } static const bool is_float = false; };
template <> struct RT<uint32_t> { typedef uint32_t raw; static const char* name() { return "u32"; } static double maxv() { return 4294967295.0; } static const bool is_float = false; };

inline double to_raw(uint8_t v) { return v; }
inline double to_raw(uint16_t v) { return v; }
inline double to_raw(uint32_t v) { return v; }
inline double to_raw(gil::float32_t const& v) { return (double)(float)v; }
template <int N> double to_raw(gil::packed_channel_value<N> const& v) { return (double)(uint64_t)(typename gil::packed_channel_value<N>::integer_t)v; }
template <class BF, int FB, int NB, bool M> double to_raw(gil::packed_channel_reference<BF, FB, NB, M> const& v) {
    return (double)(uint64_t)(typename gil::packed_channel_reference<BF, FB, NB, M>::integer_t)v;
}
template <class BF, int NB, bool M> double to_raw(gil::packed_dynamic_channel_reference<BF, NB, M> const& v) {
    return (double)(uint64_t)(typename gil::packed_dynamic_channel_reference<BF, NB, M>::integer_t)v;
}
template <class V> struct mk { static V make(double d) { return V((unsigned long long)d); } };
template <> struct mk<gil::float32_t> { static gil::float32_t make(double d) { return gil::float32_t((float)d); } };
template <> struct mk<uint8_t> { static uint8_t make(double d) { return (uint8_t)d; } };
template <> struct mk<uint16_t> { static uint16_t make(double d) { return (uint16_t)d; } };
template <> struct mk<uint32_t> { static uint32_t make(double d) { return (uint32_t)d; } };
template <class X> struct chan_value { typedef typename gil::channel_traits<typename std::remove_cv<X>::type>::value_type type; };

static double twiddle(double v, bool is_float) { return is_float ? v * 0.5 : (double)(((uint64_t)v) ^ 1u); }

// ---- holders ------------------------------------------------------------------------------------------
template <class T, class LY> struct H_pix {
    typedef typename LY::csi csi; typedef LY ly; enum { N = csi::N };
    typedef gil::pixel<T, typename LY::type> gil_t;
    typedef typename RT<T>::raw raw;
    static const bool is_mutable = true, is_value = true, is_homog = true, byte_addr = true, is_float = RT<T>::is_float, is_pix = true;
    static std::string name() { return vh::cat("pixel<", RT<T>::name(), ",", LY::mem(), ">"); }
    static int physk(int k) { return phys<LY>(k); }
    alignas(16) unsigned char buf[16 + 5 * 4 + 16];
    H_pix() { memset(buf, 0xC3, sizeof buf); new (base()) gil_t(); }
    unsigned char* base() { return buf + 16; }
    gil_t& ref() { return *reinterpret_cast<gil_t*>(base()); }
    gil_t const& cref() { return *reinterpret_cast<gil_t const*>(base()); }
    void set_variant(int) {}
    void set_spare(uint64_t) {}
    static bool has_spare() { return false; }
    static double maxv(int) { return RT<T>::maxv(); }
    void set(int k, double v) { raw r = (raw)v; memcpy(base() + phys<LY>(k) * sizeof(T), &r, sizeof r); }
    double get(int k) { raw r; memcpy(&r, base() + phys<LY>(k) * sizeof(T), sizeof r); return (double)r; }
    void* chan_addr(int k) { return base() + phys<LY>(k) * sizeof(T); }
    void* phys_addr(int p) { return base() + p * sizeof(T); }
    template <class Src> void construct_from(Src const& s) { new (base()) gil_t(s); }
    bool guards_ok() {
        for (int i = 0; i < 16; ++i) if (buf[i] != 0xC3) return false;
        for (size_t i = 16 + N * sizeof(T); i < sizeof buf; ++i) if (buf[i] != 0xC3) return false;
        return true;
    }
};

template <class It, class P> It make_planar_it(P* p, std::integral_constant<int, 2>) { return It(p[0], p[1]); }
template <class It, class P> It make_planar_it(P* p, std::integral_constant<int, 3>) { return It(p[0], p[1], p[2]); }
template <class It, class P> It make_planar_it(P* p, std::integral_constant<int, 4>) { return It(p[0], p[1], p[2], p[3]); }
template <class It, class P> It make_planar_it(P* p, std::integral_constant<int, 5>) { return It(p[0], p[1], p[2], p[3], p[4]); }

template <class T, class CSI, bool Mut> struct H_planar {
    typedef CSI csi; enum { N = CSI::N };
    typedef typename std::conditional<Mut, T&, T const&>::type chref;
    typedef typename std::conditional<Mut, T*, T const*>::type chptr;
    typedef gil::planar_pixel_reference<chref, typename CSI::cs> gil_t;
    typedef gil::planar_pixel_iterator<chptr, typename CSI::cs> it_t;
    typedef typename RT<T>::raw raw;
    static const bool is_mutable = Mut, is_value = false, is_homog = true, byte_addr = true, is_float = RT<T>::is_float, is_pix = false;
    static std::string name() { return vh::cat("planar<", Mut ? "" : "const:", RT<T>::name(), ",", CSI::name(), ">"); }
    static int physk(int k) { return k; }
    unsigned char planes[5][3 * sizeof(T)];          // colour k lives in the middle element of planes[slot(k)]
    static int slot(int k) { return (k * 3 + 1) % 5; }
    H_planar() { memset(planes, 0xC3, sizeof planes); for (int k = 0; k < N; ++k) new (chan_addr(k)) T(); }
    void* chan_addr(int k) { return planes[slot(k)] + sizeof(T); }
    void* phys_addr(int p) { return chan_addr(p); }
    gil_t ref() {
        chptr p[5];
        for (int k = 0; k < N; ++k) p[k] = reinterpret_cast<chptr>(chan_addr(k));
        it_t it = make_planar_it<it_t>(p, std::integral_constant<int, N>());
        return *it;
    }
    gil_t cref() { return ref(); }
    void set_variant(int) {}
    void set_spare(uint64_t) {}
    static bool has_spare() { return false; }
    static double maxv(int) { return RT<T>::maxv(); }
    void set(int k, double v) { raw r = (raw)v; memcpy(chan_addr(k), &r, sizeof r); }
    double get(int k) { raw r; memcpy(&r, chan_addr(k), sizeof r); return (double)r; }
    bool guards_ok() {
        for (int s = 0; s < 5; ++s) for (size_t i = 0; i < 3 * sizeof(T); ++i) {
            bool used = false;
            for (int k = 0; k < N; ++k) if (slot(k) == s && i >= sizeof(T) && i < 2 * sizeof(T)) used = true;
            if (!used && planes[s][i] != 0xC3) return false;
        }
        return true;
    }
};

// sizes S... are given per colour (colour-space order); the list GIL wants is in memory order
template <class LY, class Seq, unsigned... S> struct phys_sizes;
template <class LY, std::size_t... I, unsigned... S> struct phys_sizes<LY, std::index_sequence<I...>, S...> {
    static constexpr unsigned at(int i) { constexpr unsigned a[] = {S...}; return a[i]; }
    typedef mp11::mp_list_c<unsigned, at(sem_of_phys<LY>((int)I))...> type;
};
template <unsigned... S> struct size_names {
    static std::string str() { const unsigned a[] = {S...}; std::string s; for (unsigned v : a) { if (v > 9) s += "_"; s += std::to_string(v); if (v > 9) s += "_"; } return s; }
};

template <class LY, unsigned... S> struct bit_table {
    enum { N = sizeof...(S) };
    static unsigned ssize(int k) { static const unsigned a[] = {S...}; return a[k]; }
    static unsigned bitoff(int k) {          // bits stored before colour k: the sizes of the colours that precede it in memory
        int p = phys<LY>(k); unsigned off = 0;
        for (int q = 0; q < p; ++q) off += ssize(sem_of_phys<LY>(q));
        return off;
    }
    static unsigned total() { unsigned t = 0; for (int k = 0; k < N; ++k) t += ssize(k); return t; }
};

template <class BF, class LY, unsigned... S> struct H_packed {
    typedef typename LY::csi csi; typedef LY ly; enum { N = csi::N };
    typedef bit_table<LY, S...> bt;
    typedef typename phys_sizes<LY, std::make_index_sequence<sizeof...(S)>, S...>::type sizes_t;
    typedef typename gil::packed_pixel_type<BF, sizes_t, typename LY::type>::type gil_t;
    static const bool is_mutable = true, is_value = true, is_homog = false, byte_addr = false, is_float = false, is_pix = false;
    static std::string name() { return vh::cat("packed<", RT<BF>::name(), ",", size_names<S...>::str(), ",", LY::mem(), ">"); }
    static int physk(int k) { return phys<LY>(k); }
    alignas(8) unsigned char buf[8 + sizeof(BF) + 8];
    H_packed() { memset(buf, 0xC3, sizeof buf); new (base()) gil_t(); }
    unsigned char* base() { return buf + 8; }
    gil_t& ref() { return *reinterpret_cast<gil_t*>(base()); }
    gil_t const& cref() { return *reinterpret_cast<gil_t const*>(base()); }
    void set_variant(int) {}
    // bits of the bit field that belong to no channel (channels are contiguous from bit 0)
    static bool has_spare() { return bt::total() < 8 * sizeof(BF); }
    static uint64_t spare_mask() { return bt::total() >= 64 ? 0 : (~0ull << bt::total()) & (sizeof(BF) == 8 ? ~0ull : ((1ull << (8 * sizeof(BF))) - 1)); }
    void set_spare(uint64_t pattern) {
        BF r; memcpy(&r, base(), sizeof r);
        uint64_t x = ((uint64_t)r & ~spare_mask()) | (pattern & spare_mask());
        r = (BF)x; memcpy(base(), &r, sizeof r);
    }
    BF raw_bits() { BF r; memcpy(&r, base(), sizeof r); return r; }
    static double maxv(int k) { return (double)((1ull << bt::ssize(k)) - 1); }
    void set(int k, double v) {
        BF r; memcpy(&r, base(), sizeof r);
        uint64_t x = r, mask = (1ull << bt::ssize(k)) - 1, off = bt::bitoff(k);
        x = (x & ~(mask << off)) | (((uint64_t)v & mask) << off);
        r = (BF)x; memcpy(base(), &r, sizeof r);
    }
    double get(int k) {
        BF r; memcpy(&r, base(), sizeof r);
        uint64_t mask = (1ull << bt::ssize(k)) - 1;
        return (double)(((uint64_t)r >> bt::bitoff(k)) & mask);
    }
    template <class Src> void construct_from(Src const& s) { new (base()) gil_t(s); }
    bool guards_ok() {
        for (int i = 0; i < 8; ++i) if (buf[i] != 0xC3) return false;
        for (size_t i = 8 + sizeof(BF); i < sizeof buf; ++i) if (buf[i] != 0xC3) return false;
        return true;
    }
};

template <class BF, class LY, bool Mut, unsigned... S> struct H_bits {
    typedef typename LY::csi csi; typedef LY ly; enum { N = csi::N };
    typedef bit_table<LY, S...> bt;
    typedef typename phys_sizes<LY, std::make_index_sequence<sizeof...(S)>, S...>::type sizes_t;
    typedef gil::bit_aligned_pixel_reference<BF, sizes_t, typename LY::type, Mut> gil_t;
    static const bool is_mutable = Mut, is_value = false, is_homog = false, byte_addr = false, is_float = false, is_pix = false;
    static std::string name() { return vh::cat("bitref<", Mut ? "" : "const:", RT<BF>::name(), ",", size_names<S...>::str(), ",", LY::mem(), ">"); }
    static int physk(int k) { return phys<LY>(k); }
    unsigned char buf[40];                 // the pixel starts at bit `start` (>= 64); >= 16 bytes of slack behind it
    unsigned char shadow[40];
    int start;
    H_bits() : start(64 + 3) { for (size_t i = 0; i < sizeof buf; ++i) buf[i] = (unsigned char)(0x5A ^ (i * 29)); memcpy(shadow, buf, sizeof buf); }
    void set_variant(int v) { memcpy(buf, shadow, sizeof buf); start = 64 + ((v % 8) + 8) % 8; }   // callers fill the pixel afterwards
    gil_t ref() { return gil_t(buf + start / 8, start % 8); }
    gil_t cref() { return ref(); }
    // the bits around the pixel (its neighbours in a row) take a pattern derived from `pattern`
    static bool has_spare() { return true; }
    void set_spare(uint64_t pattern) {
        vh::rng pr(pattern);
        for (size_t i = 0; i < sizeof buf; ++i) {
            unsigned char nb = pattern == 0 ? 0 : pattern == ~0ull ? 0xFF : (unsigned char)pr.next();
            for (unsigned b = 0; b < 8; ++b) {
                unsigned bit = (unsigned)i * 8 + b;
                if (bit >= (unsigned)start && bit < start + bt::total()) continue;
                if ((nb >> b) & 1) buf[i] |= (unsigned char)(1u << b); else buf[i] &= (unsigned char)~(1u << b);
            }
        }
        memcpy(shadow, buf, sizeof buf);
    }
    static double maxv(int k) { return (double)((1ull << bt::ssize(k)) - 1); }
    void set(int k, double v) {
        uint64_t x = (uint64_t)v;
        for (unsigned b = 0; b < bt::ssize(k); ++b) {
            unsigned bit = start + bt::bitoff(k) + b;
            if ((x >> b) & 1) buf[bit / 8] |= (unsigned char)(1u << (bit % 8)); else buf[bit / 8] &= (unsigned char)~(1u << (bit % 8));
        }
    }
    double get(int k) {
        uint64_t x = 0;
        for (unsigned b = 0; b < bt::ssize(k); ++b) {
            unsigned bit = start + bt::bitoff(k) + b;
            if ((buf[bit / 8] >> (bit % 8)) & 1) x |= 1ull << b;
        }
        return (double)x;
    }
    // bits outside the pixel keep the pattern they were given
    bool guards_ok() {
        for (unsigned bit = 0; bit < 8 * sizeof buf; ++bit) {
            if (bit >= (unsigned)start && bit < start + bt::total()) continue;
            if (((buf[bit / 8] ^ shadow[bit / 8]) >> (bit % 8)) & 1) return false;
        }
        return true;
    }
};

// ---- recording functors -----------------------------------------------------------------------------------
struct visit_log { std::vector<double> a, b, c; void clear() { a.clear(); b.clear(); c.clear(); } };
struct rec1 { visit_log* l; template <class X> void operator()(X const& x) { l->a.push_back(to_raw(x)); } };
struct rec2 { visit_log* l; template <class X, class Y> void operator()(X const& x, Y const& y) { l->a.push_back(to_raw(x)); l->b.push_back(to_raw(y)); } };
struct rec3 {
    visit_log* l;
    template <class X, class Y, class Z> void operator()(X const& x, Y const& y, Z const& z) { l->a.push_back(to_raw(x)); l->b.push_back(to_raw(y)); l->c.push_back(to_raw(z)); }
};
struct tr1 {
    visit_log* l; bool is_float;
    template <class X> typename chan_value<X>::type operator()(X const& x) {
        double v = to_raw(x); l->a.push_back(v);
        return mk<typename chan_value<X>::type>::make(twiddle(v, is_float));
    }
};
struct tr2 {
    visit_log* l; bool is_float;
    template <class X, class Y> typename chan_value<X>::type operator()(X const& x, Y const& y) {
        double v = to_raw(x); l->a.push_back(v); l->b.push_back(to_raw(y));
        return mk<typename chan_value<X>::type>::make(twiddle(v, is_float));
    }
};
struct onehot_gen { int* calls; int hot; int operator()() { int i = (*calls)++; return i == hot ? 1 : 0; } };

template <int N> std::string vec_str(const double* a) { std::string s = "("; for (int k = 0; k < N; ++k) { if (k) s += ","; s += vh::cat(a[k]); } return s + ")"; }

template <class H> void fill(H& h, const double* a) { for (int k = 0; k < (int)H::N; ++k) h.set(k, a[k]); }
template <class H> double other_value(int k, double v) {
    if (H::is_float) return (double)(float)(v < 0.5 ? v + 0.25 : v - 0.25);
    return (double)(((uint64_t)v) ^ (uint64_t)H::maxv(k));          // complement within the channel's bits: always different
}
template <class H> void fill_junk(H& h, const double* a) { for (int k = 0; k < (int)H::N; ++k) h.set(k, other_value<H>(k, a[k])); }
template <class H> bool holds(H& h, const double* a, int* badk) {
    for (int k = 0; k < (int)H::N; ++k) if (!(h.get(k) == a[k])) { *badk = k; return false; }
    return true;
}

static uint64_t g_evals = 0;

// ---- ordered pair (source model SH, destination model DH) -----------------------------------------------
template <class SH, class DH> struct pair_check {
    enum { N = SH::N };
    typedef typename SH::csi csi;
    std::string pk;
    SH sh, sh2; DH dh;
    explicit pair_check(const std::string& k) : pk(k) {}

    void report(const char* oracle, const double* a, int k, const char* what) {
        vh::viol(vh::cat(oracle, ".", pk), vh::cat(what, ": colour ", csi::cname(k), " of dst is ", dh.get(k), ", source colours ", csi::order(), "=", vec_str<N>(a)));
    }
    void verify(const char* oracle, const double* a, const char* what) {
        int k = 0;
        ++g_evals;
        if (!holds(dh, a, &k)) report(oracle, a, k, what);
        if (!holds(sh, a, &k)) vh::viol(vh::cat(oracle, "-src-modified.", pk), vh::cat(what, ": source colour ", csi::cname(k), " changed to ", sh.get(k)));
        if (!dh.guards_ok()) vh::viol(vh::cat(oracle, "-outside.", pk), vh::cat(what, ": bytes/bits outside the destination pixel changed"));
    }
    template <class S> void do_construct(S const& s, const double* a, std::true_type) {
        fill_junk(dh, a);
        dh.construct_from(s);
        verify("construct", a, "D d(src)");
    }
    template <class S> void do_construct(S const&, const double*, std::false_type) {}

    // light round: assignment + equality
    // spare bits (bits of a packed pixel's bit field that belong to no channel; the neighbouring bits of a bit-aligned
    // pixel) in the combinations 0/0, 1/0, 0/1, 1/1 and seeded/seeded: only the named colours are ever judged
    void spares(int variant) {
        int m = ((variant % 5) + 5) % 5;
        uint64_t ps = m == 1 || m == 3 ? ~0ull : m == 4 ? vh::mix(0x5157, (uint64_t)variant) | 1 : 0;
        uint64_t pd = m == 2 || m == 3 ? ~0ull : m == 4 ? vh::mix(0x7a11, (uint64_t)variant) | 1 : 0;
        sh.set_spare(ps); dh.set_spare(pd);
    }
    void light(const double* a, int variant) {
        sh.set_variant(variant); dh.set_variant(variant * 3 + 1);
        spares(variant);
        // equal named colours, whatever else the storage holds: equal
        fill(sh, a); fill(dh, a);
        {
            auto&& s = sh.cref(); auto&& d = dh.ref();
            g_evals += 4;
            if (!(d == s)) vh::viol(vh::cat("equal-by-name.", pk), vh::cat("dst == src is false for equal colours ", csi::order(), "=", vec_str<N>(a), " (spare-bit combination ", ((variant % 5) + 5) % 5, ")"));
            if (d != s) vh::viol(vh::cat("notequal-by-name.", pk), vh::cat("dst != src is true for equal colours ", csi::order(), "=", vec_str<N>(a), " (spare-bit combination ", ((variant % 5) + 5) % 5, ")"));
            if (!(s == d)) vh::viol(vh::cat("equal-by-name-reversed.", pk), vh::cat("src == dst is false for equal colours ", vec_str<N>(a)));
            if (!gil::static_equal(s, d)) vh::viol(vh::cat("static_equal-by-name.", pk), vh::cat("static_equal false for equal colours ", vec_str<N>(a)));
        }
        fill_junk(dh, a);
        auto&& s = sh.cref(); auto&& d = dh.ref();
        d = s;
        verify("assign", a, "dst = src");
        g_evals += 3;
        if (!(d == s)) vh::viol(vh::cat("equal.", pk), vh::cat("dst == src is false after dst = src, colours ", csi::order(), "=", vec_str<N>(a)));
        if (d != s) vh::viol(vh::cat("notequal.", pk), vh::cat("dst != src is true after dst = src, colours ", csi::order(), "=", vec_str<N>(a)));
        if (!(s == d)) vh::viol(vh::cat("equal-reversed.", pk), vh::cat("src == dst is false after dst = src, colours ", csi::order(), "=", vec_str<N>(a)));
    }
    // heavy round: + perturbation, construction, static_copy/equal/transform
    void heavy(const double* a, int variant) {
        light(a, variant);
        auto&& s = sh.cref(); auto&& d = dh.ref();
        for (int c = 0; c < N; ++c) {
            dh.set(c, other_value<DH>(c, a[c]));
            g_evals += 4;
            if (d == s) vh::viol(vh::cat("unequal-missed.", pk), vh::cat("dst == src although colour ", csi::cname(c), " differs (", dh.get(c), " vs ", a[c], ")"));
            if (!(d != s)) vh::viol(vh::cat("unequal-missed.", pk), vh::cat("dst != src false although colour ", csi::cname(c), " differs"));
            if (s == d) vh::viol(vh::cat("unequal-missed-reversed.", pk), vh::cat("src == dst although colour ", csi::cname(c), " differs"));
            if (gil::static_equal(s, d)) vh::viol(vh::cat("static_equal.", pk), vh::cat("static_equal true although colour ", csi::cname(c), " differs"));
            dh.set(c, a[c]);
        }
        ++g_evals;
        if (!gil::static_equal(s, d)) vh::viol(vh::cat("static_equal.", pk), vh::cat("static_equal(src,dst) false for equal colours ", vec_str<N>(a)));
        do_construct(s, a, std::integral_constant<bool, DH::is_value>());
        fill_junk(dh, a);
        gil::static_copy(s, d);
        verify("static_copy", a, "static_copy(src,dst)");
        // static_transform, one source: dst colour k = f(src colour k)
        double tw[N];
        for (int k = 0; k < N; ++k) tw[k] = twiddle(a[k], SH::is_float);
        visit_log log;
        fill_junk(dh, tw);
        gil::static_transform(s, d, tr1{&log, SH::is_float});
        {
            int k = 0; ++g_evals;
            if (!holds(dh, tw, &k)) vh::viol(vh::cat("static_transform1.", pk), vh::cat("dst colour ", csi::cname(k), " is ", dh.get(k), " expected f(src ", csi::cname(k), ")=", tw[k], ", src ", vec_str<N>(a)));
            if ((int)log.a.size() != N) vh::viol(vh::cat("static_transform1-visits.", pk), vh::cat(log.a.size(), " calls for ", (int)N, " channels"));
        }
        // two sources: the functor must be handed the same colour of both
        double a2[N];
        for (int k = 0; k < N; ++k) a2[k] = a[k];
        fill(sh2, a2);
        auto&& s2 = sh2.cref();
        log.clear();
        fill_junk(dh, tw);
        gil::static_transform(s, s2, d, tr2{&log, SH::is_float});
        {
            int k = 0; ++g_evals;
            if (!holds(dh, tw, &k)) vh::viol(vh::cat("static_transform2.", pk), vh::cat("dst colour ", csi::cname(k), " is ", dh.get(k), " expected ", tw[k]));
            if ((int)log.a.size() != N) vh::viol(vh::cat("static_transform2-visits.", pk), vh::cat(log.a.size(), " calls for ", (int)N, " channels"));
        }
    }
    // one-hot rounds identify a colour without needing distinct values (works for 1-bit channels)
    void onehot_visits(int variant) {
        for (int c = 0; c < N; ++c) {
            double a[N];
            for (int k = 0; k < N; ++k) a[k] = 0;
            a[c] = SH::maxv(c);
            sh.set_variant(variant + c); dh.set_variant(variant + 5 + c); sh2.set_variant(variant + 2 * c);
            fill(sh, a); fill(dh, a); fill(sh2, a);
            auto&& s = sh.cref(); auto&& d = dh.ref(); auto&& s2 = sh2.cref();
            visit_log log;
            gil::static_for_each(s, d, rec2{&log});
            check_hot("static_for_each2", log, 2, c);
            log.clear();
            gil::static_for_each(s, d, s2, rec3{&log});
            check_hot("static_for_each3", log, 3, c);
            log.clear();
            gil::static_for_each(d, s, rec2{&log});
            check_hot("static_for_each2-reversed", log, 2, c);
            log.clear();
            fill_junk(dh, a);
            gil::static_transform(s, s2, d, tr2{&log, SH::is_float});
            check_hot("static_transform2-pairing", log, 2, c);
            // the other const / non-const overloads of the two- and three-argument algorithms:
            // named copies (values or proxies) bind as non-const lvalues
            {
                auto sl = sh.cref(); auto s2l = sh2.cref();
                log.clear(); fill_junk(dh, a);
                gil::static_transform(sl, s2l, d, tr2{&log, SH::is_float});
                check_hot("static_transform2-pairing-lvalue-lvalue", log, 2, c);
                log.clear(); fill_junk(dh, a);
                gil::static_transform(sl, s2, d, tr2{&log, SH::is_float});
                check_hot("static_transform2-pairing-lvalue-const", log, 2, c);
                log.clear(); fill_junk(dh, a);
                gil::static_transform(s, s2l, d, tr2{&log, SH::is_float});
                check_hot("static_transform2-pairing-const-lvalue", log, 2, c);
                fill(dh, a);
                log.clear();
                gil::static_for_each(sl, d, rec2{&log});
                check_hot("static_for_each2-lvalue", log, 2, c);
                log.clear();
                gil::static_for_each(sl, d, s2l, rec3{&log});
                check_hot("static_for_each3-lvalue-lvalue", log, 3, c);
                log.clear();
                gil::static_for_each(s, d, s2l, rec3{&log});
                check_hot("static_for_each3-const-lvalue", log, 3, c);
                log.clear();
                gil::static_for_each(sl, d, s2, rec3{&log});
                check_hot("static_for_each3-lvalue-const", log, 3, c);
            }
        }
    }
    void check_hot(const char* oracle, visit_log& log, int arity, int c) {
        ++g_evals;
        if ((int)log.a.size() != N) { vh::viol(vh::cat(oracle, "-visits.", pk), vh::cat(log.a.size(), " calls for ", (int)N, " channels")); return; }
        int hot = 0, paired = 0;
        for (int i = 0; i < N; ++i) {
            bool ha = log.a[i] != 0, hb = log.b[i] != 0, hc = arity == 3 ? log.c[i] != 0 : ha;
            if (ha || hb || hc) ++hot;
            if (ha && hb && hc) ++paired;
        }
        if (hot != 1 || paired != 1)
            vh::viol(vh::cat(oracle, ".", pk), vh::cat("only colour ", csi::cname(c), " is non-zero in every argument, but the functor saw ", hot, " calls with a non-zero argument, ", paired, " with all non-zero"));
    }

    void run() {
        vh::rng r = vh::case_rng();
        uint64_t ndist = 0;
        double a[N];
        int variant = 0;
        // one-hot and inverted one-hot colours
        for (int c = 0; c < N; ++c) for (int inv = 0; inv < 2; ++inv) {
            for (int k = 0; k < N; ++k) a[k] = (k == c) != (inv == 1) ? SH::maxv(k) : 0;
            heavy(a, variant++); ++ndist;
        }
        if (N > 1) { for (int k = 0; k < N; ++k) a[k] = 0; light(a, variant++); ++ndist; for (int k = 0; k < N; ++k) a[k] = SH::maxv(k); light(a, variant++); ++ndist; }
        // the top bit of each channel alone, of all channels, and all but the top bit
        if (!SH::is_float) {
            for (int c = 0; c <= N + 1; ++c) {
                for (int k = 0; k < N; ++k) { double tb = (SH::maxv(k) + 1) / 2; a[k] = c == N ? tb : c == N + 1 ? tb - 1 : (k == c ? tb : 0); }
                heavy(a, variant++); ++ndist;
            }
        }
        onehot_visits(variant);
        // seeded colours
        int nr = vh::thorough() ? 256 : 32;
        for (int i = 0; i < nr; ++i) {
            random_colours(r, a);
            heavy(a, variant = (int)r.below(64));
            uint64_t h = vh::hash_str(pk); h = vh::hash_bytes(a, sizeof a, h); h = vh::mix(h, (uint64_t)variant);
            vh::distinct_hash(h);
        }
        // every value of each channel in turn (stratified when the channel is wider than 10 bits)
        for (int c = 0; c < N; ++c) {
            random_colours(r, a);
            double mx = SH::maxv(c);
            if (SH::is_float) {
                int n = vh::thorough() ? 4096 : 64;
                for (int i = 0; i < n; ++i) { a[c] = (double)(float)r.unit(); light(a, i); }
                a[c] = 0; light(a, 0); a[c] = 1; light(a, 1);
            } else if (mx > 65535) {
                // wide channels (packed 21, 24, 32 bits): every power of two and its neighbours, from both ends, + seeded values
                int var = 0;
                for (double p2 = 1; p2 <= mx; p2 *= 2)
                    for (int dlt = -1; dlt <= 1; ++dlt) {
                        double v = p2 + dlt;
                        if (v >= 0 && v <= mx) { a[c] = v; light(a, var++); ++ndist; a[c] = mx - v; light(a, var++); ++ndist; }
                    }
                int n = vh::thorough() ? 4096 : 128;
                for (int i = 0; i < n; ++i) { a[c] = (double)r.below((uint64_t)mx + 1); light(a, var++); }
            } else if (mx <= 1023 || vh::thorough()) {
                for (double v = 0; v <= mx; v += 1) { a[c] = v; light(a, (int)v); ++ndist; }
            } else {
                for (double v = 0; v <= mx; v += 251) { a[c] = v; light(a, (int)v); ++ndist; }
                a[c] = mx; light(a, 7); ++ndist;
            }
        }
        vh::distinct(ndist);
    }
    void random_colours(vh::rng& r, double* a) {
        for (int k = 0; k < N; ++k) {
            if (SH::is_float) a[k] = (double)(float)r.unit();
            else a[k] = (double)r.below((uint64_t)SH::maxv(k) + 1);
        }
    }
};

template <class SH, class DH> void check_pair(const char* group) {
    std::string pk = SH::name() + "->" + DH::name();
    if (!vh::begin_case(vh::cat("pair.", group), pk)) return;
    vh::sample(vh::cat(pk, ": dst=src / D d(src) / ==,!= / static_copy,equal,for_each,transform with one-hot, seeded and swept colours, read back through raw memory"));
    uint64_t e0 = g_evals;
    pair_check<SH, DH> pc(pk);
    pc.run();
    vh::evals(g_evals - e0);
    vh::obs(vh::cat("pair.", group));
}

// ---- one model: at_c / semantic_at_c / get_color / operator[] and the unary algorithms --------------------
template <class H, int N> struct from_channels;
template <class H> struct from_channels<H, 1> { static typename H::gil_t make(const double* v) { typedef typename gil::channel_type<typename H::gil_t>::type C; return typename H::gil_t(mk<C>::make(v[0])); } };
template <class H> struct from_channels<H, 2> { static typename H::gil_t make(const double* v) { return make_(v, std::integral_constant<bool, H::is_pix>()); }
    static typename H::gil_t make_(const double* v, std::true_type) { typedef typename gil::channel_type<typename H::gil_t>::type C; return typename H::gil_t(mk<C>::make(v[0]), mk<C>::make(v[1])); }
    static typename H::gil_t make_(const double* v, std::false_type) { return typename H::gil_t((int)v[0], (int)v[1]); } };
template <class H> struct from_channels<H, 3> { static typename H::gil_t make(const double* v) { return make_(v, std::integral_constant<bool, H::is_pix>()); }
    static typename H::gil_t make_(const double* v, std::true_type) { typedef typename gil::channel_type<typename H::gil_t>::type C; return typename H::gil_t(mk<C>::make(v[0]), mk<C>::make(v[1]), mk<C>::make(v[2])); }
    static typename H::gil_t make_(const double* v, std::false_type) { return typename H::gil_t((int)v[0], (int)v[1], (int)v[2]); } };
template <class H> struct from_channels<H, 4> { static typename H::gil_t make(const double* v) { return make_(v, std::integral_constant<bool, H::is_pix>()); }
    static typename H::gil_t make_(const double* v, std::true_type) { typedef typename gil::channel_type<typename H::gil_t>::type C; return typename H::gil_t(mk<C>::make(v[0]), mk<C>::make(v[1]), mk<C>::make(v[2]), mk<C>::make(v[3])); }
    static typename H::gil_t make_(const double* v, std::false_type) { return typename H::gil_t((int)v[0], (int)v[1], (int)v[2], (int)v[3]); } };
template <class H> struct from_channels<H, 5> { static typename H::gil_t make(const double* v) { return make_(v, std::integral_constant<bool, H::is_pix>()); }
    static typename H::gil_t make_(const double* v, std::true_type) { typedef typename gil::channel_type<typename H::gil_t>::type C; return typename H::gil_t(mk<C>::make(v[0]), mk<C>::make(v[1]), mk<C>::make(v[2]), mk<C>::make(v[3]), mk<C>::make(v[4])); }
    static typename H::gil_t make_(const double* v, std::false_type) { return typename H::gil_t((int)v[0], (int)v[1], (int)v[2], (int)v[3], (int)v[4]); } };

template <class H> struct model_check {
    enum { N = H::N };
    typedef typename H::csi csi;
    typedef typename H::gil_t P;
    std::string mn;
    H h, h2;
    explicit model_check(const std::string& n) : mn(n) {}

    // GIL's own mapping of the type against the hand-written table
    void mapping_table() {
        auto f = [&](auto kc) {
            constexpr int K = decltype(kc)::value;
            typedef typename gil::channel_mapping_type<P>::type map_t;
            int g = mp11::mp_at_c<map_t, K>::value;
            ++g_evals;
            if (g != H::physk(K)) vh::viol(vh::cat("mapping-table.", mn), vh::cat("channel_mapping[", csi::cname(K), "]=", g, " but the layout's name puts it at memory position ", H::physk(K)));
        };
        KLoop<0, N>::run(f);
        ++g_evals;
        if ((int)gil::num_channels<P>::value != N || (int)gil::size<P>::value != N) vh::viol(vh::cat("num_channels.", mn), vh::cat("num_channels=", (int)gil::num_channels<P>::value, " size=", (int)gil::size<P>::value));
    }
    // read accessors by value
    template <class Q> void read_values(Q& p, const double* a, const char* cq) {
        auto f = [&](auto kc) {
            constexpr int K = decltype(kc)::value;
            typedef typename tl_at<typename csi::tags, K>::type tag;
            g_evals += 3;
            int colour_at_K = -1;
            for (int k = 0; k < N; ++k) if (H::physk(k) == K) colour_at_K = k;
            double v0 = to_raw(gil::at_c<K>(p));
            if (v0 != a[colour_at_K]) vh::viol(vh::cat("at_c", cq, ".", mn), vh::cat("at_c<", K, "> reads ", v0, ", memory position ", K, " holds ", csi::cname(colour_at_K), "=", a[colour_at_K], " of ", vec_str<N>(a)));
            double v1 = to_raw(gil::semantic_at_c<K>(p));
            if (v1 != a[K]) vh::viol(vh::cat("semantic_at_c", cq, ".", mn), vh::cat("semantic_at_c<", K, "> reads ", v1, ", ", csi::cname(K), "=", a[K], " of ", vec_str<N>(a)));
            double v2 = to_raw(gil::get_color(p, tag()));
            if (v2 != a[K]) vh::viol(vh::cat("get_color", cq, ".", mn), vh::cat("get_color(", csi::cname(K), ") reads ", v2, ", expected ", a[K], " of ", vec_str<N>(a)));
        };
        KLoop<0, N>::run(f);
    }
    // addresses (byte-addressable homogeneous models)
    template <class Q> void addresses(Q& p, const char* cq, std::true_type) {
        auto f = [&](auto kc) {
            constexpr int K = decltype(kc)::value;
            typedef typename tl_at<typename csi::tags, K>::type tag;
            g_evals += 4;
            if ((const void*)&gil::at_c<K>(p) != h.phys_addr(K)) vh::viol(vh::cat("at_c-address", cq, ".", mn), vh::cat("&at_c<", K, "> is not memory position ", K));
            if ((const void*)&gil::semantic_at_c<K>(p) != h.chan_addr(K)) vh::viol(vh::cat("semantic_at_c-address", cq, ".", mn), vh::cat("&semantic_at_c<", K, "> is not where ", csi::cname(K), " is stored"));
            if ((const void*)&gil::get_color(p, tag()) != h.chan_addr(K)) vh::viol(vh::cat("get_color-address", cq, ".", mn), vh::cat("&get_color(", csi::cname(K), ") is not where it is stored"));
            if ((const void*)&p[K] != h.phys_addr(K)) vh::viol(vh::cat("index-operator", cq, ".", mn), vh::cat("&p[", K, "] is not memory position ", K));
        };
        KLoop<0, N>::run(f);
    }
    template <class Q> void addresses(Q&, const char*, std::false_type) {}

    // min/max (homogeneous models)
    template <class Q> void minmax(Q& p, const double* a, const char* cq, std::true_type) {
        double mn_ = a[0], mx_ = a[0];
        for (int k = 1; k < N; ++k) { mn_ = std::min(mn_, a[k]); mx_ = std::max(mx_, a[k]); }
        g_evals += 2;
        double gmin = to_raw(gil::static_min(p)), gmax = to_raw(gil::static_max(p));
        if (gmin != mn_) vh::viol(vh::cat("static_min", cq, ".", mn), vh::cat("static_min=", gmin, " of ", vec_str<N>(a)));
        if (gmax != mx_) vh::viol(vh::cat("static_max", cq, ".", mn), vh::cat("static_max=", gmax, " of ", vec_str<N>(a)));
        // the returned reference designates a channel of the pixel holding that value
        const void* pmin = (const void*)&gil::static_min(p); const void* pmax = (const void*)&gil::static_max(p);
        bool okmin = false, okmax = false;
        for (int k = 0; k < N; ++k) { if (pmin == h.chan_addr(k) && a[k] == mn_) okmin = true; if (pmax == h.chan_addr(k) && a[k] == mx_) okmax = true; }
        g_evals += 2;
        if (!okmin) vh::viol(vh::cat("static_min-address", cq, ".", mn), "the reference returned by static_min is not a channel of the pixel holding the minimum");
        if (!okmax) vh::viol(vh::cat("static_max-address", cq, ".", mn), "the reference returned by static_max is not a channel of the pixel holding the maximum");
    }
    template <class Q> void minmax(Q&, const double*, const char*, std::false_type) {}

    // writes through the accessors and the mutating unary algorithms
    void writes(const double* a, vh::rng& r, std::true_type) {
        auto&& p = h.ref();
        auto f = [&](auto kc) {
            constexpr int K = decltype(kc)::value;
            typedef typename tl_at<typename csi::tags, K>::type tag;
            double e[N];
            // semantic_at_c<K> = v
            fill(h, a); for (int k = 0; k < N; ++k) e[k] = a[k];
            e[K] = other_value<H>(K, a[K]);
            typedef typename chan_value<typename std::remove_reference<decltype(gil::semantic_at_c<K>(p))>::type>::type CV;
            gil::semantic_at_c<K>(p) = mk<CV>::make(e[K]);
            int bad = 0; g_evals += 3;
            if (!holds(h, e, &bad)) vh::viol(vh::cat("semantic_at_c-write.", mn), vh::cat("after semantic_at_c<", K, ">=", e[K], " colour ", csi::cname(bad), " is ", h.get(bad), " expected ", e[bad]));
            // get_color(tag) = v
            fill(h, a);
            gil::get_color(p, tag()) = mk<CV>::make(e[K]);
            if (!holds(h, e, &bad)) vh::viol(vh::cat("get_color-write.", mn), vh::cat("after get_color(", csi::cname(K), ")=", e[K], " colour ", csi::cname(bad), " is ", h.get(bad), " expected ", e[bad]));
            // at_c<K> = v writes the colour stored at memory position K
            int cK = -1; for (int k = 0; k < N; ++k) if (H::physk(k) == K) cK = k;
            fill(h, a); for (int k = 0; k < N; ++k) e[k] = a[k];
            e[cK] = other_value<H>(cK, a[cK]);
            typedef typename chan_value<typename std::remove_reference<decltype(gil::at_c<K>(p))>::type>::type CV2;
            gil::at_c<K>(p) = mk<CV2>::make(e[cK]);
            if (!holds(h, e, &bad)) vh::viol(vh::cat("at_c-write.", mn), vh::cat("after at_c<", K, ">=", e[cK], " colour ", csi::cname(bad), " is ", h.get(bad), " expected ", e[bad]));
            if (!h.guards_ok()) vh::viol(vh::cat("write-outside.", mn), "a channel write changed bytes/bits outside the pixel");
        };
        KLoop<0, N>::run(f);
        // static_fill
        {
            double v = H::is_float ? 0.25 : 1, e[N];
            for (int k = 0; k < N; ++k) e[k] = v;
            fill_junk(h, e);
            fill_value(p, v, std::integral_constant<bool, H::is_float>());
            int bad = 0; ++g_evals;
            if (!holds(h, e, &bad)) vh::viol(vh::cat("static_fill.", mn), vh::cat("after static_fill(", v, ") colour ", csi::cname(bad), " is ", h.get(bad)));
        }
        // static_generate: N calls, the i-th value goes to the i-th colour of the colour space
        for (int c = 0; c < N; ++c) {
            double e[N]; for (int k = 0; k < N; ++k) e[k] = k == c ? 1 : 0;
            fill_junk(h, e);
            int calls = 0;
            gil::static_generate(p, onehot_gen{&calls, c});
            int bad = 0; g_evals += 2;
            if (calls != N) vh::viol(vh::cat("static_generate-visits.", mn), vh::cat(calls, " calls for ", (int)N, " channels"));
            if (!holds(h, e, &bad)) vh::viol(vh::cat("static_generate.", mn), vh::cat("generated value #", c, " is 1, the others 0; colour ", csi::cname(bad), " is ", h.get(bad)));
        }
        // self assignment / copy of the same model keeps every colour
        {
            fill(h, a); h2.set_variant(5); fill_junk(h2, a);
            auto&& q = h2.ref();
            q = p;
            int bad = 0; g_evals += 2;
            if (!holds(h2, a, &bad)) vh::viol(vh::cat("assign-same-model.", mn), vh::cat("colour ", csi::cname(bad), " is ", h2.get(bad), " expected ", a[bad]));
            if (!(q == p) || (q != p)) vh::viol(vh::cat("equal-same-model.", mn), "q == p false after q = p");
        }
        (void)r;
    }
    void writes(const double*, vh::rng&, std::false_type) {}
    template <class Q> void fill_value(Q& p, double v, std::true_type) { gil::static_fill(p, (float)v); }
    template <class Q> void fill_value(Q& p, double v, std::false_type) { gil::static_fill(p, (int)v); }

    // construction from channel values: arguments are in memory order
    void channel_ctor(const double* a, std::true_type) {
        double v[N];
        for (int k = 0; k < N; ++k) v[H::physk(k)] = H::is_pix ? a[k] : std::fmod(a[k], 2147483648.0);     // v[p] goes to memory position p, which holds colour k; packed_pixel(int...) takes ints
        P tmp = from_channels<H, N>::make(v);
        h.construct_from(tmp);
        ++g_evals;
        for (int k = 0; k < N; ++k)
            if (h.get(k) != v[H::physk(k)]) { vh::viol(vh::cat("channel-ctor.", mn), vh::cat("P", vec_str<N>(v), ": colour ", csi::cname(k), " (memory position ", H::physk(k), ") is ", h.get(k))); break; }
    }
    void channel_ctor(const double*, std::false_type) {}

    // packed pixels made from a bit-field value (raw buffers, file bytes): only the channel bits count
    void raw_bits(const double* a, vh::rng& r, std::true_type) {
        static const uint64_t pats[4] = {0, ~0ull, 0, 0};
        P px[4]; P out[4]; P out2[4];
        for (int i = 0; i < 4; ++i) {
            fill(h, a); h.set_spare(i < 2 ? pats[i] : r.next());
            new (&px[i]) P(h.raw_bits());
            auto f = [&](auto kc) {
                constexpr int K = decltype(kc)::value;
                ++g_evals;
                double v = to_raw(gil::semantic_at_c<K>(px[i]));
                if (v != a[K]) vh::viol(vh::cat("bitfield-ctor.", mn), vh::cat("packed_pixel(bit field): colour ", csi::cname(K), " reads ", v, ", the channel bits hold ", a[K]));
            };
            KLoop<0, N>::run(f);
            h2.set_spare(~(uint64_t)h.raw_bits()); fill_junk(h2, a);
            memcpy(&out[i], h2.base(), sizeof(P)); memcpy(&out2[i], h2.base(), sizeof(P));
        }
        for (int i = 0; i < 4; ++i) for (int j = 0; j < 4; ++j) {
            g_evals += 2;
            if (!(px[i] == px[j]) || (px[i] != px[j])) vh::viol(vh::cat("equal-spare-bits.", mn), vh::cat("two pixels with the same colours ", vec_str<N>(a), " whose spare bits differ compare unequal"));
            if (!gil::static_equal(px[i], px[j])) vh::viol(vh::cat("static_equal-spare-bits.", mn), "static_equal false for equal colours");
        }
        // std::copy / copy_pixels / equal_pixels over such pixels: named colours arrive, equality by name
        std::copy(px, px + 4, out);
        auto sv = gil::interleaved_view(4, 1, &px[0], 4 * sizeof(P));
        auto dv = gil::interleaved_view(4, 1, &out2[0], 4 * sizeof(P));
        gil::copy_pixels(sv, dv);
        for (int i = 0; i < 4; ++i) {
            H a1, a2; memcpy(a1.base(), &out[i], sizeof(P)); memcpy(a2.base(), &out2[i], sizeof(P));
            int bad = 0; g_evals += 2;
            if (!holds(a1, a, &bad)) vh::viol(vh::cat("std-copy.", mn), vh::cat("colour ", csi::cname(bad), " is ", a1.get(bad), " expected ", a[bad]));
            if (!holds(a2, a, &bad)) vh::viol(vh::cat("copy_pixels.", mn), vh::cat("colour ", csi::cname(bad), " is ", a2.get(bad), " expected ", a[bad]));
        }
        // equal colours, different spare bits in every position: the views are equal
        for (int i = 0; i < 4; ++i) { H t; memcpy(t.base(), &out2[i], sizeof(P)); t.set_spare(~(uint64_t)h.raw_bits() ^ (i * 0x1111111111111111ull)); memcpy(&out2[i], t.base(), sizeof(P)); }
        ++g_evals;
        if (!gil::equal_pixels(sv, dv)) vh::viol(vh::cat("equal_pixels-spare-bits.", mn), vh::cat("equal_pixels false for views whose pixels have the same colours ", vec_str<N>(a), " and different spare bits"));
    }
    void raw_bits(const double*, vh::rng&, std::false_type) {}

    void round(const double* a, int variant, vh::rng& r) {
        h.set_variant(variant);
        h.set_spare(variant % 3 == 0 ? 0 : variant % 3 == 1 ? ~0ull : r.next());
        fill(h, a);
        auto&& p = h.ref();
        read_values(p, a, "");
        const P& cp = p;
        read_values(cp, a, "-const");
        addresses(p, "", std::integral_constant<bool, H::byte_addr>());
        addresses(cp, "-const", std::integral_constant<bool, H::byte_addr>());
        minmax(p, a, "", std::integral_constant<bool, H::is_homog && (N > 1)>());
        minmax(cp, a, "-const", std::integral_constant<bool, H::is_homog && (N > 1)>());
        ++g_evals;
        if (!gil::static_equal(p, cp) || !(p == cp) || (p != cp)) vh::viol(vh::cat("equal-self.", mn), "p == p is false");
        writes(a, r, std::integral_constant<bool, H::is_mutable>());
        channel_ctor(a, std::integral_constant<bool, H::is_value && (H::is_pix || N > 1)>());
        raw_bits(a, r, std::integral_constant<bool, H::is_value && !H::is_pix>());
    }
    void run() {
        vh::rng r = vh::case_rng();
        mapping_table();
        double a[N];
        uint64_t nd = 0;
        for (int c = 0; c < N; ++c) {
            for (int k = 0; k < N; ++k) a[k] = k == c ? H::maxv(k) : 0;
            round(a, c, r); ++nd;
            // unary for_each: N visits, exactly one sees the hot colour
            h.set_variant(c); fill(h, a);
            auto&& p = h.ref();
            visit_log log;
            gil::static_for_each(p, rec1{&log});
            int hot = 0; for (double v : log.a) if (v != 0) ++hot;
            ++g_evals;
            if ((int)log.a.size() != N || hot != 1) vh::viol(vh::cat("static_for_each1.", mn), vh::cat(log.a.size(), " calls, ", hot, " with the non-zero colour, for ", (int)N, " channels"));
        }
        if (!H::is_float)
            for (int c = 0; c <= N + 1; ++c) {
                for (int k = 0; k < N; ++k) { double tb = (H::maxv(k) + 1) / 2; a[k] = c == N ? tb : c == N + 1 ? H::maxv(k) : (k == c ? tb : 0); }
                round(a, c + 1, r); ++nd;
            }
        int nr = vh::thorough() ? 512 : 64;
        for (int i = 0; i < nr; ++i) {
            for (int k = 0; k < N; ++k) a[k] = H::is_float ? (double)(float)r.unit() : (double)r.below((uint64_t)H::maxv(k) + 1);
            int variant = (int)r.below(8);
            round(a, variant, r);
            uint64_t hh = vh::hash_str(mn); hh = vh::hash_bytes(a, sizeof a, hh); hh = vh::mix(hh, (uint64_t)variant);
            vh::distinct_hash(hh);
        }
        vh::distinct(nd);
    }
};

template <class H> void check_model(const char* group) {
    std::string mn = H::name();
    if (!vh::begin_case(vh::cat("model.", group), mn)) return;
    uint64_t e0 = g_evals;
    model_check<H> mc(mn);
    mc.run();
    vh::evals(g_evals - e0);
    vh::obs(vh::cat("model.", group));
}

// binding constructors of the reference proxies: planar_pixel_reference(pixel<T,L>&) must refer to the
// pixel's channels colour by colour
template <class T, class LY> void check_planar_binding(const char* group) {
    typedef typename LY::csi csi; enum { N = csi::N };
    std::string mn = vh::cat("planar<", RT<T>::name(), ",", csi::name(), ">(", H_pix<T, LY>::name(), "&)");
    if (!vh::begin_case(vh::cat("bind.", group), mn)) return;
    H_pix<T, LY> h;
    double a[N];
    for (int k = 0; k < N; ++k) a[k] = k + 1;
    fill(h, a);
    gil::planar_pixel_reference<T&, typename csi::cs> pr(h.ref());
    gil::planar_pixel_reference<T const&, typename csi::cs> cpr(h.cref());
    auto f = [&](auto kc) {
        constexpr int K = decltype(kc)::value;
        g_evals += 2;
        if ((void*)&gil::semantic_at_c<K>(pr) != h.chan_addr(K)) vh::viol(vh::cat("bind-planar.", mn), vh::cat("colour ", csi::cname(K), " of the proxy does not refer to colour ", csi::cname(K), " of the pixel"));
        if ((const void*)&gil::semantic_at_c<K>(cpr) != h.chan_addr(K)) vh::viol(vh::cat("bind-planar-const.", mn), vh::cat("colour ", csi::cname(K), " of the const proxy does not refer to colour ", csi::cname(K), " of the pixel"));
    };
    uint64_t e0 = g_evals;
    KLoop<0, N>::run(f);
    // writing through the proxy changes the pixel's colour of the same name
    for (int k = 0; k < N; ++k) a[k] = 10 + k;
    H_pix<T, LY> src; fill(src, a);
    pr = src.cref();
    int bad = 0; ++g_evals;
    if (!holds(h, a, &bad)) vh::viol(vh::cat("bind-planar-write.", mn), vh::cat("colour ", csi::cname(bad), " is ", h.get(bad), " expected ", a[bad]));
    vh::evals(g_evals - e0); vh::distinct(1);
}

// bit_aligned_pixel_reference(packed_pixel&): the proxy designates the packed pixel's own bits, colour by colour
template <class BF, class LY, unsigned... S> void check_bits_binding(const char* group) {
    typedef H_packed<BF, LY, S...> HP; enum { N = HP::N };
    typedef typename HP::csi csi;
    typedef gil::bit_aligned_pixel_reference<BF, typename HP::sizes_t, typename LY::type, true> ref_t;
    std::string mn = vh::cat("bitref(", HP::name(), "&)");
    if (!vh::begin_case(vh::cat("bind.", group), mn)) return;
    uint64_t e0 = g_evals;
    HP h, src;
    double a[N], e[N];
    for (int k = 0; k < N; ++k) { a[k] = HP::maxv(k) - (k & 1); e[k] = other_value<HP>(k, a[k]); }
    fill(h, a);
    ref_t br(h.ref());
    auto f = [&](auto kc) {
        constexpr int K = decltype(kc)::value;
        ++g_evals;
        double v = to_raw(gil::semantic_at_c<K>(br));
        if (v != a[K]) vh::viol(vh::cat("bind-bitref.", mn), vh::cat("colour ", csi::cname(K), " read through the proxy is ", v, ", the packed pixel holds ", a[K]));
    };
    KLoop<0, N>::run(f);
    fill(src, e);
    br = src.cref();
    int bad = 0; g_evals += 2;
    if (!holds(h, e, &bad)) vh::viol(vh::cat("bind-bitref-write.", mn), vh::cat("after proxy = pixel, colour ", csi::cname(bad), " of the packed pixel is ", h.get(bad), " expected ", e[bad]));
    if (!h.guards_ok()) vh::viol(vh::cat("bind-bitref-outside.", mn), "bytes around the packed pixel changed");
    vh::evals(g_evals - e0); vh::distinct(1);
}

// ---- every way of reaching a planar pixel: iterators, pointers built from &reference / &pixel, const conversions ----
// A planar pixel is reached through x/y/1-D iterators, locators, view(x,y), pointers constructed or assigned from the
// address of a reference (planar_pixel_iterator(P*), operator=(P*)) -- P being a planar reference or an interleaved pixel
// of ANY layout --, operator->, mutable->const conversions, and reference -> value -> reference round trips.  Whatever the
// route, colour k read through it is the value stored under that name and a write lands in the storage of that name.
#if C05_PART == 10
template <class T, class CSI, class... LY> struct planar_access {
    enum { N = CSI::N, W = 3, H = 2 };
    typedef typename CSI::cs cs;
    typedef typename RT<T>::raw raw;
    typedef gil::planar_pixel_iterator<T*, cs> xit;
    typedef gil::planar_pixel_iterator<T const*, cs> cxit;
    typedef typename gil::type_from_x_iterator<xit>::view_t view_t;
    typedef typename view_t::const_t cview_t;
    static const size_t ROWB = (W + 2) * sizeof(T);
    alignas(8) unsigned char mem[5][H * ROWB + 16], shadow[5][H * ROWB + 16];
    std::string g;
    explicit planar_access(const std::string& group) : g(group) { reset(); }
    static int slot(int k) { return (k * 2 + 3) % 5; }            // planes are not in colour order in memory
    unsigned char* addr(int k, int x, int y) { return mem[slot(k)] + 8 + y * ROWB + x * sizeof(T); }
    static double val(int k, int x, int y) { double v = 1 + k * 40 + y * 10 + x * 3; return RT<T>::is_float ? v / 256.0 : v; }
    void put(int k, int x, int y, double v) { raw r = (raw)v; memcpy(addr(k, x, y), &r, sizeof r); }
    double got(int k, int x, int y) { raw r; memcpy(&r, addr(k, x, y), sizeof r); return (double)r; }
    void reset() {
        for (int s = 0; s < 5; ++s) for (size_t i = 0; i < sizeof mem[0]; ++i) mem[s][i] = (unsigned char)(0xA0 + s);
        for (int k = 0; k < N; ++k) for (int y = 0; y < H; ++y) for (int x = 0; x < W; ++x) { new (addr(k, x, y)) T(); put(k, x, y, val(k, x, y)); }
        memcpy(shadow, mem, sizeof mem);
    }
    view_t view() {
        T* p[5];
        for (int k = 0; k < N; ++k) p[k] = reinterpret_cast<T*>(addr(k, 0, 0));
        return view_t(W, H, typename view_t::locator(make_planar_it<xit>(p, std::integral_constant<int, N>()), ROWB));
    }
    // r designates pixel (x,y): reads by name, and the channel it refers to is the storage of that name
    template <class R> void rd(const char* how, R const& r, int x, int y) {
        auto f = [&](auto kc) {
            constexpr int K = decltype(kc)::value;
            typedef typename tl_at<typename CSI::tags, K>::type tag;
            g_evals += 3;
            double v = to_raw(gil::semantic_at_c<K>(r));
            if (v != val(K, x, y)) vh::viol(vh::cat("planar-access.read.", how, ".", g), vh::cat("colour ", CSI::cname(K), " of pixel (", x, ",", y, ") read through ", how, " is ", v, ", stored ", val(K, x, y)));
            if ((const void*)&gil::semantic_at_c<K>(r) != (const void*)addr(K, x, y)) vh::viol(vh::cat("planar-access.address.", how, ".", g), vh::cat("colour ", CSI::cname(K), " of pixel (", x, ",", y, ") reached through ", how, " is not the ", CSI::cname(K), " plane"));
            if (to_raw(gil::get_color(r, tag())) != val(K, x, y)) vh::viol(vh::cat("planar-access.get_color.", how, ".", g), vh::cat("colour ", CSI::cname(K), " of pixel (", x, ",", y, ")"));
        };
        KLoop<0, N>::run(f);
    }
    // a value (not a reference) taken from pixel (x,y)
    template <class V> void rdval(const char* how, V const& v, int x, int y) {
        auto f = [&](auto kc) {
            constexpr int K = decltype(kc)::value;
            ++g_evals;
            double q = to_raw(gil::semantic_at_c<K>(v));
            if (q != val(K, x, y)) vh::viol(vh::cat("planar-access.value.", how, ".", g), vh::cat("colour ", CSI::cname(K), " of the value taken from pixel (", x, ",", y, ") is ", q, ", stored ", val(K, x, y)));
        };
        KLoop<0, N>::run(f);
    }
    // assigning a pixel of layout L through r writes each named colour into the plane of that name, and nothing else
    template <class L, class R> void wr1(const char* how, R const& r, int x, int y) {
        H_pix<T, L> src, back;
        double nv[N];
        for (int k = 0; k < N; ++k) nv[k] = RT<T>::is_float ? val(k, x, y) / 2 : val(k, x, y) + 1;
        fill(src, nv);
        r = src.cref();
        g_evals += 3;
        for (int k = 0; k < N; ++k)
            if (got(k, x, y) != nv[k]) { vh::viol(vh::cat("planar-access.write.", how, ".", g), vh::cat("after ref = ", H_pix<T, L>::name(), " through ", how, ", plane ", CSI::cname(k), " of pixel (", x, ",", y, ") holds ", got(k, x, y), " expected ", nv[k])); break; }
        for (int k = 0; k < N; ++k) put(k, x, y, val(k, x, y));
        if (memcmp(mem, shadow, sizeof mem) != 0) { vh::viol(vh::cat("planar-access.write-elsewhere.", how, ".", g), vh::cat("ref = pixel through ", how, " at (", x, ",", y, ") changed other bytes")); reset(); }
        // and back into an interleaved pixel of that layout: value <- reference
        fill_junk(back, nv);
        back.ref() = r;
        int bad = 0;
        double ov[N]; for (int k = 0; k < N; ++k) ov[k] = val(k, x, y);
        if (!holds(back, ov, &bad)) vh::viol(vh::cat("planar-access.to-pixel.", how, ".", g), vh::cat(H_pix<T, L>::name(), " = reference through ", how, ": colour ", CSI::cname(bad), " is ", back.get(bad), " expected ", ov[bad]));
        typename H_pix<T, L>::gil_t built(r);
        rdval(how, built, x, y);
    }
    template <class R> void wr(const char* how, R const& r, int x, int y) { using sw = int[]; (void)sw{0, (wr1<LY>(how, r, x, y), 0)...}; }

    void views() {
        if (!vh::begin_case(vh::cat("planar-access.", g), "view")) return;
        uint64_t e0 = g_evals;
        view_t v = view();
        cview_t cv(v);
        for (int y = 0; y < H; ++y) for (int x = 0; x < W; ++x) {
            int i = y * W + x;
            rd("view(x,y)", v(x, y), x, y);
            rd("row_begin[x]", v.row_begin(y)[x], x, y);
            rd("*(row_begin+x)", *(v.row_begin(y) + x), x, y);
            rd("*(row_end-k)", *(v.row_end(y) - (W - x)), x, y);
            rd("*at(x,y)", *v.at(x, y), x, y);
            rd("*xy_at(x,y)", *v.xy_at(x, y), x, y);
            rd("xy_at(0,0)(x,y)", v.xy_at(0, 0)(x, y), x, y);
            rd("col_begin[y]", v.col_begin(x)[y], x, y);
            rd("begin()[i]", v.begin()[i], x, y);
            rd("*(begin()+i)", *(v.begin() + i), x, y);
            rd("view[i]", v[i], x, y);
            xit it = v.row_begin(y) + x;
            rd("x_iterator->", it.operator->(), x, y);
            // pointers made from the address of a reference
            typename view_t::reference ref = v(x, y);
            xit p(&ref);
            rd("ptr(&ref)", *p, x, y);
            xit q; q = &ref;
            rd("ptr=&ref", *q, x, y);
            cxit cp(&ref);
            rd("constptr(&ref)", *cp, x, y);
            g_evals += 2;
            if (!(p == it) || !(q == it)) vh::viol(vh::cat("planar-access.ptr-equal.", g), vh::cat("the pointer made from &view(", x, ",", y, ") differs from the iterator to that pixel"));
            // relative moves of such a pointer
            if (x + 1 < W) rd("ptr(&ref)+1", *(p + 1), x + 1, y);
            if (x > 0) rd("ptr(&ref)[-1]", p[-1], x - 1, y);
            // const conversions
            cxit cit(it);
            rd("const x_iterator(mutable)", *cit, x, y);
            typename cview_t::x_iterator cit2 = cv.row_begin(y) + x;
            if (!(cit == cit2)) vh::viol(vh::cat("planar-access.const-iterator-equal.", g), "const iterator converted from the mutable one differs from the const view's");
            rd("const_view(x,y)", cv(x, y), x, y);
            typename cview_t::reference cref = cv(x, y);
            cxit cp2(&cref);
            rd("constptr(&constref)", *cp2, x, y);
            // reference -> value
            typename view_t::value_type pv = v(x, y);
            rdval("value_type(ref)", pv, x, y);
            typename view_t::value_type pv2; pv2 = cv(x, y);
            rdval("value_type=constref", pv2, x, y);
            // writes through the routes
            wr("view(x,y)", v(x, y), x, y);
            wr("row_begin[x]", v.row_begin(y)[x], x, y);
            wr("view[i]", v[i], x, y);
            wr("x_iterator->", it.operator->(), x, y);
            wr("ptr(&ref)", *p, x, y);
            wr("ptr=&ref", *q, x, y);
            // value -> reference at another pixel
            int x2 = (x + 1) % W, y2 = (y + 1) % H;
            v(x2, y2) = pv;
            ++g_evals;
            for (int k = 0; k < N; ++k)
                if (got(k, x2, y2) != val(k, x, y)) { vh::viol(vh::cat("planar-access.write.value-to-ref.", g), vh::cat("plane ", CSI::cname(k), " holds ", got(k, x2, y2), " expected ", val(k, x, y))); break; }
            reset();
        }
        vh::evals(g_evals - e0); vh::distinct(W * H * 30);
        vh::obs("planar-access.view");
    }

    // planar pointer to an INTERLEAVED pixel of layout L: each plane pointer designates the colour of that name
    template <class L> void from_pixel() {
        if (!vh::begin_case(vh::cat("planar-access.", g), vh::cat("ptr-from.", H_pix<T, L>::name()))) return;
        uint64_t e0 = g_evals;
        vh::rng r = vh::case_rng();
        for (int round = 0; round < 8; ++round) {
            H_pix<T, L> h;
            double a[N];
            for (int k = 0; k < N; ++k) a[k] = RT<T>::is_float ? (double)(float)r.unit() : (double)r.below((uint64_t)RT<T>::maxv() + 1);
            if (round < N) for (int k = 0; k < N; ++k) a[k] = k == round ? RT<T>::maxv() : 0;
            fill(h, a);
            xit p(&h.ref());
            xit q; q = &h.ref();
            cxit cp(&h.cref());
            cxit cq; cq = &h.cref();
            cxit cc(p);
            auto f = [&](auto kc) {
                constexpr int K = decltype(kc)::value;
                g_evals += 5;
                const char* hn = "";
                if ((void*)gil::semantic_at_c<K>(p) != h.chan_addr(K)) hn = "ptr(&pixel)";
                else if ((void*)gil::semantic_at_c<K>(q) != h.chan_addr(K)) hn = "ptr=&pixel";
                else if ((const void*)gil::semantic_at_c<K>(cp) != h.chan_addr(K)) hn = "constptr(&pixel)";
                else if ((const void*)gil::semantic_at_c<K>(cq) != h.chan_addr(K)) hn = "constptr=&pixel";
                else if ((const void*)gil::semantic_at_c<K>(cc) != h.chan_addr(K)) hn = "constptr(ptr)";
                if (*hn) vh::viol(vh::cat("planar-access.ptr-from-pixel.address.", hn, ".", H_pix<T, L>::name()), vh::cat("plane pointer ", CSI::cname(K), " does not point at colour ", CSI::cname(K), " of the pixel"));
                double v1 = to_raw(gil::semantic_at_c<K>(*p)), v2 = to_raw(gil::semantic_at_c<K>(*cq)), v3 = to_raw(gil::semantic_at_c<K>(p.operator->()));
                if (v1 != a[K] || v2 != a[K] || v3 != a[K]) vh::viol(vh::cat("planar-access.ptr-from-pixel.read.", H_pix<T, L>::name()), vh::cat("colour ", CSI::cname(K), " read through the pointer is ", v1, "/", v2, "/", v3, ", the pixel holds ", a[K]));
            };
            KLoop<0, N>::run(f);
            // write through the pointer: from a planar reference and from pixels of every layout
            double nv[N];
            for (int k = 0; k < N; ++k) nv[k] = other_value<H_pix<T, L>>(k, a[k]);
            H_planar<T, CSI, false> ps; fill(ps, nv);
            *p = ps.cref();
            int bad = 0; ++g_evals;
            if (!holds(h, nv, &bad)) vh::viol(vh::cat("planar-access.ptr-from-pixel.write.", H_pix<T, L>::name()), vh::cat("*ptr = planar reference: colour ", CSI::cname(bad), " of the pixel is ", h.get(bad), " expected ", nv[bad]));
            wr_from<LY...>(q, h, a);
            if (!h.guards_ok()) vh::viol(vh::cat("planar-access.ptr-from-pixel.write-outside.", H_pix<T, L>::name()), "bytes around the pixel changed");
        }
        vh::evals(g_evals - e0); vh::distinct(8);
        vh::obs("planar-access.ptr-from-pixel");
    }
    template <class L2, class HP> void wr_from1(xit const& q, HP& h, const double* a) {
        H_pix<T, L2> src; fill(src, a);
        fill_junk(h, a);
        *q = src.cref();
        int bad = 0; ++g_evals;
        if (!holds(h, a, &bad)) vh::viol(vh::cat("planar-access.ptr-from-pixel.write.", HP::name()), vh::cat("*ptr = ", H_pix<T, L2>::name(), ": colour ", CSI::cname(bad), " of the pixel is ", h.get(bad), " expected ", a[bad]));
    }
    template <class... L2, class HP> void wr_from(xit const& q, HP& h, const double* a) { using sw = int[]; (void)sw{0, (wr_from1<L2>(q, h, a), 0)...}; }

    void run() {
        views();
        using sw = int[]; (void)sw{0, (from_pixel<LY>(), 0)...};
    }
};
template <class T, class CSI, class... LY> void planar_access_all() {
    planar_access<T, CSI, LY...> pa(vh::cat(CSI::name(), ".", RT<T>::name()));
    pa.run();
}
#endif

// ---- compatibility traits and conversion between models whose colours have different channel types ----
// pixels_are_compatible / views_are_compatible decide, by colour NAME, whether two models may be assigned / compared
// and whether copy_and_convert_pixels copies or converts.  Expected verdict from the harness's own description of a
// model: same colour space and, for every colour name, the same channel value type (u8, u16, f32, packed N bits).
// Heterogeneous packed / bit-aligned models with pairwise distinct widths make a memory-order pairing visible.
#if C05_PART == 11 || C05_PART == 12 || C05_PART == 18
template <int K, unsigned... S> struct nth_size { static constexpr unsigned v() { constexpr unsigned a[] = {S...}; return a[K]; } };
template <class H> struct chan_info;
template <class T, class LY> struct chan_info<H_pix<T, LY>> {
    static std::string desc(int) { return RT<T>::name(); }
    template <int K> struct chan { typedef T type; };
    typedef typename gil::type_from_x_iterator<typename H_pix<T, LY>::gil_t*>::view_t view_t;
};
template <class T, class CSI, bool M> struct chan_info<H_planar<T, CSI, M>> {
    static std::string desc(int) { return RT<T>::name(); }
    template <int K> struct chan { typedef T type; };
    typedef typename gil::type_from_x_iterator<typename H_planar<T, CSI, M>::it_t>::view_t view_t;
};
template <class BF, class LY, unsigned... S> struct chan_info<H_packed<BF, LY, S...>> {
    static std::string desc(int k) { return vh::cat("p", bit_table<LY, S...>::ssize(k)); }
    template <int K> struct chan { typedef gil::packed_channel_value<nth_size<K, S...>::v()> type; };
    typedef typename gil::type_from_x_iterator<typename H_packed<BF, LY, S...>::gil_t*>::view_t view_t;
};
template <class BF, class LY, bool M, unsigned... S> struct chan_info<H_bits<BF, LY, M, S...>> {
    static std::string desc(int k) { return vh::cat("p", bit_table<LY, S...>::ssize(k)); }
    template <int K> struct chan { typedef gil::packed_channel_value<nth_size<K, S...>::v()> type; };
    typedef typename gil::type_from_x_iterator<gil::bit_aligned_pixel_iterator<typename H_bits<BF, LY, M, S...>::gil_t const>>::view_t view_t;
};
template <class A, class B> bool expect_compatible() {
    if (!std::is_same<typename A::csi, typename B::csi>::value) return false;
    for (int k = 0; k < (int)A::N; ++k) if (chan_info<A>::desc(k) != chan_info<B>::desc(k)) return false;
    return true;
}
#endif
#if C05_PART == 11
template <class A, class B> void trait_cell() {
    bool want = expect_compatible<A, B>();
    bool got = gil::pixels_are_compatible<typename A::gil_t, typename B::gil_t>::value;
    bool gotv = gil::views_are_compatible<typename chan_info<A>::view_t, typename chan_info<B>::view_t>::value;
    g_evals += 2;
    if (got != want) vh::viol(vh::cat("pixels_are_compatible.", want ? "false-negative." : "false-positive.", A::name(), "~", B::name()),
                              vh::cat("pixels_are_compatible says ", got, "; by colour name the channel types are ", want ? "the same" : "not the same / the colour spaces differ"));
    if (gotv != want) vh::viol(vh::cat("views_are_compatible.", want ? "false-negative." : "false-positive.", A::name(), "~", B::name()),
                               vh::cat("views_are_compatible of their views says ", gotv, ", expected ", want));
    vh::obs(want ? "compat-table.compatible" : "compat-table.incompatible");
}
template <class A, class... B> void trait_row(const char* group, TL<B...>) {
    if (!vh::begin_case(vh::cat("compat-table.", group), A::name())) return;
    uint64_t e0 = g_evals;
    using sw = int[]; (void)sw{0, (trait_cell<A, B>(), 0)...};
    vh::evals(g_evals - e0); vh::distinct(sizeof...(B));
}
template <class... A, class BL> void trait_table(const char* group, TL<A...>, BL b) { using sw = int[]; (void)sw{0, (trait_row<A>(group, b), 0)...}; }
#endif
#if C05_PART == 12 || C05_PART == 18
// copy_and_convert_pixels / color_convert / color_converted_view between models of one colour space: every colour of the
// destination is channel_convert of the source's colour of the same name (the identity when the channel types agree).
template <class SH, class DH> void convert_pair(const char* group) {
    enum { N = SH::N, NPIX = 5 };
    typedef typename SH::csi csi;
    typedef typename SH::gil_t SP; typedef typename DH::gil_t DP;
    std::string pk = SH::name() + "->" + DH::name();
    if (!vh::begin_case(vh::cat("convert.", group), pk)) return;
    vh::rng r = vh::case_rng();
    uint64_t e0 = g_evals;
    const bool compat = expect_compatible<SH, DH>();
    int rounds = vh::thorough() ? 200 : 24;
    for (int round = 0; round < rounds; ++round) {
        SP sp[NPIX]; DP dp[NPIX]; DP dp2[NPIX];
        double a[NPIX][N], want[NPIX][N];
        SH sh; DH dh;
        for (int i = 0; i < NPIX; ++i) {
            for (int k = 0; k < N; ++k) {
                if (round < N) a[i][k] = (k == (round + i) % N) ? SH::maxv(k) : 0;
                else if (round == N) a[i][k] = SH::maxv(k);
                else a[i][k] = SH::is_float ? (double)(float)r.unit() : (double)r.below((uint64_t)SH::maxv(k) + 1);
            }
            fill(sh, a[i]); memcpy(&sp[i], sh.base(), sizeof(SP));
            fill_junk(dh, a[i]); memcpy(&dp[i], dh.base(), sizeof(DP)); memcpy(&dp2[i], dh.base(), sizeof(DP));
            auto f = [&](auto kc) {
                constexpr int K = decltype(kc)::value;
                typedef typename chan_info<SH>::template chan<K>::type SC;
                typedef typename chan_info<DH>::template chan<K>::type DC;
                want[i][K] = to_raw(gil::channel_convert<DC>(mk<SC>::make(a[i][K])));
            };
            KLoop<0, N>::run(f);
        }
        auto sv = gil::interleaved_view(NPIX, 1, &sp[0], NPIX * sizeof(SP));
        auto dv = gil::interleaved_view(NPIX, 1, &dp[0], NPIX * sizeof(DP));
        gil::copy_and_convert_pixels(sv, dv);
        auto ccv = gil::color_converted_view<DP>(sv);
        for (int i = 0; i < NPIX; ++i) {
            gil::color_convert(sp[i], dp2[i]);
            DP viaview = ccv(i, 0);
            DH d1, d2, d3;
            memcpy(d1.base(), &dp[i], sizeof(DP)); memcpy(d2.base(), &dp2[i], sizeof(DP)); memcpy(d3.base(), &viaview, sizeof(DP));
            g_evals += 3;
            for (int k = 0; k < N; ++k) {
                const char* what = d1.get(k) != want[i][k] ? "copy_and_convert_pixels" : d2.get(k) != want[i][k] ? "color_convert" : d3.get(k) != want[i][k] ? "color_converted_view" : nullptr;
                if (what) {
                    double gotv = d1.get(k) != want[i][k] ? d1.get(k) : d2.get(k) != want[i][k] ? d2.get(k) : d3.get(k);
                    vh::viol(vh::cat(what, compat ? ".same-channel-types." : ".rescale.", pk),
                             vh::cat("colour ", csi::cname(k), ": source ", a[i][k], " (", chan_info<SH>::desc(k), ") arrived as ", gotv, " (", chan_info<DH>::desc(k), "), channel_convert gives ", want[i][k], "; source colours ", vec_str<N>(a[i])));
                    break;
                }
            }
        }
        uint64_t hh = vh::hash_str(pk); hh = vh::hash_bytes(a, sizeof a, hh);
        vh::distinct_hash(hh);
    }
    vh::evals(g_evals - e0);
    vh::obs(compat ? "convert.same-channel-types" : "convert.rescale");
}
template <class S, class... D> void convert_row(const char* g, TL<D...>) { using sw = int[]; (void)sw{0, (convert_pair<S, D>(g), 0)...}; }
template <class... S, class DL> void convert_all(const char* g, TL<S...>, DL d) { using sw = int[]; (void)sw{0, (convert_row<S>(g, d), 0)...}; }
#endif

// ---- enumeration -------------------------------------------------------------------------------------------
template <class S, class... D> void pairs_row(const char* g, TL<D...>) { using sw = int[]; (void)sw{0, (check_pair<S, D>(g), 0)...}; }
template <class... S, class DL> void all_pairs(const char* g, TL<S...>, DL d) { using sw = int[]; (void)sw{0, (pairs_row<S>(g, d), 0)...}; }
template <class... H> void all_models(const char* g, TL<H...>) { using sw = int[]; (void)sw{0, (check_model<H>(g), 0)...}; }

template <class T> void homog_rgb() {
    std::string g = vh::cat("rgb.", RT<T>::name());
    typedef TL<H_pix<T, L_rgb>, H_pix<T, L_bgr>, H_planar<T, CS_rgb, true>> dst;
    typedef TL<H_pix<T, L_rgb>, H_pix<T, L_bgr>, H_planar<T, CS_rgb, true>, H_planar<T, CS_rgb, false>> src;
    all_models(g.c_str(), src());
    all_pairs(g.c_str(), src(), dst());
    check_planar_binding<T, L_rgb>(g.c_str());
    check_planar_binding<T, L_bgr>(g.c_str());
}
template <class T> void homog_rgba() {
    std::string g = vh::cat("rgba.", RT<T>::name());
    typedef TL<H_pix<T, L_rgba>, H_pix<T, L_bgra>, H_pix<T, L_argb>, H_pix<T, L_abgr>, H_planar<T, CS_rgba, true>> dst;
    typedef TL<H_pix<T, L_rgba>, H_pix<T, L_bgra>, H_pix<T, L_argb>, H_pix<T, L_abgr>, H_planar<T, CS_rgba, true>, H_planar<T, CS_rgba, false>> src;
    all_models(g.c_str(), src());
    all_pairs(g.c_str(), src(), dst());
    check_planar_binding<T, L_rgba>(g.c_str());
    check_planar_binding<T, L_bgra>(g.c_str());
    check_planar_binding<T, L_argb>(g.c_str());
    check_planar_binding<T, L_abgr>(g.c_str());
}
template <class T> void homog_cmyk() {
    std::string g = vh::cat("cmyk.", RT<T>::name());
    typedef TL<H_pix<T, L_cmyk>, H_pix<T, L_kymc>, H_planar<T, CS_cmyk, true>> dst;
    typedef TL<H_pix<T, L_cmyk>, H_pix<T, L_kymc>, H_planar<T, CS_cmyk, true>, H_planar<T, CS_cmyk, false>> src;
    all_models(g.c_str(), src());
    all_pairs(g.c_str(), src(), dst());
    check_planar_binding<T, L_cmyk>(g.c_str());
    check_planar_binding<T, L_kymc>(g.c_str());
}
template <class T> void homog_gray() {
    std::string g = vh::cat("gray.", RT<T>::name());
    typedef TL<H_pix<T, L_gray>> m;
    all_models(g.c_str(), m());
    all_pairs(g.c_str(), m(), m());
}
template <class T, class LA, class LB> void homog_dev() {
    typedef typename LA::csi csi;
    std::string g = vh::cat(csi::name(), ".", RT<T>::name());
    typedef TL<H_pix<T, LA>, H_pix<T, LB>, H_planar<T, csi, true>> dst;
    typedef TL<H_pix<T, LA>, H_pix<T, LB>, H_planar<T, csi, true>, H_planar<T, csi, false>> src;
    all_models(g.c_str(), src());
    all_pairs(g.c_str(), src(), dst());
    check_planar_binding<T, LB>(g.c_str());
}
// packed / bit-aligned family of one colour space: sizes S... per colour, layouts LY...
// The bit-aligned references use the bit field GIL itself chooses for bit-aligned images
// (bit_aligned_image_type: min_fast_uint<bits of the pixel + 7>): a channel read at any bit offset 0..7
// must fit into one BitField, which is a precondition of packed_dynamic_channel_reference.
template <unsigned... S> struct bits_sum;
template <> struct bits_sum<> { static const unsigned value = 0; };
template <unsigned A, unsigned... S> struct bits_sum<A, S...> { static const unsigned value = A + bits_sum<S...>::value; };
template <class BF, unsigned... S> struct packed_family {
    typedef typename gil::detail::min_fast_uint<bits_sum<S...>::value + 7>::type BFB;
    template <class... LY> static void run(const char* csname, TL<LY...>) {
        std::string g = vh::cat(csname, ".packed", size_names<S...>::str());
        typedef TL<H_packed<BF, LY, S...>..., H_bits<BFB, LY, true, S...>...> dst;
        typedef TL<H_packed<BF, LY, S...>..., H_bits<BFB, LY, true, S...>..., H_bits<BFB, LY, false, S...>...> src;
        all_models(g.c_str(), src());
        all_pairs(g.c_str(), src(), dst());
        using sw = int[]; (void)sw{0, (check_bits_binding<BF, LY, S...>(g.c_str()), 0)...};
    }
    // one destination layout only (splits the 96 rgba pairs of a family over translation units)
    template <class DL, class... LY> static void run_dst(const char* csname, TL<LY...>) {
        std::string g = vh::cat(csname, ".packed", size_names<S...>::str());
        typedef TL<H_packed<BF, DL, S...>, H_bits<BFB, DL, true, S...>> dst;
        typedef TL<H_packed<BF, LY, S...>..., H_bits<BFB, LY, true, S...>..., H_bits<BFB, LY, false, S...>...> src;
        all_models(g.c_str(), TL<H_packed<BF, DL, S...>, H_bits<BFB, DL, true, S...>, H_bits<BFB, DL, false, S...>>());
        all_pairs(g.c_str(), src(), dst());
        check_bits_binding<BF, DL, S...>(g.c_str());
    }
};

int main(int argc, char** argv) {
    vh::init(argc, argv);
    typedef TL<L_rgba, L_bgra, L_argb, L_abgr> rgba_layouts;
#if C05_PART == 0
    homog_gray<uint8_t>(); homog_gray<uint16_t>(); homog_gray<gil::float32_t>();
    homog_rgb<uint8_t>(); homog_rgb<uint16_t>(); homog_rgb<gil::float32_t>();
    homog_cmyk<uint8_t>();
#elif C05_PART == 1
    homog_rgba<uint8_t>();
    homog_cmyk<uint16_t>(); homog_cmyk<gil::float32_t>();
#elif C05_PART == 2
    homog_rgba<uint16_t>(); homog_rgba<gil::float32_t>();
#elif C05_PART == 3
    homog_dev<uint8_t, L_dev2, L_dev2x>();
    homog_dev<uint8_t, L_dev3, L_dev3r>();
    homog_dev<uint8_t, L_dev4, L_dev4r>();
    homog_dev<uint8_t, L_dev5, L_dev5r>();
    homog_dev<uint16_t, L_dev5, L_dev5r>();
#elif C05_PART == 4
    packed_family<uint16_t, 5, 6, 5>::run("rgb", TL<L_rgb, L_bgr>());
    packed_family<uint8_t, 3, 3, 2>::run("rgb", TL<L_rgb, L_bgr>());
    packed_family<uint8_t, 4>::run("gray", TL<L_gray>());
    packed_family<uint8_t, 1>::run("gray", TL<L_gray>());
#elif C05_PART == 5
    packed_family<uint8_t, 2, 2, 2>::run("rgb", TL<L_rgb, L_bgr>());
    packed_family<uint8_t, 1, 2, 3>::run("rgb", TL<L_rgb, L_bgr>());
    packed_family<uint8_t, 2, 2, 2, 2>::run("cmyk", TL<L_cmyk, L_kymc>());
#elif C05_PART == 6
    packed_family<uint16_t, 4, 4, 4, 4>::run_dst<L_rgba>("rgba", rgba_layouts());
    packed_family<uint16_t, 4, 4, 4, 4>::run_dst<L_bgra>("rgba", rgba_layouts());
#elif C05_PART == 7
    packed_family<uint16_t, 4, 4, 4, 4>::run_dst<L_argb>("rgba", rgba_layouts());
    packed_family<uint16_t, 4, 4, 4, 4>::run_dst<L_abgr>("rgba", rgba_layouts());
#elif C05_PART == 8
    packed_family<uint16_t, 5, 5, 5, 1>::run_dst<L_rgba>("rgba", rgba_layouts());
    packed_family<uint16_t, 5, 5, 5, 1>::run_dst<L_bgra>("rgba", rgba_layouts());
#elif C05_PART == 9
    packed_family<uint16_t, 5, 5, 5, 1>::run_dst<L_argb>("rgba", rgba_layouts());
    packed_family<uint16_t, 5, 5, 5, 1>::run_dst<L_abgr>("rgba", rgba_layouts());
#elif C05_PART == 10
    planar_access_all<uint8_t, CS_rgb, L_rgb, L_bgr>();
    planar_access_all<uint8_t, CS_rgba, L_rgba, L_bgra, L_argb, L_abgr>();
    planar_access_all<uint16_t, CS_rgba, L_rgba, L_bgra, L_argb, L_abgr>();
    planar_access_all<gil::float32_t, CS_rgb, L_rgb, L_bgr>();
    planar_access_all<uint8_t, CS_cmyk, L_cmyk, L_kymc>();
    planar_access_all<uint8_t, CS_dev<2>, L_dev2x>();
    planar_access_all<uint8_t, CS_dev<5>, L_dev5r>();
#elif C05_PART == 11
    {
        // rgb: homogeneous models and packed / bit-aligned models of four size sets (per colour r-g-b) in both layouts
#define RGB_SET(BF, BFB, A, B, C) H_packed<BF, L_rgb, A, B, C>, H_packed<BF, L_bgr, A, B, C>, H_bits<BFB, L_rgb, true, A, B, C>, H_bits<BFB, L_bgr, false, A, B, C>
        typedef TL<H_pix<uint8_t, L_rgb>, H_pix<uint8_t, L_bgr>, H_pix<uint16_t, L_rgb>, H_pix<gil::float32_t, L_bgr>, H_planar<uint8_t, CS_rgb, true>, H_planar<uint16_t, CS_rgb, false>,
                   RGB_SET(uint16_t, uint16_t, 2, 3, 4), RGB_SET(uint16_t, uint16_t, 4, 3, 2), RGB_SET(uint16_t, uint32_t, 5, 6, 5), RGB_SET(uint8_t, uint16_t, 1, 2, 1),
                   H_pix<uint8_t, L_rgba>, H_pix<uint8_t, L_cmyk>> rgb_models;
        trait_table("rgb", rgb_models(), rgb_models());
#define RGBA_SET(BF, BFB, A, B, C, D) H_packed<BF, L_rgba, A, B, C, D>, H_packed<BF, L_bgra, A, B, C, D>, H_packed<BF, L_argb, A, B, C, D>, H_packed<BF, L_abgr, A, B, C, D>, \
        H_bits<BFB, L_rgba, true, A, B, C, D>, H_bits<BFB, L_bgra, false, A, B, C, D>, H_bits<BFB, L_argb, true, A, B, C, D>, H_bits<BFB, L_abgr, false, A, B, C, D>
        typedef TL<H_pix<uint8_t, L_rgba>, H_pix<uint8_t, L_bgra>, H_pix<uint8_t, L_argb>, H_pix<uint8_t, L_abgr>, H_pix<uint16_t, L_argb>, H_planar<uint8_t, CS_rgba, true>,
                   RGBA_SET(uint16_t, uint32_t, 1, 2, 3, 4), RGBA_SET(uint16_t, uint32_t, 4, 3, 2, 1), RGBA_SET(uint16_t, uint32_t, 5, 5, 5, 1),
                   H_pix<uint8_t, L_cmyk>, H_pix<uint8_t, L_kymc>, H_pix<uint8_t, L_rgb>> rgba_models;
        trait_table("rgba", rgba_models(), rgba_models());
    }
#elif C05_PART == 13
    // assignment / construction / equality / static_* by name where every colour has its own width (and its own position per layout)
    packed_family<uint16_t, 2, 3, 4>::run("rgb", TL<L_rgb, L_bgr>());
    packed_family<uint16_t, 1, 2, 3, 4>::run_dst<L_argb>("rgba", rgba_layouts());
#elif C05_PART == 14
    // 64-bit bit fields (channels at bit 32 and above; shifts must happen in the bit field's type)
    packed_family<uint64_t, 16, 16, 16, 16>::run_dst<L_argb>("rgba", rgba_layouts());
    packed_family<uint64_t, 21, 21, 21>::run("rgb", TL<L_rgb, L_bgr>());
#elif C05_PART == 15
    packed_family<uint64_t, 16, 16, 16, 16>::run_dst<L_bgra>("rgba", rgba_layouts());
    packed_family<uint64_t, 8, 24, 32>::run("rgb", TL<L_rgb, L_bgr>());
    packed_family<uint64_t, 12, 12, 12, 12, 12>::run("devicen5", TL<L_dev5, L_dev5r>());
#elif C05_PART == 16
    // bit fields with spare bits (rgb555 / rgb444 in 16 bits, rgb888 in 32, gray3 in 8, rgba4442 in 16)
    packed_family<uint16_t, 5, 5, 5>::run("rgb", TL<L_rgb, L_bgr>());
    packed_family<uint16_t, 4, 4, 4>::run("rgb", TL<L_rgb, L_bgr>());
    packed_family<uint8_t, 3>::run("gray", TL<L_gray>());
#elif C05_PART == 17
    packed_family<uint32_t, 8, 8, 8>::run("rgb", TL<L_rgb, L_bgr>());
    packed_family<uint16_t, 4, 4, 4, 2>::run_dst<L_abgr>("rgba", rgba_layouts());
    packed_family<uint64_t, 10, 10, 10, 10>::run_dst<L_rgba>("rgba", rgba_layouts());
#elif C05_PART == 18
    {
        // 64-bit packed pixels <-> homogeneous pixels and narrower packed pixels
        typedef TL<H_packed<uint64_t, L_rgba, 16, 16, 16, 16>, H_packed<uint64_t, L_abgr, 16, 16, 16, 16>, H_pix<uint16_t, L_argb>, H_pix<uint8_t, L_bgra>,
                   H_packed<uint16_t, L_bgra, 4, 4, 4, 4>, H_packed<uint64_t, L_argb, 10, 10, 10, 10>> wide;
        convert_all("rgba.wide", wide(), wide());
        typedef TL<H_packed<uint64_t, L_bgr, 8, 24, 32>, H_packed<uint64_t, L_rgb, 21, 21, 21>, H_pix<uint16_t, L_bgr>, H_packed<uint16_t, L_rgb, 5, 5, 5>> wide3;
        convert_all("rgb.wide", wide3(), wide3());
    }
#elif C05_PART == 12
    {
        typedef TL<H_packed<uint16_t, L_rgb, 2, 3, 4>, H_packed<uint16_t, L_bgr, 2, 3, 4>, H_packed<uint16_t, L_rgb, 4, 3, 2>, H_packed<uint16_t, L_bgr, 4, 3, 2>,
                   H_packed<uint16_t, L_rgb, 5, 6, 5>, H_packed<uint16_t, L_bgr, 5, 6, 5>, H_packed<uint8_t, L_bgr, 1, 2, 1>> rgbp;
        convert_all("rgb.packed", rgbp(), rgbp());
        typedef TL<H_packed<uint16_t, L_rgba, 1, 2, 3, 4>, H_packed<uint16_t, L_argb, 1, 2, 3, 4>, H_packed<uint16_t, L_abgr, 4, 3, 2, 1>, H_packed<uint16_t, L_bgra, 4, 3, 2, 1>,
                   H_packed<uint16_t, L_argb, 5, 5, 5, 1>> rgbap;
        convert_all("rgba.packed", rgbap(), rgbap());
        typedef TL<H_pix<uint8_t, L_rgb>, H_pix<uint8_t, L_bgr>, H_pix<uint16_t, L_rgb>, H_pix<uint16_t, L_bgr>> rgbh;
        convert_all("rgb.homogeneous", rgbh(), rgbh());
        typedef TL<H_pix<uint8_t, L_argb>, H_pix<uint16_t, L_bgra>, H_pix<uint16_t, L_abgr>> rgbah;
        convert_all("rgba.homogeneous", rgbah(), rgbah());
    }
#endif
    return vh::finish();
}
