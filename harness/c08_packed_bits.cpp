// C08 -- packed and bit-aligned channel writes change exactly their own bits; bit-aligned iterator arithmetic.
//
// Every write goes to bytes carved out of a larger arena of seeded garbage; after the write the *whole* arena is compared
// with the expected image computed by the obvious bit loop (common/c08_arena.hpp), so a change of any other channel, of a
// neighbouring pixel, of unused/padding bits or of the slack bytes around the field is seen, and classified as
//   readback.*  -- the reference does not read back the value written
//   stored.*    -- bits inside the target's own range are wrong
//   clobber.*   -- bits outside the target's own range changed
// (PART 15, 16, 17 continue PART 1, 2, 9 -- split for compile time)
// PART 0-2: packed_channel_reference<BF,First,Num> over u8/u16 fields -- every First; 16-bit fields: all 2^16 contents
// PART 3,4: the same over u32/u64 fields (first bits around every byte boundary)
// PART 5  : packed_dynamic_channel_reference<BF,Num> at first bit 0..7
// PART 6,7: bit_aligned_pixel_reference (channels, semantic access, proxies, whole pixel, swap)
// PART 8  : packed_pixel (byte-aligned objects with compile-time channel references, unused bits)
// PART 10-13: the same pixel / iterator / row checks on the types the library's factories produce
//            (bit_aligned_image{1..5}_type, packed_image{1..4}_type); the carrier they choose is reported as an observation
// PART 9  : bit_aligned_pixel_iterator arithmetic, std::fill / std::copy through it, rows in tight heap blocks (ASan)
// Host assumption: little endian (bit p of a BitField is bit p&7 of byte p>>3).
#include <boost/gil.hpp>
#include <boost/mp11.hpp>
#include <algorithm>
#include <memory>
#include <vector>
#include "common/vh.hpp"
#include "common/c08_arena.hpp"

namespace gil = boost::gil;
namespace mp11 = boost::mp11;
using c08::byte;
using c08::arena;
using c08::tight_block;
using c08::get_bits;
using c08::put_bits;
using c08::low_mask;

#ifndef C08_PART
#define C08_PART 0
#endif
#if defined(__SANITIZE_ADDRESS__)
static const bool kSanitized = true;
#else
static const bool kSanitized = false;
#endif

template <class T> struct bfname;
template <> struct bfname<uint8_t> { static const char* s() { return "u8"; } };
template <> struct bfname<uint16_t> { static const char* s() { return "u16"; } };
template <> struct bfname<uint32_t> { static const char* s() { return "u32"; } };
template <> struct bfname<uint64_t> { static const char* s() { return "u64"; } };

static const char* const kArith[] = {"pre-inc", "pre-dec", "post-inc", "post-dec", "add-assign", "sub-assign", "mul-assign", "div-assign"};

// =====================================================================================================
// Channel references, type-erased: the enumeration below is written once for all (BitField, First, Num)
// =====================================================================================================
struct chan_ops {
    std::string name, cls;   // id and key class
    int bf_bytes, num;
    int first;               // compile-time first bit, or -1: run-time first bit 0..7
    void (*set)(byte*, unsigned, uint64_t);
    uint64_t (*get_c)(const byte*, unsigned);
    uint64_t (*get_m)(byte*, unsigned);
    void (*assign_mm)(byte*, unsigned, byte*, unsigned);
    void (*assign_mc)(byte*, unsigned, const byte*, unsigned);
    void (*assign_x)(byte*, unsigned, const byte*, unsigned);   // from the other kind of reference
    int x_first;                                                  // first bit of that source (-1: run-time)
    int x_bf_bytes;
    void (*swap_rr)(byte*, unsigned, byte*, unsigned);
    uint64_t (*swap_vr)(uint64_t, byte*, unsigned);
    uint64_t (*swap_rv)(byte*, unsigned, uint64_t);
    void (*arith)(int, byte*, unsigned, int);
    int (*read_variants)(const byte*, unsigned, uint64_t);      // every way of reading through the const reference; bit mask of the ways that disagree
};

template <class R, bool Dyn> struct mk { template <class P> static R at(P* p, unsigned) { return R(p); } };
template <class R> struct mk<R, true> { template <class P> static R at(P* p, unsigned fb) { return R(p, fb); } };

// R/CR: mutable / const reference under test; X: const reference of the other kind used as assignment source
template <class R, class CR, class X, bool Dyn> struct chan_impl {
    typedef typename R::integer_t I;
    typedef typename gil::channel_traits<R>::value_type V;
    static void set(byte* p, unsigned fb, uint64_t v) { R r = mk<R, Dyn>::at(p, fb); r = (I)v; }
    static uint64_t get_c(const byte* p, unsigned fb) { CR r = mk<CR, Dyn>::at(p, fb); return (uint64_t)r.get(); }
    static uint64_t get_m(byte* p, unsigned fb) { R r = mk<R, Dyn>::at(p, fb); I v = r; return (uint64_t)v; }
    static void assign_mm(byte* d, unsigned fd, byte* s, unsigned fs) { R a = mk<R, Dyn>::at(d, fd), b = mk<R, Dyn>::at(s, fs); a = b; }
    static void assign_mc(byte* d, unsigned fd, const byte* s, unsigned fs) { R a = mk<R, Dyn>::at(d, fd); CR b = mk<CR, Dyn>::at(s, fs); a = b; }
    static void assign_x(byte* d, unsigned fd, const byte* s, unsigned fs) { R a = mk<R, Dyn>::at(d, fd); X b = mk<X, !Dyn>::at(s, fs); a = b; }
    static void swap_rr(byte* d, unsigned fd, byte* s, unsigned fs) { R a = mk<R, Dyn>::at(d, fd), b = mk<R, Dyn>::at(s, fs); using std::swap; swap(a, b); }
    static uint64_t swap_vr(uint64_t v, byte* s, unsigned fs) { V val((I)v); R b = mk<R, Dyn>::at(s, fs); using std::swap; swap(val, b); return (uint64_t)(I)val; }
    static uint64_t swap_rv(byte* s, unsigned fs, uint64_t v) { V val((I)v); R b = mk<R, Dyn>::at(s, fs); using std::swap; swap(b, val); return (uint64_t)(I)val; }
    static void arith(int op, byte* p, unsigned fb, int k) {
        R r = mk<R, Dyn>::at(p, fb);
        switch (op) {
            case 0: ++r; break;
            case 1: --r; break;
            case 2: r++; break;
            case 3: r--; break;
            case 4: r += k; break;
            case 5: r -= k; break;
            case 6: r *= k; break;
            default: r /= k; break;
        }
    }
    template <class C> static bool convert_agrees(C const& r, uint64_t expect, std::true_type) {
        return gil::channel_convert<uint16_t>(r) == gil::channel_convert<uint16_t>(V((I)expect)) && gil::channel_convert<gil::float32_t>(r) == gil::channel_convert<gil::float32_t>(V((I)expect));
    }
    template <class C> static bool convert_agrees(C const&, uint64_t, std::false_type) { return true; }
    static int read_variants(const byte* p, unsigned fb, uint64_t expect) {
        int bad = 0;
        CR r = mk<CR, Dyn>::at(p, fb);
        if ((uint64_t)r.get() != expect) bad |= 1;
        I conv = r; if ((uint64_t)conv != expect) bad |= 2;
        CR r2(r); if ((uint64_t)r2.get() != expect) bad |= 4;
        if (!convert_agrees(r, expect, std::integral_constant<bool, (R::num_bits <= 16)>())) bad |= 8;
        if ((uint64_t)(I)gil::channel_invert(r) != (low_mask(R::num_bits) - expect)) bad |= 16;
        V v(r); if ((uint64_t)(I)v != expect) bad |= 32;
        if (!(r == r2) || (r != r2) || !(r == v)) bad |= 64;
        if ((uint64_t)(I)gil::channel_multiply(r, r2) != (uint64_t)(I)gil::channel_multiply(v, v)) bad |= 128;
        return bad;
    }
    static chan_ops make(const std::string& name, const std::string& cls, int bf_bytes, int num, int first, int x_first, int x_bf_bytes) {
        chan_ops o;
        o.name = name; o.cls = cls; o.bf_bytes = bf_bytes; o.num = num; o.first = first;
        o.set = &set; o.get_c = &get_c; o.get_m = &get_m; o.assign_mm = &assign_mm; o.assign_mc = &assign_mc; o.assign_x = &assign_x;
        o.x_first = x_first; o.x_bf_bytes = x_bf_bytes;
        o.swap_rr = &swap_rr; o.swap_vr = &swap_vr; o.swap_rv = &swap_rv; o.arith = &arith; o.read_variants = &read_variants;
        return o;
    }
};

template <class BF, int First, int Num> static chan_ops static_ops() {
    typedef gil::packed_channel_reference<BF, First, Num, true> R;
    typedef gil::packed_channel_reference<BF, First, Num, false> CR;
    typedef gil::packed_dynamic_channel_reference<BF, Num, false> X;
    return chan_impl<R, CR, X, false>::make(vh::cat("pref<", bfname<BF>::s(), ",", First, ",", Num, ">"), vh::cat("pref.", bfname<BF>::s(), ".n", Num), (int)sizeof(BF), Num, First, -1, (int)sizeof(BF));
}
template <class BF, int Num> static chan_ops dynamic_ops() {
    typedef gil::packed_dynamic_channel_reference<BF, Num, true> R;
    typedef gil::packed_dynamic_channel_reference<BF, Num, false> CR;
    typedef gil::packed_channel_reference<uint64_t, 3, Num, false> X;
    return chan_impl<R, CR, X, true>::make(vh::cat("pdyn<", bfname<BF>::s(), ",", Num, ">"), vh::cat("pdyn.", bfname<BF>::s(), ".n", Num), (int)sizeof(BF), Num, -1, 3, 8);
}

static void channel_case(const chan_ops& o);
static void channel_tight_case(const chan_ops& o);
template <class BF, int Num> static void dyn_cases() { channel_case(dynamic_ops<BF, Num>()); channel_tight_case(dynamic_ops<BF, Num>()); }

// values of an n-bit channel: all for n <= 8, otherwise ends, single bits and their complements, seeded
static std::vector<uint64_t> channel_values(int n, vh::rng& r, int nrand) {
    std::vector<uint64_t> v;
    if (n <= 8) { for (uint64_t x = 0; x < (1ull << n); ++x) v.push_back(x); return v; }
    const uint64_t m = low_mask(n);
    v.push_back(0); v.push_back(m); v.push_back(1); v.push_back(m - 1); v.push_back(m >> 1); v.push_back((m >> 1) + 1);
    v.push_back(0xAAAAAAAAAAAAAAAAull & m); v.push_back(0x5555555555555555ull & m);
    for (int i = 0; i < n; ++i) { v.push_back(1ull << i); v.push_back(m ^ (1ull << i)); }
    for (int i = 0; i < nrand; ++i) v.push_back(r.next() & m);
    std::sort(v.begin(), v.end()); v.erase(std::unique(v.begin(), v.end()), v.end());
    return v;
}

// --- the exhaustive part: ref = v over backgrounds x values, whole arena compared --------------------
// The field (bf_bytes bytes) sits at byte `off` of a 48-byte arena; the channel occupies bits [fb, fb+num) of it.
static void sweep_assign(const chan_ops& o, unsigned fb, size_t off, vh::rng& r, uint64_t& evals) {
    alignas(16) byte mem[48], exp[48];
    for (int i = 0; i < 48; ++i) mem[i] = exp[i] = (byte)r.next();
    const int nb = o.bf_bytes;
    // backgrounds of the field: complete for 1- and 2-byte fields (2-byte: complete in the native thorough run,
    // otherwise an odd-stride walk, distinct by construction), seeded + patterns for wider fields
    uint64_t nbg;
    if (nb == 1) nbg = 256;
    else if (nb == 2) nbg = (vh::thorough() && !kSanitized) ? 65536 : (kSanitized ? 512 : 4096);
    else nbg = kSanitized ? 96 : (vh::thorough() ? 2048 : 256);
    const uint64_t stride = (r.next() | 1), start = r.next();
    std::vector<uint64_t> values = channel_values(o.num, r, vh::thorough() ? 64 : 16);
    byte mb[8], vb[8];
    std::memset(mb, 0, 8);
    put_bits(mb, fb, o.num, low_mask(o.num));
    const long w0 = (long)off * 8 + fb, w1 = w0 + o.num;
    for (uint64_t v : values) {
        std::memset(vb, 0, 8);
        put_bits(vb, fb, o.num, v);
        for (uint64_t k = 0; k < nbg; ++k) {
            uint64_t bg;
            if (nb <= 2) bg = (nbg == (1ull << (8 * nb))) ? k : ((k * stride + start) & 0xFFFF);
            else bg = k == 0 ? 0 : k == 1 ? ~0ull : k == 2 ? 0xA5A5A5A5A5A5A5A5ull : k == 3 ? 0x5A5A5A5A5A5A5A5Aull : r.next();
            for (int i = 0; i < nb; ++i) {
                byte b = (byte)(bg >> (8 * i));
                mem[off + i] = b;
                exp[off + i] = (byte)((b & ~mb[i]) | vb[i]);
            }
            o.set(mem + off, fb, v);
            const uint64_t back = o.get_c(mem + off, fb);
            if (back != v) vh::viol(vh::cat("readback.assign.", o.cls), vh::cat(o.name, " first bit ", fb, " field ", bg, ": wrote ", v, " read back ", back));
            if (std::memcmp(mem, exp, 48) != 0) {
                arena A(48);
                std::memcpy(A.mem.data(), mem, 48); std::memcpy(A.exp.data(), exp, 48);
                c08::judge(A, w0, w1, "assign", o.cls, vh::cat(o.name, " first bit ", fb, " byte offset ", off, " field content ", bg, " = ", v));
                std::memcpy(mem, exp, 48);   // continue from the expected state
            }
        }
        evals += nbg;
    }
}

// --- the other operations on a seeded sample of backgrounds -------------------------------------------
static void other_ops(const chan_ops& o, unsigned fb, vh::rng& r, uint64_t& evals) {
    arena A(96);
    const size_t offA = 24 + r.below(3), offB = 56 + r.below(3);   // two disjoint fields
    const long wA = (long)offA * 8 + fb, wB = (long)offB * 8 + fb;
    const int rounds = kSanitized ? 24 : (vh::thorough() ? 256 : 48);
    std::vector<uint64_t> values = channel_values(o.num, r, 8);
    const uint64_t M = low_mask(o.num);
    const std::string at = vh::cat(o.name, " first bit ", fb);
    for (int round = 0; round < rounds; ++round) {
        A.fill(r, round < 4 ? round : 9);
        const uint64_t va = get_bits(A.p(), wA, o.num), vb = get_bits(A.p(), wB, o.num);
        // reading: const and mutable reference agree with the bits
        if (o.get_c(A.p(offA), fb) != va || o.get_m(A.p(offA), fb) != va)
            vh::viol(vh::cat("read.", o.cls), vh::cat(at, ": bits hold ", va, " const get ", o.get_c(A.p(offA), fb), " mutable ", o.get_m(A.p(offA), fb)));
        // ref = ref (mutable source), ref = const ref
        A.sync(); put_bits(A.exp.data(), wA, o.num, vb);
        o.assign_mm(A.p(offA), fb, A.p(offB), fb);
        c08::judge(A, wA, wA + o.num, "assign-ref", o.cls, vh::cat(at, " = same-type reference holding ", vb));
        A.fill(r, 9);
        { const uint64_t s = get_bits(A.p(), wB, o.num);
          A.sync(); put_bits(A.exp.data(), wA, o.num, s);
          o.assign_mc(A.p(offA), fb, A.p(offB), fb);
          c08::judge(A, wA, wA + o.num, "assign-cref", o.cls, vh::cat(at, " = const reference holding ", s)); }
        // ref = reference of the other kind (static <- dynamic with every first bit that fits, dynamic <- static<u64,3,Num>)
        for (unsigned xfb = 0; xfb < 8; ++xfb) {
            const int xf = o.x_first >= 0 ? o.x_first : (int)xfb;
            if (o.x_first >= 0 && xfb > 0) break;
            if (xf + o.num > 8 * o.x_bf_bytes) continue;
            A.fill(r, 9);
            const uint64_t s = get_bits(A.p(), (long)offB * 8 + xf, o.num);
            A.sync(); put_bits(A.exp.data(), wA, o.num, s);
            o.assign_x(A.p(offA), fb, A.p(offB), (unsigned)xf);
            c08::judge(A, wA, wA + o.num, "assign-other-kind", o.cls, vh::cat(at, " = ", o.x_first >= 0 ? "static" : "dynamic", " reference at first bit ", xf, " holding ", s));
            ++evals;
        }
        // swap(ref, ref), swap(value, ref), swap(ref, value)
        A.fill(r, 9);
        { const uint64_t a = get_bits(A.p(), wA, o.num), b = get_bits(A.p(), wB, o.num);
          A.sync(); put_bits(A.exp.data(), wA, o.num, b); put_bits(A.exp.data(), wB, o.num, a);
          o.swap_rr(A.p(offA), fb, A.p(offB), fb);
          if (!A.ok()) {   // two windows: judge each against its own
              std::string d; int c = A.classify(wA, wA + o.num, d);
              std::string d2; int c2 = A.classify(wB, wB + o.num, d2);
              bool outside_both = false;
              for (size_t i = 0; i < A.size(); ++i) { byte x = (byte)(A.mem[i] ^ A.exp[i]); for (int bb = 0; bb < 8; ++bb) if ((x >> bb) & 1) { long pos = (long)i * 8 + bb; if (!(pos >= wA && pos < wA + o.num) && !(pos >= wB && pos < wB + o.num)) outside_both = true; } }
              if (outside_both) vh::viol(vh::cat("clobber.swap.", o.cls), vh::cat(at, " swap of references holding ", a, " and ", b, ":", d));
              else vh::viol(vh::cat("stored.swap.", o.cls), vh::cat(at, " swap of references holding ", a, " and ", b, " left ", get_bits(A.p(), wA, o.num), " and ", get_bits(A.p(), wB, o.num)));
              (void)c; (void)c2;
          } }
        for (int dir = 0; dir < 2; ++dir) {
            A.fill(r, 9);
            const uint64_t a = get_bits(A.p(), wA, o.num), v = values[r.below(values.size())];
            A.sync(); put_bits(A.exp.data(), wA, o.num, v);
            const uint64_t got = dir ? o.swap_rv(A.p(offA), fb, v) : o.swap_vr(v, A.p(offA), fb);
            c08::judge(A, wA, wA + o.num, dir ? "swap-ref-value" : "swap-value-ref", o.cls, vh::cat(at, " holding ", a, " swapped with value ", v));
            if (got != a) vh::viol(vh::cat("readback.swap-value.", o.cls), vh::cat(at, " holding ", a, " swapped with value ", v, ": value object now ", got));
        }
        // arithmetic on the proxy: result modulo 2^num, nothing else touched
        static const int ks[] = {1, 2, 3, 5, 7, 16, 255, 256, 300, -1, -2, -7, -255, -300};
        for (int op = 0; op < 8; ++op) {
            for (int ki = 0; ki < (op < 4 ? 1 : (int)(sizeof ks / sizeof ks[0])); ++ki) {
                int k = ks[ki];
                if (op == 7 && k < 0) continue;   // dividing an unsigned channel by a negative number: not a stated use
                A.fill(r, 9);
                uint64_t cur;
                // put the interesting starting values in more often: 0, max, max-1, seeded
                switch (r.below(5)) { case 0: cur = 0; break; case 1: cur = M; break; case 2: cur = M - (M ? 1 : 0); break; default: cur = values[r.below(values.size())]; }
                put_bits(A.p(), wA, o.num, cur);
                __int128 res;
                switch (op) {
                    case 0: case 2: res = (__int128)cur + 1; break;
                    case 1: case 3: res = (__int128)cur - 1; break;
                    case 4: res = (__int128)cur + k; break;
                    case 5: res = (__int128)cur - k; break;
                    case 6: res = (__int128)cur * k; break;
                    default: res = (__int128)cur / k; break;
                }
                const __int128 mod = (__int128)M + 1;
                const uint64_t expect = (uint64_t)(((res % mod) + mod) % mod);
                A.sync(); put_bits(A.exp.data(), wA, o.num, expect);
                o.arith(op, A.p(offA), fb, k);
                c08::judge(A, wA, wA + o.num, kArith[op], o.cls, vh::cat(at, " holding ", cur, " ", kArith[op], op >= 4 ? vh::cat(" ", k) : std::string(), " expected ", expect, " got ", get_bits(A.p(), wA, o.num)));
                ++evals;
            }
        }
        evals += 8;
    }
}

static void channel_case(const chan_ops& o) {
    if (!vh::begin_case(o.first >= 0 ? "pref" : "pdyn", o.name)) return;
    vh::rng r = vh::case_rng();
    uint64_t evals = 0;
    for (unsigned fb = 0; fb < 8; ++fb) {
        unsigned f = o.first >= 0 ? (unsigned)o.first : fb;
        if (o.first >= 0 && fb > 0) break;
        if ((int)f + o.num > 8 * o.bf_bytes) continue;   // the channel must fit into the bit field
        for (size_t off = 16; off <= (o.bf_bytes > 1 ? 19u : 16u); off += 3) sweep_assign(o, f, off, r, evals);   // aligned and odd address
        other_ops(o, f, r, evals);
        vh::obs(vh::cat(o.first >= 0 ? "pref" : "pdyn", ".", o.bf_bytes * 8, "bit-field"));
    }
    vh::sample(vh::cat(o.name, ": ref=v for every value x field content, whole arena compared; ref=ref, swap, ++ -- += -= *= /="));
    vh::evals(evals); vh::distinct(evals);
}

// The same reference built on the last bytes of a block of exactly the bytes that hold the channel (dynamic reference:
// ceil((first bit + Num)/8) bytes; static reference: its bit field), flush against inaccessible memory: reads through the
// const flavour (every access path), reads and writes through the mutable one.  An access behind the block ends the
// process (ASan report / SIGSEGV) and is keyed by the driver with the case class "tight-chan".
static void channel_tight_case(const chan_ops& o) {
    if (!vh::begin_case("tight-chan", o.name)) return;
    vh::rng r = vh::case_rng();
    uint64_t evals = 0;
    const uint64_t M = low_mask(o.num);
    for (unsigned fb = 0; fb < 8; ++fb) {
        unsigned f = o.first >= 0 ? (unsigned)o.first : fb;
        if (o.first >= 0 && fb > 0) break;
        if ((int)f + o.num > 8 * o.bf_bytes) continue;
        const size_t need = o.first >= 0 ? (size_t)o.bf_bytes : (size_t)((f + o.num + 7) / 8);
        const std::string at = vh::cat(o.name, " first bit ", f, " on the last ", need, " byte(s) of a block");
        for (size_t lead = 0; lead < 3; ++lead) {
            tight_block A(lead + need), B(lead + need);
            for (int round = 0; round < (kSanitized ? 6 : 16); ++round) {
                A.fill(r); B.fill(r);
                byte* pa = A.p + lead; byte* pb = B.p + lead;
                const uint64_t va = get_bits(pa, f, o.num), vb = get_bits(pb, f, o.num);
                const int bad = o.read_variants(pa, f, va);
                if (bad) vh::viol(vh::cat("read.tight.", o.cls), vh::cat(at, ": bits hold ", va, ", reading through the const reference disagrees on access paths (bit mask) ", bad));
                if (o.get_m(pa, f) != va) vh::viol(vh::cat("read.tight.", o.cls), vh::cat(at, ": bits hold ", va, ", mutable reference reads ", o.get_m(pa, f)));
                // ref = const ref / ref = ref / swap between two tight blocks, then plain writes and a wrap-around step
                std::vector<byte> ea(A.p, A.p + A.n), eb(B.p, B.p + B.n);
                put_bits(ea.data() + lead, f, o.num, vb);
                o.assign_mc(pa, f, pb, f);
                if (std::memcmp(A.p, ea.data(), A.n) || std::memcmp(B.p, eb.data(), B.n)) vh::viol(vh::cat("stored.tight-assign-cref.", o.cls), vh::cat(at, " = const reference holding ", vb, ": block differs from the expected image"));
                put_bits(ea.data() + lead, f, o.num, va); put_bits(A.p + lead, f, o.num, va);
                put_bits(eb.data() + lead, f, o.num, va);
                o.assign_mm(pb, f, pa, f);
                if (std::memcmp(A.p, ea.data(), A.n) || std::memcmp(B.p, eb.data(), B.n)) vh::viol(vh::cat("stored.tight-assign-ref.", o.cls), vh::cat(at, ": assignment from the reference holding ", va, ": block differs from the expected image"));
                put_bits(B.p + lead, f, o.num, vb); put_bits(eb.data() + lead, f, o.num, va); put_bits(ea.data() + lead, f, o.num, vb);
                o.swap_rr(pa, f, pb, f);
                if (std::memcmp(A.p, ea.data(), A.n) || std::memcmp(B.p, eb.data(), B.n)) vh::viol(vh::cat("stored.tight-swap.", o.cls), vh::cat(at, ": swap of references holding ", va, " and ", vb, ": blocks differ from the expected image"));
                const uint64_t v = r.next() & M;
                put_bits(ea.data() + lead, f, o.num, v);
                o.set(pa, f, v);
                if (std::memcmp(A.p, ea.data(), A.n) || o.get_c(pa, f) != v) vh::viol(vh::cat("stored.tight-assign.", o.cls), vh::cat(at, " = ", v, ": block differs from the expected image or reads back ", o.get_c(pa, f)));
                put_bits(A.p + lead, f, o.num, M); put_bits(ea.data() + lead, f, o.num, 0);
                o.arith(0, pa, f, 1);
                if (std::memcmp(A.p, ea.data(), A.n)) vh::viol(vh::cat("stored.tight-pre-inc.", o.cls), vh::cat(at, " holding max, ++: block differs from the expected image"));
                evals += 8;
            }
        }
    }
    vh::evals(evals); vh::distinct(evals);
    vh::obs("chan.tight");
}

// (First,Num) lists
template <class BF, int Num, int First> struct static_firsts {
    static void run() {
        static_firsts<BF, Num, First - 1>::run();
        channel_case(static_ops<BF, First, Num>());
        channel_tight_case(static_ops<BF, First, Num>());
    }
};
template <class BF, int Num> struct static_firsts<BF, Num, -1> { static void run() {} };
template <class BF, int Num> static void all_firsts() { static_firsts<BF, Num, (int)sizeof(BF) * 8 - Num>::run(); }
template <class BF, int Num, int... Firsts> static void some_firsts() { using sw = int[]; (void)sw{0, (channel_case(static_ops<BF, Firsts, Num>()), channel_tight_case(static_ops<BF, Firsts, Num>()), 0)...}; }

// =====================================================================================================
// Pixels, type-erased: bit_aligned_pixel_reference and packed_pixel
// =====================================================================================================
struct pix_ops {
    std::string name;
    int nch;
    int width[5];
    int bit_size;        // bits of all channels
    int pixel_bits;      // distance between consecutive pixels (== bit_size for bit-aligned, 8*sizeof(BitField) for packed pixels)
    bool bit_aligned;    // false: packed_pixel (always byte aligned, may have unused high bits)
    int sem_to_phys[5];  // hand-written: physical index of semantic channel k of the layout
    void (*set_ch)(int k, byte*, int bit, uint64_t v);
    uint64_t (*get_ch)(int k, const byte*, int bit);
    void (*set_sem)(int k, byte*, int bit, uint64_t v);
    void (*arith_ch)(int k, int op, byte*, int bit, int v);
    void (*assign_value)(byte*, int bit, uint64_t pixel_bits);   // ref = value_type(bits)
    void (*assign_ref)(byte*, int dbit, byte*, int sbit);        // ref = ref
    void (*assign_cref)(byte*, int dbit, const byte*, int sbit); // ref = const ref
    void (*swap_rr)(byte*, int, byte*, int);
    uint64_t (*swap_rv)(byte*, int, uint64_t);                    // returns the value object's channel bits afterwards
    bool (*equal)(const byte*, int, const byte*, int);
    uint64_t (*to_value)(const byte*, int bit);                   // value_type v = ref; its channel bits
};

template <class Ref, class CRef, int K> struct ch_dispatch {
    static void set(int k, Ref const& r, uint64_t v) { if (k == K) gil::at_c<K>(r) = (typename gil::kth_element_type<Ref, K>::type::integer_t)v; else ch_dispatch<Ref, CRef, K - 1>::set(k, r, v); }
    static uint64_t get(int k, CRef const& r) { return k == K ? (uint64_t)gil::at_c<K>(r).get() : ch_dispatch<Ref, CRef, K - 1>::get(k, r); }
    static void sem(int k, Ref const& r, uint64_t v) { if (k == K) gil::semantic_at_c<K>(r) = (int)v; else ch_dispatch<Ref, CRef, K - 1>::sem(k, r, v); }
    static void arith(int k, int op, Ref const& r, int v) {
        if (k != K) { ch_dispatch<Ref, CRef, K - 1>::arith(k, op, r, v); return; }
        switch (op) {
            case 0: ++gil::at_c<K>(r); break;
            case 1: --gil::at_c<K>(r); break;
            case 2: gil::at_c<K>(r)++; break;
            case 3: gil::at_c<K>(r)--; break;
            case 4: gil::at_c<K>(r) += v; break;
            case 5: gil::at_c<K>(r) -= v; break;
            case 6: gil::at_c<K>(r) *= v; break;
            default: gil::at_c<K>(r) /= v; break;
        }
    }
};
template <class Ref, class CRef> struct ch_dispatch<Ref, CRef, -1> {
    static void set(int, Ref const&, uint64_t) {}
    static uint64_t get(int, CRef const&) { return ~0ull; }
    static void sem(int, Ref const&, uint64_t) {}
    static void arith(int, int, Ref const&, int) {}
};

template <class BF, class Sizes, class Layout> struct ba_impl {
    typedef gil::bit_aligned_pixel_reference<BF, Sizes, Layout, true> Ref;
    typedef gil::bit_aligned_pixel_reference<BF, Sizes, Layout, false> CRef;
    typedef typename Ref::value_type Value;
    static const int N = mp11::mp_size<Sizes>::value;
    typedef ch_dispatch<Ref, CRef, N - 1> D;
    static void set_ch(int k, byte* p, int bit, uint64_t v) { Ref r(p, bit); D::set(k, r, v); }
    static uint64_t get_ch(int k, const byte* p, int bit) { CRef r(p, bit); return D::get(k, r); }
    static void set_sem(int k, byte* p, int bit, uint64_t v) { Ref r(p, bit); D::sem(k, r, v); }
    static void arith_ch(int k, int op, byte* p, int bit, int v) { Ref r(p, bit); D::arith(k, op, r, v); }
    static void assign_value(byte* p, int bit, uint64_t bits) { Value val((BF)bits); Ref r(p, bit); r = val; }
    static void assign_ref(byte* d, int db, byte* s, int sb) { Ref a(d, db), b(s, sb); a = b; }
    static void assign_cref(byte* d, int db, const byte* s, int sb) { Ref a(d, db); CRef b(s, sb); a = b; }
    static void swap_rr(byte* d, int db, byte* s, int sb) { Ref a(d, db), b(s, sb); using std::swap; swap(a, b); }
    static uint64_t swap_rv(byte* d, int db, uint64_t bits) { Value val((BF)bits); Ref a(d, db); using std::swap; swap(a, val); return (uint64_t)val._bitfield; }
    static bool equal(const byte* a, int ab, const byte* b, int bb) { CRef x(a, ab), y(b, bb); return x == y; }
    static uint64_t to_value(const byte* p, int bit) { CRef r(p, bit); Value v(r); return (uint64_t)v._bitfield; }
};

struct size_filler { int* w; int i; template <class T> void operator()(T) { w[i++] = (int)T::value; } };

template <class BF, class Sizes, class Layout> static pix_ops ba_ops(const std::string& name, std::initializer_list<int> sem_to_phys) {
    typedef ba_impl<BF, Sizes, Layout> I;
    pix_ops o;
    o.name = name; o.nch = I::N; o.bit_aligned = true;
    size_filler f{o.width, 0};
    mp11::mp_for_each<Sizes>(f);
    o.bit_size = 0; for (int k = 0; k < o.nch; ++k) o.bit_size += o.width[k];
    o.pixel_bits = o.bit_size;
    int i = 0; for (int s : sem_to_phys) o.sem_to_phys[i++] = s;
    o.set_ch = &I::set_ch; o.get_ch = &I::get_ch; o.set_sem = &I::set_sem; o.arith_ch = &I::arith_ch; o.assign_value = &I::assign_value;
    o.assign_ref = &I::assign_ref; o.assign_cref = &I::assign_cref; o.swap_rr = &I::swap_rr; o.swap_rv = &I::swap_rv; o.equal = &I::equal; o.to_value = &I::to_value;
    return o;
}

// packed_pixel<BF,...>: the pixel object lives at a BF-aligned address inside the arena; `bit` is ignored (always 0).
// assign_ref/assign_cref assign from a *bit-aligned reference* with the same channel sizes (the templated operator=,
// channel by channel), swap_rr swaps two pixel objects of the same type.
template <class BF, class Sizes, class Layout> struct pk_impl {
    typedef typename gil::packed_pixel_type<BF, Sizes, Layout>::type Pixel;
    typedef gil::bit_aligned_pixel_reference<uint64_t, Sizes, Layout, true> BRef;
    typedef gil::bit_aligned_pixel_reference<uint64_t, Sizes, Layout, false> BCRef;
    static const int N = mp11::mp_size<Sizes>::value;
    static Pixel& at(byte* p) { return *reinterpret_cast<Pixel*>(p); }
    static const Pixel& at(const byte* p) { return *reinterpret_cast<const Pixel*>(p); }
    static void set_ch(int k, byte* p, int, uint64_t v) { pk_set<N - 1>(k, at(p), v); }
    template <int K> static typename std::enable_if<(K >= 0)>::type pk_set(int k, Pixel& px, uint64_t v) { if (k == K) gil::at_c<K>(px) = (typename gil::kth_element_type<Pixel, K>::type::integer_t)v; else pk_set<K - 1>(k, px, v); }
    template <int K> static typename std::enable_if<(K < 0)>::type pk_set(int, Pixel&, uint64_t) {}
    template <int K> static typename std::enable_if<(K >= 0), uint64_t>::type pk_get(int k, const Pixel& px) { return k == K ? (uint64_t)gil::at_c<K>(px).get() : pk_get<K - 1>(k, px); }
    template <int K> static typename std::enable_if<(K < 0), uint64_t>::type pk_get(int, const Pixel&) { return ~0ull; }
    template <int K> static typename std::enable_if<(K >= 0)>::type pk_sem(int k, Pixel& px, uint64_t v) { if (k == K) gil::semantic_at_c<K>(px) = (int)v; else pk_sem<K - 1>(k, px, v); }
    template <int K> static typename std::enable_if<(K < 0)>::type pk_sem(int, Pixel&, uint64_t) {}
    template <int K> static typename std::enable_if<(K >= 0)>::type pk_arith(int k, int op, Pixel& px, int v) {
        if (k != K) { pk_arith<K - 1>(k, op, px, v); return; }
        switch (op) {
            case 0: ++gil::at_c<K>(px); break;
            case 1: --gil::at_c<K>(px); break;
            case 2: gil::at_c<K>(px)++; break;
            case 3: gil::at_c<K>(px)--; break;
            case 4: gil::at_c<K>(px) += v; break;
            case 5: gil::at_c<K>(px) -= v; break;
            case 6: gil::at_c<K>(px) *= v; break;
            default: gil::at_c<K>(px) /= v; break;
        }
    }
    template <int K> static typename std::enable_if<(K < 0)>::type pk_arith(int, int, Pixel&, int) {}
    static uint64_t get_ch(int k, const byte* p, int) { return pk_get<N - 1>(k, at(p)); }
    static void set_sem(int k, byte* p, int, uint64_t v) { pk_sem<N - 1>(k, at(p), v); }
    static void arith_ch(int k, int op, byte* p, int, int v) { pk_arith<N - 1>(k, op, at(p), v); }
    static void assign_value(byte* p, int, uint64_t bits) { Pixel val((BF)bits); at(p) = val; }
    static void assign_ref(byte* d, int, byte* s, int sb) { BRef b(s, sb); at(d) = b; }
    static void assign_cref(byte* d, int, const byte* s, int sb) { BCRef b(s, sb); at(d) = b; }
    static void swap_rr(byte* d, int, byte* s, int) { using std::swap; swap(at(d), at(s)); }
    static uint64_t swap_rv(byte* d, int, uint64_t bits) { Pixel val((BF)bits); using std::swap; swap(at(d), val); return (uint64_t)val._bitfield; }
    static bool equal(const byte* a, int, const byte* b, int) { return at(a) == at(b); }
    static uint64_t to_value(const byte* p, int) { Pixel v(at(p)); return (uint64_t)v._bitfield; }
};
template <class BF, class Sizes, class Layout> static pix_ops pk_ops(const std::string& name, std::initializer_list<int> sem_to_phys) {
    typedef pk_impl<BF, Sizes, Layout> I;
    pix_ops o;
    o.name = name; o.nch = I::N; o.bit_aligned = false;
    size_filler f{o.width, 0};
    mp11::mp_for_each<Sizes>(f);
    o.bit_size = 0; for (int k = 0; k < o.nch; ++k) o.bit_size += o.width[k];
    o.pixel_bits = 8 * (int)sizeof(BF);
    int i = 0; for (int s : sem_to_phys) o.sem_to_phys[i++] = s;
    o.set_ch = &I::set_ch; o.get_ch = &I::get_ch; o.set_sem = &I::set_sem; o.arith_ch = &I::arith_ch; o.assign_value = &I::assign_value;
    o.assign_ref = &I::assign_ref; o.assign_cref = &I::assign_cref; o.swap_rr = &I::swap_rr; o.swap_rv = &I::swap_rv; o.equal = &I::equal; o.to_value = &I::to_value;
    return o;
}

static int ch_start(const pix_ops& o, int k) { int s = 0; for (int i = 0; i < k; ++i) s += o.width[i]; return s; }

// One case per pixel model and start bit: three consecutive pixels, the middle one is written.
static void pixel_case(const pix_ops& o) {
    const char* cls = o.bit_aligned ? "bitaligned" : "packedpixel";
    for (int bit = 0; bit < (o.bit_aligned ? 8 : 1); ++bit) {
        if (!vh::begin_case(cls, vh::cat(o.name, "@bit", bit))) continue;
        vh::rng r = vh::case_rng();
        uint64_t evals = 0;
        arena A(160);
        const size_t base = 48;                                     // byte of pixel 0 (8-aligned for packed pixels)
        const long p0 = (long)base * 8 + bit;                       // first bit of pixel 0
        const long pm = p0 + o.pixel_bits;                          // first bit of the middle pixel
        byte* const mp = A.p((size_t)(pm >> 3)); const int mb = (int)(pm & 7);
        // a second, disjoint pixel used as source (at every bit offset for bit-aligned sources)
        const size_t sbase = 112;
        // contents of the middle pixel: complete when it has <= 16 bits in the native thorough run / <= 8 bits always
        uint64_t ncontent;
        const bool complete = o.bit_size <= 8 || (o.bit_size <= 16 && vh::thorough() && !kSanitized);
        if (complete) ncontent = 1ull << o.bit_size;
        else ncontent = kSanitized ? 64 : (vh::thorough() ? 4096 : (o.bit_size <= 16 ? 1024 : 256));
        const uint64_t stride = r.next() | 1, start = r.next();
        for (int fillstyle = 0; fillstyle < (complete && o.bit_size > 8 ? 1 : 3); ++fillstyle) {
            A.fill(r, fillstyle == 0 ? 9 : fillstyle - 1);
            for (int k = 0; k < o.nch; ++k) {
                const long w0 = pm + ch_start(o, k), w1 = w0 + o.width[k];
                std::vector<uint64_t> values = channel_values(o.width[k], r, 16);
                for (uint64_t c = 0; c < ncontent; ++c) {
                    const uint64_t content = complete ? c : (o.bit_size <= 16 ? ((c * stride + start) & low_mask(o.bit_size)) : (c == 0 ? 0 : c == 1 ? low_mask(o.bit_size) : r.next() & low_mask(o.bit_size)));
                    for (uint64_t v : values) {
                        put_bits(A.p(), pm, o.bit_size, content);
                        A.sync(); put_bits(A.exp.data(), w0, o.width[k], v);
                        o.set_ch(k, mp, mb, v);
                        if (!A.ok()) c08::judge(A, w0, w1, vh::cat("channel", k, "-assign"), o.name, vh::cat(o.name, " pixel at bit ", mb, " holding ", content, ": channel ", k, " = ", v));
                        const uint64_t back = o.get_ch(k, mp, mb);
                        if (back != v) vh::viol(vh::cat("readback.channel", k, "-assign.", o.name), vh::cat(o.name, " pixel at bit ", mb, " holding ", content, ": channel ", k, " = ", v, " reads back ", back));
                    }
                    evals += values.size();
                    // the other channels read what the bits say (checked on the last written state)
                    for (int j = 0; j < o.nch; ++j) {
                        const uint64_t want = get_bits(A.p(), pm + ch_start(o, j), o.width[j]);
                        const uint64_t got = o.get_ch(j, mp, mb);
                        if (got != want) vh::viol(vh::cat("read.channel", j, ".", o.name), vh::cat(o.name, " pixel at bit ", mb, ": channel ", j, " bits hold ", want, " get() returns ", got));
                    }
                }
            }
        }
        // semantic access: get_color-style index maps to the hand-written physical channel
        for (int k = 0; k < o.nch; ++k) {
            const int ph = o.sem_to_phys[k];
            const long w0 = pm + ch_start(o, ph), w1 = w0 + o.width[ph];
            for (int t = 0; t < 16; ++t) {
                A.fill(r, 9);
                const uint64_t v = r.next() & low_mask(o.width[ph]);
                A.sync(); put_bits(A.exp.data(), w0, o.width[ph], v);
                o.set_sem(k, mp, mb, v);
                c08::judge(A, w0, w1, vh::cat("semantic-channel", k, "-assign"), o.name, vh::cat(o.name, " pixel at bit ", mb, ": semantic channel ", k, " (physical ", ph, ") = ", v));
                ++evals;
            }
        }
        // arithmetic on channel proxies
        static const int ks[] = {1, 3, 7, 255, 300, -1, -5, -300};
        for (int k = 0; k < o.nch; ++k) {
            const long w0 = pm + ch_start(o, k), w1 = w0 + o.width[k];
            const uint64_t M = low_mask(o.width[k]);
            for (int op = 0; op < 8; ++op)
                for (int ki = 0; ki < (op < 4 ? 3 : 8); ++ki) {
                    const int kk = ks[ki];
                    if (op == 7 && kk < 0) continue;
                    A.fill(r, 9);
                    uint64_t cur = (op < 4 && ki == 0) ? (op % 2 ? 0 : M) : (r.next() & M);   // ++ on max and -- on 0 are always tried
                    put_bits(A.p(), w0, o.width[k], cur);
                    __int128 res;
                    switch (op) {
                        case 0: case 2: res = (__int128)cur + 1; break;
                        case 1: case 3: res = (__int128)cur - 1; break;
                        case 4: res = (__int128)cur + kk; break;
                        case 5: res = (__int128)cur - kk; break;
                        case 6: res = (__int128)cur * kk; break;
                        default: res = (__int128)cur / kk; break;
                    }
                    const __int128 mod = (__int128)M + 1;
                    const uint64_t expect = (uint64_t)(((res % mod) + mod) % mod);
                    A.sync(); put_bits(A.exp.data(), w0, o.width[k], expect);
                    o.arith_ch(k, op, mp, mb, kk);
                    c08::judge(A, w0, w1, vh::cat("channel", k, "-", kArith[op]), o.name, vh::cat(o.name, " pixel at bit ", mb, " channel ", k, " holding ", cur, " ", kArith[op], op >= 4 ? vh::cat(" ", kk) : std::string(), " expected ", expect, " got ", get_bits(A.p(), w0, o.width[k])));
                    ++evals;
                }
        }
        // whole-pixel operations; destination = middle pixel
        const int rounds = kSanitized ? 32 : (vh::thorough() ? 512 : 96);
        const uint64_t PM = low_mask(o.bit_size);
        for (int round = 0; round < rounds; ++round) {
            // ref = value: only the bit_size pixel bits of the value are stored, its unused high bits go nowhere
            A.fill(r, round < 4 ? round : 9);
            uint64_t vbits = r.next();
            if (!o.bit_aligned) vbits &= low_mask(o.pixel_bits);
            A.sync(); put_bits(A.exp.data(), pm, o.bit_size, vbits & PM);
            if (!o.bit_aligned) put_bits(A.exp.data(), pm, o.pixel_bits, vbits);   // same-type object copy: the whole bit field is the object
            o.assign_value(mp, mb, vbits);
            c08::judge(A, pm, pm + (o.bit_aligned ? o.bit_size : o.pixel_bits), "pixel-assign-value", o.name, vh::cat(o.name, " pixel at bit ", mb, " = value with bit field ", vbits));
            if (o.to_value(mp, mb) != (o.bit_aligned ? (vbits & PM) : vbits) && (o.to_value(mp, mb) & PM) != (vbits & PM))
                vh::viol(vh::cat("readback.pixel-assign-value.", o.name), vh::cat(o.name, " pixel at bit ", mb, " = value ", vbits & PM, " converts back to ", o.to_value(mp, mb)));
            // ref = (const) bit-aligned reference at every source bit offset
            for (int sb = 0; sb < 8; ++sb) {
                for (int cst = 0; cst < 2; ++cst) {
                    A.fill(r, 9);
                    const long sp = (long)sbase * 8 + sb;
                    const uint64_t sbits = get_bits(A.p(), sp, o.bit_size);
                    A.sync(); put_bits(A.exp.data(), pm, o.bit_size, sbits);
                    if (cst) o.assign_cref(mp, mb, A.p(sbase), sb); else o.assign_ref(mp, mb, A.p(sbase), sb);
                    c08::judge(A, pm, pm + o.bit_size, cst ? "pixel-assign-cref" : "pixel-assign-ref", o.name, vh::cat(o.name, " pixel at bit ", mb, " = bit-aligned reference at bit ", sb, " holding ", sbits));
                    ++evals;
                }
                if (!o.bit_aligned) continue;
                // equality of two references is equality of their pixel bits
                const bool eq = o.equal(mp, mb, A.p(sbase), sb);
                if (!eq) vh::viol(vh::cat("equal-after-assign.", o.name), vh::cat(o.name, " pixel at bit ", mb, " compares unequal to the reference at bit ", sb, " it was just assigned from"));
                // swap(ref, ref)
                A.fill(r, 9);
                const long sp = (long)sbase * 8 + sb;
                const uint64_t a = get_bits(A.p(), pm, o.bit_size), b = get_bits(A.p(), sp, o.bit_size);
                A.sync(); put_bits(A.exp.data(), pm, o.bit_size, b); put_bits(A.exp.data(), sp, o.bit_size, a);
                o.swap_rr(mp, mb, A.p(sbase), sb);
                if (!A.ok()) vh::viol(vh::cat("swap-refs.", o.name), vh::cat(o.name, " swap of pixels at bits ", mb, " and ", sb, " holding ", a, " and ", b, " left ", get_bits(A.p(), pm, o.bit_size), " and ", get_bits(A.p(), sp, o.bit_size), A.ok() ? "" : " (or changed other bits)"));
                ++evals;
            }
            if (!o.bit_aligned) {
                // swap of two packed pixel objects: plain object swap, neighbours untouched
                A.fill(r, 9);
                const long sp = (long)sbase * 8;
                const uint64_t a = get_bits(A.p(), pm, o.pixel_bits), b = get_bits(A.p(), sp, o.pixel_bits);
                A.sync(); put_bits(A.exp.data(), pm, o.pixel_bits, b); put_bits(A.exp.data(), sp, o.pixel_bits, a);
                o.swap_rr(mp, mb, A.p(sbase), 0);
                if (!A.ok()) vh::viol(vh::cat("swap-refs.", o.name), vh::cat(o.name, " swap of two pixel objects holding ", a, " and ", b, " left ", get_bits(A.p(), pm, o.pixel_bits), " and ", get_bits(A.p(), sp, o.pixel_bits)));
            }
            // swap(ref, value)
            A.fill(r, 9);
            { uint64_t vb2 = r.next() & (o.bit_aligned ? PM : low_mask(o.pixel_bits));
              const uint64_t a = get_bits(A.p(), pm, o.bit_aligned ? o.bit_size : o.pixel_bits);
              A.sync(); put_bits(A.exp.data(), pm, o.bit_aligned ? o.bit_size : o.pixel_bits, vb2);
              const uint64_t got = o.swap_rv(mp, mb, vb2);
              c08::judge(A, pm, pm + (o.bit_aligned ? o.bit_size : o.pixel_bits), "swap-ref-value", o.name, vh::cat(o.name, " pixel at bit ", mb, " holding ", a, " swapped with value ", vb2));
              if ((got & PM) != (a & PM)) vh::viol(vh::cat("readback.swap-ref-value.", o.name), vh::cat(o.name, " pixel at bit ", mb, " holding ", a, " swapped with value ", vb2, ": value now ", got)); }
            evals += 3;
        }
        vh::sample(vh::cat(o.name, " middle of 3 pixels at start bit ", bit, ": every channel = every value over ", (unsigned long long)ncontent, complete ? " (all)" : " (sampled)", " pixel contents; whole-pixel =, swap, proxies"));
        vh::evals(evals); vh::distinct(evals);
        vh::obs(vh::cat(cls, ".", o.bit_size, "bit"));
    }
}

// =====================================================================================================
// Iterators
// =====================================================================================================
struct it_ops {
    std::string name;
    int bit_size;
    // runs the arithmetic identities for the iterator at (base+byte, bit) moved by n; reports through vh::viol; returns number of checks
    int (*arith)(byte* arena0, long byte_off, int bit, long n, const std::string& name);
    void (*fill)(byte* p, int bit, long i, long j, uint64_t pixel_bits);               // std::fill(it+i, it+j, value)
    void (*copy)(const byte* s, int sbit, long i, long j, byte* d, int dbit, long k);  // std::copy(s+i, s+j, d+k)
    void (*copy_c)(const byte* s, int sbit, long i, long j, byte* d, int dbit, long k);  // the same from a const iterator
    void (*touch_all)(byte* p, int bit, long npix, uint64_t seed);                     // read+write every channel of npix pixels, fill, copy onto itself
    int nch; int width[5];
    void (*set_at)(byte* p, int bit, long i, int k, uint64_t v);                       // at_c<k>(it[i]) = v
    uint64_t (*get_at)(const byte* p, int bit, long i, int k);                         // at_c<k>(const_it[i])
    // const flavour: every way of reading pixel i of a row through const_iterator / const_reference; fills vals[k] and the
    // pixel bits, returns a bit mask of access paths that disagree with one another
    int (*cread_pixel)(const byte* p, int bit, long i, uint64_t* vals, uint64_t* pixbits);
    // walks the row through the const iterator (++, --, +=, [], *), copies it into a mutable row; returns the sum of pixel bits per pass in sums[0..4]
    void (*cread_row)(const byte* p, int bit, long npix, byte* dst, int dbit, uint64_t* sums);
    // const view over w x h pixels packed without row padding from bit 0 of p: sums of pixel bits per access path in sums[0..5]
    void (*cread_view)(byte* p, long w, long h, byte* dst, uint64_t* sums);
};

template <class It> static long bitpos(const It& it, const byte* a0) { return (long)(it.bit_range().current_byte() - a0) * 8 + it.bit_range().bit_offset(); }

template <class BF, class Sizes, class Layout> struct it_impl {
    typedef gil::bit_aligned_pixel_reference<BF, Sizes, Layout, true> Ref;
    typedef gil::bit_aligned_pixel_reference<BF, Sizes, Layout, false> CRef;
    typedef gil::bit_aligned_pixel_iterator<Ref> It;
    typedef gil::bit_aligned_pixel_iterator<CRef> CIt;
    typedef typename Ref::value_type Value;
    static const int BS = Ref::bit_size;
    static const int N = mp11::mp_size<Sizes>::value;
    static int arith(byte* a0, long off, int bit, long n, const std::string& name) {
        int checks = 0;
        const It it(a0 + off, bit);
        const long here = off * 8 + bit, there = here + n * BS;
        auto bad = [&](const char* what, const std::string& d) { vh::viol(vh::cat("iter.", what, ".", name), vh::cat(name, " from byte+", off % 8, " bit ", bit, " n=", n, ": ", d)); };
        auto posok = [&](const It& x, const char* what) {
            ++checks;
            const int bo = x.bit_range().bit_offset();
            if (bo < 0 || bo > 7) bad(what, vh::cat("bit offset ", bo, " not in 0..7"));
            else if (bitpos(x, a0) != there) bad(what, vh::cat("position ", bitpos(x, a0) - here, " bits from the start, expected ", n * BS));
        };
        It a = it + n; posok(a, "plus");
        It b = it; b += n; posok(b, "plus-assign");
        It c = it; c -= -n; posok(c, "minus-assign");
        It d = it - (-n); posok(d, "minus");
        It e = it; std::advance(e, n); posok(e, "advance");
        It s = it; if (n >= 0) for (long i = 0; i < n; ++i) ++s; else for (long i = 0; i < -n; ++i) --s; posok(s, n >= 0 ? "increment" : "decrement");
        It s2 = it; if (n >= 0) for (long i = 0; i < n; ++i) s2++; else for (long i = 0; i < -n; ++i) s2--; posok(s2, n >= 0 ? "post-increment" : "post-decrement");
        It m = gil::memunit_advanced(it, n * BS); posok(m, "memunit-advanced");
        { Ref rr = it[n]; ++checks;
          long rp = (long)(rr.bit_range().current_byte() - a0) * 8 + rr.bit_range().bit_offset();
          if (rp != there || rr.bit_range().bit_offset() < 0 || rr.bit_range().bit_offset() > 7) bad("index", vh::cat("it[n] refers to bit ", rp - here, " from the start, expected ", n * BS)); }
        { Ref rr = *a; ++checks;
          long rp = (long)(rr.bit_range().current_byte() - a0) * 8 + rr.bit_range().bit_offset();
          if (rp != there) bad("deref", vh::cat("*(it+n) refers to bit ", rp - here, " expected ", n * BS)); }
        // back again
        It back = a - n; ++checks;
        if (!(back == it) || bitpos(back, a0) != here || back.bit_range().bit_offset() != bit) bad("roundtrip", vh::cat("(it+n)-n is at bit ", bitpos(back, a0) - here, " from it"));
        It back2 = a; back2 += -n; ++checks;
        if (!(back2 == it)) bad("roundtrip", vh::cat("(it+n)+=-n is at bit ", bitpos(back2, a0) - here, " from it"));
        // distances and order
        ++checks; if ((a - it) != n) bad("distance", vh::cat("(it+n)-it = ", (long)(a - it)));
        ++checks; if ((it - a) != -n) bad("distance", vh::cat("it-(it+n) = ", (long)(it - a)));
        ++checks; if (std::distance(it, a) != n) bad("distance", vh::cat("std::distance = ", (long)std::distance(it, a)));
        ++checks; if (gil::memunit_distance(it, a) != n * BS) bad("memunit-distance", vh::cat("memunit_distance = ", (long)gil::memunit_distance(it, a)));
        ++checks; if (gil::memunit_step(it) != BS) bad("memunit-step", vh::cat("memunit_step = ", (long)gil::memunit_step(it)));
        ++checks; if ((it < a) != (n > 0) || (it > a) != (n < 0) || (it <= a) != (n >= 0) || (it >= a) != (n <= 0) || (it == a) != (n == 0) || (it != a) != (n != 0)) bad("order", "comparison operators disagree with n");
        // const iterator built from the mutable one sits on the same bit
        CIt ca(a); ++checks;
        if ((long)(ca.bit_range().current_byte() - a0) * 8 + ca.bit_range().bit_offset() != there) bad("const-conversion", "const iterator at another position");
        return checks;
    }
    static void fill(byte* p, int bit, long i, long j, uint64_t bits) { It it(p, bit); Value v((BF)bits); std::fill(it + i, it + j, v); }
    static void copy(const byte* s, int sbit, long i, long j, byte* d, int dbit, long k) { It si(const_cast<byte*>(s), sbit); It di(d, dbit); std::copy(si + i, si + j, di + k); }
    static void copy_c(const byte* s, int sbit, long i, long j, byte* d, int dbit, long k) { CIt si(s, sbit); It di(d, dbit); std::copy(si + i, si + j, di + k); }
    template <int K> static typename std::enable_if<(K >= 0)>::type touch_ch(Ref const& r, uint64_t& acc) {
        auto ch = gil::at_c<K>(r);
        acc += (uint64_t)ch.get();
        ch = (typename gil::kth_element_type<Ref, K>::type::integer_t)(acc & low_mask(mp11::mp_at_c<Sizes, K>::value));
        touch_ch<K - 1>(r, acc);
    }
    template <int K> static typename std::enable_if<(K < 0)>::type touch_ch(Ref const&, uint64_t&) {}
    static void set_at(byte* p, int bit, long i, int k, uint64_t v) { It it(p, bit); Ref r = it[i]; ch_dispatch<Ref, CRef, N - 1>::set(k, r, v); }
    static uint64_t get_at(const byte* p, int bit, long i, int k) { CIt it(p, bit); CRef r = it[i]; return ch_dispatch<Ref, CRef, N - 1>::get(k, r); }
    struct ch_sum { uint64_t* acc; template <class C> void operator()(C const& c) const { *acc += (uint64_t)(typename C::integer_t)c; } };
    struct px_sum { uint64_t* acc; template <class P> void operator()(P const& px) const { Value v(px); *acc += (uint64_t)v._bitfield; } };
    template <int K> static typename std::enable_if<(K >= 0)>::type cread_ch(CRef const& r, uint64_t* vals, uint64_t& semsum, int& bad) {
        typedef typename gil::kth_element_type<CRef, K>::type ch_t;            // const packed_dynamic_channel_reference<BF,W,false>
        typedef typename ch_t::integer_t I;
        typedef typename gil::channel_traits<ch_t>::value_type V;
        const int W = mp11::mp_at_c<Sizes, K>::value;
        ch_t c = gil::at_c<K>(r);
        const uint64_t v = (uint64_t)c.get();
        vals[K] = v;
        I conv = c; if ((uint64_t)conv != v) bad |= 1;
        if ((uint64_t)(I)gil::channel_invert(c) != (low_mask(W) - v)) bad |= 2;
        if (gil::channel_convert<uint16_t>(c) != gil::channel_convert<uint16_t>(V((I)v))) bad |= 4;
        if ((uint64_t)(I)gil::channel_multiply(c, c) != (uint64_t)(I)gil::channel_multiply(V((I)v), V((I)v))) bad |= 8;
        semsum += (uint64_t)gil::semantic_at_c<K>(r).get();
        cread_ch<K - 1>(r, vals, semsum, bad);
    }
    template <int K> static typename std::enable_if<(K < 0)>::type cread_ch(CRef const&, uint64_t*, uint64_t&, int&) {}
    static int cread_pixel(const byte* p, int bit, long i, uint64_t* vals, uint64_t* pixbits) {
        int bad = 0;
        CIt it(p, bit);
        CRef r = it[i];
        uint64_t semsum = 0, sum = 0, fsum = 0;
        cread_ch<N - 1>(r, vals, semsum, bad);
        for (int k = 0; k < N; ++k) sum += vals[k];
        if (semsum != sum) bad |= 16;                                   // semantic_at_c reads a permutation of the channels
        gil::static_for_each(r, ch_sum{&fsum}); if (fsum != sum) bad |= 32;
        Value v(r); *pixbits = (uint64_t)v._bitfield;                   // static_copy from the const reference
        Value v2; v2 = *(it + i); if (v2._bitfield != v._bitfield) bad |= 64;
        if (!(r == v) || (r != v2) || !(v == r)) bad |= 128;            // static_equal through the const reference
        CRef r2 = *(it + i); if (!(r == r2)) bad |= 256;
        Ref m(const_cast<byte*>(p), bit); (void)m;
        return bad;
    }
    static void cread_row(const byte* p, int bit, long npix, byte* dst, int dbit, uint64_t* sums) {
        CIt b(p, bit), e = b + npix;
        for (int k = 0; k < 5; ++k) sums[k] = 0;
        for (CIt q = b; q != e; ++q) { Value v(*q); sums[0] += (uint64_t)v._bitfield; }
        for (CIt q = e; q != b;) { --q; Value v = *q; sums[1] += (uint64_t)v._bitfield; }
        for (CIt q = b; q < e; q += 1) { Value v(q[0]); sums[2] += (uint64_t)v._bitfield; }
        std::for_each(b, e, px_sum{&sums[3]});
        It d(dst, dbit);
        std::copy(b, e, d);                                             // mutable reference = const reference, pixel by pixel
        for (long i = 0; i < npix; ++i) { Ref dr = d[i]; dr = b[i]; }
        sums[4] = std::equal(b, e, CIt(It(dst, dbit))) ? 1 : 0;
    }
    static void cread_view(byte* p, long w, long h, byte* dst, uint64_t* sums) {
        typedef gil::type_from_x_iterator<It> TF;
        typedef typename TF::view_t View;
        typedef typename View::const_t CView;
        View mv(w, h, typename TF::xy_locator_t(It(p, 0), w * BS));
        View dv(w, h, typename TF::xy_locator_t(It(dst, 0), w * BS));
        CView cv(mv);
        for (int k = 0; k < 6; ++k) sums[k] = 0;
        for (long y = 0; y < h; ++y) for (long x = 0; x < w; ++x) { Value v(cv(x, y)); sums[0] += (uint64_t)v._bitfield; }
        for (typename CView::iterator q = cv.begin(); q != cv.end(); ++q) { Value v(*q); sums[1] += (uint64_t)v._bitfield; }
        for (long y = 0; y < h; ++y) { typename CView::x_iterator xi = cv.row_begin(y); for (long x = 0; x < w; ++x) { Value v(xi[x]); sums[2] += (uint64_t)v._bitfield; } }
        for (long x = 0; x < w; ++x) { typename CView::y_iterator yi = cv.col_begin(x); for (long y = 0; y < h; ++y, ++yi) { Value v(*yi); sums[3] += (uint64_t)v._bitfield; } }
        gil::for_each_pixel(cv, px_sum{&sums[4]});
        { typename CView::xy_locator loc = cv.xy_at(w - 1, h - 1); Value v(*loc); Value v0(loc(-(w - 1), -(h - 1))); (void)v0; (void)v; }
        gil::copy_pixels(cv, dv);
        sums[5] = gil::equal_pixels(cv, typename View::const_t(dv)) ? 1 : 0;
    }
    static void touch_all(byte* p, int bit, long npix, uint64_t seed) {
        It it(p, bit);
        uint64_t acc = seed;
        for (long i = 0; i < npix; ++i) touch_ch<N - 1>(it[i], acc);
        for (It q = it; q != it + npix; ++q) touch_ch<N - 1>(*q, acc);
        Value v((BF)acc);
        std::fill(it, it + npix, v);
        if (npix > 1) { std::copy(it + 1, it + npix, it); Value last = *(it + (npix - 1)); *it = last; }
        for (long i = npix - 1; i >= 0; --i) { Value x = it[i]; acc += (uint64_t)x._bitfield; }
        if (acc == 0x1234567) printf("#\n");
    }
};
template <class BF, class Sizes, class Layout> static it_ops make_it_ops(const std::string& name) {
    typedef it_impl<BF, Sizes, Layout> I;
    it_ops o; o.name = name; o.bit_size = I::BS; o.arith = &I::arith; o.fill = &I::fill; o.copy = &I::copy; o.copy_c = &I::copy_c; o.touch_all = &I::touch_all;
    o.nch = I::N; size_filler f{o.width, 0}; mp11::mp_for_each<Sizes>(f);
    o.set_at = &I::set_at; o.get_at = &I::get_at;
    o.cread_pixel = &I::cread_pixel; o.cread_row = &I::cread_row; o.cread_view = &I::cread_view;
    return o;
}

static void iterator_cases(const it_ops& o) {
    // 1. arithmetic
    for (int bit = 0; bit < 8; ++bit) {
        if (!vh::begin_case("iter-arith", vh::cat(o.name, "@bit", bit))) continue;
        const long span = vh::thorough() ? 200 : 40;
        const size_t half = (size_t)(span * o.bit_size / 8 + 64);
        std::vector<byte> mem(2 * half + 16);
        uint64_t n_checks = 0;
        for (long boff = 0; boff < 3; ++boff)
            for (long n = -span; n <= span; ++n) n_checks += (uint64_t)o.arith(mem.data(), (long)half + boff, bit, n, o.name);
        vh::sample(vh::cat(o.name, " iterator at bit ", bit, ": it+n, it-n, +=, -=, advance, n x ++/--, it[n], distances, order for n in [-", span, ",", span, "]"));
        vh::evals(n_checks); vh::distinct(3 * (2 * span + 1));
        vh::obs("iter.arith");
    }
    // 2. fill / copy over every sub-range of a row, for every start bit
    const long L = kSanitized ? 9 : (vh::thorough() ? 17 : 11);
    for (int bit = 0; bit < 8; ++bit) {
        if (!vh::begin_case("iter-fill", vh::cat(o.name, "@bit", bit))) continue;
        vh::rng r = vh::case_rng();
        arena A((size_t)(64 + (L * o.bit_size + 7) / 8 + 64));
        const long row0 = 32 * 8 + bit;
        uint64_t evals = 0;
        for (long i = 0; i <= L; ++i)
            for (long j = i; j <= L; ++j) {
                A.fill(r, (i + j) % 5 == 0 ? (int)((i + j) / 5 % 4) : 9);
                const uint64_t bits = r.next();
                A.sync();
                for (long q = i; q < j; ++q) put_bits(A.exp.data(), row0 + q * o.bit_size, o.bit_size, bits & low_mask(o.bit_size));
                o.fill(A.p(32), bit, i, j, bits);
                c08::judge(A, row0 + i * o.bit_size, row0 + j * o.bit_size, "fill", o.name, vh::cat("std::fill over pixels [", i, ",", j, ") of a ", o.name, " row starting at bit ", bit, " with value bits ", bits & low_mask(o.bit_size)));
                ++evals;
            }
        vh::evals(evals); vh::distinct(evals);
        vh::obs("iter.fill");
    }
    for (int sbit = 0; sbit < 8; ++sbit) {
        if (!vh::begin_case("iter-copy", vh::cat(o.name, "@srcbit", sbit))) continue;
        vh::rng r = vh::case_rng();
        const size_t rowbytes = (size_t)((L * o.bit_size + 7) / 8 + 2);
        arena A(32 + rowbytes + 32 + rowbytes + 32);
        const size_t soff = 32, doff = 32 + rowbytes + 32;
        uint64_t evals = 0;
        for (int dbit = 0; dbit < 8; ++dbit)
            for (long i = 0; i <= L; ++i)
                for (long j = i; j <= L; ++j) {
                    const long k = (long)r.below((uint64_t)(L - (j - i) + 1));
                    A.fill(r, 9);
                    A.sync();
                    const long s0 = (long)soff * 8 + sbit, d0 = (long)doff * 8 + dbit;
                    for (long q = 0; q < j - i; ++q) put_bits(A.exp.data(), d0 + (k + q) * o.bit_size, o.bit_size, get_bits(A.p(), s0 + (i + q) * o.bit_size, o.bit_size));
                    if ((i + j + dbit) & 1) o.copy_c(A.p(soff), sbit, i, j, A.p(doff), dbit, k); else o.copy(A.p(soff), sbit, i, j, A.p(doff), dbit, k);
                    c08::judge(A, d0 + k * o.bit_size, d0 + (k + j - i) * o.bit_size, "copy", o.name, vh::cat("std::copy of pixels [", i, ",", j, ") of a ", o.name, " row at bit ", sbit, " to pixel ", k, " of a row at bit ", dbit));
                    ++evals;
                }
        vh::evals(evals); vh::distinct(evals);
        vh::obs("iter.copy");
    }
    // 3. rows in a block of exactly the needed size, flush against inaccessible memory (ASan: exact heap allocation;
    //    native: PROT_NONE page behind the block): any access to a byte that holds no bit of the row ends the process and
    //    is keyed by the driver (report kind + GIL frame + case class).  Mutable flavour.
    for (int bit = 0; bit < 8; ++bit) {
        if (!vh::begin_case("tight", vh::cat(o.name, "@bit", bit))) continue;
        uint64_t evals = 0;
        for (long npix = 1; npix <= (vh::thorough() ? 24 : 9); ++npix) {
            // the row starts at `bit` of the first byte and ends inside the last byte of the block
            tight_block blk((size_t)((bit + npix * o.bit_size + 7) / 8));
            std::memset(blk.p, 0x5A, blk.n);
            o.touch_all(blk.p, bit, npix, vh::seed() + (uint64_t)npix);
            ++evals;
        }
        vh::evals(evals); vh::distinct(evals);
        vh::obs("iter.tight");
    }
    // 4. the same rows read through the const flavour only: const_iterator, const_reference, its channel proxies
    //    (packed_dynamic_channel_reference<..., false>), conversions of those, static_for_each / static_equal, copy into a
    //    mutable row.  Values are compared with the bit-loop oracle; the last pixel of every row ends in the last byte of
    //    the block, for row lengths 1..9 (24) and every start bit, so every channel that ends on a byte boundary is met there.
    for (int bit = 0; bit < 8; ++bit) {
        if (!vh::begin_case("tight-const", vh::cat(o.name, "@bit", bit))) continue;
        vh::rng r = vh::case_rng();
        uint64_t evals = 0;
        for (long npix = 1; npix <= (vh::thorough() ? 24 : 9); ++npix) {
            tight_block src((size_t)((bit + npix * o.bit_size + 7) / 8));
            const int dbit = (int)r.below(8);
            tight_block dst((size_t)((dbit + npix * o.bit_size + 7) / 8));
            for (int round = 0; round < 2; ++round) {
                src.fill(r); dst.fill(r);
                uint64_t want_sum = 0;
                for (long i = npix - 1; i >= 0; --i) {            // last pixel first
                    uint64_t vals[5] = {0, 0, 0, 0, 0}, pixbits = 0;
                    const int bad = o.cread_pixel(src.p, bit, i, vals, &pixbits);
                    const long pb = bit + i * o.bit_size;
                    const uint64_t want = get_bits(src.p, pb, o.bit_size);
                    want_sum += want;
                    if (bad) vh::viol(vh::cat("read.const-paths.", o.name), vh::cat(o.name, " row at bit ", bit, " of ", npix, " pixels, pixel ", i, ": access paths through the const reference disagree (bit mask) ", bad));
                    if (pixbits != want) vh::viol(vh::cat("read.const-pixel.", o.name), vh::cat(o.name, " row at bit ", bit, " of ", npix, " pixels, pixel ", i, ": bits hold ", want, " value built from the const reference holds ", pixbits));
                    int ks = 0;
                    for (int k = 0; k < o.nch; ++k) {
                        const uint64_t w = get_bits(src.p, pb + ks, o.width[k]);
                        if (vals[k] != w) vh::viol(vh::cat("read.const-channel", k, ".", o.name), vh::cat(o.name, " row at bit ", bit, " of ", npix, " pixels, pixel ", i, " channel ", k, ": bits hold ", w, " const get() returns ", vals[k]));
                        ks += o.width[k];
                    }
                    ++evals;
                }
                uint64_t sums[5];
                std::vector<byte> before(dst.p, dst.p + dst.n);
                o.cread_row(src.p, bit, npix, dst.p, dbit, sums);
                for (int k = 0; k < 4; ++k) if (sums[k] != want_sum) vh::viol(vh::cat("read.const-walk.", o.name), vh::cat(o.name, " row at bit ", bit, " of ", npix, " pixels: walk ", k, " through the const iterator sums ", sums[k], " expected ", want_sum));
                if (!sums[4]) vh::viol(vh::cat("read.const-equal.", o.name), vh::cat(o.name, " row at bit ", bit, " of ", npix, " pixels: std::equal(const row, its copy) is false"));
                for (long i = 0; i < npix; ++i) put_bits(before.data(), dbit + i * o.bit_size, o.bit_size, get_bits(src.p, bit + i * o.bit_size, o.bit_size));
                if (std::memcmp(before.data(), dst.p, dst.n)) vh::viol(vh::cat("stored.copy-from-const.", o.name), vh::cat(o.name, " row at bit ", bit, " of ", npix, " pixels copied from the const iterator to a row at bit ", dbit, ": destination block differs from the expected image"));
                evals += 6;
            }
        }
        vh::sample(vh::cat(o.name, " rows of 1..", vh::thorough() ? 24 : 9, " pixels at bit ", bit, " ending in the last byte of an exactly sized block, read through const_iterator / const_reference / const channel proxies"));
        vh::evals(evals); vh::distinct(evals);
        vh::obs("iter.tight-const");
    }
    // 5. a const view over w x h pixels packed without padding into an exactly sized block (rows at arbitrary bit offsets)
    if (vh::begin_case("tight-const-view", o.name)) {
        vh::rng r = vh::case_rng();
        uint64_t evals = 0;
        for (long h = 1; h <= 3; ++h)
            for (long w = 1; w <= (vh::thorough() ? 19 : 9); ++w) {
                const size_t bytes = (size_t)((w * h * o.bit_size + 7) / 8);
                tight_block src(bytes), dst(bytes);
                src.fill(r); dst.fill(r);
                uint64_t want_sum = 0;
                for (long i = 0; i < w * h; ++i) want_sum += get_bits(src.p, i * o.bit_size, o.bit_size);
                std::vector<byte> expect(dst.p, dst.p + dst.n);
                for (long i = 0; i < w * h; ++i) put_bits(expect.data(), i * o.bit_size, o.bit_size, get_bits(src.p, i * o.bit_size, o.bit_size));
                uint64_t sums[6];
                o.cread_view(src.p, w, h, dst.p, sums);
                for (int k = 0; k < 5; ++k) if (sums[k] != want_sum) vh::viol(vh::cat("read.const-view.", o.name), vh::cat(o.name, " const view ", w, "x", h, ": access path ", k, " sums ", sums[k], " expected ", want_sum));
                if (!sums[5]) vh::viol(vh::cat("read.const-view-equal.", o.name), vh::cat(o.name, " const view ", w, "x", h, ": equal_pixels(view, its copy) is false"));
                if (std::memcmp(expect.data(), dst.p, dst.n)) vh::viol(vh::cat("stored.copy-from-const-view.", o.name), vh::cat(o.name, " const view ", w, "x", h, " copied with copy_pixels: destination block differs from the expected image"));
                evals += 7;
            }
        vh::evals(evals); vh::distinct(evals);
        vh::obs("iter.tight-const-view");
    }
}

// =====================================================================================================
// The library's own factory types: bit_aligned_image{1..5}_type / packed_image{1..4}_type.  The reference, iterator and
// -- for bit-aligned images -- the bit-field carrier are whatever the factory chose; the carrier is reported as an
// observation ("factory.<name>.carrier.<type>") so that a change of it shows in the evidence file.
// =====================================================================================================
template <class R> struct ba_params;
template <class B, class C, class L, bool Mu> struct ba_params<gil::bit_aligned_pixel_reference<B, C, L, Mu>> { typedef B bf; typedef C sizes; typedef L layout; };

// a row of pixels as an image would hold it: every pixel position of the row is written through x_iterator[i], so every
// bit offset 0..7 occurs by itself (plus all eight start bits of the row); whole arena compared after each write
static void factory_row_case(const it_ops& o) {
    if (!vh::begin_case("factory-row", o.name)) return;
    vh::rng r = vh::case_rng();
    const long L = kSanitized ? 17 : (vh::thorough() ? 67 : 25);
    arena A((size_t)(32 + (7 + L * o.bit_size + 7) / 8 + 32));
    uint64_t evals = 0;
    for (int bit = 0; bit < 8; ++bit) {
        const long row0 = 32 * 8 + bit;
        for (long i = 0; i < L; ++i) {
            int ks = 0;
            for (int k = 0; k < o.nch; ++k) {
                const long w0 = row0 + i * o.bit_size + ks, w1 = w0 + o.width[k];
                ks += o.width[k];
                std::vector<uint64_t> values = o.width[k] <= 3 ? channel_values(o.width[k], r, 0) : std::vector<uint64_t>{0, low_mask(o.width[k]), 1, 0x5555555555555555ull & low_mask(o.width[k]), r.next() & low_mask(o.width[k]), r.next() & low_mask(o.width[k])};
                for (int style = 0; style < 3; ++style) {
                    A.fill(r, style == 0 ? 9 : style - 1);
                    for (uint64_t v : values) {
                        A.sync(); put_bits(A.exp.data(), w0, o.width[k], v);
                        o.set_at(A.p(32), bit, i, k, v);
                        c08::judge(A, w0, w1, vh::cat("row-channel", k, "-assign"), o.name, vh::cat(o.name, " row at bit ", bit, ", pixel ", i, " (bit offset ", (row0 + i * o.bit_size) & 7, "): channel ", k, " = ", v));
                        const uint64_t back = o.get_at(A.p(32), bit, i, k);
                        if (back != v) vh::viol(vh::cat("readback.row-channel", k, "-assign.", o.name), vh::cat(o.name, " row at bit ", bit, ", pixel ", i, " (bit offset ", (row0 + i * o.bit_size) & 7, "): channel ", k, " = ", v, " reads back ", back));
                        ++evals;
                    }
                    // every channel of the pixel and of its neighbours reads what the bits say
                    for (long q = std::max(0l, i - 1); q <= std::min(L - 1, i + 1); ++q) {
                        int js = 0;
                        for (int j = 0; j < o.nch; ++j) {
                            const uint64_t want = get_bits(A.p(), row0 + q * o.bit_size + js, o.width[j]);
                            const uint64_t got = o.get_at(A.p(32), bit, q, j);
                            if (got != want) vh::viol(vh::cat("read.row-channel", j, ".", o.name), vh::cat(o.name, " row at bit ", bit, ", pixel ", q, " (bit offset ", (row0 + q * o.bit_size) & 7, "): channel ", j, " bits hold ", want, " get() returns ", got));
                            js += o.width[j];
                            ++evals;
                        }
                    }
                }
            }
        }
    }
    vh::sample(vh::cat(o.name, ": rows of ", L, " pixels at start bits 0..7, every channel of every pixel position written through x_iterator[i], whole arena compared"));
    vh::evals(evals); vh::distinct(evals);
    vh::obs("factory.row");
}

template <class Img> static void factory_bit_aligned(const std::string& name, std::initializer_list<int> sem_to_phys) {
    typedef typename std::remove_const<typename Img::view_t::reference>::type R;
    typedef ba_params<R> P;
    typedef typename P::bf BF; typedef typename P::sizes Sizes; typedef typename P::layout Layout;
    static_assert(std::is_same<R, gil::bit_aligned_pixel_reference<BF, Sizes, Layout, true>>::value, "the factory's reference is a mutable bit_aligned_pixel_reference");
    static_assert(std::is_same<typename Img::view_t::x_iterator, gil::bit_aligned_pixel_iterator<R>>::value, "the factory's x_iterator is the bit-aligned iterator over that reference");
    static_assert(std::is_same<typename Img::value_type, typename R::value_type>::value, "the factory's value type is the reference's value type");
    const std::string nm = "factory." + name;
    vh::obs(vh::cat(nm, ".carrier.", bfname<BF>::s()));
    pixel_case(ba_ops<BF, Sizes, Layout>(nm, sem_to_phys));
    const it_ops io = make_it_ops<BF, Sizes, Layout>(nm);
    iterator_cases(io);
    factory_row_case(io);
}
template <class Img, class BF, class Sizes, class Layout> static void factory_packed(const std::string& name, std::initializer_list<int> sem_to_phys) {
    typedef typename Img::value_type Pixel;
    static_assert(std::is_same<Pixel, typename gil::packed_pixel_type<BF, Sizes, Layout>::type>::value, "the factory's pixel is the packed pixel over the stated bit field and channel sizes");
    static_assert(std::is_same<typename Img::view_t::reference, Pixel&>::value && std::is_same<typename Img::view_t::x_iterator, Pixel*>::value, "packed images are addressed through plain pixel pointers");
    static_assert(sizeof(Pixel) == sizeof(BF), "a packed pixel is exactly its bit field");
    const std::string nm = "factory.pk." + name;
    vh::obs(vh::cat(nm, ".carrier.", bfname<BF>::s()));
    pixel_case(pk_ops<BF, Sizes, Layout>(nm, sem_to_phys));
}

// =====================================================================================================
int main(int argc, char** argv) {
    vh::init(argc, argv);
    using mp11::mp_list_c;
#if C08_PART == 0
    // 8- and 16-bit fields: every (First, Num) with Num 1..8, plus 12 and 16
    all_firsts<uint8_t, 1>(); all_firsts<uint8_t, 2>(); all_firsts<uint8_t, 3>(); all_firsts<uint8_t, 4>();
    all_firsts<uint8_t, 5>(); all_firsts<uint8_t, 6>(); all_firsts<uint8_t, 7>(); all_firsts<uint8_t, 8>();
#elif C08_PART == 1
    all_firsts<uint16_t, 1>(); all_firsts<uint16_t, 2>();
#elif C08_PART == 15
    all_firsts<uint16_t, 3>(); all_firsts<uint16_t, 4>();
#elif C08_PART == 2
    all_firsts<uint16_t, 5>(); all_firsts<uint16_t, 6>();
#elif C08_PART == 16
    all_firsts<uint16_t, 7>(); all_firsts<uint16_t, 8>();
    all_firsts<uint16_t, 12>(); all_firsts<uint16_t, 16>();
#elif C08_PART == 3
    // 32- and 64-bit fields: first bits around every byte boundary and at the top
    some_firsts<uint32_t, 1, 0, 7, 8, 15, 16, 24, 31>(); some_firsts<uint32_t, 2, 0, 7, 15, 23, 30>(); some_firsts<uint32_t, 3, 0, 6, 14, 22, 29>();
    some_firsts<uint32_t, 4, 0, 5, 12, 21, 28>(); some_firsts<uint32_t, 5, 0, 5, 10, 20, 27>(); some_firsts<uint32_t, 6, 0, 5, 11, 19, 26>();
    some_firsts<uint32_t, 7, 0, 3, 9, 17, 25>(); some_firsts<uint32_t, 8, 0, 4, 8, 13, 24>(); some_firsts<uint32_t, 10, 0, 10, 20, 22>();
    some_firsts<uint32_t, 12, 0, 7, 20>(); some_firsts<uint32_t, 16, 0, 9, 16>();
    some_firsts<uint32_t, 24, 0, 8>();   // wide channel (beyond the 1..16 bit widths the property enumerates)
#elif C08_PART == 4
    some_firsts<uint64_t, 1, 0, 31, 32, 63>(); some_firsts<uint64_t, 3, 0, 30, 61>(); some_firsts<uint64_t, 5, 0, 29, 59>(); some_firsts<uint64_t, 8, 0, 28, 32, 56>();
    some_firsts<uint64_t, 12, 0, 26, 52>(); some_firsts<uint64_t, 16, 0, 24, 31, 48>();
    // wide channels (beyond the 1..16 bit widths the property enumerates; the documentation allows them)
    some_firsts<uint64_t, 24, 0, 17, 40>(); some_firsts<uint64_t, 30, 0, 20, 34>();
#elif C08_PART == 5
    dyn_cases<uint8_t, 1>(); dyn_cases<uint8_t, 2>(); dyn_cases<uint8_t, 3>(); dyn_cases<uint8_t, 4>();
    dyn_cases<uint8_t, 5>(); dyn_cases<uint8_t, 6>(); dyn_cases<uint8_t, 7>(); dyn_cases<uint8_t, 8>();
    dyn_cases<uint16_t, 1>(); dyn_cases<uint16_t, 2>(); dyn_cases<uint16_t, 3>(); dyn_cases<uint16_t, 4>();
    dyn_cases<uint16_t, 5>(); dyn_cases<uint16_t, 6>(); dyn_cases<uint16_t, 7>(); dyn_cases<uint16_t, 8>();
    dyn_cases<uint16_t, 9>(); dyn_cases<uint16_t, 12>(); dyn_cases<uint16_t, 16>();
    dyn_cases<uint32_t, 1>(); dyn_cases<uint32_t, 3>(); dyn_cases<uint32_t, 4>(); dyn_cases<uint32_t, 5>();
    dyn_cases<uint32_t, 6>(); dyn_cases<uint32_t, 8>(); dyn_cases<uint32_t, 10>(); dyn_cases<uint32_t, 12>();
    dyn_cases<uint32_t, 16>();
    dyn_cases<uint64_t, 1>(); dyn_cases<uint64_t, 4>(); dyn_cases<uint64_t, 7>(); dyn_cases<uint64_t, 8>();
    dyn_cases<uint64_t, 12>(); dyn_cases<uint64_t, 16>();
    // wide channels (beyond the 1..16 bit widths the property enumerates; the documentation allows them)
    dyn_cases<uint32_t, 24>(); dyn_cases<uint64_t, 20>(); dyn_cases<uint64_t, 30>(); dyn_cases<uint64_t, 32>();
#elif C08_PART == 6
    // bit-aligned pixels with the bit field bit_aligned_image_type would choose (min_fast_uint<bit_size+7>)
    pixel_case(ba_ops<uint8_t, mp_list_c<int, 1>, gil::gray_layout_t>("gray1", {0}));
    pixel_case(ba_ops<uint16_t, mp_list_c<int, 2>, gil::gray_layout_t>("gray2", {0}));
    pixel_case(ba_ops<uint16_t, mp_list_c<int, 4>, gil::gray_layout_t>("gray4", {0}));
    pixel_case(ba_ops<uint16_t, mp_list_c<int, 7>, gil::gray_layout_t>("gray7", {0}));
    pixel_case(ba_ops<uint16_t, mp_list_c<int, 1, 2, 1>, gil::bgr_layout_t>("bgr121", {2, 1, 0}));
    pixel_case(ba_ops<uint16_t, mp_list_c<int, 1, 2, 3>, gil::rgb_layout_t>("rgb123", {0, 1, 2}));
    pixel_case(ba_ops<uint32_t, mp_list_c<int, 4, 4, 4>, gil::rgb_layout_t>("rgb444", {0, 1, 2}));
#elif C08_PART == 7
    pixel_case(ba_ops<uint32_t, mp_list_c<int, 5, 6, 5>, gil::rgb_layout_t>("rgb565", {0, 1, 2}));
    pixel_case(ba_ops<uint16_t, mp_list_c<int, 2, 2, 2, 2>, gil::rgba_layout_t>("rgba2222", {0, 1, 2, 3}));
    pixel_case(ba_ops<uint64_t, mp_list_c<int, 8, 8, 8, 8, 8>, gil::devicen_layout_t<5>>("dev5x8", {0, 1, 2, 3, 4}));
    pixel_case(ba_ops<uint32_t, mp_list_c<int, 3, 12, 9>, gil::rgb_layout_t>("rgb3_12_9", {0, 1, 2}));
    pixel_case(ba_ops<uint64_t, mp_list_c<int, 30, 30>, gil::devicen_layout_t<2>>("dev30x2", {0, 1}));   // wide channels, 60-bit pixel
#elif C08_PART == 8
    // packed pixels (byte-aligned objects, compile-time channel references), some with unused high bits
    pixel_case(pk_ops<uint16_t, mp_list_c<unsigned, 5, 6, 5>, gil::rgb_layout_t>("pk.rgb565", {0, 1, 2}));
    pixel_case(pk_ops<uint16_t, mp_list_c<unsigned, 5, 5, 6>, gil::bgr_layout_t>("pk.bgr556", {2, 1, 0}));
    pixel_case(pk_ops<uint16_t, mp_list_c<unsigned, 5, 5, 5>, gil::rgb_layout_t>("pk.rgb555", {0, 1, 2}));
    pixel_case(pk_ops<uint8_t, mp_list_c<unsigned, 3>, gil::gray_layout_t>("pk.gray3", {0}));
    pixel_case(pk_ops<uint8_t, mp_list_c<unsigned, 2, 2, 2, 2>, gil::rgba_layout_t>("pk.rgba2222", {0, 1, 2, 3}));
    pixel_case(pk_ops<uint32_t, mp_list_c<unsigned, 10, 10, 10>, gil::rgb_layout_t>("pk.rgb10", {0, 1, 2}));
#elif C08_PART == 9
    iterator_cases(make_it_ops<uint8_t, mp_list_c<int, 1>, gil::gray_layout_t>("gray1"));
    iterator_cases(make_it_ops<uint16_t, mp_list_c<int, 2>, gil::gray_layout_t>("gray2"));
    iterator_cases(make_it_ops<uint16_t, mp_list_c<int, 4>, gil::gray_layout_t>("gray4"));
    iterator_cases(make_it_ops<uint16_t, mp_list_c<int, 7>, gil::gray_layout_t>("gray7"));
    iterator_cases(make_it_ops<uint16_t, mp_list_c<int, 1, 2, 1>, gil::bgr_layout_t>("bgr121"));
    iterator_cases(make_it_ops<uint16_t, mp_list_c<int, 1, 2, 3>, gil::rgb_layout_t>("rgb123"));
#elif C08_PART == 17
    iterator_cases(make_it_ops<uint32_t, mp_list_c<int, 4, 4, 4>, gil::rgb_layout_t>("rgb444"));
    iterator_cases(make_it_ops<uint32_t, mp_list_c<int, 5, 6, 5>, gil::rgb_layout_t>("rgb565"));
    iterator_cases(make_it_ops<uint64_t, mp_list_c<int, 8, 8, 8, 8, 8>, gil::devicen_layout_t<5>>("dev5x8"));
    iterator_cases(make_it_ops<uint16_t, mp_list_c<int, 3, 3, 2>, gil::rgb_layout_t>("rgb332"));   // blue ends on a byte boundary
    iterator_cases(make_it_ops<uint16_t, mp_list_c<int, 6>, gil::gray_layout_t>("gray6"));          // every 4th pixel ends on a byte boundary
#elif C08_PART == 10
    // the library's factory types: gray 1..5 bits
    factory_bit_aligned<gil::bit_aligned_image1_type<1, gil::gray_layout_t>::type>("gray1", {0});
    factory_bit_aligned<gil::bit_aligned_image1_type<2, gil::gray_layout_t>::type>("gray2", {0});
    factory_bit_aligned<gil::bit_aligned_image1_type<3, gil::gray_layout_t>::type>("gray3", {0});
    factory_bit_aligned<gil::bit_aligned_image1_type<4, gil::gray_layout_t>::type>("gray4", {0});
    factory_bit_aligned<gil::bit_aligned_image1_type<5, gil::gray_layout_t>::type>("gray5", {0});
#elif C08_PART == 11
    factory_bit_aligned<gil::bit_aligned_image1_type<6, gil::gray_layout_t>::type>("gray6", {0});
    factory_bit_aligned<gil::bit_aligned_image1_type<7, gil::gray_layout_t>::type>("gray7", {0});
    factory_bit_aligned<gil::bit_aligned_image3_type<1, 2, 1, gil::bgr_layout_t>::type>("bgr121", {2, 1, 0});
    factory_bit_aligned<gil::bit_aligned_image3_type<2, 3, 2, gil::rgb_layout_t>::type>("rgb232", {0, 1, 2});
    factory_bit_aligned<gil::bit_aligned_image3_type<1, 2, 3, gil::rgb_layout_t>::type>("rgb123", {0, 1, 2});
#elif C08_PART == 12
    factory_bit_aligned<gil::bit_aligned_image3_type<4, 4, 4, gil::rgb_layout_t>::type>("rgb444", {0, 1, 2});
    factory_bit_aligned<gil::bit_aligned_image3_type<5, 6, 5, gil::rgb_layout_t>::type>("rgb565", {0, 1, 2});
    factory_bit_aligned<gil::bit_aligned_image4_type<5, 5, 5, 1, gil::rgba_layout_t>::type>("rgba5551", {0, 1, 2, 3});
    factory_bit_aligned<gil::bit_aligned_image2_type<3, 5, gil::devicen_layout_t<2>>::type>("dev35", {0, 1});
    factory_bit_aligned<gil::bit_aligned_image5_type<1, 2, 3, 2, 1, gil::devicen_layout_t<5>>::type>("dev12321", {0, 1, 2, 3, 4});
#elif C08_PART == 14
    factory_bit_aligned<gil::bit_aligned_image3_type<3, 3, 2, gil::rgb_layout_t>::type>("rgb332", {0, 1, 2});
    factory_bit_aligned<gil::bit_aligned_image1_type<8, gil::gray_layout_t>::type>("gray8", {0});
    factory_bit_aligned<gil::bit_aligned_image4_type<8, 8, 8, 8, gil::rgba_layout_t>::type>("rgba8888", {0, 1, 2, 3});
#else
    // packed_image{1..4}_type factories
    factory_packed<gil::packed_image1_type<uint8_t, 3, gil::gray_layout_t>::type, uint8_t, mp_list_c<unsigned, 3>, gil::gray_layout_t>("gray3", {0});
    factory_packed<gil::packed_image2_type<uint8_t, 3, 5, gil::devicen_layout_t<2>>::type, uint8_t, mp_list_c<unsigned, 3, 5>, gil::devicen_layout_t<2>>("dev35", {0, 1});
    factory_packed<gil::packed_image3_type<uint16_t, 5, 6, 5, gil::rgb_layout_t>::type, uint16_t, mp_list_c<unsigned, 5, 6, 5>, gil::rgb_layout_t>("rgb565", {0, 1, 2});
    factory_packed<gil::packed_image3_type<uint16_t, 5, 5, 5, gil::bgr_layout_t>::type, uint16_t, mp_list_c<unsigned, 5, 5, 5>, gil::bgr_layout_t>("bgr555", {2, 1, 0});
    factory_packed<gil::packed_image4_type<uint16_t, 4, 4, 4, 4, gil::rgba_layout_t>::type, uint16_t, mp_list_c<unsigned, 4, 4, 4, 4>, gil::rgba_layout_t>("rgba4444", {0, 1, 2, 3});
    factory_packed<gil::packed_image4_type<uint8_t, 2, 2, 2, 2, gil::rgba_layout_t>::type, uint8_t, mp_list_c<unsigned, 2, 2, 2, 2>, gil::rgba_layout_t>("rgba2222", {0, 1, 2, 3});
#endif
    return vh::finish();
}
