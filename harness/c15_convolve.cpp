// C15 -- convolution/correlation equal the textbook sums for every boundary policy; convolve_2d;
// extend_row / extend_col / extend_boundary.  See DESIGN.md section 5, C15.
//
// Every GIL call writes into a destination view carved out of a noise-filled arena (c15_util.hpp);
// the oracle is the obvious loop  dst(i) = sum_k src(i + k - centre) * kernel(k)  (correlation) or
// dst(i) = sum_k src(i + centre - k) * kernel(k)  (convolution) in double arithmetic, with the
// out-of-image samples supplied by the boundary policy.  Sources are tight heap images; for
// extend_padded the source is the interior of an image that is larger by exactly the declared padding.
//
// PART 0: gray8 -> pixel<int>  -> gray32s, int kernels           (exact)
// PART 1: rgb8  -> pixel<float>-> rgb32f,  integer-valued float kernels (exact below 2^24)
// PART 2: gray32f -> pixel<float> -> gray32f, fractional kernels (tolerance); convolve_2d; extend_*
// PART 3: gray16s -> pixel<int> -> gray32s, int kernels          (exact, negative samples)
// PART 4..8: mixed channel orders (exact): bgr8 -> rgb accum -> rgb32f; rgb8 -> rgb accum -> bgr32f;
//            bgr8 -> rgb accum -> bgr32f; rgba8 -> rgba accum -> abgr32f; planar rgb8 -> rgb accum -> bgr32f.
//            Source channels get independent contents and the comparison is per COLOUR: the oracle reads the
//            source channel of a colour at its position in the source layout and writes the expected sum at that
//            colour's position in the destination layout (pixel_multiplies_scalar_t, pixel_assigns_t, pixel_plus_t,
//            pixel_zeros_t are all reached with differing layouts by one of the combinations).
// PART 10..13: accumulator pixel type == source == destination pixel type (gray8 [modulo 256], gray32s, gray32f, rgb32f
//            with a float accumulator), each run out of place and IN PLACE (the same view as source and destination):
//            every output must be the sum over the input pixels as they were before the call.
// PART 9: convolve_2d for mixed channel orders (bgr8 -> rgb32f, rgba8 -> abgr32f, planar rgb8 -> bgr32f)
#include <boost/gil.hpp>
#include <boost/gil/image_processing/convolve.hpp>
#include <boost/gil/image_processing/kernel.hpp>
#include <algorithm>
#include <cmath>
#include <vector>
#include "common/vh.hpp"
#include "c15_util.hpp"

namespace gil = boost::gil;
using gil::boundary_option;

#ifndef C15_PART
#define C15_PART 0
#endif
#ifndef C15_G32F_ACCUM
#define C15_G32F_ACCUM gil::gray32f_pixel_t
#endif

// ---- regimes --------------------------------------------------------------------------
struct R_g8i {
    typedef gil::gray8_image_t src_image;
    typedef gil::gray32s_pixel_t dst_pixel;
    typedef gil::pixel<int, gil::gray_layout_t> accum;
    typedef int kval;
    static const char* name() { return "g8.i32"; }
    static const bool exact = true;
    static const int modulus = 0;
    static double gen_src(vh::rng& r) { return (double)r.below(256); }
    static kval gen_k(vh::rng& r) { return r.range(-4, 4); }
};
struct R_g16si {   // signed source values
    typedef gil::gray16s_image_t src_image;
    typedef gil::gray32s_pixel_t dst_pixel;
    typedef gil::pixel<int, gil::gray_layout_t> accum;
    typedef int kval;
    static const char* name() { return "g16s.i32"; }
    static const bool exact = true;
    static const int modulus = 0;
    static double gen_src(vh::rng& r) { return (double)r.range(-32768, 32767); }
    static kval gen_k(vh::rng& r) { return r.range(-4, 4); }
};
struct R_rgb8f {
    typedef gil::rgb8_image_t src_image;
    typedef gil::rgb32f_pixel_t dst_pixel;
    typedef gil::pixel<float, gil::rgb_layout_t> accum;
    typedef float kval;
    static const char* name() { return "rgb8.f32"; }
    static const bool exact = true;
    static const int modulus = 0;
    static double gen_src(vh::rng& r) { return (double)r.below(256); }
    static kval gen_k(vh::rng& r) { return (float)r.range(-4, 4); }
};
struct R_g32f {
    typedef gil::gray32f_image_t src_image;
    typedef gil::gray32f_pixel_t dst_pixel;
    typedef gil::pixel<float, gil::gray_layout_t> accum;
    typedef float kval;
    static const char* name() { return "g32f.f32"; }
    static const bool exact = false;
    static const int modulus = 0;
    static double gen_src(vh::rng& r) { return (double)(float)r.unit(); }
    static kval gen_k(vh::rng& r) { return (float)(r.unit() * 2.0 - 1.0); }
};

// accumulator pixel type == source pixel type == destination pixel type (run out of place and in place)
struct R_same_g8 {     // uint8 accumulator: the sums are taken modulo 256
    typedef gil::gray8_image_t src_image;
    typedef gil::gray8_pixel_t dst_pixel;
    typedef gil::gray8_pixel_t accum;
    typedef int kval;
    static const char* name() { return "g8.acc-g8"; }
    static const bool exact = true;
    static const int modulus = 256;
    static double gen_src(vh::rng& r) { return (double)r.below(256); }
    static kval gen_k(vh::rng& r) { return r.range(-4, 4); }
};
struct R_same_g32s {
    typedef gil::gray32s_image_t src_image;
    typedef gil::gray32s_pixel_t dst_pixel;
    typedef gil::gray32s_pixel_t accum;
    typedef int kval;
    static const char* name() { return "g32s.acc-g32s"; }
    static const bool exact = true;
    static const int modulus = 0;
    static double gen_src(vh::rng& r) { return (double)r.range(-255, 255); }
    static kval gen_k(vh::rng& r) { return r.range(-4, 4); }
};
struct R_same_g32f {   // fractional taps, tolerance
    typedef gil::gray32f_image_t src_image;
    typedef gil::gray32f_pixel_t dst_pixel;
    typedef C15_G32F_ACCUM accum;
    typedef float kval;
    static const char* name() { return "g32f.acc-g32f"; }
    static const bool exact = false;
    static const int modulus = 0;
    static double gen_src(vh::rng& r) { return (double)(float)r.unit(); }
    static kval gen_k(vh::rng& r) { return (float)(r.unit() * 2.0 - 1.0); }
};
struct R_same_rgb32f { // integer-valued contents and taps: exact
    typedef gil::rgb32f_image_t src_image;
    typedef gil::rgb32f_pixel_t dst_pixel;
    typedef gil::pixel<float, gil::rgb_layout_t> accum;
    typedef float kval;
    static const char* name() { return "rgb32f.acc-f32"; }
    static const bool exact = true;
    static const int modulus = 0;
    static double gen_src(vh::rng& r) { return (double)r.below(256); }
    static kval gen_k(vh::rng& r) { return (float)r.range(-4, 4); }
};

// mixed channel orders: integer-valued float taps, exact
#define C15_MIXED(NAME, TAG, SRCIMG, ACCLAYOUT, DSTPIX)                                   \
    struct NAME {                                                                         \
        typedef SRCIMG src_image;                                                         \
        typedef DSTPIX dst_pixel;                                                         \
        typedef gil::pixel<float, ACCLAYOUT> accum;                                       \
        typedef float kval;                                                               \
        static const char* name() { return TAG; }                                         \
        static const bool exact = true;                                                   \
        static const int modulus = 0;                                                     \
        static double gen_src(vh::rng& r) { return (double)r.below(256); }                \
        static kval gen_k(vh::rng& r) { return (float)r.range(-4, 4); }                   \
    };
C15_MIXED(R_bgr_rgb, "bgr8-to-rgb32f", gil::bgr8_image_t, gil::rgb_layout_t, gil::rgb32f_pixel_t)
C15_MIXED(R_rgb_bgr, "rgb8-to-bgr32f", gil::rgb8_image_t, gil::rgb_layout_t, gil::bgr32f_pixel_t)
C15_MIXED(R_bgr_rgbacc_bgr, "bgr8-rgbacc-bgr32f", gil::bgr8_image_t, gil::rgb_layout_t, gil::bgr32f_pixel_t)
C15_MIXED(R_rgba_abgr, "rgba8-to-abgr32f", gil::rgba8_image_t, gil::rgba_layout_t, gil::abgr32f_pixel_t)
C15_MIXED(R_planar_bgr, "rgb8planar-to-bgr32f", gil::rgb8_planar_image_t, gil::rgb_layout_t, gil::bgr32f_pixel_t)

using cu::phys_of_colour;
using cu::values_of;

template <class Image> void fill_src(Image& img, vh::rng& r, double (*gen)(vh::rng&)) {
    typedef typename Image::value_type P;
    typedef typename gil::channel_type<P>::type ch_t;
    auto v = gil::view(img);
    for (int y = 0; y < v.height(); ++y)
        for (int x = 0; x < v.width(); ++x)
            for (int c = 0; c < (int)gil::num_channels<P>::value; ++c) {
                double d = gen(r);
                v(x, y)[c] = ch_t((typename gil::channel_traits<ch_t>::value_type)d);
            }
}
template <> void fill_src<gil::gray32f_image_t>(gil::gray32f_image_t& img, vh::rng& r, double (*gen)(vh::rng&)) {
    auto v = gil::view(img);
    for (int y = 0; y < v.height(); ++y)
        for (int x = 0; x < v.width(); ++x) v(x, y)[0] = gil::float32_t((float)gen(r));
}

static const boundary_option ALL_OPTS[5] = {boundary_option::output_ignore, boundary_option::output_zero,
                                            boundary_option::extend_padded, boundary_option::extend_zero,
                                            boundary_option::extend_constant};

// fn ids: bit0 = along columns, bit1 = convolve (else correlate), bit2 = fixed-size kernel
static const char* fnname(int fn) {
    static const char* n[8] = {"correlate_rows", "correlate_cols", "convolve_rows", "convolve_cols",
                               "correlate_rows_fixed", "correlate_cols_fixed", "convolve_rows_fixed", "convolve_cols_fixed"};
    return n[fn];
}

template <class R, class SV, class K, class DV> void call_dyn(int fn, SV const& s, K const& k, DV const& d, boundary_option o) {
    typedef typename R::accum A;
    switch (fn & 3) {
        case 0: gil::correlate_rows<A>(s, k, d, o); break;
        case 1: gil::correlate_cols<A>(s, k, d, o); break;
        case 2: gil::convolve_rows<A>(s, k, d, o); break;
        case 3: gil::convolve_cols<A>(s, k, d, o); break;
    }
}
template <class R, class SV, class K, class DV> void call_fixed(int fn, SV const& s, K const& k, DV const& d, boundary_option o) {
    typedef typename R::accum A;
    switch (fn & 3) {
        case 0: gil::correlate_rows_fixed<A>(s, k, d, o); break;
        case 1: gil::correlate_cols_fixed<A>(s, k, d, o); break;
        case 2: gil::convolve_rows_fixed<A>(s, k, d, o); break;
        case 3: gil::convolve_cols_fixed<A>(s, k, d, o); break;
    }
}
template <class R, std::size_t N, class SV, class DV>
void call_fixed_n(int fn, SV const& s, std::vector<typename R::kval> const& kv, int centre, DV const& d, boundary_option o) {
    gil::kernel_1d_fixed<typename R::kval, N> k(kv.begin(), (std::size_t)centre);
    call_fixed<R>(fn, s, k, d, o);
}

// geometry of one execution
struct geom {
    int fn, w, h, n, centre, before, after, len, pb, pa;
    bool cols, conv, fixed, padded;
    boundary_option opt;
    geom(int fn_, boundary_option opt_, int w_, int h_, int n_, int centre_) : fn(fn_), w(w_), h(h_), n(n_), centre(centre_), opt(opt_) {
        cols = fn & 1; conv = fn & 2; fixed = fn & 4;
        before = conv ? n - 1 - centre : centre;      // samples needed before / after the output position along the axis
        after = conv ? centre : n - 1 - centre;
        len = cols ? h : w;                           // extent along the kernel axis
        padded = opt == boundary_option::extend_padded;
        pb = padded ? before : 0; pa = padded ? after : 0;
    }
};

// the real thing
template <class R, class SV, class DV>
void invoke(geom const& g, SV const& sv, DV const& dv, std::vector<typename R::kval> const& kv) {
    if (!g.fixed) {
        gil::kernel_1d<typename R::kval> k(kv.begin(), (std::size_t)g.n, (std::size_t)g.centre);
        call_dyn<R>(g.fn, sv, k, dv, g.opt);
    } else {
        switch (g.n) {
            case 1: call_fixed_n<R, 1>(g.fn, sv, kv, g.centre, dv, g.opt); break;
            case 3: call_fixed_n<R, 3>(g.fn, sv, kv, g.centre, dv, g.opt); break;
            case 5: call_fixed_n<R, 5>(g.fn, sv, kv, g.centre, dv, g.opt); break;
            case 7: call_fixed_n<R, 7>(g.fn, sv, kv, g.centre, dv, g.opt); break;
            default: vh::fatal_monitor("harness", "unsupported fixed size");
        }
    }
}

// the oracle: ov = view of the (copy of the) source *as it was before the call*, with the w x h source at (ox,oy)
template <class R, class OV>
void judge(geom const& g, OV const& ov, int ox, int oy, cu::arena<typename R::dst_pixel>& ar, std::vector<typename R::kval> const& kv,
           std::string const& cls, bool first_rep) {
    typedef typename R::src_image::value_type src_pixel;
    const int NC = gil::num_channels<src_pixel>::value;
    const std::vector<int> sp = phys_of_colour<src_pixel>(), dp = phys_of_colour<typename R::dst_pixel>();   // colour -> memory position
    const int w = g.w, h = g.h, n = g.n, len = g.len;
    const boundary_option opt = g.opt;
    double sumabs = 0, maxabs = 0;
    for (int k = 0; k < n; ++k) sumabs += std::fabs((double)kv[k]);
    // sample at axis position i (may be outside [0,len)), across position j, colour c
    auto sample = [&](int i, int j, int c) -> double {
        if (i < 0 || i >= len) {
            if (opt == boundary_option::extend_zero) return 0.0;
            if (opt == boundary_option::extend_constant) i = i < 0 ? 0 : len - 1;
            // extend_padded: the caller's padding, read from the outer image
            // output_*: never used (the pixel is a border pixel)
        }
        int x = g.cols ? j : i, y = g.cols ? i : j;
        return cu::num(ov(ox + x, oy + y)[sp[(size_t)c]]);
    };
    const bool out_opt = opt == boundary_option::output_ignore || opt == boundary_option::output_zero;
    for (int y = 0; y < h; ++y)
        for (int x = 0; x < w; ++x) {
            int i = g.cols ? y : x, j = g.cols ? x : y;
            bool leaves = (i - g.before < 0) || (i + g.after >= len);
            if (out_opt && leaves) {
                if (opt == boundary_option::output_zero)
                    for (int c = 0; c < NC; ++c) ar.set(x, y, c, 0.0, cu::K_B);
                else
                    ar.mark_untouched(x, y, cu::K_B);
                continue;
            }
            for (int c = 0; c < NC; ++c) {
                double acc = 0;
                for (int k = 0; k < n; ++k) {
                    int off = g.conv ? g.centre - k : k - g.centre;
                    double s = sample(i + off, j, c);
                    maxabs = std::max(maxabs, std::fabs(s));
                    acc += s * (double)kv[k];
                }
                if (R::modulus) { acc = std::fmod(acc, (double)R::modulus); if (acc < 0) acc += R::modulus; }   // unsigned accumulator: arithmetic modulo 2^bits
                ar.set(x, y, dp[(size_t)c], acc, leaves ? cu::K_B : cu::K_A);
            }
        }
    double tol = R::exact ? 0.0 : 1e-5 * sumabs * std::max(maxabs, 1.0) + 1e-12;
    cu::cmp_result res = ar.compare(tol);
    const char* szc = n == 1 ? "k1" : (len < n ? "narrow" : "wide");
    std::string ctx = vh::cat(fnname(g.fn), " ", cu::optname(opt), " ", w, "x", h, " kernel size ", n, " centre ", g.centre, ": ");
    if (res.outside_bad) vh::viol(vh::cat("outside-dst.", cls, ".", szc), ctx + res.first_outside);
    if (res.bad[cu::K_A]) vh::viol(vh::cat("interior-sum.", cls, ".", szc), ctx + res.first[cu::K_A]);
    if (res.bad[cu::K_B]) vh::viol(vh::cat("edge-value.", cls, ".", szc), ctx + res.first[cu::K_B]);
    if (res.bad[cu::K_UNTOUCHED]) vh::viol(vh::cat("untouched.", cls, ".", szc), ctx + res.first[cu::K_UNTOUCHED]);
    vh::evals(1);
    if (first_rep) vh::distinct(1);      // repetitions differ only in seeded contents: not counted as distinct tuples
    vh::count("dst_pixels_checked", (uint64_t)res.checked);
    vh::obs(vh::cat(fnname(g.fn), ".", cu::optname(opt), ".", szc));
}

// One checked execution, source and destination distinct: regime R, function fn, option, w x h source, kernel kv / centre.
template <class R> void one_exec(int fn, boundary_option opt, int w, int h, std::vector<typename R::kval> const& kv, int centre,
                                 vh::rng& r, std::string const& cls, bool first_rep, std::false_type /*in place*/) {
    typedef typename R::src_image src_image;
    geom g(fn, opt, w, h, (int)kv.size(), centre);
    // outer source image: exactly the declared padding around the w x h source, nothing more
    src_image outer(g.cols ? w : w + g.pb + g.pa, g.cols ? h + g.pb + g.pa : h);
    fill_src(outer, r, &R::gen_src);
    const int ox = g.cols ? 0 : g.pb, oy = g.cols ? g.pb : 0;
    auto sv = gil::subimage_view(gil::const_view(outer), ox, oy, w, h);
    std::vector<double> src_snap = values_of(gil::const_view(outer));
    cu::arena<typename R::dst_pixel> ar(w, h, r);
    invoke<R>(g, sv, ar.dst(), kv);
    judge<R>(g, gil::const_view(outer), ox, oy, ar, kv, cls, first_rep);
    if (values_of(gil::const_view(outer)) != src_snap) vh::viol(vh::cat("src-modified.", cls), vh::cat(fnname(fn), " ", cu::optname(opt), " ", w, "x", h, ": source values changed"));
}
// In place: the very same view is source and destination (as detail::convolve_1d, box_filter and the separable filters do
// for their second pass).  Every output must still be the sum over the *input* pixels, i.e. equal the out-of-place result.
// The view is the interior of an arena that is filled with valid source values (the margins double as the declared
// padding for extend_padded); the oracle reads a copy taken before the call.
template <class R> void one_exec(int fn, boundary_option opt, int w, int h, std::vector<typename R::kval> const& kv, int centre,
                                 vh::rng& r, std::string const& cls, bool first_rep, std::true_type /*in place*/) {
    typedef typename R::src_image src_image;
    static_assert(std::is_same<typename src_image::value_type, typename R::dst_pixel>::value, "in-place needs one pixel type");
    geom g(fn, opt, w, h, (int)kv.size(), centre);
    const int m = 2 + std::max(g.pb, g.pa);
    cu::arena<typename R::dst_pixel> ar(w, h, r, m, m);
    fill_src(ar.real, r, &R::gen_src);
    memcpy(cu::raw(gil::view(ar.model)), cu::raw(gil::view(ar.real)), cu::raw_size(gil::view(ar.real)));
    src_image before(ar.real);          // deep copy: the input as the oracle must see it
    auto v = ar.dst();
    invoke<R>(g, v, v, kv);
    judge<R>(g, gil::const_view(before), m, m, ar, kv, cls, first_rep);
}

template <class R, bool InPlace = false> void run_1d() {
    const int maxlen = vh::thorough() ? 16 : 9;       // extent along the kernel axis
    const int maxacross = vh::thorough() ? 6 : 4;
    const int maxk = vh::thorough() ? 11 : 7;
    const int reps = vh::thorough() ? 3 : 1;          // seeded contents / kernel taps per (size, centre)
    for (int fn = 0; fn < 8; ++fn)
        for (int oi = 0; oi < 5; ++oi) {
            boundary_option opt = ALL_OPTS[oi];
            std::string cls = vh::cat(R::name(), InPlace ? ".inplace." : ".", fnname(fn), ".", cu::optname(opt));
            const bool cols = fn & 1, fixed = fn & 4;
            for (int len = 0; len <= maxlen; ++len)
                for (int across = 0; across <= maxacross; ++across) {
                    int w = cols ? across : len, h = cols ? len : across;
                    if (!vh::begin_case(cls, vh::cat(w, "x", h))) continue;
                    vh::rng r = vh::case_rng();
                    if (fn == 0 && oi == 3 && len == 5 && across == 2)
                        vh::sample(vh::cat(R::name(), ": ", fnname(fn), "<accum>(", w, "x", h, " src, kernel of every size 1..", maxk,
                                           " with every centre, ", InPlace ? "dst == src (in place)" : "dst in noise arena", ", ", cu::optname(opt), ") == sum_k src(i+k-c)*kernel(k)"));
                    for (int rep = 0; rep < reps; ++rep)
                    for (int n = 1; n <= (fixed ? 7 : maxk); n += (fixed ? 2 : 1))
                        for (int centre = 0; centre < n; ++centre) {
                            std::vector<typename R::kval> kv((size_t)n);
                            for (int k = 0; k < n; ++k) kv[k] = R::gen_k(r);
                            // make sure both ends of the kernel matter (a zero tap hides an index error)
                            if (kv[0] == 0) kv[0] = (typename R::kval)1;
                            if (kv[n - 1] == 0) kv[n - 1] = (typename R::kval)-2;
                            one_exec<R>(fn, opt, w, h, kv, centre, r, cls, rep == 0, std::integral_constant<bool, InPlace>());
                        }
                }
        }
}

#if C15_PART == 2 || C15_PART == 9
// ---- convolve_2d ----------------------------------------------------------------------
template <class SrcImage, class DstPixel, class Kernel>
void conv2d_exec(Kernel const& ker, std::vector<float> const& kv, int n, int cy, int cx, int w, int h, bool exact, vh::rng& r,
                 std::string const& cls) {
    typedef typename SrcImage::value_type src_pixel;
    const int NC = gil::num_channels<src_pixel>::value;
    SrcImage src(w, h);
    fill_src(src, r, &R_g8i::gen_src);
    std::vector<double> snap = values_of(gil::const_view(src));
    const std::vector<int> sp = phys_of_colour<src_pixel>(), dp = phys_of_colour<DstPixel>();   // colour -> memory position
    cu::arena<DstPixel> ar(w, h, r);
    gil::detail::convolve_2d(gil::const_view(src), ker, ar.dst());
    auto sv = gil::const_view(src);
    double sumabs = 0;
    for (float f : kv) sumabs += std::fabs((double)f);
    for (int y = 0; y < h; ++y)
        for (int x = 0; x < w; ++x)
            for (int c = 0; c < NC; ++c) {
                double acc = 0;
                for (int kr = 0; kr < n; ++kr)
                    for (int kc = 0; kc < n; ++kc) {
                        int sx = x + cx - kc, sy = y + cy - kr;       // convolution: the kernel is flipped about its centre
                        if (sx < 0 || sx >= w || sy < 0 || sy >= h) continue;   // zero extension
                        acc += cu::num(sv(sx, sy)[sp[(size_t)c]]) * (double)kv[(size_t)kr * n + kc];     // c is a colour index
                    }
                bool leaves = x + cx - (n - 1) < 0 || x + cx >= w || y + cy - (n - 1) < 0 || y + cy >= h;
                ar.set(x, y, dp[(size_t)c], acc, leaves ? cu::K_B : cu::K_A);
            }
    double tol = exact ? 0.0 : 1e-4 * sumabs * 255.0;
    cu::cmp_result res = ar.compare(tol);
    std::string ctx = vh::cat("convolve_2d ", w, "x", h, " kernel ", n, "x", n, " centre (y=", cy, ",x=", cx, "): ");
    const char* vc = exact ? "int-valued" : "fractional";
    if (res.outside_bad) vh::viol(vh::cat("outside-dst.", cls), ctx + res.first_outside);
    if (res.bad[cu::K_A]) vh::viol(vh::cat("conv2d-interior.", cls, ".", vc), ctx + res.first[cu::K_A]);
    if (res.bad[cu::K_B]) vh::viol(vh::cat("conv2d-edge.", cls, ".", vc), ctx + res.first[cu::K_B]);
    if (values_of(gil::const_view(src)) != snap) vh::viol(vh::cat("src-modified.", cls), ctx + "source values changed");
    vh::evals(1);
    vh::distinct(1);
    vh::count("dst_pixels_checked", (uint64_t)res.checked);
}

template <class SrcImage, class DstPixel> void run_conv2d(const char* rname) {
    const int maxdim = vh::thorough() ? 9 : 6;
    const int maxn = vh::thorough() ? 7 : 5;
    for (int kind = 0; kind < 2; ++kind) {     // 0 = kernel_2d (dynamic), 1 = kernel_2d_fixed
        std::string cls = vh::cat("conv2d.", rname, kind ? ".kernel_2d_fixed" : ".kernel_2d");
        for (int w = 0; w <= maxdim; ++w)
            for (int h = 0; h <= maxdim; ++h) {
                if (!vh::begin_case(cls, vh::cat(w, "x", h))) continue;
                vh::rng r = vh::case_rng();
                if (w == 4 && h == 3 && kind == 0)
                    vh::sample(vh::cat("convolve_2d(", rname, " ", w, "x", h, ", kernel_2d n=1..", maxn, " every centre) == zero-extended 2-D convolution sum"));
                for (int n = 1; n <= maxn; ++n) {
                    if (kind == 1 && !(n == 3 || n == 5)) continue;
                    for (int cy = 0; cy < n; ++cy)
                        for (int cx = 0; cx < n; ++cx)
                            for (int exact = 0; exact < 2; ++exact) {
                                std::vector<float> kv((size_t)n * n);
                                for (float& f : kv) f = exact ? (float)r.range(-3, 3) : (float)(r.unit() * 2 - 1);
                                if (kv.front() == 0) kv.front() = 1;
                                if (kv.back() == 0) kv.back() = -2;
                                if (kind == 0) {
                                    gil::detail::kernel_2d<float> ker(kv.begin(), kv.size(), (std::size_t)cy, (std::size_t)cx);
                                    conv2d_exec<SrcImage, DstPixel>(ker, kv, n, cy, cx, w, h, exact, r, cls);
                                } else if (n == 3) {
                                    gil::detail::kernel_2d_fixed<float, 3> ker(kv.begin(), (std::size_t)cy, (std::size_t)cx);
                                    conv2d_exec<SrcImage, DstPixel>(ker, kv, n, cy, cx, w, h, exact, r, cls);
                                } else {
                                    gil::detail::kernel_2d_fixed<float, 5> ker(kv.begin(), (std::size_t)cy, (std::size_t)cx);
                                    conv2d_exec<SrcImage, DstPixel>(ker, kv, n, cy, cx, w, h, exact, r, cls);
                                }
                            }
                }
            }
    }
}

// ---- extend_row / extend_col / extend_boundary ------------------------------------------
template <class SrcImage> void run_extend(const char* rname) {
    typedef typename SrcImage::value_type P;
    const int NC = gil::num_channels<P>::value;
    const int maxdim = vh::thorough() ? 9 : 6;
    const int maxe = vh::thorough() ? 5 : 3;
    static const char* fnn[3] = {"extend_row", "extend_col", "extend_boundary"};
    const boundary_option opts[3] = {boundary_option::extend_zero, boundary_option::extend_constant, boundary_option::extend_padded};
    for (int fn = 0; fn < 3; ++fn)
        for (int oi = 0; oi < 3; ++oi) {
            boundary_option opt = opts[oi];
            std::string cls = vh::cat(fnn[fn], ".", rname, ".", cu::optname(opt));
            for (int w = 1; w <= maxdim; ++w)
                for (int h = 1; h <= maxdim; ++h) {
                    if (!vh::begin_case(cls, vh::cat(w, "x", h))) continue;
                    vh::rng r = vh::case_rng();
                    if (fn == 2 && oi == 1 && w == 3 && h == 2)
                        vh::sample(vh::cat(fnn[fn], "(", rname, " ", w, "x", h, ", n=0..", maxe, ", ", cu::optname(opt), ") == model padded image"));
                    for (int e = 0; e <= maxe; ++e) {
                        const bool padded = opt == boundary_option::extend_padded;
                        const int ex = (fn != 0) ? e : 0, ey = (fn != 1) ? e : 0;   // growth per side
                        const int px = padded ? ex : 0, py = padded ? ey : 0;
                        SrcImage outer(w + 2 * px, h + 2 * py);
                        fill_src(outer, r, &R_g8i::gen_src);
                        std::vector<unsigned char> snap = cu::snapshot(outer);
                        auto sv = gil::subimage_view(gil::const_view(outer), px, py, w, h);
                        auto ov = gil::const_view(outer);
                        gil::image<P> res;
                        if (fn == 0) res = gil::extend_row(sv, (std::size_t)e, opt);
                        else if (fn == 1) res = gil::extend_col(sv, (std::size_t)e, opt);
                        else res = gil::extend_boundary(sv, (std::size_t)e, opt);
                        std::string ctx = vh::cat(fnn[fn], " ", cu::optname(opt), " src ", w, "x", h, " extend_count ", e, ": ");
                        vh::evals(1);
                        vh::distinct(1);
                        if (res.width() != w + 2 * ex || res.height() != h + 2 * ey) {
                            vh::viol(vh::cat("extend-dims.", cls), ctx + vh::cat("result is ", res.width(), "x", res.height(), " expected ", w + 2 * ex, "x", h + 2 * ey));
                            continue;
                        }
                        auto rv = gil::const_view(res);
                        long bad_in = 0, bad_out = 0;
                        std::string first_in, first_out;
                        for (int Y = 0; Y < rv.height(); ++Y)
                            for (int X = 0; X < rv.width(); ++X) {
                                int x = X - ex, y = Y - ey;
                                bool inside = x >= 0 && x < w && y >= 0 && y < h;
                                for (int c = 0; c < NC; ++c) {
                                    double want;
                                    if (inside || padded) want = cu::num(ov(px + x, py + y)[c]);
                                    else if (opt == boundary_option::extend_zero) want = 0;
                                    else {
                                        int cx = std::min(std::max(x, 0), w - 1), cy = std::min(std::max(y, 0), h - 1);
                                        want = cu::num(sv(cx, cy)[c]);
                                    }
                                    double got = cu::num(rv(X, Y)[c]);
                                    if (got != want) {
                                        if (inside) { if (!bad_in++) first_in = vh::cat("result(", X, ",", Y, ")[", c, "]=", got, " expected ", want); }
                                        else { if (!bad_out++) first_out = vh::cat("result(", X, ",", Y, ")[", c, "]=", got, " expected ", want); }
                                    }
                                }
                            }
                        if (bad_in) vh::viol(vh::cat("extend-copy.", cls), ctx + first_in);
                        if (bad_out) vh::viol(vh::cat("extend-border.", cls), ctx + first_out);
                        if (!cu::same_bytes(outer, snap)) vh::viol(vh::cat("src-modified.", cls), ctx + "source bytes changed");
                    }
                }
        }
}
#endif

int main(int argc, char** argv) {
    vh::init(argc, argv);
#if C15_PART == 0
    run_1d<R_g8i>();
#elif C15_PART == 1
    run_1d<R_rgb8f>();
#elif C15_PART == 3
    run_1d<R_g16si>();
#elif C15_PART == 4
    run_1d<R_bgr_rgb>();
#elif C15_PART == 5
    run_1d<R_rgb_bgr>();
#elif C15_PART == 6
    run_1d<R_bgr_rgbacc_bgr>();
#elif C15_PART == 7
    run_1d<R_rgba_abgr>();
#elif C15_PART == 8
    run_1d<R_planar_bgr>();
#elif C15_PART == 10   // accumulator type == pixel type, out of place and in place
    run_1d<R_same_g8, false>();
    run_1d<R_same_g8, true>();
#elif C15_PART == 11
    run_1d<R_same_g32s, false>();
    run_1d<R_same_g32s, true>();
#elif C15_PART == 12
    run_1d<R_same_g32f, false>();
    run_1d<R_same_g32f, true>();
#elif C15_PART == 13
    run_1d<R_same_rgb32f, false>();
    run_1d<R_same_rgb32f, true>();
#elif C15_PART == 9
    run_conv2d<gil::bgr8_image_t, gil::rgb32f_pixel_t>("bgr8-to-rgb32f");
    run_conv2d<gil::rgba8_image_t, gil::abgr32f_pixel_t>("rgba8-to-abgr32f");
    run_conv2d<gil::rgb8_planar_image_t, gil::bgr32f_pixel_t>("rgb8planar-to-bgr32f");
#else
    run_1d<R_g32f>();
    run_conv2d<gil::gray8_image_t, gil::gray32f_pixel_t>("g8");
    run_conv2d<gil::rgb8_image_t, gil::rgb32f_pixel_t>("rgb8");
    run_extend<gil::gray8_image_t>("g8");
    run_extend<gil::rgb8_image_t>("rgb8");
#endif
    return vh::finish();
}
