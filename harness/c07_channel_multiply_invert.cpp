// C07 -- channel_multiply and channel_invert satisfy their scaled-arithmetic laws.
//
// channel_multiply(a,b): |r - a*b/max| <= 1 in exact arithmetic (float: <= 2 ulp), commutative, monotone in each
// argument, max is the identity, min the annihilator (signed channels: after the documented shift to the unsigned
// range), result inside the channel range.  channel_invert(x) == max - x + min exactly, involution.
//
// Enumeration (see DESIGN.md section 5, C07):
//   * all pairs (a,b): u8, s8, packed_channel_value<1..8> (every build, every tier);
//     packed<9..12> and u16, s16 in the thorough tier of the native build (2 * 2^32 + ... pairs);
//   * otherwise: all a x boundary set B (both argument orders) + seeded pairs that are distinct by construction
//     (odd-multiplier permutation of the pair index), each with its two upper neighbours for local monotonicity;
//   * 32-bit, packed<24>, packed<31>: stratified grid S x S + seeded pairs;  float32/float64: stratified grid;
//   * every model that is not swept completely: the seed-independent pairs whose product is an exact multiple of max
//     (a = i*d, b = j*max/d for the divisors d of max) -- the rounding boundary of the scaled product.
//   * channel_invert: every x for <=16-bit and packed<=16 models, stratified for the rest; also on custom-range
//     models built from scoped_channel_value (uint8 [16,235], uint16 [4096,61439], int16 [-1000,3000]: every value;
//     float [1,2], double [-0.5,0.5]: stratified) with invert(min)==max, invert(max)==min.
// The oracle is plain integer arithmetic (64-bit for <=16-bit models, __int128 above), long double / fma for floats.
#include <boost/gil.hpp>
#include <algorithm>
#include <cfloat>
#include <cmath>
#include <limits>
#include <vector>
#include "common/vh.hpp"

namespace gil = boost::gil;
typedef long long ll;
typedef __int128 i128;

#if defined(__SANITIZE_ADDRESS__)
static const bool kSanitized = true;
#else
static const bool kSanitized = false;
#endif

// ---- model traits -------------------------------------------------------------------
template <class T> struct M;
#define INT_MODEL(T, NAME, BITS)                                                        \
    template <> struct M<T> {                                                           \
        static const char* name() { return NAME; }                                      \
        static const int bits = BITS;                                                   \
        static ll lo() { return (ll)std::numeric_limits<T>::min(); }                    \
        static ll hi() { return (ll)std::numeric_limits<T>::max(); }                    \
        static ll get(T v) { return (ll)v; }                                            \
        static T make(ll v) { return (T)v; }                                            \
    };
INT_MODEL(uint8_t, "u8", 8)
INT_MODEL(int8_t, "s8", 8)
INT_MODEL(uint16_t, "u16", 16)
INT_MODEL(int16_t, "s16", 16)
INT_MODEL(uint32_t, "u32", 32)
INT_MODEL(int32_t, "s32", 32)

template <int N> struct M<gil::packed_channel_value<N>> {
    typedef gil::packed_channel_value<N> T;
    static const char* name() { static std::string s = "p" + std::to_string(N); return s.c_str(); }
    static const int bits = N;
    static ll lo() { return 0; }
    static ll hi() { return (ll)((1ull << N) - 1); }
    static ll get(T v) { return (ll)(typename T::integer_t)v; }
    static T make(ll v) { return T((typename T::integer_t)v); }
};

template <class T> static inline ll mul(ll a, ll b) {
    return M<T>::get(gil::channel_multiply(M<T>::make(a), M<T>::make(b)));
}
template <class T> static inline ll inv(ll x) { return M<T>::get(gil::channel_invert(M<T>::make(x))); }

static std::string key(const char* what, const char* model) { return vh::cat(what, ".", model); }

// ---- one product against the exact value ---------------------------------------------
// Wide = ll for <=16-bit models (all products < 2^32), __int128 above.
template <class T, class Wide> static inline void check_product(ll a, ll b, ll r, ll lo, ll hi) {
    const Wide R = (Wide)hi - lo;
    if (r < lo || r > hi) { vh::viol(key("mul-range", M<T>::name()), vh::cat("a=", a, " b=", b, " -> ", r, " outside [", lo, ",", hi, "]")); return; }
    Wide d = ((Wide)r - lo) * R - ((Wide)a - lo) * ((Wide)b - lo);
    if (d < 0) d = -d;
    if (d > R)
        vh::viol(key("mul-accuracy", M<T>::name()),
                 vh::cat("a=", a, " b=", b, " -> ", r, " exact(shifted)=", (double)((long double)((Wide)a - lo) * (long double)((Wide)b - lo) / (long double)R),
                         " got(shifted)=", (double)((Wide)r - lo)));
}
template <class T> static inline void check_ends(ll a, ll r_a_max, ll r_max_a, ll r_a_min, ll r_min_a, ll lo, ll hi) {
    if (r_a_max != a) vh::viol(key("mul-identity", M<T>::name()), vh::cat("multiply(a=", a, ", max=", hi, ") = ", r_a_max, " expected a"));
    if (r_max_a != a) vh::viol(key("mul-identity", M<T>::name()), vh::cat("multiply(max=", hi, ", a=", a, ") = ", r_max_a, " expected a"));
    if (r_a_min != lo) vh::viol(key("mul-annihilator", M<T>::name()), vh::cat("multiply(a=", a, ", min=", lo, ") = ", r_a_min, " expected min"));
    if (r_min_a != lo) vh::viol(key("mul-annihilator", M<T>::name()), vh::cat("multiply(min=", lo, ", a=", a, ") = ", r_min_a, " expected min"));
}

// ---- all pairs for the rows a in [a_first, a_last] -----------------------------------
template <class T> static void full_rows(ll a_first, ll a_last) {
    const ll lo = M<T>::lo(), hi = M<T>::hi();
    const size_t n = (size_t)(hi - lo + 1);
    std::vector<int32_t> prev(n), cur(n);
    bool have_prev = false;
    if (a_first > lo) {
        for (ll b = lo; b <= hi; ++b) prev[(size_t)(b - lo)] = (int32_t)mul<T>(a_first - 1, b);
        have_prev = true;
    }
    uint64_t cnt = 0;
    for (ll a = a_first; a <= a_last; ++a) {
        for (ll b = lo; b <= hi; ++b) {
            const ll r = mul<T>(a, b);
            check_product<T, ll>(a, b, r, lo, hi);
            const ll rc = mul<T>(b, a);
            if (rc != r) vh::viol(key("mul-commutative", M<T>::name()), vh::cat("multiply(", a, ",", b, ")=", r, " but multiply(", b, ",", a, ")=", rc));
            const size_t j = (size_t)(b - lo);
            if (j > 0 && r < cur[j - 1]) vh::viol(key("mul-monotone-b", M<T>::name()), vh::cat("a=", a, ": multiply(a,", b - 1, ")=", cur[j - 1], " > multiply(a,", b, ")=", r));
            if (have_prev && r < prev[j]) vh::viol(key("mul-monotone-a", M<T>::name()), vh::cat("b=", b, ": multiply(", a - 1, ",b)=", prev[j], " > multiply(", a, ",b)=", r));
            cur[j] = (int32_t)r;
        }
        check_ends<T>(a, cur[n - 1], mul<T>(hi, a), cur[0], mul<T>(lo, a), lo, hi);
        cnt += n;
        prev.swap(cur); have_prev = true;
    }
    vh::evals(2 * cnt); vh::distinct(cnt);
}

// ---- rectangular grid A x B (both sorted, both containing lo and hi) -------------------
template <class T, class Wide> static void grid(const std::vector<ll>& A, const std::vector<ll>& B) {
    const ll lo = M<T>::lo(), hi = M<T>::hi();
    std::vector<ll> prev(B.size()), cur(B.size());
    uint64_t cnt = 0;
    for (size_t i = 0; i < A.size(); ++i) {
        const ll a = A[i];
        for (size_t j = 0; j < B.size(); ++j) {
            const ll b = B[j];
            const ll r = mul<T>(a, b);
            check_product<T, Wide>(a, b, r, lo, hi);
            const ll rc = mul<T>(b, a);
            if (rc != r) vh::viol(key("mul-commutative", M<T>::name()), vh::cat("multiply(", a, ",", b, ")=", r, " but multiply(", b, ",", a, ")=", rc));
            if (j > 0 && r < cur[j - 1]) vh::viol(key("mul-monotone-b", M<T>::name()), vh::cat("a=", a, ": multiply(a,", B[j - 1], ")=", cur[j - 1], " > multiply(a,", b, ")=", r));
            if (i > 0 && r < prev[j]) vh::viol(key("mul-monotone-a", M<T>::name()), vh::cat("b=", b, ": multiply(", A[i - 1], ",b)=", prev[j], " > multiply(", a, ",b)=", r));
            cur[j] = r;
        }
        check_ends<T>(a, mul<T>(a, hi), mul<T>(hi, a), mul<T>(a, lo), mul<T>(lo, a), lo, hi);
        cnt += B.size();
        prev.swap(cur);
    }
    vh::evals(2 * cnt); vh::distinct(cnt);
}

// ---- seeded pairs, distinct by construction -------------------------------------------
// pair index k -> (k * odd + offset) mod 2^(2*bits) is a bijection; pairs already covered by the grid case (b in B when
// the grid has every a, otherwise a and b both in S) are skipped so that the distinct count stays exact.
template <class T, class Wide> static void seeded_pairs(uint64_t count, const std::vector<ll>& skipB, bool grid_has_all_a, vh::rng& r) {
    const ll lo = M<T>::lo(), hi = M<T>::hi();
    const int bits = M<T>::bits;
    const uint64_t vmask = bits >= 64 ? ~0ull : ((1ull << bits) - 1);
    const unsigned __int128 pmask = (((unsigned __int128)1) << (2 * bits)) - 1;
    const unsigned __int128 odd = ((unsigned __int128)r.next() << 64 | r.next()) | 1;
    const unsigned __int128 off = ((unsigned __int128)r.next() << 64 | r.next());
    uint64_t cnt = 0;
    for (uint64_t k = 0; k < count; ++k) {
        const unsigned __int128 p = ((unsigned __int128)k * odd + off) & pmask;
        const ll a = lo + (ll)((uint64_t)(p >> bits) & vmask);
        const ll b = lo + (ll)((uint64_t)p & vmask);
        if (std::binary_search(skipB.begin(), skipB.end(), b) && (grid_has_all_a || std::binary_search(skipB.begin(), skipB.end(), a))) continue;
        const ll res = mul<T>(a, b);
        check_product<T, Wide>(a, b, res, lo, hi);
        const ll rc = mul<T>(b, a);
        if (rc != res) vh::viol(key("mul-commutative", M<T>::name()), vh::cat("multiply(", a, ",", b, ")=", res, " but multiply(", b, ",", a, ")=", rc));
        if (a < hi) { ll r2 = mul<T>(a + 1, b); if (r2 < res) vh::viol(key("mul-monotone-a", M<T>::name()), vh::cat("b=", b, ": multiply(", a, ",b)=", res, " > multiply(", a + 1, ",b)=", r2)); }
        if (b < hi) { ll r2 = mul<T>(a, b + 1); if (r2 < res) vh::viol(key("mul-monotone-b", M<T>::name()), vh::cat("a=", a, ": multiply(a,", b, ")=", res, " > multiply(a,", b + 1, ")=", r2)); }
        ++cnt;
    }
    vh::evals(4 * cnt); vh::distinct(cnt);
}

// ---- directed pairs: products that are exact multiples of max -------------------------------------
// a*b/max is an integer exactly when a = i*d and b = j*(max/d) for a divisor d of max (after the shift to the unsigned
// range).  This is the rounding boundary of the scaled product -- the place where a division-first or a
// truncate-after-floating-point implementation goes one way for (a,b) and the other way for (b,a).  The set does not
// depend on the seed.
template <class T, class Wide> static void exact_quotient_pairs() {
    const ll lo = M<T>::lo(), hi = M<T>::hi();
    const uint64_t R = (uint64_t)(hi - lo);
    std::vector<uint64_t> divs;
    for (uint64_t d = 2; d * d <= R; ++d) if (R % d == 0) { divs.push_back(d); if (d != R / d) divs.push_back(R / d); }
    std::sort(divs.begin(), divs.end());
    uint64_t cnt = 0;
    for (uint64_t d : divs) {
        const uint64_t e = R / d;                 // a = i*d with i <= e,  b = j*e with j <= d
        std::vector<uint64_t> is, js;
        for (uint64_t k = 1; k <= 12; ++k) { if (k <= e) { is.push_back(k); is.push_back(e - k + 1); } if (k <= d) { js.push_back(k); js.push_back(d - k + 1); } }
        for (uint64_t k = 1; k <= 8; ++k) { is.push_back(1 + (e - 1) * k / 9); js.push_back(1 + (d - 1) * k / 9); }
        std::sort(is.begin(), is.end()); is.erase(std::unique(is.begin(), is.end()), is.end());
        std::sort(js.begin(), js.end()); js.erase(std::unique(js.begin(), js.end()), js.end());
        for (uint64_t i : is)
            for (uint64_t j : js) {
                const ll a = lo + (ll)(i * d), b = lo + (ll)(j * e);
                const ll r = mul<T>(a, b);
                check_product<T, Wide>(a, b, r, lo, hi);
                const ll rc = mul<T>(b, a);
                if (rc != r) vh::viol(key("mul-commutative", M<T>::name()), vh::cat("multiply(", a, ",", b, ")=", r, " but multiply(", b, ",", a, ")=", rc, " (a*b is an exact multiple of max)"));
                if (a < hi) { ll r2 = mul<T>(a + 1, b); if (r2 < r) vh::viol(key("mul-monotone-a", M<T>::name()), vh::cat("b=", b, ": multiply(", a, ",b)=", r, " > multiply(", a + 1, ",b)=", r2)); }
                if (b < hi) { ll r2 = mul<T>(a, b + 1); if (r2 < r) vh::viol(key("mul-monotone-b", M<T>::name()), vh::cat("a=", a, ": multiply(a,", b, ")=", r, " > multiply(a,", b + 1, ")=", r2)); }
                if (a > lo) { ll r2 = mul<T>(a - 1, b); if (r2 > r) vh::viol(key("mul-monotone-a", M<T>::name()), vh::cat("b=", b, ": multiply(", a - 1, ",b)=", r2, " > multiply(", a, ",b)=", r)); }
                ++cnt;
            }
    }
    vh::evals(5 * cnt);   // overlaps the other enumerations: not added to the distinct count
}

// ---- value sets --------------------------------------------------------------------------
static std::vector<ll> all_values(ll lo, ll hi) { std::vector<ll> v; for (ll x = lo; x <= hi; ++x) v.push_back(x); return v; }
static void uniq(std::vector<ll>& v) { std::sort(v.begin(), v.end()); v.erase(std::unique(v.begin(), v.end()), v.end()); }
// boundary set: both ends (near), powers of two +-1 from both ends, the middle, a lattice, seeded values
static std::vector<ll> strat_values(ll lo, ll hi, int near, int lattice, int nrand, vh::rng& r) {
    std::vector<ll> v;
    const ll range = hi - lo;
    for (ll i = 0; i < near && i <= range; ++i) { v.push_back(lo + i); v.push_back(hi - i); }
    for (int k = 0; k < 40; ++k)
        for (ll d = -1; d <= 1; ++d) {
            ll o = (1ll << k) + d;
            if (o >= 0 && o <= range) { v.push_back(lo + o); v.push_back(hi - o); }
        }
    for (ll d = -2; d <= 2; ++d) { ll o = range / 2 + d; if (o >= 0 && o <= range) v.push_back(lo + o); }
    for (int i = 0; i <= lattice; ++i) {
        ll o = (ll)((i128)range * i / (lattice ? lattice : 1));
        for (ll d = -1; d <= 1; ++d) if (o + d >= 0 && o + d <= range) v.push_back(lo + o + d);
    }
    for (int i = 0; i < nrand; ++i) v.push_back(lo + (ll)r.below((uint64_t)range + 1));
    v.push_back(lo); v.push_back(hi);
    uniq(v);
    return v;
}

// the boundary set of a model's grid case: <=16-bit models pair it with every a, wider models use it on both axes.
// Built from its own stream (seed + model name) so that the seeded cases can rebuild it and skip what the grid covered.
template <class T> static std::vector<ll> grid_set() {
    vh::rng r(vh::mix(vh::seed(), vh::hash_str(std::string("grid-set/") + M<T>::name())));
    if (M<T>::bits <= 16) return strat_values(M<T>::lo(), M<T>::hi(), 4, 8, 16, r);
    return strat_values(M<T>::lo(), M<T>::hi(), vh::thorough() ? 64 : 16, vh::thorough() ? 256 : 64, vh::thorough() ? 1024 : 256, r);
}

// ---- multiply: one model -------------------------------------------------------------------
// mode: 0 = all pairs in every build; 1 = all pairs in native thorough, stratified otherwise;
//       2 = all pairs in native thorough split into row blocks (16-bit), stratified otherwise; 3 = always stratified (wide)
template <class T> static void mul_model(int mode) {
    const ll lo = M<T>::lo(), hi = M<T>::hi();
    const char* nm = M<T>::name();
    const bool full = mode == 0 || ((mode == 1 || mode == 2) && vh::thorough() && !kSanitized);
    if (full) {
        const ll n = hi - lo + 1;
        const ll blocks = mode == 2 ? 256 : (n > 1024 ? 16 : 1);
        for (ll k = 0; k < blocks; ++k) {
            if (!vh::begin_case("mul-all-pairs", vh::cat(nm, ".rows", k, "/", blocks))) continue;
            if (k == 0) vh::sample(vh::cat("channel_multiply on every pair of ", nm, " values: |r-a*b/max|<=1, range, commutative, monotone in a and b, max identity, min annihilator"));
            full_rows<T>(lo + n * k / blocks, lo + n * (k + 1) / blocks - 1);
            vh::obs(vh::cat("mul.all-pairs.", nm));
        }
        return;
    }
    // stratified
    if (vh::begin_case("mul-exact-quotient", nm)) {
        if (M<T>::bits <= 16) exact_quotient_pairs<T, ll>(); else exact_quotient_pairs<T, i128>();
        vh::obs(vh::cat("mul.exact.", nm));
    }
    if (vh::begin_case("mul-grid", nm)) {
        vh::sample(vh::cat("channel_multiply on a stratified grid of ", nm, " values (ends, 2^k+-1, lattice, seeded), both argument orders"));
        std::vector<ll> B = grid_set<T>();
        if (M<T>::bits <= 16) grid<T, ll>(all_values(lo, hi), B);
        else grid<T, i128>(B, B);
        vh::obs(vh::cat("mul.grid.", nm));
    }
    const int chunks = 16;
    for (int c = 0; c < chunks; ++c) {
        if (!vh::begin_case("mul-seeded", vh::cat(nm, ".chunk", c))) continue;
        vh::rng r = vh::case_rng();
        std::vector<ll> skip = grid_set<T>();
        uint64_t total = kSanitized ? (1ull << 18) : (vh::thorough() ? (1ull << 24) : (1ull << 22));
        if (M<T>::bits <= 16) seeded_pairs<T, ll>(total / chunks, skip, true, r);
        else seeded_pairs<T, i128>(total / chunks, skip, false, r);
        vh::obs(vh::cat("mul.seeded.", nm));
    }
}

// ---- invert: one integral model ---------------------------------------------------------------
template <class T> static void inv_model() {
    const ll lo = M<T>::lo(), hi = M<T>::hi();
    const char* nm = M<T>::name();
    if (!vh::begin_case("invert", nm)) return;
    vh::rng r = vh::case_rng();
    std::vector<ll> S = M<T>::bits <= 16 ? all_values(lo, hi)
                                         : strat_values(lo, hi, vh::thorough() ? 65536 : 4096, vh::thorough() ? 65536 : 2048, vh::thorough() ? (1 << 20) : (1 << 15), r);
    uint64_t cnt = 0;
    for (ll x : S) {
        const ll y = inv<T>(x);
        const ll expect = (ll)((i128)hi - x + lo);
        if (y < lo || y > hi) vh::viol(key("inv-range", nm), vh::cat("invert(", x, ")=", y, " outside [", lo, ",", hi, "]"));
        if (y != expect) vh::viol(key("inv-formula", nm), vh::cat("invert(", x, ")=", y, " expected max-x+min=", expect));
        const ll z = inv<T>(y);
        if (z != x) vh::viol(key("inv-involution", nm), vh::cat("invert(invert(", x, "))=", z, " (inner ", y, ")"));
        ++cnt;
    }
    vh::sample(vh::cat("channel_invert on ", M<T>::bits <= 16 ? "every" : "stratified", " ", nm, " value: == max-x+min, involution, range"));
    vh::evals(2 * cnt); vh::distinct(cnt);
    vh::obs(vh::cat("inv.", nm));
}

// ---- float models -------------------------------------------------------------------------------
template <class F> struct FM;
template <> struct FM<gil::float32_t> { typedef float base; static const char* name() { return "f32"; } };
template <> struct FM<gil::float64_t> { typedef double base; static const char* name() { return "f64"; } };

template <class B> static std::vector<B> float_values(vh::rng& r) {
    std::vector<B> v;
    v.push_back(0); v.push_back(1);
    v.push_back(std::numeric_limits<B>::denorm_min()); v.push_back(std::numeric_limits<B>::min());
    v.push_back(std::numeric_limits<B>::epsilon()); v.push_back((B)1 - std::numeric_limits<B>::epsilon() / 2);
    for (int k = 1; k < 60; ++k) { B p = (B)std::ldexp(1.0, -k); v.push_back(p); v.push_back((B)1 - p); v.push_back(std::nextafter(p, (B)1)); v.push_back(std::nextafter(p, (B)0)); }
    for (int k = 0; k <= 255; ++k) v.push_back((B)(k / 255.0));
    const int lat = vh::thorough() ? 512 : 128;
    for (int k = 0; k <= lat; ++k) { v.push_back((B)(k / (double)lat)); v.push_back((B)(k / 65535.0)); v.push_back((B)(1.0 - k / 65535.0)); }
    const int nr = vh::thorough() ? 2048 : 384;
    for (int i = 0; i < nr; ++i) v.push_back((B)r.unit());
    for (int i = 0; i < nr / 4; ++i) v.push_back((B)std::ldexp(r.unit(), -(int)r.below(100)));   // small magnitudes
    for (B& x : v) { if (!(x >= 0)) x = 0; if (x > 1) x = 1; }
    std::sort(v.begin(), v.end());
    v.erase(std::unique(v.begin(), v.end()), v.end());
    return v;
}
template <class B> static B ulp_of(B x) {
    x = std::fabs(x);
    B u = std::nextafter(x, std::numeric_limits<B>::infinity()) - x;
    return std::max(u, std::numeric_limits<B>::denorm_min());
}

template <class F> static void float_model() {
    typedef typename FM<F>::base B;
    const char* nm = FM<F>::name();
    if (vh::begin_case("mul-grid", nm)) {
        vh::rng r = vh::case_rng();
        std::vector<B> S = float_values<B>(r);
        std::vector<B> prev(S.size()), cur(S.size());
        uint64_t cnt = 0;
        for (size_t i = 0; i < S.size(); ++i) {
            const B a = S[i];
            for (size_t j = 0; j < S.size(); ++j) {
                const B b = S[j];
                const B res = (B)gil::channel_multiply(F(a), F(b));
                if (!(res >= 0 && res <= 1)) vh::viol(key("mul-range", nm), vh::cat("a=", a, " b=", b, " -> ", res));
                // exact residual of the product: fma(a,b,-res) (long double holds float products exactly as well)
                const long double resid = sizeof(B) == 4 ? (long double)a * (long double)b - (long double)res : (long double)std::fma((double)a, (double)b, -(double)res);
                const long double tol = 2.0L * (long double)std::max(ulp_of<B>(res), ulp_of<B>((B)((long double)a * (long double)b)));
                if (!(fabsl(resid) <= tol)) vh::viol(key("mul-accuracy", nm), vh::cat("a=", a, " b=", b, " -> ", res, " residual ", (double)resid, " tolerance ", (double)tol));
                const B rc = (B)gil::channel_multiply(F(b), F(a));
                if (rc != res) vh::viol(key("mul-commutative", nm), vh::cat("multiply(", a, ",", b, ")=", res, " but swapped ", rc));
                if (j > 0 && res < cur[j - 1]) vh::viol(key("mul-monotone-b", nm), vh::cat("a=", a, ": b=", S[j - 1], " -> ", cur[j - 1], " > b=", b, " -> ", res));
                if (i > 0 && res < prev[j]) vh::viol(key("mul-monotone-a", nm), vh::cat("b=", b, ": a=", S[i - 1], " -> ", prev[j], " > a=", a, " -> ", res));
                cur[j] = res;
            }
            const B one = (B)gil::channel_traits<F>::max_value(), zero = (B)gil::channel_traits<F>::min_value();
            if ((B)gil::channel_multiply(F(a), F(one)) != a || (B)gil::channel_multiply(F(one), F(a)) != a) vh::viol(key("mul-identity", nm), vh::cat("a=", a, " times max is ", (B)gil::channel_multiply(F(a), F(one))));
            if ((B)gil::channel_multiply(F(a), F(zero)) != zero || (B)gil::channel_multiply(F(zero), F(a)) != zero) vh::viol(key("mul-annihilator", nm), vh::cat("a=", a, " times min is ", (B)gil::channel_multiply(F(a), F(zero))));
            cnt += S.size();
            prev.swap(cur);
        }
        vh::sample(vh::cat("channel_multiply on a ", S.size(), "x", S.size(), " grid of ", nm, " values in [0,1]: <=2 ulp, range, commutative, monotone, 1 identity, 0 annihilator"));
        vh::evals(2 * cnt); vh::distinct(cnt);
        vh::obs(vh::cat("mul.grid.", nm));
    }
    if (vh::begin_case("invert", nm)) {
        vh::rng r = vh::case_rng(7);
        std::vector<B> S = float_values<B>(r);
        const int extra = vh::thorough() ? (1 << 20) : (1 << 16);
        for (int i = 0; i < extra; ++i) S.push_back((B)r.unit());
        uint64_t cnt = 0;
        for (B x : S) {
            const B y = (B)gil::channel_invert(F(x));
            volatile B expect = (B)1 - x;   // max - x + min as computed in the channel's own type
            if (!(y >= 0 && y <= 1)) vh::viol(key("inv-range", nm), vh::cat("invert(", x, ")=", y));
            if (y != (B)expect) vh::viol(key("inv-formula", nm), vh::cat("invert(", x, ")=", y, " expected 1-x=", (B)expect));
            const B z = (B)gil::channel_invert(F(y));
            if (!(std::fabs((long double)z - (long double)x) <= (long double)std::numeric_limits<B>::epsilon())) vh::viol(key("inv-involution", nm), vh::cat("invert(invert(", x, "))=", z));
            ++cnt;
        }
        vh::evals(2 * cnt); vh::distinct(cnt);
        vh::obs(vh::cat("inv.", nm));
    }
}

// ---- custom-range models built from scoped_channel_value: channel_invert only ------------------------
// (multiply is not judged here: the property documents the shift to the unsigned range for signed integers only)
// The min/max policies follow float_point_zero / float_point_one in channel.hpp.
struct video8_min { static constexpr uint8_t apply() { return 16; } };
struct video8_max { static constexpr uint8_t apply() { return 235; } };
struct studio16_min { static constexpr uint16_t apply() { return 4096; } };
struct studio16_max { static constexpr uint16_t apply() { return 61439; } };
struct s16range_min { static constexpr int16_t apply() { return -1000; } };
struct s16range_max { static constexpr int16_t apply() { return 3000; } };
struct float_one { static constexpr float apply() { return 1.0f; } };
struct float_two { static constexpr float apply() { return 2.0f; } };
struct double_minus_half { static constexpr double apply() { return -0.5; } };
struct double_plus_half { static constexpr double apply() { return 0.5; } };
typedef gil::scoped_channel_value<uint8_t, video8_min, video8_max> video8_t;
typedef gil::scoped_channel_value<uint16_t, studio16_min, studio16_max> studio16_t;
typedef gil::scoped_channel_value<int16_t, s16range_min, s16range_max> s16range_t;
typedef gil::scoped_channel_value<float, float_one, float_two> float12_t;
typedef gil::scoped_channel_value<double, double_minus_half, double_plus_half> doublehalf_t;

// integral base: every value of [min,max]
template <class T, class Base> static void inv_custom_int(const char* nm) {
    if (!vh::begin_case("invert", nm)) return;
    const ll lo = (ll)(Base)gil::channel_traits<T>::min_value(), hi = (ll)(Base)gil::channel_traits<T>::max_value();
    uint64_t cnt = 0;
    for (ll x = lo; x <= hi; ++x) {
        const ll y = (ll)(Base)gil::channel_invert(T((Base)x));
        const ll expect = hi - x + lo;
        if (y < lo || y > hi) vh::viol(key("inv-range", nm), vh::cat("invert(", x, ")=", y, " outside [", lo, ",", hi, "]"));
        if (y != expect) vh::viol(key("inv-formula", nm), vh::cat("invert(", x, ")=", y, " expected max-x+min=", expect));
        const ll z = (ll)(Base)gil::channel_invert(T((Base)y));
        if (z != x) vh::viol(key("inv-involution", nm), vh::cat("invert(invert(", x, "))=", z, " (inner ", y, ")"));
        if (x == lo && y != hi) vh::viol(key("inv-ends", nm), vh::cat("invert(min=", lo, ")=", y, " expected max=", hi));
        if (x == hi && y != lo) vh::viol(key("inv-ends", nm), vh::cat("invert(max=", hi, ")=", y, " expected min=", lo));
        ++cnt;
    }
    vh::sample(vh::cat("channel_invert on every value of the custom range ", nm, " [", lo, ",", hi, "]: == max-x+min, involution, range, ends"));
    vh::evals(2 * cnt); vh::distinct(cnt);
    vh::obs(vh::cat("inv.", nm));
}
// floating base: stratified values of [min,max]
template <class T, class B> static void inv_custom_float(const char* nm) {
    if (!vh::begin_case("invert", nm)) return;
    vh::rng r = vh::case_rng(11);
    const B lo = (B)gil::channel_traits<T>::min_value(), hi = (B)gil::channel_traits<T>::max_value();
    std::vector<B> U = float_values<B>(r);               // stratified in [0,1]
    const int extra = vh::thorough() ? (1 << 20) : (1 << 16);
    for (int i = 0; i < extra; ++i) U.push_back((B)r.unit());
    std::vector<B> S;
    S.push_back(lo); S.push_back(hi); S.push_back(std::nextafter(lo, hi)); S.push_back(std::nextafter(hi, lo)); S.push_back((B)((lo + hi) / 2));
    if (lo < 0 && hi > 0) { S.push_back(0); S.push_back(std::numeric_limits<B>::denorm_min()); S.push_back(-std::numeric_limits<B>::denorm_min()); }
    for (B u : U) { B x = (B)(lo + (hi - lo) * u); if (x < lo) x = lo; if (x > hi) x = hi; S.push_back(x); }
    std::sort(S.begin(), S.end()); S.erase(std::unique(S.begin(), S.end()), S.end());
    const long double tol = 2.0L * (long double)std::numeric_limits<B>::epsilon() * std::max<long double>(1.0L, std::max(fabsl((long double)lo), fabsl((long double)hi)));
    uint64_t cnt = 0;
    for (B x : S) {
        const B y = (B)gil::channel_invert(T(x));
        volatile B t = hi - x;        // max - x + min, left to right, every step in the channel's base type
        volatile B expect = t + lo;
        if (!(y >= lo && y <= hi)) vh::viol(key("inv-range", nm), vh::cat("invert(", x, ")=", y, " outside [", lo, ",", hi, "]"));
        if (y != (B)expect) vh::viol(key("inv-formula", nm), vh::cat("invert(", x, ")=", y, " expected (max-x)+min=", (B)expect));
        const B z = (B)gil::channel_invert(T(y));
        if (!(fabsl((long double)z - (long double)x) <= tol)) vh::viol(key("inv-involution", nm), vh::cat("invert(invert(", x, "))=", z));
        if (x == lo && y != hi) vh::viol(key("inv-ends", nm), vh::cat("invert(min=", lo, ")=", y, " expected max=", hi));
        if (x == hi && y != lo) vh::viol(key("inv-ends", nm), vh::cat("invert(max=", hi, ")=", y, " expected min=", lo));
        ++cnt;
    }
    vh::sample(vh::cat("channel_invert on ", S.size(), " stratified values of the custom range ", nm, " [", lo, ",", hi, "]: == (max-x)+min in the base type, involution, range, ends"));
    vh::evals(2 * cnt); vh::distinct(cnt);
    vh::obs(vh::cat("inv.", nm));
}

// ---- channel references as arguments: same result as on the value --------------------------------
template <class Ref, class MakeRef> static void ref_model(const char* refname, MakeRef make_ref) {
    typedef typename gil::channel_traits<Ref>::value_type V;
    if (!vh::begin_case("via-reference", refname)) return;
    const ll hi = M<V>::hi();
    const ll step = hi > 255 ? hi / 251 : 1;
    uint64_t cnt = 0;
    for (unsigned bg = 0; bg < 3; ++bg) {
        const uint64_t field = bg == 0 ? 0ull : bg == 1 ? ~0ull : 0xA5A55A5AC33C9669ull;
        uint64_t s1[2] = {field, field}, s2[2] = {field, field};
        Ref ra = make_ref(&s1[0]), rb = make_ref(&s2[0]);
        for (ll a = 0; a <= hi; a += (a < 64 || a + 64 > hi) ? 1 : step) {
            ra = M<V>::make(a);
            const ll ia = M<V>::get(gil::channel_invert(ra));
            if (ia != hi - a) vh::viol(vh::cat("inv-formula.", refname), vh::cat("invert(reference holding ", a, ")=", ia));
            for (ll b = 0; b <= hi; b += (b < 64 || b + 64 > hi) ? 1 : step) {
                rb = M<V>::make(b);
                const ll viaref = M<V>::get(gil::channel_multiply(ra, rb));
                const ll viaval = mul<V>(a, b);
                if (viaref != viaval) vh::viol(vh::cat("mul-ref-differs.", refname), vh::cat("a=", a, " b=", b, " via references ", viaref, " via values ", viaval));
                check_product<V, ll>(a, b, viaref, 0, hi);
                ++cnt;
            }
        }
    }
    vh::evals(cnt); vh::distinct(cnt / 3);
    vh::obs(vh::cat("ref.", refname));
}
template <class Ref> struct static_maker { Ref operator()(void* p) const { return Ref(p); } };
template <class Ref> struct dyn_maker { unsigned fb; Ref operator()(void* p) const { return Ref(p, fb); } };

int main(int argc, char** argv) {
    vh::init(argc, argv);
    using gil::packed_channel_value;
    // -- multiply
    mul_model<uint8_t>(0);
    mul_model<int8_t>(0);
    mul_model<packed_channel_value<1>>(0);
    mul_model<packed_channel_value<2>>(0);
    mul_model<packed_channel_value<3>>(0);
    mul_model<packed_channel_value<4>>(0);
    mul_model<packed_channel_value<5>>(0);
    mul_model<packed_channel_value<6>>(0);
    mul_model<packed_channel_value<7>>(0);
    mul_model<packed_channel_value<8>>(0);
    mul_model<packed_channel_value<9>>(1);
    mul_model<packed_channel_value<10>>(1);
    mul_model<packed_channel_value<11>>(1);
    mul_model<packed_channel_value<12>>(1);
    mul_model<packed_channel_value<13>>(3);
    mul_model<packed_channel_value<14>>(3);
    mul_model<packed_channel_value<15>>(3);
    mul_model<packed_channel_value<16>>(3);
    mul_model<uint16_t>(2);
    mul_model<int16_t>(2);
    mul_model<uint32_t>(3);
    mul_model<int32_t>(3);
    mul_model<packed_channel_value<24>>(3);
    mul_model<packed_channel_value<31>>(3);
    float_model<gil::float32_t>();
    float_model<gil::float64_t>();
    // -- invert
    inv_model<uint8_t>(); inv_model<int8_t>(); inv_model<uint16_t>(); inv_model<int16_t>(); inv_model<uint32_t>(); inv_model<int32_t>();
    inv_model<packed_channel_value<1>>(); inv_model<packed_channel_value<2>>(); inv_model<packed_channel_value<3>>(); inv_model<packed_channel_value<4>>();
    inv_model<packed_channel_value<5>>(); inv_model<packed_channel_value<6>>(); inv_model<packed_channel_value<7>>(); inv_model<packed_channel_value<8>>();
    inv_model<packed_channel_value<9>>(); inv_model<packed_channel_value<10>>(); inv_model<packed_channel_value<11>>(); inv_model<packed_channel_value<12>>();
    inv_model<packed_channel_value<13>>(); inv_model<packed_channel_value<14>>(); inv_model<packed_channel_value<15>>(); inv_model<packed_channel_value<16>>();
    inv_model<packed_channel_value<24>>(); inv_model<packed_channel_value<31>>();
    // -- invert on custom-range models (scoped_channel_value)
    inv_custom_int<video8_t, uint8_t>("video8");
    inv_custom_int<studio16_t, uint16_t>("studio16");
    inv_custom_int<s16range_t, int16_t>("s16range");
    inv_custom_float<float12_t, float>("float12");
    inv_custom_float<doublehalf_t, double>("doublehalf");
    // -- references as arguments
    ref_model<gil::packed_channel_reference<uint8_t, 0, 3, true>>("pref<u8,0,3>", static_maker<gil::packed_channel_reference<uint8_t, 0, 3, true>>());
    ref_model<gil::packed_channel_reference<uint8_t, 3, 5, true>>("pref<u8,3,5>", static_maker<gil::packed_channel_reference<uint8_t, 3, 5, true>>());
    ref_model<gil::packed_channel_reference<uint16_t, 5, 6, true>>("pref<u16,5,6>", static_maker<gil::packed_channel_reference<uint16_t, 5, 6, true>>());
    ref_model<gil::packed_channel_reference<uint16_t, 11, 5, true>>("pref<u16,11,5>", static_maker<gil::packed_channel_reference<uint16_t, 11, 5, true>>());
    ref_model<gil::packed_channel_reference<uint32_t, 20, 12, true>>("pref<u32,20,12>", static_maker<gil::packed_channel_reference<uint32_t, 20, 12, true>>());
    ref_model<gil::packed_dynamic_channel_reference<uint8_t, 4, true>>("pdyn<u8,4>@3", dyn_maker<gil::packed_dynamic_channel_reference<uint8_t, 4, true>>{3});
    ref_model<gil::packed_dynamic_channel_reference<uint16_t, 6, true>>("pdyn<u16,6>@7", dyn_maker<gil::packed_dynamic_channel_reference<uint16_t, 6, true>>{7});
    ref_model<gil::packed_dynamic_channel_reference<uint32_t, 12, true>>("pdyn<u32,12>@5", dyn_maker<gil::packed_dynamic_channel_reference<uint32_t, 12, true>>{5});
    return vh::finish();
}
