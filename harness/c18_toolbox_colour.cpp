// C18 -- toolbox colour spaces round-trip with RGB and stay in range.
//
// Runs the real toolbox converters (hsv, hsl, xyz, lab, ycbcr_601, ycbcr_709, cmyka, gray_alpha,
// gray->rgba, luminance) and compares what comes back with the pixel that went in.
//   rt.<space>            rgb8 -> space -> rgb8 over the rgb8 cube, one case per slab of 16 red values
//                         (native build: the whole slab in both tiers; sanitizer build: the stratified
//                         subset of c09_cube.hpp in quick, the whole slab in thorough)
//   rt-bgr.<space>        the same through bgr8 pixels on the stratified subset
//   grid.hsv / grid.hsl   (h,s,v|l) boundary grid -> rgb8 / rgb32f against the textbook formula
//   hue-periodic.<space>  hue 1 against hue 0 (own case: the hsv converter reads uninitialised
//                         channels for hue == 1, anything may follow under the sanitizers)
//   luminance, cmyka, cmyka-chan        (gray-alpha and gray-to-rgba: harness/c18_gray_rgba.cpp)
// Every case class names the colour space so that a fatal sanitizer report is attributed to it.
// See DESIGN.md section 5, C18.
#include <boost/gil.hpp>
#include <boost/gil/extension/toolbox/color_spaces.hpp>
#include <boost/gil/extension/toolbox/color_spaces/ycbcr.hpp>
#include <boost/gil/extension/toolbox/color_converters.hpp>
#include <algorithm>
#include <cmath>
#include <vector>
#include "common/vh.hpp"
#include "c09_cube.hpp"

namespace gil = boost::gil;

// ---- per-case violation bookkeeping: the first few of each key are printed, all are counted ----------
struct vlog {
    std::map<std::string, uint64_t> n;
    void hit(const char* key, const std::string& detail_if_first) {
        uint64_t& c = n[key];
        if (c < 3) vh::viol(key, detail_if_first);
        ++c;
    }
    bool few(const char* key) { auto it = n.find(key); return it == n.end() || it->second < 3; }
    // cheap variant for the hot loops: the detail string is only built while it will be printed
    template <class F> void hit_lazy(const std::string& key, F make_detail) {
        uint64_t& c = n[key];
        if (c < 3) vh::viol(key, make_detail());
        ++c;
    }
    ~vlog() { for (auto& kv : n) vh::count("violating-results." + kv.first, kv.second); }
};

static std::string px(int r, int g, int b) { return vh::cat("(", r, ",", g, ",", b, ")"); }

// ---- colour-space descriptions ----------------------------------------------------------------------
// tol: the fixed round-trip tolerance in 8-bit levels (calibrated on all 2^24 pixels; see DESIGN C18)
// range(): the documented range of the intermediate channels; region(): a code-defined class of the
// source pixel that goes into the violation key, so that a defect in another part of the cube gets
// another key.
// x in [0,1] exactly as the property states it; an excursion of at most 1e-4 (float rounding of a quotient) is
// classified apart from a grossly wrong channel so that the one cannot hide the other
static bool unit(float x, bool& eps) {
    if (x >= 0.f && x <= 1.f) return true;
    eps = (x >= -1e-4f && x <= 1.f + 1e-4f);
    return false;
}
struct sp_hsv {
    static const bool float_back = true;
    typedef gil::hsv32f_pixel_t pixel;
    static const char* name() { return "hsv"; }
    static int tol() { return 0; }
    static const char* range(const pixel& p, bool& eps) {
        float h = p[0], s = p[1], v = p[2];
        if (!unit(h, eps)) return "hue";
        if (!unit(s, eps)) return "saturation";
        if (!unit(v, eps)) return "value";
        return nullptr;
    }
    template <class RGB> static const char* region(const RGB&, const pixel&) { return ""; }
};
struct sp_hsl {
    static const bool float_back = true;
    typedef gil::hsl32f_pixel_t pixel;
    static const char* name() { return "hsl"; }
    static int tol() { return 0; }
    static const char* range(const pixel& p, bool& eps) {
        float h = p[0], s = p[1], l = p[2];
        if (!unit(h, eps)) return "hue";
        if (!unit(s, eps)) return "saturation";
        if (!unit(l, eps)) return "lightness";
        return nullptr;
    }
    template <class RGB> static const char* region(const RGB&, const pixel&) { return ""; }
};
struct sp_xyz {
    static const bool float_back = true;
    typedef gil::xyz32f_pixel_t pixel;
    static const char* name() { return "xyz"; }
    static int tol() { return 0; }
    // D65 tristimulus values of a non-negative linear rgb: between 0 and the white point
    static const char* range(const pixel& p, bool& eps) {
        float x = p[0], y = p[1], z = p[2];
        if (!(x >= 0.f && x <= 0.95047f * 1.0001f)) return "x";
        if (!(y >= 0.f && y <= 1.0001f)) return "y";
        if (!(z >= 0.f && z <= 1.08883f * 1.0001f)) return "z";
        return nullptr;
    }
    template <class RGB> static const char* region(const RGB&, const pixel&) { return ""; }
};
struct sp_lab {
    static const bool float_back = true;
    typedef gil::lab32f_pixel_t pixel;
    static const char* name() { return "lab"; }
    static int tol() { return 1; }
    static const char* range(const pixel& p, bool& eps) {
        float l = p[0], a = p[1], b = p[2];
        if (!(l >= -0.001f && l <= 100.001f)) return "luminance";
        if (!std::isfinite(a)) return "a";
        if (!std::isfinite(b)) return "b";
        return nullptr;
    }
    // CIE L*a*b* is piecewise: below (6/29)^3 the companding is linear.  A pixel one of whose
    // tristimulus ratios lies in the linear piece is a different class from the rest of the cube.
    template <class RGB> static const char* region(const RGB& s, const pixel&) {
        gil::xyz32f_pixel_t t;
        gil::color_convert(s, t);
        float m = std::min((float)t[0] / 0.95047f, std::min((float)t[1], (float)t[2] / 1.08883f));
        return m <= 216.f / 24389.f ? ".linear-piece" : "";
    }
};
struct sp_y601 {
    static const bool float_back = false;
    typedef gil::ycbcr_601_8_pixel_t pixel;
    static const char* name() { return "ycbcr601"; }
    static int tol() { return 3; }
    static const char* range(const pixel&, bool&) { return nullptr; }   // uint8 channels: the narrowing casts are watched by -fsanitize=float-cast-overflow
    template <class RGB> static const char* region(const RGB&, const pixel&) { return ""; }
};
struct sp_y709 {
    static const bool float_back = false;
    typedef gil::ycbcr_709_8_pixel_t pixel;
    static const char* name() { return "ycbcr709"; }
    static int tol() { return 3; }
    static const char* range(const pixel&, bool&) { return nullptr; }
    template <class RGB> static const char* region(const RGB&, const pixel&) { return ""; }
};

template <class RGB> RGB make_rgb(int r, int g, int b) {
    RGB p;
    gil::get_color(p, gil::red_t()) = (uint8_t)r;
    gil::get_color(p, gil::green_t()) = (uint8_t)g;
    gil::get_color(p, gil::blue_t()) = (uint8_t)b;
    return p;
}
template <class P> std::string show3(const P& p) { char b[120]; snprintf(b, sizeof b, "(%.9g,%.9g,%.9g)", (double)p[0], (double)p[1], (double)p[2]); return b; }

// recorded, not judged: how far the float32 result of the way back is from the 8-bit source (parts per billion).
// The property speaks of rgb8 results only; this counter merely leaves a trace of a changed constant in the evidence.
template <class Sp, class RGB> double float_back_dev(const typename Sp::pixel& m, int r, int g, int b, std::true_type) {
    gil::rgb32f_pixel_t f;
    gil::color_convert(m, f);
    return std::max(std::fabs((float)f[0] - r / 255.0), std::max(std::fabs((float)f[1] - g / 255.0), std::fabs((float)f[2] - b / 255.0)));
}
template <class Sp, class RGB> double float_back_dev(const typename Sp::pixel&, int, int, int, std::false_type) { return 0; }

// ---- round trip over the cube -----------------------------------------------------------------------
template <class Sp, class RGB> void roundtrip(const char* cls_prefix, bool allow_full) {
    const std::string cls = vh::cat(cls_prefix, ".", Sp::name());
    for (int k = 0; k < 16; ++k) {
        if (!vh::begin_case(cls, vh::cat("slab", k))) continue;
        const bool full = allow_full && cube::full_sweep();
        const uint64_t salt = vh::case_rng().next();
        vlog vl;
        const int T = Sp::tol();
        int worst = 0;
        uint64_t hist[6] = {0, 0, 0, 0, 0, 0};
        double fdev = 0;
        uint64_t n = cube::for_slab(k, full, salt, [&](int r, int g, int b) {
            RGB s = make_rgb<RGB>(r, g, b);
            typename Sp::pixel m;
            gil::color_convert(s, m);
            bool eps = false;
            if (const char* ch = Sp::range(m, eps))
                vl.hit_lazy(vh::cat(eps ? "range-eps." : "range.", Sp::name(), ".", ch), [&] { return vh::cat("rgb8", px(r, g, b), " -> ", Sp::name(), show3(m), " channel ", ch, " outside its range"); });
            RGB d;
            gil::color_convert(m, d);
            int dr = (int)gil::get_color(d, gil::red_t()), dg = (int)gil::get_color(d, gil::green_t()), db = (int)gil::get_color(d, gil::blue_t());
            int e = std::max(std::abs(dr - r), std::max(std::abs(dg - g), std::abs(db - b)));
            if (e > worst) worst = e;
            ++hist[e > 4 ? 5 : e];
            if (e <= T) { double fd = float_back_dev<Sp, RGB>(m, r, g, b, std::integral_constant<bool, Sp::float_back>()); if (fd > fdev) fdev = fd; }
            if (e > T) {
                // gross: not a rounding matter but a wrapped / collapsed channel
                const char* what = e >= 64 ? "roundtrip-gross." : "roundtrip.";
                vl.hit_lazy(vh::cat(what, Sp::name(), Sp::region(s, m)),
                            [&] { return vh::cat("rgb8", px(r, g, b), " -> ", Sp::name(), show3(m), " -> rgb8", px(dr, dg, db), " error ", e, " levels, tolerance ", T); });
            }
        });
        vh::evals(n); vh::distinct(n);
        vh::obs(vh::cat(cls, ".", cube::sweep_name(full)));
        vh::count(vh::cat("max-roundtrip-error.", cls, ".slab", k), (uint64_t)worst);
        static const char* hn[6] = {"0", "1", "2", "3", "4", "5-or-more"};
        for (int i = 0; i < 6; ++i) if (hist[i]) vh::count(vh::cat("roundtrip-error-histogram.", cls, ".levels-", hn[i]), hist[i]);
        if (Sp::float_back) vh::count(vh::cat("max-float-roundtrip-deviation-ppb.", cls, ".slab", k), (uint64_t)(fdev * 1e9));
        if (k == 0) vh::sample(vh::cat("rgb8 -> ", Sp::name(), " -> rgb8 for ", n, " pixels of slab 0 (", cube::sweep_name(full), "): intermediate range, |back - original| <= ", T));
    }
}

// ---- textbook formulas (long double) ----------------------------------------------------------------
static void ref_hsv(long double h, long double s, long double v, long double out[3]) {
    long double h6 = h * 6.0L;
    long double fl = floorl(h6);
    int i = ((int)fl) % 6;
    long double f = h6 - fl;
    long double p = v * (1 - s), q = v * (1 - s * f), t = v * (1 - s * (1 - f));
    switch (i) {
        case 0: out[0] = v; out[1] = t; out[2] = p; break;
        case 1: out[0] = q; out[1] = v; out[2] = p; break;
        case 2: out[0] = p; out[1] = v; out[2] = t; break;
        case 3: out[0] = p; out[1] = q; out[2] = v; break;
        case 4: out[0] = t; out[1] = p; out[2] = v; break;
        default: out[0] = v; out[1] = p; out[2] = q; break;
    }
}
static void ref_hsl(long double h, long double s, long double l, long double out[3]) {
    long double c = (1 - fabsl(2 * l - 1)) * s;
    long double h6 = h * 6.0L;
    h6 -= 6.0L * floorl(h6 / 6.0L);
    long double x = c * (1 - fabsl(fmodl(h6, 2.0L) - 1));
    long double m = l - c / 2;
    long double r, g, b;
    if (h6 < 1) { r = c; g = x; b = 0; }
    else if (h6 < 2) { r = x; g = c; b = 0; }
    else if (h6 < 3) { r = 0; g = c; b = x; }
    else if (h6 < 4) { r = 0; g = x; b = c; }
    else if (h6 < 5) { r = x; g = 0; b = c; }
    else { r = c; g = 0; b = x; }
    out[0] = r + m; out[1] = g + m; out[2] = b + m;
}

static std::vector<float> hue_grid(vh::rng& r, bool with_one) {
    std::vector<float> v;
    for (int k = 0; k <= 6; ++k) {
        float h = (float)k / 6.f;
        float lo = h, hi = h;
        v.push_back(h);
        for (int u = 0; u < 3; ++u) {
            lo = nextafterf(lo, -1.f); hi = nextafterf(hi, 2.f);
            v.push_back(lo); v.push_back(hi);
        }
    }
    for (int k = 0; k <= 96; ++k) v.push_back((float)k / 96.f);
    int nr = vh::thorough() ? 4000 : 400;
    for (int i = 0; i < nr; ++i) v.push_back((float)r.unit());
    std::vector<float> out;
    for (float h : v) if (h >= 0.f && (h < 1.f || (with_one && h == 1.f))) out.push_back(h);
    std::sort(out.begin(), out.end());
    out.erase(std::unique(out.begin(), out.end()), out.end());
    return out;
}
static std::vector<float> unit_grid(vh::rng& r) {
    std::vector<float> v = {0.f, 1.f, nextafterf(1.f, 0.f), 0.5f, nextafterf(0.5f, 0.f), nextafterf(0.5f, 1.f), 0.25f, 0.75f,
                            1.f / 3.f, 2.f / 3.f, 1.f / 255.f, 254.f / 255.f, 0.00005f, 0.0001f, 0.00011f, 0.001f, 0.0011f, 0.01f};
    for (int k = 1; k < 16; ++k) v.push_back((float)k / 16.f);
    int nr = vh::thorough() ? 40 : 12;
    for (int i = 0; i < nr; ++i) v.push_back((float)r.unit());
    std::sort(v.begin(), v.end());
    v.erase(std::unique(v.begin(), v.end()), v.end());
    return v;
}

template <class HP> HP make3(float a, float b, float c) { HP p; p[0] = a; p[1] = b; p[2] = c; return p; }

// grid of (h, s, v|l) -> rgb8 and rgb32f against the textbook formula; s == 0 ignores hue
template <class HP> void hue_grid_case(const char* name, void (*ref)(long double, long double, long double, long double*)) {
    if (!vh::begin_case(vh::cat("grid.", name), "boundary-grid")) return;
    vh::rng r = vh::case_rng();
    std::vector<float> hs = hue_grid(r, true), ss = unit_grid(r), vs = unit_grid(r);
    vlog vl;
    uint64_t n = 0;
    for (float h : hs) for (float s : ss) for (float v : vs) {
        if (h == 1.f && s != 0.f) continue;          // hue 1 with colour: the hue-periodic case
        HP src = make3<HP>(h, s, v);
        gil::rgb32f_pixel_t f; gil::rgb8_pixel_t d;
        gil::color_convert(src, f);
        gil::color_convert(src, d);
        ++n;
        if (s == 0.f) {
            // greys ignore hue: exactly (v,v,v)
            uint8_t e8 = gil::channel_convert<uint8_t>(gil::float32_t(v));
            if (d[0] != e8 || d[1] != e8 || d[2] != e8 || (float)f[0] != v || (float)f[1] != v || (float)f[2] != v)
                vl.hit_lazy(vh::cat("grey-ignores-hue.", name), [&] { return vh::cat(name, "(", h, ",0,", v, ") -> rgb8", px(d[0], d[1], d[2]), " rgb32f", show3(f), " expected grey ", (int)e8); });
            continue;
        }
        long double e[3];
        ref(h, s, v, e);
        for (int c = 0; c < 3; ++c) {
            float fc = f[c];
            if (!(fc >= -1e-6f && fc <= 1.f + 1e-6f))
                vl.hit_lazy(vh::cat("back-range.", name), [&] { return vh::cat(name, "(", h, ",", s, ",", v, ") -> rgb32f", show3(f)); });
            if (!(fabsl((long double)fc - e[c]) <= 5e-4L))
                vl.hit_lazy(vh::cat("formula.", name, ".rgb32f"), [&] { return vh::cat(name, "(", h, ",", s, ",", v, ") -> rgb32f", show3(f), " textbook (", (double)e[0], ",", (double)e[1], ",", (double)e[2], ")"); });
            if (!(fabsl((long double)d[c] - e[c] * 255.0L) <= 1.0L))
                vl.hit_lazy(vh::cat("formula.", name, ".rgb8"), [&] { return vh::cat(name, "(", h, ",", s, ",", v, ") -> rgb8", px(d[0], d[1], d[2]), " textbook*255 (", (double)(e[0] * 255), ",", (double)(e[1] * 255), ",", (double)(e[2] * 255), ")"); });
        }
    }
    vh::evals(n); vh::distinct(n);
    vh::sample(vh::cat(name, " boundary grid: ", hs.size(), " hues (k/6 +-3ulp, k/96, seeded) x ", ss.size(), " x ", vs.size(), " -> rgb8 / rgb32f against the textbook formula; s=0 ignores hue"));
}

// hue 1 denotes the same colour as hue 0
template <class HP> void hue_periodic_case(const char* name) {
    if (!vh::begin_case(vh::cat("hue-periodic.", name), "hue1-vs-hue0")) return;
    vh::rng r = vh::case_rng();
    std::vector<float> ss = unit_grid(r), vs = unit_grid(r);
    vlog vl;
    uint64_t n = 0;
    for (float s : ss) for (float v : vs) {
        HP h0 = make3<HP>(0.f, s, v), h1 = make3<HP>(1.f, s, v);
        gil::rgb8_pixel_t a, b;
        gil::color_convert(h0, a);
        gil::color_convert(h1, b);
        ++n;
        if (a != b)
            vl.hit_lazy(vh::cat("hue-periodic.", name), [&] { return vh::cat(name, "(0,", s, ",", v, ") -> rgb8", px(a[0], a[1], a[2]), " but ", name, "(1,", s, ",", v, ") -> rgb8", px(b[0], b[1], b[2])); });
    }
    vh::evals(n); vh::distinct(n);
}

// ---- gray_alpha -> rgba carries alpha; gray -> rgba sets alpha to max ---------------------------------
template <class C> std::vector<long> chan_values(vh::rng& r);
template <> std::vector<long> chan_values<uint8_t>(vh::rng&) { std::vector<long> v; for (long i = 0; i < 256; ++i) v.push_back(i); return v; }
template <> std::vector<long> chan_values<uint16_t>(vh::rng& r) {
    std::vector<long> v;
    for (long i = 0; i < 256; ++i) { v.push_back(i); v.push_back(65535 - i); v.push_back(i * 257); v.push_back(i * 256); v.push_back(i * 256 + 128); }
    int nr = vh::thorough() ? 1500 : 300;
    for (int i = 0; i < nr; ++i) v.push_back((long)r.below(65536));
    std::sort(v.begin(), v.end()); v.erase(std::unique(v.begin(), v.end()), v.end());
    return v;
}

template <class SrcP, class DstP> void gray_alpha_case(const char* sname, const char* dname) {
    if (!vh::begin_case("gray-alpha", vh::cat(sname, "->", dname))) return;
    typedef typename gil::channel_type<SrcP>::type SC;
    typedef typename gil::channel_type<DstP>::type DC;
    vh::rng r = vh::case_rng();
    std::vector<long> gs = chan_values<SC>(r), as = chan_values<SC>(r);
    vlog vl;
    uint64_t n = 0;
    for (long g : gs) for (long a : as) {
        SrcP s;
        gil::get_color(s, gil::gray_color_t()) = (SC)g;
        gil::get_color(s, gil::alpha_t()) = (SC)a;
        DstP d;
        gil::color_convert(s, d);
        ++n;
        DC eg = gil::channel_convert<DC>((SC)g), ea = gil::channel_convert<DC>((SC)a);
        if (gil::get_color(d, gil::alpha_t()) != ea)
            vl.hit_lazy(vh::cat("gray-alpha.alpha.", sname, "->", dname), [&] { return vh::cat("(gray ", g, ", alpha ", a, ") -> alpha ", (double)gil::get_color(d, gil::alpha_t()), " expected ", (double)ea); });
        if (gil::get_color(d, gil::red_t()) != eg || gil::get_color(d, gil::green_t()) != eg || gil::get_color(d, gil::blue_t()) != eg)
            vl.hit_lazy(vh::cat("gray-alpha.rgb.", sname, "->", dname), [&] { return vh::cat("(gray ", g, ", alpha ", a, ") -> rgb (", (double)gil::get_color(d, gil::red_t()), ",", (double)gil::get_color(d, gil::green_t()), ",", (double)gil::get_color(d, gil::blue_t()), ") expected ", (double)eg); });
    }
    vh::evals(n); vh::distinct(n);
    vh::sample(vh::cat(sname, " -> ", dname, ": ", n, " (gray,alpha) pairs, rgb == channel_convert(gray) and alpha carried"));
}

template <class SrcP, class DstP> void gray_to_rgba_case(const char* sname, const char* dname) {
    if (!vh::begin_case("gray-to-rgba", vh::cat(sname, "->", dname))) return;
    typedef typename gil::channel_type<SrcP>::type SC;
    typedef typename gil::channel_type<DstP>::type DC;
    vh::rng r = vh::case_rng();
    std::vector<long> gs;
    if (sizeof(SC) == 1) gs = chan_values<SC>(r); else for (long i = 0; i < 65536; ++i) gs.push_back(i);
    vlog vl;
    uint64_t n = 0;
    for (long g : gs) {
        SrcP s((SC)g);
        DstP d;
        gil::color_convert(s, d);
        ++n;
        DC eg = gil::channel_convert<DC>((SC)g);
        if (gil::get_color(d, gil::alpha_t()) != gil::channel_traits<DC>::max_value())
            vl.hit_lazy(vh::cat("gray-to-rgba.alpha.", sname, "->", dname), [&] { return vh::cat("gray ", g, " -> alpha ", (double)gil::get_color(d, gil::alpha_t())); });
        if (gil::get_color(d, gil::red_t()) != eg || gil::get_color(d, gil::green_t()) != eg || gil::get_color(d, gil::blue_t()) != eg)
            vl.hit_lazy(vh::cat("gray-to-rgba.rgb.", sname, "->", dname), [&] { return vh::cat("gray ", g, " -> rgb (", (double)gil::get_color(d, gil::red_t()), ",", (double)gil::get_color(d, gil::green_t()), ",", (double)gil::get_color(d, gil::blue_t()), ") expected ", (double)eg); });
    }
    vh::evals(n); vh::distinct(n);
}

// ---- luminance: the toolbox's double-channel converter agrees with the core weights ------------------
static void luminance_case() {
    if (!vh::begin_case("luminance", "double-rgb->double-gray")) return;
    typedef gil::pixel<double, gil::rgb_layout_t> rgb64f;
    typedef gil::pixel<double, gil::bgr_layout_t> bgr64f;
    typedef gil::pixel<double, gil::gray_layout_t> gray64f;
    vh::rng r = vh::case_rng();
    vlog vl;
    uint64_t n = 0;
    auto one = [&](double R, double G, double B) {
        rgb64f s(R, G, B); gray64f d;
        gil::color_convert(s, d);
        bgr64f s2(B, G, R); gray64f d2;
        gil::color_convert(s2, d2);
        ++n;
        long double e = 0.30L * R + 0.59L * G + 0.11L * B;
        long double tol = 1e-12L * std::max(1.0L, fabsl(e));
        if (!(fabsl((long double)d[0] - e) <= tol))
            vl.hit_lazy("luminance.weights", [&] { return vh::cat("double rgb(", R, ",", G, ",", B, ") -> gray ", (double)d[0], " expected 0.30r+0.59g+0.11b = ", (double)e); });
        if (d2[0] != d[0])
            vl.hit_lazy("luminance.layout", [&] { return vh::cat("double rgb(", R, ",", G, ",", B, ") -> gray ", (double)d[0], " but through bgr ", (double)d2[0]); });
        // the core float32 path on the same (representable) colour
        if (R >= 0 && R <= 1 && G >= 0 && G <= 1 && B >= 0 && B <= 1) {
            gil::rgb32f_pixel_t sf((float)R, (float)G, (float)B); gil::gray32f_pixel_t df;
            gil::color_convert(sf, df);
            long double ef = 0.30L * (float)R + 0.59L * (float)G + 0.11L * (float)B;
            if (!(fabsl((long double)(float)df[0] - ef) <= 2e-6L))
                vl.hit_lazy("luminance.core-float", [&] { return vh::cat("rgb32f(", R, ",", G, ",", B, ") -> gray32f ", (float)df[0], " weights give ", (double)ef); });
        }
    };
    const double grid[] = {0, 1, 0.5, 0.25, 1.0 / 3, 1.0 / 255, 254.0 / 255, 10, 20, 30, 255, 128, 65535};
    for (double a : grid) for (double b : grid) for (double c : grid) one(a, b, c);
    int nr = vh::thorough() ? 200000 : 20000;
    for (int i = 0; i < nr; ++i) one(r.unit(), r.unit(), r.unit());
    for (int i = 0; i < nr / 4; ++i) one(r.unit() * 255, r.unit() * 255, r.unit() * 255);
    // and the 8-bit core path agrees with the same weights within one unit on a lattice (C09 sweeps it completely)
    for (int R = 0; R < 256; R += 5) for (int G = 0; G < 256; G += 5) for (int B = 0; B < 256; B += 5) {
        gil::rgb8_pixel_t s(R, G, B); gil::gray8_pixel_t d;
        gil::color_convert(s, d);
        rgb64f sd(R, G, B); gray64f dd;
        gil::color_convert(sd, dd);
        ++n;
        if (!(std::fabs((double)d[0] - dd[0]) <= 1.0))
            vl.hit_lazy("luminance.core-8bit", [&] { return vh::cat("rgb8", px(R, G, B), " -> gray8 ", (int)d[0], " toolbox double luminance ", dd[0]); });
    }
    vh::evals(n); vh::distinct(n);
    vh::sample("pixel<double,rgb> -> pixel<double,gray> == 0.30r+0.59g+0.11b (1e-12), bgr layout identical, agrees with the core float32 and 8-bit paths");
}

// ---- cmyka: the only toolbox converters are cmyka->rgba and cmyka->cmyka ------------------------------
static void cmyka_case() {
    for (int k = 0; k < 16; ++k) {
        if (!vh::begin_case("cmyka", vh::cat("slab", k))) continue;
        const bool full = cube::full_sweep();
        const uint64_t salt = vh::case_rng().next();
        vlog vl;
        bool alpha_carried = false, alpha_max = false;
        uint64_t n = cube::for_slab(k, full, salt, [&](int r, int g, int b) {
            gil::rgb8_pixel_t s(r, g, b);
            gil::cmyk8_pixel_t c;
            gil::color_convert(s, c);
            gil::cmyka8_pixel_t ca(c[0], c[1], c[2], c[3], 255);
            gil::rgba8_pixel_t viatool, viacore;
            gil::color_convert(ca, viatool);
            gil::color_convert(c, viacore);
            if (viatool != viacore)
                vl.hit_lazy("cmyka.differs-from-cmyk", [&] { return vh::cat("cmyka8(", (int)c[0], ",", (int)c[1], ",", (int)c[2], ",", (int)c[3], ",255) -> rgba8 (", (int)viatool[0], ",", (int)viatool[1], ",", (int)viatool[2], ",", (int)viatool[3],
                                                                                 ") but cmyk8 -> rgba8 (", (int)viacore[0], ",", (int)viacore[1], ",", (int)viacore[2], ",", (int)viacore[3], ")"); });
            if (viatool[3] != 255)
                vl.hit_lazy("cmyka.alpha", [&] { return vh::cat("opaque cmyka8 from rgb8", px(r, g, b), " -> rgba8 alpha ", (int)viatool[3]); });
            int e = std::max(std::abs((int)viatool[0] - r), std::max(std::abs((int)viatool[1] - g), std::abs((int)viatool[2] - b)));
            if (e > 1)
                vl.hit_lazy(e >= 64 ? "roundtrip-gross.cmyka" : "roundtrip.cmyka", [&] { return vh::cat("rgb8", px(r, g, b), " -> cmyk8 -> cmyka8 -> rgba8 (", (int)viatool[0], ",", (int)viatool[1], ",", (int)viatool[2], ") error ", e); });
            // what happens to a non-opaque alpha is not stated by the property: recorded, not judged
            uint8_t al = (uint8_t)((r * 7 + g * 3 + b) & 0xFF);
            if (al != 255) {
                gil::cmyka8_pixel_t cb(c[0], c[1], c[2], c[3], al);
                gil::rgba8_pixel_t t;
                gil::color_convert(cb, t);
                if (t[3] == al) alpha_carried = true;
                if (t[3] == 255) alpha_max = true;
            }
        });
        if (alpha_carried) vh::obs("cmyka.non-opaque-alpha-carried");
        if (alpha_max) vh::obs("cmyka.non-opaque-alpha-replaced-by-max");
        vh::evals(n); vh::distinct(n);
        if (k == 0) vh::sample(vh::cat("rgb8 -> cmyk8 (core) -> cmyka8(alpha=255) -> rgba8 (toolbox) == core cmyk8 -> rgba8, alpha 255, rgb within 1 level; ", n, " pixels of slab 0"));
    }
}
static void cmyka_channels_case() {
    if (!vh::begin_case("cmyka-chan", "cmyka8<->cmyka16<->cmyka32f")) return;
    vh::rng r = vh::case_rng();
    vlog vl;
    uint64_t n = 0;
    int nr = vh::thorough() ? 400000 : 40000;
    for (int i = 0; i < nr + 256; ++i) {
        uint8_t v[5];
        for (int c = 0; c < 5; ++c) v[c] = i < 256 ? (uint8_t)i : (uint8_t)r.below(256);
        gil::cmyka8_pixel_t s(v[0], v[1], v[2], v[3], v[4]);
        gil::cmyka16_pixel_t d16; gil::cmyka32f_pixel_t df; gil::cmyka8_pixel_t d8, back;
        gil::color_convert(s, d16); gil::color_convert(s, df); gil::color_convert(s, d8); gil::color_convert(d16, back);
        ++n;
        for (int c = 0; c < 5; ++c) {
            if (d16[c] != gil::channel_convert<uint16_t>(v[c]) || (float)df[c] != (float)gil::channel_convert<gil::float32_t>(v[c]) || d8[c] != v[c] || back[c] != v[c])
                vl.hit_lazy("cmyka.same-space", [&] { return vh::cat("cmyka8 channel ", c, " = ", (int)v[c], " -> 16: ", (int)d16[c], " 32f: ", (float)df[c], " 8: ", (int)d8[c], " 16->8: ", (int)back[c]); });
        }
    }
    vh::evals(n); vh::distinct(n);
}

int main(int argc, char** argv) {
    vh::init(argc, argv);
#ifndef C18_PART
#define C18_PART 0
#endif
#if C18_PART == 0
    roundtrip<sp_hsv, gil::rgb8_pixel_t>("rt", true);
    roundtrip<sp_hsl, gil::rgb8_pixel_t>("rt", true);
    roundtrip<sp_hsv, gil::bgr8_pixel_t>("rt-bgr", false);
    roundtrip<sp_hsl, gil::bgr8_pixel_t>("rt-bgr", false);
    hue_grid_case<gil::hsv32f_pixel_t>("hsv", &ref_hsv);
    hue_grid_case<gil::hsl32f_pixel_t>("hsl", &ref_hsl);
    hue_periodic_case<gil::hsv32f_pixel_t>("hsv");
    hue_periodic_case<gil::hsl32f_pixel_t>("hsl");
#elif C18_PART == 1
    roundtrip<sp_xyz, gil::rgb8_pixel_t>("rt", true);
    roundtrip<sp_lab, gil::rgb8_pixel_t>("rt", true);
    roundtrip<sp_xyz, gil::bgr8_pixel_t>("rt-bgr", false);
    roundtrip<sp_lab, gil::bgr8_pixel_t>("rt-bgr", false);
#else
    roundtrip<sp_y601, gil::rgb8_pixel_t>("rt", true);
    roundtrip<sp_y709, gil::rgb8_pixel_t>("rt", true);
    roundtrip<sp_y601, gil::bgr8_pixel_t>("rt-bgr", false);
    roundtrip<sp_y709, gil::bgr8_pixel_t>("rt-bgr", false);
    cmyka_case();
    cmyka_channels_case();
    // gray_alpha -> rgba and gray -> rgba: every destination the converters accept, in harness/c18_gray_rgba.cpp
    luminance_case();
#endif
    return vh::finish();
}
