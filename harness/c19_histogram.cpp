// C19 -- histograms conserve mass and bin exactly the pixels that were counted.
//
// The real fill_histogram / histogram::fill, cumulative_histogram, sub_histogram (both overloads),
// normalize and the std-container fillers of extension/histogram/std.hpp run on small views of
// seeded content; the oracle is a std::map<key,count> built by the obvious loop over the harness's
// own copy of the channel values (never read back through GIL).
// One case per (pixel type, view shape); bin widths, content classes, mask/limit/accumulate/dense
// variants and the post-operations are enumerated inside the case.
// See DESIGN.md section 5, C19.
#include <boost/gil.hpp>
#include <boost/gil/histogram.hpp>
#include <boost/gil/extension/histogram/std.hpp>
#include <array>
#include <cmath>
#include <map>
#include <memory>
#include <tuple>
#include <utility>
#include <vector>
#include "common/vh.hpp"

#ifndef C19_PART
#define C19_PART 0
#endif

namespace gil = boost::gil;
typedef std::array<long, 4> karr;
typedef std::map<karr, long> model_t;
typedef long double ld;

template <class F> static void V(const std::string& key, F detail) {
    auto& p = vh::st().viol_printed;
    auto it = p.find(key);
    if (it == p.end() || it->second < 3) vh::viol(key, detail());
    else vh::viol(key, "");
}

// ---- tuple <-> array --------------------------------------------------------------------------
template <class Tuple, std::size_t... I> static karr key_arr_impl(Tuple const& t, std::index_sequence<I...>) {
    karr a{{0, 0, 0, 0}};
    long v[] = {(long)std::get<I>(t)...};
    for (std::size_t i = 0; i < sizeof...(I); ++i) a[i] = v[i];
    return a;
}
template <class Tuple> static karr key_arr(Tuple const& t) { return key_arr_impl(t, std::make_index_sequence<std::tuple_size<Tuple>::value>{}); }
template <class Key, std::size_t... I> static Key make_key_impl(karr const& a, std::index_sequence<I...>) {
    return Key((typename std::tuple_element<I, Key>::type)a[I]...);
}
template <class Key> static Key make_key(karr const& a) { return make_key_impl<Key>(a, std::make_index_sequence<std::tuple_size<Key>::value>{}); }
static std::string kstr(karr const& a, int d) { std::string s = "("; for (int i = 0; i < d; ++i) s += (i ? "," : "") + std::to_string(a[i]); return s + ")"; }

static long div_trunc(long c, long bw) { return c / bw; }

// ---- pixel type traits --------------------------------------------------------------------------
template <class P> struct PT;
#define PTDEF(P, NAME) template <> struct PT<gil::P> { static const char* name() { return NAME; } };
PTDEF(gray8_pixel_t, "gray8") PTDEF(gray8s_pixel_t, "gray8s") PTDEF(gray16_pixel_t, "gray16") PTDEF(gray16s_pixel_t, "gray16s")
PTDEF(dev2n8_pixel_t, "dev2n8") PTDEF(rgb8_pixel_t, "rgb8") PTDEF(rgb8s_pixel_t, "rgb8s") PTDEF(rgb16_pixel_t, "rgb16")
PTDEF(rgba8_pixel_t, "rgba8") PTDEF(cmyk16s_pixel_t, "cmyk16s")

// ---- a view with the harness's own copy of its channel values ------------------------------------
template <class P> struct content {
    typedef typename gil::channel_type<P>::type ch_t;
    static const int N = gil::num_channels<P>::value;
    typedef gil::image<P, false> image_t;
    image_t img;
    int w, h, ox, oy;
    std::vector<long> vals;   // (y*w+x)*N+c
    long neg_nonmultiple = 0; // channel values < 0 that are not multiples of the bin width
    typename image_t::view_t view() { return gil::subimage_view(gil::view(img), ox, oy, w, h); }
    long at(int x, int y, int c) const { return vals[((size_t)y * w + x) * N + c]; }
    // cls: 0 = non-negative values only, 1 = negative values present (signed channels)
    // per channel value windows: a narrow window (collisions, several pixels per bin) or the whole range
    struct windows { long lo[4], hi[4]; int cls; long bw; };
    static windows make_windows(vh::rng& r, int cls, long bw) {
        const long cmin = (long)std::numeric_limits<ch_t>::min(), cmax = (long)std::numeric_limits<ch_t>::max();
        windows wd; wd.cls = cls; wd.bw = bw;
        for (int c = 0; c < 4; ++c) {
            long a = cls ? cmin : 0, b = cmax;
            int mode = r.range(0, 3);
            if (mode == 0) { wd.lo[c] = a; wd.hi[c] = b; }
            else {
                long span = r.range(0, (int)(3 * bw + 2));
                if (span > b - a) span = b - a;
                long base = mode == 1 ? a : mode == 2 ? b - span : a + (long)r.below((uint64_t)(b - a - span + 1));
                wd.lo[c] = base; wd.hi[c] = base + span;
                if (cls && mode == 2) { wd.lo[c] = std::max<long>(cmin, -span - 1); wd.hi[c] = -1; }   // just below zero (never a positive-only window)
                if (cls && mode == 3) { wd.lo[c] = std::max<long>(cmin, -r.range(1, (int)(2 * bw + 1))); wd.hi[c] = std::min<long>(cmax, r.range(0, (int)(2 * bw))); }   // straddle zero
            }
        }
        return wd;
    }
    void make(int w_, int h_, vh::rng& r, windows const& wd) {
        w = w_; h = h_; ox = r.range(0, 2); oy = r.range(0, 2);
        img.recreate(w + 2, h + 2);
        const long cmin = (long)std::numeric_limits<ch_t>::min(), cmax = (long)std::numeric_limits<ch_t>::max();
        auto full = gil::view(img);
        for (int y = 0; y < h + 2; ++y) for (int x = 0; x < w + 2; ++x) for (int c = 0; c < N; ++c) full(x, y)[c] = (ch_t)r.range((int)cmin, (int)cmax);
        vals.assign((size_t)w * h * N, 0);
        auto v = view();
        neg_nonmultiple = 0;
        std::vector<unsigned char> force((size_t)w * h, 0);
        if (wd.cls) for (auto& f : force) f = r.coin();
        for (int y = 0; y < h; ++y) for (int x = 0; x < w; ++x) for (int c = 0; c < N; ++c) {
            long val = wd.lo[c] + (long)r.below((uint64_t)(wd.hi[c] - wd.lo[c] + 1));
            // negative class: the first pixel and about half of the others hold, in every channel, a negative value
            // that is not a multiple of the bin width (truncation toward zero and floor then give different bins)
            if (wd.cls && ((x == 0 && y == 0) || force[(size_t)y * w + x]))
            {
                long rem = wd.bw > 1 ? (long)r.range(1, (int)std::min<long>(wd.bw - 1, -cmin)) : 1;
                long qmax = std::min<long>(6, (-cmin - rem) / wd.bw);
                val = -((long)r.range(0, (int)qmax) * wd.bw + rem);
            }
            if (val < 0 && val % wd.bw != 0) ++neg_nonmultiple;
            vals[((size_t)y * w + x) * N + c] = val;
            v(x, y)[c] = (ch_t)val;
        }
    }
    // an n x 1 view holding exactly the given channel tuples (value sweeps)
    void make_values(std::vector<karr> const& v, long bw) {
        w = (int)v.size(); h = 1; ox = 1; oy = 1;
        img.recreate(w + 2, h + 2);
        auto full = gil::view(img);
        for (int y = 0; y < h + 2; ++y) for (int x = 0; x < w + 2; ++x) for (int c = 0; c < N; ++c) full(x, y)[c] = (ch_t)(x * 31 + y * 7 + c);
        vals.assign((size_t)w * N, 0); neg_nonmultiple = 0;
        auto vw = view();
        for (int x = 0; x < w; ++x) for (int c = 0; c < N; ++c) {
            long val = v[x][c];
            if (val < 0 && val % bw != 0) ++neg_nonmultiple;
            vals[(size_t)x * N + c] = val; vw(x, 0)[c] = (ch_t)val;
        }
    }
    uint64_t hash() const { return vh::hash_bytes(vals.data(), vals.size() * sizeof(long), vh::mix(w, h)); }
};

// ---- fill variants -------------------------------------------------------------------------------
struct variant {
    bool mask, limits, accumulate, dense;
    std::string str() const { return vh::cat("m", (int)mask, "l", (int)limits, "a", (int)accumulate, "d", (int)dense); }
    // class used in violation keys: the two flags that select code paths of fill_histogram itself
    std::string cls() const { return vh::cat(accumulate ? "accumulate" : "replace", "-", dense ? "dense" : "sparse"); }
};

// model of one fill: adds to m the counted pixels of c; returns the number counted
template <class P> static long model_fill(content<P> const& c, const int* dims, int D, long bw,
                                          bool use_mask, std::vector<std::vector<bool>> const& mask,
                                          bool use_lim, karr const& lo, karr const& hi, model_t& m) {
    long counted = 0;
    for (int y = 0; y < c.h; ++y) for (int x = 0; x < c.w; ++x) {
        if (use_mask && !mask[y][x]) continue;
        karr k{{0, 0, 0, 0}};
        bool in = true;
        for (int j = 0; j < D; ++j) {
            long v = c.at(x, y, dims[j]);
            k[j] = div_trunc(v, bw);   // the bin key is the C++ signed division ch / bin_width, nothing else
            if (use_lim && (k[j] < lo[j] || k[j] > hi[j])) in = false;
        }
        if (!in) continue;
        ++m[k]; ++counted;
    }
    return counted;
}
static long model_total(model_t const& m) { long t = 0; for (auto& kv : m) t += kv.second; return t; }

// does the real histogram equal the model?  (zero bins that the model does not have are allowed: dense pre-fill)
template <class Hist> static bool hist_equals(Hist const& H, model_t const& M, std::string* why) {
    const int D = (int)Hist::dimension();
    double sum = 0;
    for (auto const& kv : H) {
        karr ka = key_arr(kv.first);
        auto it = M.find(ka);
        long expect = it == M.end() ? 0 : it->second;
        sum += kv.second;
        if (kv.second != (double)expect) { if (why) *why = vh::cat("bin ", kstr(ka, D), " holds ", kv.second, ", the loop counts ", expect); return false; }
    }
    for (auto const& kv : M) if (kv.second) {
        auto it = H.find(make_key<typename Hist::key_type>(kv.first));
        if (it == H.end()) { if (why) *why = vh::cat("bin ", kstr(kv.first, D), " is missing, the loop counts ", kv.second); return false; }
    }
    if (sum != (double)model_total(M)) { if (why) *why = vh::cat("sum of bins ", sum, " != counted pixels ", model_total(M)); return false; }
    return true;
}

// ---- post operations on a filled histogram ---------------------------------------------------------
// Every post-operation is judged twice: on the integer counts (exact, tol = 0) and, after normalize(), on
// fractional bins (tol = 1e-9) -- a post-operation that is only right for integral bin values (e.g. one
// that accumulates in an integer type) is invisible on counts.  The model is a map key -> long double.
typedef std::map<karr, ld> fmodel_t;
static fmodel_t scaled_model(model_t const& M, ld scale) { fmodel_t F; for (auto const& kv : M) F[kv.first] = kv.second * scale; return F; }
static ld fmodel_total(fmodel_t const& F) { ld t = 0; for (auto const& kv : F) t += kv.second; return t; }
static bool differs(double got, ld expect, double tol) { return tol == 0 ? (ld)got != expect : std::fabs((double)((ld)got - expect)) > tol; }

// every bin of H within tol of the model, every non-zero model bin present, sum of bins == model total
template <class Hist> static bool hist_near(Hist const& H, fmodel_t const& F, double tol, std::string* why) {
    const int D = (int)Hist::dimension();
    ld sum = 0;
    for (auto const& kv : H) {
        karr ka = key_arr(kv.first);
        auto it = F.find(ka);
        ld expect = it == F.end() ? 0 : it->second;
        sum += kv.second;
        if (differs(kv.second, expect, tol)) { if (why) *why = vh::cat("bin ", kstr(ka, D), " holds ", kv.second, ", the model ", (double)expect); return false; }
    }
    for (auto const& kv : F) if (kv.second != 0) {
        if (H.find(make_key<typename Hist::key_type>(kv.first)) == H.end()) { if (why) *why = vh::cat("bin ", kstr(kv.first, D), " is missing, the model holds ", (double)kv.second); return false; }
    }
    if (differs((double)sum, fmodel_total(F), tol)) { if (why) *why = vh::cat("sum of bins ", (double)sum, " != model total ", (double)fmodel_total(F)); return false; }
    return true;
}

// tag: "" for counts, "normalized." for fractional bins (part of the violation key)
template <class Hist> static void check_cumulative(Hist const& H, fmodel_t const& F, double tol, const std::string& tag, const std::string& cls, const std::string& what) {
    const int D = (int)Hist::dimension();
    Hist C = gil::cumulative_histogram(H);
    vh::evals(1);
    const ld total = fmodel_total(F);
    if (C.size() != H.size()) V("cumulative.keys." + tag + cls, [&] { return vh::cat(what, " cumulative histogram has ", C.size(), " bins, the histogram ", H.size()); });
    for (auto const& kv : H) if (C.find(kv.first) == C.end()) { V("cumulative.keys." + tag + cls, [&] { return vh::cat(what, " cumulative histogram lacks bin ", kstr(key_arr(kv.first), D)); }); break; }
    std::vector<std::pair<karr, double>> cum;
    for (auto const& kv : C) cum.push_back({key_arr(kv.first), kv.second});
    // value: C[k] = sum of the model bins k' <= k componentwise (long double)
    for (auto const& ck : cum) {
        ld expect = 0;
        for (auto const& b : F) { bool le = true; for (int j = 0; j < D; ++j) if (b.first[j] > ck.first[j]) le = false; if (le) expect += b.second; }
        if (differs(ck.second, expect, tol)) { V("cumulative.value." + tag + cls, [&] { return vh::cat(what, " cumulative bin ", kstr(ck.first, D), " = ", ck.second, ", sum of dominated bins = ", (double)expect); }); break; }
    }
    // monotone along every axis; a bin that dominates all others (last / corner bin) holds the total
    bool reported = false;
    for (auto const& a : cum) {
        bool dominates_all = true;
        for (auto const& b : cum) {
            bool le = true; for (int j = 0; j < D; ++j) if (b.first[j] > a.first[j]) le = false;
            if (!le) { dominates_all = false; continue; }
            if (b.second > a.second + tol && !reported) { reported = true; V("cumulative.monotone." + tag + cls, [&] { return vh::cat(what, " cumulative ", kstr(b.first, D), "=", b.second, " > ", kstr(a.first, D), "=", a.second); }); }
        }
        if (dominates_all) {
            vh::obs(vh::cat("cumulative.corner.", tag, "d", D));
            if (differs(a.second, total, tol)) V("cumulative.last." + tag + cls, [&] { return vh::cat(what, " last cumulative bin ", kstr(a.first, D), " = ", a.second, ", total = ", (double)total); });
        }
    }
}

// normalize() on a copy; returns the normalized histogram (left untouched when the total is 0)
template <class Hist> static Hist check_normalize(Hist H, model_t const& M, const std::string& cls, const std::string& what) {
    const int D = (int)Hist::dimension();
    const double total = (double)model_total(M);
    if (total == 0) return H;
    H.normalize();
    vh::evals(1);
    double s = 0;
    for (auto const& kv : H) {
        s += kv.second;
        karr ka = key_arr(kv.first);
        auto it = M.find(ka);
        double expect = (it == M.end() ? 0 : it->second) / total;
        if (std::fabs(kv.second - expect) > 1e-12) { V("normalize.value." + cls, [&] { return vh::cat(what, " normalized bin ", kstr(ka, D), " = ", kv.second, ", expected ", expect); }); break; }
    }
    if (std::fabs(s - 1.0) > 1e-9) V("normalize.sum." + cls, [&] { return vh::cat(what, " normalized bins sum to ", s); });
    if (std::fabs(H.sum() - 1.0) > 1e-9) V("normalize.sum-member." + cls, [&] { return vh::cat(what, " histogram::sum() after normalize = ", H.sum()); });
    return H;
}

// marginal over the axes Ax...
template <class Hist, std::size_t... Ax> static void check_marginal(Hist& H, fmodel_t const& F, double tol, const std::string& tag, const std::string& cls, const std::string& what) {
    auto S = H.template sub_histogram<Ax...>();
    vh::evals(1);
    const std::size_t ax[] = {Ax...};
    const int SD = (int)sizeof...(Ax);
    fmodel_t FS;
    for (auto const& kv : F) { karr k{{0, 0, 0, 0}}; for (int j = 0; j < SD; ++j) k[j] = kv.first[ax[j]]; FS[k] += kv.second; }
    // zero bins of H (dense / accumulate leftovers) project to zero bins: allowed by hist_near
    std::string why;
    std::string axs; for (int j = 0; j < SD; ++j) axs += std::to_string(ax[j]);
    if (!hist_near(S, FS, tol, &why)) V("sub-axes.bins." + tag + cls + ".ax" + axs, [&] { return vh::cat(what, " sub_histogram<", axs, ">: ", why); });
    if (differs(S.sum(), fmodel_total(F), tol)) V("sub-axes.mass." + tag + cls + ".ax" + axs, [&] { return vh::cat(what, " sub_histogram<", axs, "> total ", S.sum(), " != ", (double)fmodel_total(F)); });
}
// key range on one axis
template <class Hist, std::size_t Ax> static void check_range(Hist& H, fmodel_t const& F, double tol, vh::rng& r, const std::string& tag, const std::string& cls, const std::string& what) {
    const int D = (int)Hist::dimension();
    long kmin = 0, kmax = 0; bool first = true;
    for (auto const& kv : F) { long v = kv.first[Ax]; if (first || v < kmin) kmin = v; if (first || v > kmax) kmax = v; first = false; }
    long lo = kmin + r.range(-1, 2), hi = lo + r.range(0, (int)std::min<long>(kmax - kmin + 1, 1000));
    karr l{{0, 0, 0, 0}}, u{{0, 0, 0, 0}};
    for (int j = 0; j < D; ++j) { l[j] = r.range(-5, 5); u[j] = r.range(-5, 5); }   // the other axes must not matter
    l[Ax] = lo; u[Ax] = hi;
    auto S = H.template sub_histogram<Ax>(make_key<typename Hist::key_type>(l), make_key<typename Hist::key_type>(u));
    vh::evals(1);
    fmodel_t FS;
    for (auto const& kv : F) if (kv.first[Ax] >= lo && kv.first[Ax] <= hi) FS[kv.first] = kv.second;
    std::string why;
    if (!hist_near(S, FS, tol, &why)) V("sub-range.bins." + tag + cls + ".ax" + std::to_string(Ax), [&] { return vh::cat(what, " sub_histogram<", Ax, ">(", lo, "..", hi, "): ", why); });
    // exactly the bins in range: no key of S outside it
    for (auto const& kv : S) { karr ka = key_arr(kv.first); if (ka[Ax] < lo || ka[Ax] > hi) { V("sub-range.outside." + tag + cls + ".ax" + std::to_string(Ax), [&] { return vh::cat(what, " sub_histogram<", Ax, ">(", lo, "..", hi, ") kept bin ", kstr(ka, D)); }); break; } }
}
#define PS_ARGS Hist& H, fmodel_t const& F, double tol, vh::rng& r, const std::string& tag, const std::string& cls, const std::string& what
template <class Hist> static void post_subs(PS_ARGS, std::integral_constant<int, 1>) {}   // sub_histogram needs >= 2 axes
template <class Hist> static void post_subs(PS_ARGS, std::integral_constant<int, 2>) {
    check_marginal<Hist, 0>(H, F, tol, tag, cls, what); check_marginal<Hist, 1>(H, F, tol, tag, cls, what);
    check_range<Hist, 0>(H, F, tol, r, tag, cls, what); check_range<Hist, 1>(H, F, tol, r, tag, cls, what);
}
template <class Hist> static void post_subs(PS_ARGS, std::integral_constant<int, 3>) {
    check_marginal<Hist, 1>(H, F, tol, tag, cls, what); check_marginal<Hist, 2, 0>(H, F, tol, tag, cls, what); check_marginal<Hist, 0, 1>(H, F, tol, tag, cls, what);
    check_range<Hist, 0>(H, F, tol, r, tag, cls, what); check_range<Hist, 2>(H, F, tol, r, tag, cls, what);
}
template <class Hist> static void post_subs(PS_ARGS, std::integral_constant<int, 4>) {
    check_marginal<Hist, 3>(H, F, tol, tag, cls, what); check_marginal<Hist, 0, 2>(H, F, tol, tag, cls, what); check_marginal<Hist, 3, 1, 0>(H, F, tol, tag, cls, what);
    check_range<Hist, 1>(H, F, tol, r, tag, cls, what); check_range<Hist, 3>(H, F, tol, r, tag, cls, what);
}
#undef PS_ARGS

// ---- one fill experiment: prior contents, then the fill under test ---------------------------------
template <class P, class Hist, std::size_t... Dims>
static void fill_experiment(content<P>& prior, content<P>& c, long bw, int cls, variant vr, vh::rng& r, const std::string& histname, bool post) {
    const int N = content<P>::N;
    const int D = (int)Hist::dimension();
    int dims[4] = {0, 1, 2, 3};
    { const std::size_t dl[] = {Dims..., 0}; if (sizeof...(Dims)) for (int j = 0; j < D; ++j) dims[j] = (int)dl[j]; }
    typedef typename Hist::key_type key_t;
    const std::string tname = PT<P>::name();
    // key class: everything a defect could depend on, from a finite set
    const std::string kcls = vh::cat(tname, ".", histname, ".", cls ? "neg" : "nonneg", "-", bw == 1 ? "bw1" : (bw & (bw - 1)) ? "bwN" : "bwPow2", ".", vr.cls());
    auto what = [&] { return vh::cat(tname, " ", c.w, "x", c.h, " hist=", histname, " bin_width=", bw, " variant=", vr.str()); };

    // mask
    std::vector<std::vector<bool>> mask;
    if (vr.mask) { mask.assign(c.h, std::vector<bool>(c.w)); for (int y = 0; y < c.h; ++y) for (int x = 0; x < c.w; ++x) mask[y][x] = r.below(3) != 0; }
    // limit box on the keys: around the keys that occur
    karr lo{{0, 0, 0, 0}}, hi{{0, 0, 0, 0}};
    for (int j = 0; j < D; ++j) {
        long kmin = 0, kmax = 0; bool first = true;
        for (int y = 0; y < c.h; ++y) for (int x = 0; x < c.w; ++x) { long k = div_trunc(c.at(x, y, dims[j]), bw); if (first || k < kmin) kmin = k; if (first || k > kmax) kmax = k; first = false; }
        long span = std::min<long>(kmax - kmin, 48);
        lo[j] = kmin + r.range(-1, (int)(span / 2 + 1)); hi[j] = lo[j] + r.range(0, (int)span + 1);
        if (!cls && lo[j] < 0) lo[j] = 0;
        typedef std::numeric_limits<int> il;
        (void)sizeof(il);
    }
    // the key types must be able to hold the limits (unsigned char / short histograms)
    { karr back_lo = key_arr(make_key<key_t>(lo)), back_hi = key_arr(make_key<key_t>(hi));
      for (int j = 0; j < D; ++j) { if (back_lo[j] != lo[j]) lo[j] = 0; if (back_hi[j] != hi[j]) hi[j] = lo[j]; if (hi[j] < lo[j]) hi[j] = lo[j]; } }
    const bool explicit_box = vr.limits || (vr.dense && D == 1);
    key_t lower = explicit_box ? make_key<key_t>(lo) : (gil::detail::tuple_limit<key_t>::min)();
    key_t upper = explicit_box ? make_key<key_t>(hi) : (gil::detail::tuple_limit<key_t>::max)();
    // dense pre-fill is only implemented for 1-D (and needs an explicit finite box); for D > 1 the flag is a no-op path
    const bool sparse = !vr.dense;

    Hist H;
    gil::fill_histogram<Dims...>(prior.view(), H, (std::size_t)bw);          // previous contents
    gil::fill_histogram<Dims...>(c.view(), H, (std::size_t)bw, vr.accumulate, sparse, vr.mask, mask, lower, upper, vr.limits);
    vh::obs(vh::cat("fill.", vr.dense ? (D == 1 ? "dense" : "dense-noop") : "sparse", vr.accumulate ? ".accumulate" : ".replace", vr.mask ? ".mask" : "", vr.limits ? ".limits" : ""));
    vh::evals(1);

    // model: the bin key is ch / bin_width in C++ signed arithmetic (truncation toward zero), for every width incl.
    // powers of two; limits compare these keys
    std::string why0; model_t M0;
    {
        std::vector<std::vector<bool>> nomask;
        if (vr.accumulate) model_fill(prior, dims, D, bw, false, nomask, false, lo, hi, M0);
        model_fill(c, dims, D, bw, vr.mask, mask, vr.limits, lo, hi, M0);
    }
    if (cls && bw > 1 && c.neg_nonmultiple) vh::obs(vh::cat("content.neg-nonmultiple.", (bw & (bw - 1)) ? "bw-other" : "bw-pow2"));
    if (!hist_equals(H, M0, &why0)) { V("fill.bins." + kcls, [&] { return vh::cat(what(), ": ", why0); }); return; }
    if (c.w && c.h) vh::distinct_hash(vh::mix(vh::mix(c.hash(), prior.hash()), vh::hash_str(kcls + vr.str()) + (uint64_t)bw));
    if (!post) return;
    const std::string pcls = vh::cat(tname, ".", histname);
    const std::integral_constant<int, Hist::dimension()> dim{};
    // on the integer counts: exact
    const fmodel_t F1 = scaled_model(M0, 1);
    check_cumulative(H, F1, 0.0, "", pcls, what());
    post_subs(H, F1, 0.0, r, "", pcls, what(), dim);
    // on fractional bins: normalize(), then the same post-operations against count/total in long double
    Hist Hn = check_normalize(H, M0, pcls, what());
    const long total = model_total(M0);
    if (total > 0) {
        const fmodel_t Fn = scaled_model(M0, (ld)1 / (ld)total);
        bool fractional = false; for (auto const& kv : M0) if (kv.second && kv.second != total) fractional = true;
        vh::obs(vh::cat("post.normalized.d", D, fractional ? ".fractional" : ".single-bin"));
        check_cumulative(Hn, Fn, 1e-9, "normalized.", pcls, what());
        post_subs(Hn, Fn, 1e-9, r, "normalized.", pcls, what(), dim);
    }
}

template <class P, class Hist, std::size_t... Dims>
static void all_variants(int w, int h, long bw, int cls, vh::rng& r, const std::string& histname) {
    content<P> prior, c;
    auto wd = content<P>::make_windows(r, cls, bw);     // previous contents and the view under test share bins
    prior.make(3, 2, r, wd);
    c.make(w, h, r, wd);
    for (int v = 0; v < 16; ++v) {
        variant vr{bool(v & 1), bool(v & 2), bool(v & 4), bool(v & 8)};
        fill_experiment<P, Hist, Dims...>(prior, c, bw, cls, vr, r, histname, true);
    }
}

template <int N> struct full_hist;
template <> struct full_hist<1> { typedef gil::histogram<int> type; };
template <> struct full_hist<2> { typedef gil::histogram<int, int> type; };
template <> struct full_hist<3> { typedef gil::histogram<int, int, int> type; };
template <> struct full_hist<4> { typedef gil::histogram<int, int, int, int> type; };

// extra histogram shapes per pixel type (selected channels, narrower key types)
template <class P> struct extras { static void run(int, int, long, int, vh::rng&) {} };
template <> struct extras<gil::gray8_pixel_t> { static void run(int w, int h, long bw, int cls, vh::rng& r) { all_variants<gil::gray8_pixel_t, gil::histogram<unsigned char>>(w, h, bw, cls, r, "u8"); } };
template <> struct extras<gil::gray16s_pixel_t> { static void run(int w, int h, long bw, int cls, vh::rng& r) { all_variants<gil::gray16s_pixel_t, gil::histogram<short>>(w, h, bw, cls, r, "short"); } };
template <> struct extras<gil::rgb8_pixel_t> { static void run(int w, int h, long bw, int cls, vh::rng& r) {
    all_variants<gil::rgb8_pixel_t, gil::histogram<short>, 1>(w, h, bw, cls, r, "short<1>");
    all_variants<gil::rgb8_pixel_t, gil::histogram<int, int>, 2, 1>(w, h, bw, cls, r, "int2<2,1>"); } };
template <> struct extras<gil::rgba8_pixel_t> { static void run(int w, int h, long bw, int cls, vh::rng& r) {
    all_variants<gil::rgba8_pixel_t, gil::histogram<int, long>, 3, 0>(w, h, bw, cls, r, "intlong<3,0>"); } };

template <class P> static void type_cases() {
    const int S = vh::thorough() ? 9 : 6;
    const long K = vh::thorough() ? 8 : 5;
    const int rounds = vh::thorough() ? 3 : 1;
    typedef typename gil::channel_type<P>::type ch_t;
    const bool is_signed = std::numeric_limits<ch_t>::is_signed;
    const int N = gil::num_channels<P>::value;
    typedef typename full_hist<N>::type H;
    for (int h = 0; h <= S; ++h) for (int w = 0; w <= S; ++w) {
        if (!vh::begin_case(std::string("fill.") + PT<P>::name(), vh::cat(w, "x", h))) continue;
        vh::rng r = vh::case_rng();
        for (long bw = 1; bw <= K; ++bw) for (int cls = 0; cls < (is_signed ? 2 : 1); ++cls) for (int k = 0; k < rounds; ++k) {
            all_variants<P, H>(w, h, bw, cls, r, "full");
            extras<P>::run(w, h, bw, cls, r);
        }
        if (w == 3 && h == 2) vh::sample(vh::cat(PT<P>::name(), " 3x2: bin widths 1..", K, ", 16 mask/limit/accumulate/dense variants each, then cumulative/normalize/sub_histogram"));
    }
}

// ---- std containers (unsigned channels only, 1-D over the gray conversion) -------------------------
template <class P> static void std_cases() {
    typedef typename gil::channel_type<P>::type ch_t;
    typedef gil::pixel<ch_t, gil::gray_layout_t> gray_t;
    const std::size_t NB = (std::size_t)std::numeric_limits<ch_t>::max() + 1;
    const int S = vh::thorough() ? 9 : 6;
    const std::string tname = PT<P>::name();
    for (int h = 0; h <= S; ++h) for (int w = 0; w <= S; ++w) {
        if (!vh::begin_case("std." + tname, vh::cat(w, "x", h))) continue;
        vh::rng r = vh::case_rng();
        const int rounds = vh::thorough() ? 6 : 3;
        for (int k = 0; k < rounds; ++k) {
            content<P> prior, c;
            auto wd = content<P>::make_windows(r, 0, 1 + k);
            prior.make(3, 2, r, wd);
            c.make(w, h, r, wd);
            // "the gray conversion of the same view": GIL's own colour conversion, pixel by pixel (C09 judges it)
            auto gray_counts = [&](content<P>& cc, std::vector<long>& out) {
                auto v = cc.view();
                for (int y = 0; y < cc.h; ++y) for (int x = 0; x < cc.w; ++x) { gray_t g; gil::color_convert(v(x, y), g); ++out[(std::size_t)(ch_t)g[0]]; }
            };
            std::vector<long> mp(NB, 0), mc(NB, 0);
            gray_counts(prior, mp); gray_counts(c, mc);
            for (int acc = 0; acc < 2; ++acc) {
                std::vector<long> expect(NB, 0);
                for (std::size_t i = 0; i < NB; ++i) expect[i] = mc[i] + (acc ? mp[i] : 0);
                const std::string kc = vh::cat(tname, acc ? ".accumulate" : ".replace");
                auto what = [&] { return vh::cat(tname, " ", w, "x", h, acc ? " accumulate" : " replace"); };
                // sparse histogram of the gray view
                gil::histogram<int> hs;
                gil::fill_histogram(gil::color_converted_view<gray_t>(prior.view()), hs);
                gil::fill_histogram(gil::color_converted_view<gray_t>(c.view()), hs, 1, acc != 0);
                { model_t M; for (std::size_t i = 0; i < NB; ++i) if (expect[i]) M[karr{{(long)i, 0, 0, 0}}] = expect[i];
                  std::string why; if (!hist_equals(hs, M, &why)) V("std.sparse-ref." + kc, [&] { return vh::cat(what(), " sparse histogram of the gray view: ", why); }); }
                // vector
                {
                    std::vector<int> hv;
                    gil::fill_histogram(prior.view(), hv);
                    gil::fill_histogram(c.view(), hv, acc != 0);
                    vh::evals(1);
                    bool bad = hv.size() != NB; std::size_t at = 0;
                    for (std::size_t i = 0; !bad && i < NB; ++i) if (hv[i] != expect[i]) { bad = true; at = i; }
                    if (bad) V("std.vector." + kc, [&] { return vh::cat(what(), " vector size=", hv.size(), " bin ", at, " = ", at < hv.size() ? hv[at] : -1, ", expected ", expect[at]); });
                    for (std::size_t i = 0; !bad && i < NB; ++i) { double s = hs.find(std::make_tuple((int)i)) == hs.end() ? 0 : hs.at(std::make_tuple((int)i)); if (s != hv[i]) { V("std.vector-vs-sparse." + kc, [&] { return vh::cat(what(), " bin ", i, " vector=", hv[i], " sparse=", s); }); break; } }
                    auto cv = gil::cumulative_histogram(hv);
                    long run = 0; bool cbad = cv.size() != hv.size();
                    for (std::size_t i = 0; !cbad && i < NB; ++i) { run += expect[i]; if (cv[i] != run) cbad = true; }
                    if (cbad) V("std.vector-cumulative." + kc, [&] { return vh::cat(what(), " cumulative vector differs from the prefix sums"); });
                }
                // array<T, max+1>
                {
                    typedef std::array<int, (std::size_t)std::numeric_limits<ch_t>::max() + 1> arr_t;
                    std::unique_ptr<arr_t> ha(new arr_t);
                    ha->fill(7);   // replace must not depend on what was there
                    gil::fill_histogram(prior.view(), *ha);
                    gil::fill_histogram(c.view(), *ha, acc != 0);
                    vh::evals(1);
                    bool bad = false; std::size_t at = 0;
                    for (std::size_t i = 0; !bad && i < NB; ++i) if ((*ha)[i] != expect[i]) { bad = true; at = i; }
                    if (bad) V("std.array." + kc, [&] { return vh::cat(what(), " array bin ", at, " = ", (*ha)[at], ", expected ", expect[at]); });
                    std::unique_ptr<arr_t> ca(new arr_t(gil::cumulative_histogram(*ha)));
                    long run = 0; bool cbad = false;
                    for (std::size_t i = 0; !cbad && i < NB; ++i) { run += expect[i]; if ((*ca)[i] != run) cbad = true; }
                    if (cbad) V("std.array-cumulative." + kc, [&] { return vh::cat(what(), " cumulative array differs from the prefix sums"); });
                }
                // map
                {
                    std::map<int, int> hm;
                    hm[3] = 5;
                    gil::fill_histogram(prior.view(), hm);
                    gil::fill_histogram(c.view(), hm, acc != 0);
                    vh::evals(1);
                    bool bad = false; long at = 0;
                    for (auto const& kv : hm) if (kv.first < 0 || (std::size_t)kv.first >= NB || kv.second != expect[kv.first]) { bad = true; at = kv.first; break; }
                    for (std::size_t i = 0; !bad && i < NB; ++i) if (expect[i] && !hm.count((int)i)) { bad = true; at = (long)i; }
                    if (bad) V("std.map." + kc, [&] { return vh::cat(what(), " map bin ", at, " = ", hm.count((int)at) ? hm[(int)at] : -1, ", expected ", (at >= 0 && (std::size_t)at < NB) ? expect[at] : -1); });
                    auto cm = gil::cumulative_histogram(hm);
                    long run = 0; bool cbad = cm.size() != hm.size();
                    for (auto const& kv : hm) { run += kv.second; auto it = cm.find(kv.first); if (it == cm.end() || it->second != run) cbad = true; }
                    long tot = 0; for (std::size_t i = 0; i < NB; ++i) tot += expect[i];
                    if (!cm.empty() && cm.rbegin()->second != tot) cbad = true;
                    if (cbad) V("std.map-cumulative." + kc, [&] { return vh::cat(what(), " cumulative map differs from the prefix sums / total ", tot); });
                }
                if (w && h) vh::distinct_hash(vh::mix(vh::mix(c.hash(), prior.hash()), vh::hash_str("std." + kc)));
                vh::obs(acc ? "std.accumulate" : "std.replace");
            }
        }
        if (w == 2 && h == 3) vh::sample(vh::cat("std containers: ", tname, " 2x3 -> vector<int>, array<int,", NB, ">, map<int,int>, replace and accumulate, plus cumulative forms"));
    }
}

// ---- std containers: multi-step sequences over ONE container object -----------------------------------------
// std.hpp provides fill_histogram + cumulative_histogram for std::vector<T>, std::array<T,N> and std::map<T1,T2>
// (nothing for unordered_map / deque / list).  A sequence starts from a container in a given state (fresh empty,
// pre-sized too short, exactly, longer -- with stale counts) and applies steps (view of 8- or 16-bit depth, gray or
// rgb, some size, accumulate or not); after every step the container must hold exactly: replace -> the counts of
// this view and nothing else; accumulate -> everything it held before plus the counts of this view.  The sparse
// histogram class, driven through the same steps, is the second reference.
typedef std::map<long, long> counts_t;
struct seq_step { int vt; int w, h; bool acc; };    // vt: 0 gray8, 1 rgb8, 2 gray16, 3 rgb16
static long step_max(seq_step const& st) { return st.vt < 2 ? 255 : 65535; }

template <class P, class Fn> static void with_view_t(seq_step const& st, vh::rng& r, counts_t& counts, Fn fn) {
    typedef typename gil::channel_type<P>::type ch_t;
    typedef gil::pixel<ch_t, gil::gray_layout_t> gray_t;
    content<P> c;
    auto wd = content<P>::make_windows(r, 0, 1 + (long)r.below(4));
    c.make(st.w, st.h, r, wd);
    auto v = c.view();
    for (int y = 0; y < c.h; ++y) for (int x = 0; x < c.w; ++x) { gray_t g; gil::color_convert(v(x, y), g); ++counts[(long)(ch_t)g[0]]; }
    fn(v, gil::color_converted_view<gray_t>(v));
}
template <class Fn> static void with_view(seq_step const& st, vh::rng& r, counts_t& counts, Fn fn) {
    switch (st.vt) {
    case 0: with_view_t<gil::gray8_pixel_t>(st, r, counts, fn); break;
    case 1: with_view_t<gil::rgb8_pixel_t>(st, r, counts, fn); break;
    case 2: with_view_t<gil::gray16_pixel_t>(st, r, counts, fn); break;
    default: with_view_t<gil::rgb16_pixel_t>(st, r, counts, fn); break;
    }
}
static const char* vt_name(int vt) { static const char* n[] = {"gray8", "rgb8", "gray16", "rgb16"}; return n[vt]; }
static std::string step_str(seq_step const& st) { return vh::cat(vt_name(st.vt), " ", st.w, "x", st.h, st.acc ? " accumulate" : " replace"); }
// the first two steps enumerate depth x accumulate systematically, the rest is seeded
static std::vector<seq_step> make_sequence(int combo, vh::rng& r, int only_depth /* -1: both */) {
    std::vector<seq_step> q;
    const int len = 3 + (int)r.below(2);
    for (int i = 0; i < len; ++i) {
        seq_step st;
        int deep = i == 0 ? (combo & 1) : i == 1 ? ((combo >> 2) & 1) : (int)r.below(2);
        if (only_depth >= 0) deep = only_depth;
        st.vt = deep * 2 + (int)r.below(2);
        st.acc = i == 0 ? ((combo >> 1) & 1) : i == 1 ? ((combo >> 3) & 1) : r.coin();
        st.w = r.range(i == 0 ? 0 : 1, 6); st.h = r.range(1, 6);
        q.push_back(st);
    }
    return q;
}
static void apply_model(counts_t& model, counts_t const& counts, bool acc) {
    if (!acc) model.clear();
    for (auto const& kv : counts) model[kv.first] += kv.second;
}
static void sparse_step_check(gil::histogram<int>& hs, counts_t const& model, const std::string& cls, const std::string& what) {
    model_t M; for (auto const& kv : model) if (kv.second) M[karr{{kv.first, 0, 0, 0}}] = kv.second;
    std::string why;
    if (!hist_equals(hs, M, &why)) V("std-seq.sparse-ref." + cls, [&] { return vh::cat(what, " sparse histogram driven through the same steps: ", why); });
}

static void std_sequence_cases() {
    const int rounds = vh::thorough() ? 4 : 1;
    // ---------------- std::vector<int>
    static const char* vinit[] = {"empty", "short", "exact", "longer"};
    for (int rd = 0; rd < rounds; ++rd) for (int init = 0; init < 4; ++init) for (int combo = 0; combo < 16; ++combo) {
        if (!vh::begin_case(std::string("std-seq.vector.") + vinit[init], vh::cat("combo=", combo, ",round=", rd))) continue;
        vh::rng r = vh::case_rng();
        std::vector<seq_step> q = make_sequence(combo, r, -1);
        std::vector<int> hv; counts_t model; gil::histogram<int> hs;
        const long first_max = step_max(q[0]);
        if (init == 1) hv.assign(10, 7);
        if (init == 2) { hv.resize(first_max + 1); for (size_t i = 0; i < hv.size(); ++i) hv[i] = (int)(i % 5); }
        if (init == 3) { hv.resize(first_max + 1 + 1000); for (size_t i = 0; i < hv.size(); ++i) hv[i] = (int)(i % 3 + 1); }
        for (size_t i = 0; i < hv.size(); ++i) if (hv[i]) { model[(long)i] = hv[i]; hs((int)i) = hv[i]; }
        std::string hist;
        for (size_t k = 0; k < q.size(); ++k) {
            seq_step st = q[k];
            const long mx = step_max(st);
            const size_t before = hv.size();
            const char* szc = before == 0 ? "empty" : before < (size_t)mx + 1 ? "shorter" : before == (size_t)mx + 1 ? "exact" : "longer";
            const std::string cls = vh::cat(st.acc ? "accumulate" : "replace", ".", szc, ".d", mx == 255 ? 8 : 16);
            hist += (k ? "; " : "") + step_str(st);
            auto what = [&] { return vh::cat("vector<int> initially ", vinit[init], ", steps: ", hist, " (size before this step ", before, ")"); };
            counts_t counts;
            with_view(st, r, counts, [&](auto const& v, auto const& gv) { gil::fill_histogram(v, hv, st.acc); gil::fill_histogram(gv, hs, 1, st.acc); });
            apply_model(model, counts, st.acc);
            vh::evals(1);
            vh::obs("std-seq.vector." + cls);
            if (hv.size() < (size_t)mx + 1) V("std-seq.vector.size." + cls, [&] { return vh::cat(what(), ": size ", hv.size(), " < max+1 = ", mx + 1); });
            bool bad = false;
            for (size_t i = 0; i < hv.size() && !bad; ++i) { auto it = model.find((long)i); long e = it == model.end() ? 0 : it->second; if (hv[i] != e) { bad = true; V("std-seq.vector.bins." + cls, [&] { return vh::cat(what(), ": bin ", i, " = ", hv[i], ", expected ", e); }); } }
            for (auto it = model.begin(); it != model.end() && !bad; ++it) if (it->second && (size_t)it->first >= hv.size()) { bad = true; V("std-seq.vector.lost-bins." + cls, [&] { return vh::cat(what(), ": bin ", it->first, " (count ", it->second, ") is gone, size is now ", hv.size()); }); }
            sparse_step_check(hs, model, "vector." + cls, what());
            // cumulative form of the container as it is now
            { auto cv = gil::cumulative_histogram(hv); long run = 0; bool cbad = cv.size() != hv.size();
              for (size_t i = 0; i < hv.size() && !cbad; ++i) { run += hv[i]; if (cv[i] != run) cbad = true; }
              if (cbad) V("std-seq.vector.cumulative." + cls, [&] { return vh::cat(what(), ": cumulative vector differs from the prefix sums"); }); }
            if (bad) {   // continue the sequence from what the container really holds
                model.clear(); for (size_t i = 0; i < hv.size(); ++i) if (hv[i]) model[(long)i] = hv[i];
                hs.clear(); for (auto const& kv : model) hs((int)kv.first) = (double)kv.second;
            }
        }
        vh::distinct(q.size());
        if (init == 1 && combo == 6 && rd == 0) vh::sample("std sequence: vector<int>(10,7), then " + hist);
    }
    // ---------------- std::map<int,int>
    static const char* minit[] = {"empty", "stale"};
    for (int rd = 0; rd < rounds; ++rd) for (int init = 0; init < 2; ++init) for (int combo = 0; combo < 16; ++combo) {
        if (!vh::begin_case(std::string("std-seq.map.") + minit[init], vh::cat("combo=", combo, ",round=", rd))) continue;
        vh::rng r = vh::case_rng();
        std::vector<seq_step> q = make_sequence(combo, r, -1);
        std::map<int, int> hm; counts_t model; gil::histogram<int> hs;
        if (init == 1) { hm[3] = 5; hm[200] = 2; hm[40000] = 9; hm[70000] = 4; }
        for (auto const& kv : hm) { model[kv.first] = kv.second; hs(kv.first) = kv.second; }
        std::string hist;
        for (size_t k = 0; k < q.size(); ++k) {
            seq_step st = q[k];
            const std::string cls = vh::cat(st.acc ? "accumulate" : "replace", ".", hm.empty() ? "empty" : "filled", ".d", step_max(st) == 255 ? 8 : 16);
            hist += (k ? "; " : "") + step_str(st);
            auto what = [&] { return vh::cat("map<int,int> initially ", minit[init], ", steps: ", hist); };
            counts_t counts;
            with_view(st, r, counts, [&](auto const& v, auto const& gv) { gil::fill_histogram(v, hm, st.acc); gil::fill_histogram(gv, hs, 1, st.acc); });
            apply_model(model, counts, st.acc);
            vh::evals(1);
            vh::obs("std-seq.map." + cls);
            bool bad = false;
            for (auto const& kv : hm) { auto it = model.find(kv.first); long e = it == model.end() ? 0 : it->second; if (kv.second != e) { bad = true; V("std-seq.map.bins." + cls, [&] { return vh::cat(what(), ": bin ", kv.first, " = ", kv.second, ", expected ", e); }); break; } }
            for (auto it = model.begin(); it != model.end() && !bad; ++it) if (it->second && !hm.count((int)it->first)) { bad = true; V("std-seq.map.lost-bins." + cls, [&] { return vh::cat(what(), ": bin ", it->first, " (count ", it->second, ") is gone"); }); }
            sparse_step_check(hs, model, "map." + cls, what());
            { auto cm = gil::cumulative_histogram(hm); long run = 0; bool cbad = cm.size() != hm.size();
              for (auto const& kv : hm) { run += kv.second; auto it = cm.find(kv.first); if (it == cm.end() || it->second != run) cbad = true; }
              if (cbad) V("std-seq.map.cumulative." + cls, [&] { return vh::cat(what(), ": cumulative map differs from the prefix sums"); }); }
            if (bad) { model.clear(); for (auto const& kv : hm) if (kv.second) model[kv.first] = kv.second; hs.clear(); for (auto const& kv : model) hs((int)kv.first) = (double)kv.second; }
        }
        vh::distinct(q.size());
    }
    // ---------------- std::array<int, max+1> (one depth per array: other sizes rescale the bins, which C19 does not state)
    static const char* ainit[] = {"zero", "stale"};
    for (int rd = 0; rd < rounds; ++rd) for (int deep = 0; deep < 2; ++deep) for (int init = 0; init < 2; ++init) for (int combo = 0; combo < 16; combo += 2) {
        if (!vh::begin_case(vh::cat("std-seq.array", deep ? 65536 : 256, ".", ainit[init]), vh::cat("combo=", combo, ",round=", rd))) continue;
        vh::rng r = vh::case_rng();
        std::vector<seq_step> q = make_sequence(combo, r, deep);
        counts_t model; std::string hist;
        std::unique_ptr<std::array<int, 256>> a8(new std::array<int, 256>); std::unique_ptr<std::array<int, 65536>> a16(new std::array<int, 65536>);
        a8->fill(0); a16->fill(0);
        const size_t NB = deep ? 65536 : 256;
        auto at = [&](size_t i) -> int& { return deep ? (*a16)[i] : (*a8)[i]; };
        if (init == 1) for (size_t i = 0; i < NB; ++i) { at(i) = (int)(i % 4); if (at(i)) model[(long)i] = at(i); }
        for (size_t k = 0; k < q.size(); ++k) {
            seq_step st = q[k];
            const std::string cls = vh::cat(st.acc ? "accumulate" : "replace", ".d", deep ? 16 : 8);
            hist += (k ? "; " : "") + step_str(st);
            auto what = [&] { return vh::cat("array<int,", NB, "> initially ", ainit[init], ", steps: ", hist); };
            counts_t counts;
            with_view(st, r, counts, [&](auto const& v, auto const&) { if (deep) gil::fill_histogram(v, *a16, st.acc); else gil::fill_histogram(v, *a8, st.acc); });
            apply_model(model, counts, st.acc);
            vh::evals(1);
            vh::obs("std-seq.array." + cls);
            bool bad = false;
            for (size_t i = 0; i < NB && !bad; ++i) { auto it = model.find((long)i); long e = it == model.end() ? 0 : it->second; if (at(i) != e) { bad = true; V("std-seq.array.bins." + cls, [&] { return vh::cat(what(), ": bin ", i, " = ", at(i), ", expected ", e); }); } }
            bool cbad = false; long run = 0;
            if (deep) { std::unique_ptr<std::array<int, 65536>> c(new std::array<int, 65536>(gil::cumulative_histogram(*a16))); for (size_t i = 0; i < NB && !cbad; ++i) { run += at(i); if ((*c)[i] != run) cbad = true; } }
            else { auto c = gil::cumulative_histogram(*a8); for (size_t i = 0; i < NB && !cbad; ++i) { run += at(i); if (c[i] != run) cbad = true; } }
            if (cbad) V("std-seq.array.cumulative." + cls, [&] { return vh::cat(what(), ": cumulative array differs from the prefix sums"); });
            if (bad) { model.clear(); for (size_t i = 0; i < NB; ++i) if (at(i)) model[(long)i] = at(i); }
        }
        vh::distinct(q.size());
    }
}

// ---- the source view is read-only for every fill entry point; repetition is exact ---------------------------------
// For every pixel organisation (interleaved and planar; mutable view and const_view), every bin width, with masks and
// limits: all pixels of the whole underlying image are compared before/after each call
// (key source-modified.<type>.<entry>), and filling twice from the same view gives exactly twice the single-fill bins
// with accumulation and the same bins without (key repeat.*): a filler that scales the pixels in place fails both.
template <class Img> struct psrc {
    typedef typename Img::value_type P;
    typedef typename gil::channel_type<P>::type ch_t;
    static const int N = gil::num_channels<P>::value;
    Img img; int w = 0, h = 0, W = 0, H = 0;
    std::vector<long> all;    // the harness's own copy of every channel of the whole image
    void make(int w_, int h_, vh::rng& r, long bw) {
        w = w_; h = h_; W = w + 2; H = h + 2;
        img.recreate(W, H);
        const long cmin = (long)std::numeric_limits<ch_t>::min(), cmax = (long)std::numeric_limits<ch_t>::max();
        long lo[4], hi[4];
        for (int c = 0; c < N; ++c) {
            long span = std::min<long>(cmax - cmin, r.range(1, (int)(3 * bw + 2)));
            long base = r.coin() ? cmax - span : cmin < 0 ? std::max(cmin, -span / 2 - 1) : (long)r.below((uint64_t)(cmax - span + 1));
            lo[c] = base; hi[c] = base + span;
        }
        all.assign((size_t)W * H * N, 0);
        auto v = gil::view(img);
        for (int y = 0; y < H; ++y) for (int x = 0; x < W; ++x) for (int c = 0; c < N; ++c) {
            long val = lo[c] + (long)r.below((uint64_t)(hi[c] - lo[c] + 1));
            all[((size_t)y * W + x) * N + c] = val; v(x, y)[c] = (ch_t)val;
        }
    }
    typename Img::view_t view() { return gil::subimage_view(gil::view(img), 1, 1, w, h); }
    typename Img::const_view_t cview() { return gil::subimage_view(gil::const_view(img), 1, 1, w, h); }
    long at(int x, int y, int c) const { return all[((size_t)(y + 1) * W + (x + 1)) * N + c]; }
    // compares the whole image with the copy; restores it when it differs
    bool unchanged(std::string* where) {
        auto v = gil::view(img);
        bool ok = true;
        for (int y = 0; y < H; ++y) for (int x = 0; x < W; ++x) for (int c = 0; c < N; ++c) {
            long expect = all[((size_t)y * W + x) * N + c];
            if ((long)v(x, y)[c] != expect) {
                if (ok && where) *where = vh::cat("pixel (", x - 1, ",", y - 1, ") channel ", c, " was ", expect, ", is now ", (long)v(x, y)[c]);
                ok = false; v(x, y)[c] = (ch_t)expect;
            }
        }
        return ok;
    }
};
template <class Img> struct IN;
#define INDEF(I, NAME) template <> struct IN<gil::I> { static const char* name() { return NAME; } };
INDEF(gray8_image_t, "gray8") INDEF(rgb8_image_t, "rgb8") INDEF(rgb16_image_t, "rgb16") INDEF(rgb8_planar_image_t, "rgb8-planar")
INDEF(rgba16_planar_image_t, "rgba16-planar") INDEF(rgb8s_planar_image_t, "rgb8s-planar") INDEF(cmyk8_planar_image_t, "cmyk8-planar")

template <class Img> static void src_check(psrc<Img>& s, const std::string& entry, const std::string& what) {
    std::string where;
    vh::evals(1);
    if (!s.unchanged(&where)) V(vh::cat("source-modified.", IN<Img>::name(), ".", entry), [&] { return vh::cat(what, " entry=", entry, ": the source image changed: ", where); });
}
template <class Hist> static bool same_scaled(Hist const& A, Hist const& B, double k, std::string* why) {   // A == k * B, bin by bin
    for (auto const& kv : A) { auto it = B.find(kv.first); double e = it == B.end() ? 0 : it->second * k; if (kv.second != e) { *why = vh::cat("bin ", kstr(key_arr(kv.first), (int)Hist::dimension()), " holds ", kv.second, ", expected ", e); return false; } }
    for (auto const& kv : B) if (kv.second && A.find(kv.first) == A.end()) { *why = vh::cat("bin ", kstr(key_arr(kv.first), (int)Hist::dimension()), " is missing"); return false; }
    return true;
}
template <class Img, class View> static void std_entries(psrc<Img>& s, View const& v, const char* suffix, const std::string& what, std::true_type) {
    typedef typename psrc<Img>::ch_t ch_t;
    const std::string tn = IN<Img>::name();
    { std::vector<int> a, b; gil::fill_histogram(v, a); src_check(s, std::string("std-vector") + suffix, what);
      gil::fill_histogram(v, b, true); gil::fill_histogram(v, b, true); src_check(s, std::string("std-vector-accumulate") + suffix, what);
      bool bad = a.size() != b.size(); for (size_t i = 0; !bad && i < a.size(); ++i) if (b[i] != 2 * a[i]) bad = true;
      if (bad) V("repeat.accumulate-twice." + tn + ".std-vector" + suffix, [&] { return what + ": two accumulating vector fills are not twice one fill"; }); }
    { std::map<int, int> a, b; gil::fill_histogram(v, a); src_check(s, std::string("std-map") + suffix, what);
      gil::fill_histogram(v, b, true); gil::fill_histogram(v, b, true); src_check(s, std::string("std-map-accumulate") + suffix, what);
      bool bad = a.size() != b.size(); for (auto const& kv : a) if (!b.count(kv.first) || b[kv.first] != 2 * kv.second) bad = true;
      if (bad) V("repeat.accumulate-twice." + tn + ".std-map" + suffix, [&] { return what + ": two accumulating map fills are not twice one fill"; }); }
    { typedef std::array<int, (std::size_t)std::numeric_limits<ch_t>::max() + 1> arr_t;
      std::unique_ptr<arr_t> a(new arr_t), b(new arr_t); a->fill(0); b->fill(0);
      gil::fill_histogram(v, *a); src_check(s, std::string("std-array") + suffix, what);
      gil::fill_histogram(v, *b, true); gil::fill_histogram(v, *b, true); src_check(s, std::string("std-array-accumulate") + suffix, what);
      bool bad = false; for (size_t i = 0; !bad && i < a->size(); ++i) if ((*b)[i] != 2 * (*a)[i]) bad = true;
      if (bad) V("repeat.accumulate-twice." + tn + ".std-array" + suffix, [&] { return what + ": two accumulating array fills are not twice one fill"; }); }
}
template <class Img, class View> static void std_entries(psrc<Img>&, View const&, const char*, const std::string&, std::false_type) {}
template <class Hist, class View> static void dims_entry(View const& v, Hist& h, long bw, std::true_type) { gil::fill_histogram<1>(v, h, (std::size_t)bw); }
template <class Hist, class View> static void dims_entry(View const&, Hist&, long, std::false_type) {}

template <class Img, class View> static void source_entries(psrc<Img>& s, View const& v, const char* suffix, long bw, vh::rng& r) {
    typedef psrc<Img> S;
    const int N = S::N;
    typedef typename full_hist<N>::type H;
    typedef typename H::key_type key_t;
    const std::string tn = IN<Img>::name();
    const std::string what = vh::cat(tn, " ", s.w, "x", s.h, " bin_width=", bw, suffix[0] ? " const_view" : " mutable view");
    // mask and limit box on the keys
    std::vector<std::vector<bool>> mask(s.h, std::vector<bool>(s.w));
    for (int y = 0; y < s.h; ++y) for (int x = 0; x < s.w; ++x) mask[y][x] = r.below(4) != 0;
    karr lo{{0, 0, 0, 0}}, hi{{0, 0, 0, 0}};
    for (int c = 0; c < N; ++c) {
        long kmin = 0, kmax = 0; bool first = true;
        for (int y = 0; y < s.h; ++y) for (int x = 0; x < s.w; ++x) { long k = div_trunc(s.at(x, y, c), bw); if (first || k < kmin) kmin = k; if (first || k > kmax) kmax = k; first = false; }
        lo[c] = kmin + r.range(0, 1); hi[c] = std::max(lo[c], kmax - r.range(0, 1));
    }
    const key_t lower = make_key<key_t>(lo), upper = make_key<key_t>(hi);
    for (int variant = 0; variant < 4; ++variant) {
        const bool um = variant & 1, ul = variant & 2;
        const std::string vs = vh::cat(um ? "+mask" : "", ul ? "+limits" : "");
        // the loop model over the harness's own copy
        model_t M;
        for (int y = 0; y < s.h; ++y) for (int x = 0; x < s.w; ++x) {
            if (um && !mask[y][x]) continue;
            karr k{{0, 0, 0, 0}}; bool in = true;
            for (int c = 0; c < N; ++c) { k[c] = div_trunc(s.at(x, y, c), bw); if (ul && (k[c] < lo[c] || k[c] > hi[c])) in = false; }
            if (in) ++M[k];
        }
        std::string why;
        // (1) histogram::fill member: one call, then a second one (the member always adds)
        { H h1; h1.template fill<>(v, (std::size_t)bw, um, mask, lower, upper, ul); src_check(s, std::string("fill") + suffix, what + vs);
          if (!hist_equals(h1, M, &why)) V("repeat.single." + tn + ".fill" + suffix, [&] { return vh::cat(what, vs, " histogram::fill: ", why); });
          H h2 = h1; h2.template fill<>(v, (std::size_t)bw, um, mask, lower, upper, ul); src_check(s, std::string("fill-again") + suffix, what + vs);
          if (!same_scaled(h2, h1, 2, &why)) V("repeat.accumulate-twice." + tn + ".fill" + suffix, [&] { return vh::cat(what, vs, " histogram::fill twice is not twice one fill: ", why); }); }
        // (2) fill_histogram: replace, replace again, accumulate twice
        { H h1; gil::fill_histogram(v, h1, (std::size_t)bw, false, true, um, mask, lower, upper, ul); src_check(s, std::string("fill_histogram") + suffix, what + vs);
          if (!hist_equals(h1, M, &why)) V("repeat.single." + tn + ".fill_histogram" + suffix, [&] { return vh::cat(what, vs, " fill_histogram: ", why); });
          H h2 = h1; gil::fill_histogram(v, h2, (std::size_t)bw, false, true, um, mask, lower, upper, ul); src_check(s, std::string("fill_histogram-again") + suffix, what + vs);
          if (!same_scaled(h2, h1, 1, &why)) V("repeat.replace-twice." + tn + ".fill_histogram" + suffix, [&] { return vh::cat(what, vs, " fill_histogram without accumulate, twice: ", why); });
          H h3; gil::fill_histogram(v, h3, (std::size_t)bw, true, true, um, mask, lower, upper, ul); gil::fill_histogram(v, h3, (std::size_t)bw, true, true, um, mask, lower, upper, ul);
          src_check(s, std::string("fill_histogram-accumulate") + suffix, what + vs);
          if (!same_scaled(h3, h1, 2, &why)) V("repeat.accumulate-twice." + tn + ".fill_histogram" + suffix, [&] { return vh::cat(what, vs, " fill_histogram with accumulate, twice, is not twice one fill: ", why); }); }
    }
    // (3) selected channel, (4) default-argument call, (5) std containers (unsigned channels)
    { gil::histogram<int> hd, hd2; dims_entry(v, hd, bw, std::integral_constant<bool, (N >= 2)>{}); src_check(s, std::string("fill_histogram-dims") + suffix, what);
      dims_entry(v, hd2, bw, std::integral_constant<bool, (N >= 2)>{}); src_check(s, std::string("fill_histogram-dims-again") + suffix, what); std::string why; if (!same_scaled(hd2, hd, 1, &why)) V("repeat.replace-twice." + tn + ".fill_histogram-dims" + suffix, [&] { return what + " fill_histogram<1>: " + why; }); }
    { H h; gil::fill_histogram(v, h); src_check(s, std::string("fill_histogram-defaults") + suffix, what); }
    std_entries(s, v, suffix, what, std::integral_constant<bool, std::is_unsigned<typename S::ch_t>::value>{});
}

// which: 0 = the mutable view, 1 = const_view (separate binaries: a filler that writes through the pixel it fetched does
// not even compile for a const planar view, and must not take the mutable-view observations down with it)
template <class Img> static void source_entries_sel(psrc<Img>& s, long bw, vh::rng& r, std::integral_constant<int, 0>) { source_entries(s, s.view(), "", bw, r); }
template <class Img> static void source_entries_sel(psrc<Img>& s, long bw, vh::rng& r, std::integral_constant<int, 1>) { source_entries(s, s.cview(), "-const", bw, r); }
template <class Img, int which> static void source_cases() {
    const int S = vh::thorough() ? 5 : 3;
    static const long widths_q[] = {1, 2, 3, 5, 41}, widths_t[] = {1, 2, 3, 4, 5, 7, 8, 16, 41, 100};
    for (int h = 0; h <= S; ++h) for (int w = 0; w <= S; ++w) {
        if (!vh::begin_case(std::string(which ? "source-const." : "source.") + IN<Img>::name(), vh::cat(w, "x", h))) continue;
        vh::rng r = vh::case_rng();
        const long* ws = vh::thorough() ? widths_t : widths_q; const int nw = vh::thorough() ? 10 : 5;
        for (int i = 0; i < nw; ++i) {
            psrc<Img> s; s.make(w, h, r, ws[i]);
            source_entries_sel(s, ws[i], r, std::integral_constant<int, which>{});
            if (w && h) vh::distinct_hash(vh::hash_bytes(s.all.data(), s.all.size() * sizeof(long), vh::hash_str(IN<Img>::name()) + ws[i]));
        }
        vh::obs(std::string(which ? "source-const." : "source.") + IN<Img>::name());
        if (w == 2 && h == 2) vh::sample(vh::cat("source immutability / repetition: ", IN<Img>::name(), " 2x2, bin widths 1,2,3,5,41, mutable view and const_view, fill / fill_histogram / <dims> / std containers, +-mask +-limits"));
    }
}

// ---- bin-width sweep: every channel value (8 bit) / every bin boundary (16 bit) x the whole range of widths --------
// The bin of a value is value / width (C++ integer division); an implementation that goes through floating point,
// shifts, reciprocal multiplication ... differs only for particular (value, width) pairs near bin boundaries.
static std::vector<long> sweep_widths(bool sixteen) {
    std::vector<long> v;
    if (!sixteen || vh::thorough()) for (long b = 1; b <= 256; ++b) v.push_back(b);
    else {
        for (long b = 1; b <= 48; ++b) v.push_back(b);
        for (long b = 49; b <= 256; ++b) { bool prime = true; for (long d = 2; d * d <= b; ++d) if (b % d == 0) prime = false; if (prime || b % 41 == 0 || b % 25 == 0 || (b & (b - 1)) == 0 || b == 255) v.push_back(b); }
    }
    if (sixteen) {
        const long big[] = {257, 1000, 4096, 10000, 32767, 32768, 65535};
        for (long b : big) v.push_back(b);
        if (vh::thorough()) { vh::rng r(vh::mix(vh::seed(), 0xB1D)); for (int i = 0; i < 300; ++i) v.push_back(r.range(258, 65535)); }
    }
    return v;
}
template <class P> static void binning_cases() {
    typedef typename gil::channel_type<P>::type ch_t;
    const int N = gil::num_channels<P>::value;
    typedef typename full_hist<N>::type H;
    const long cmin = (long)std::numeric_limits<ch_t>::min(), cmax = (long)std::numeric_limits<ch_t>::max();
    const bool sixteen = sizeof(ch_t) == 2, is_signed = std::numeric_limits<ch_t>::is_signed;
    const long range = cmax - cmin + 1;
    for (long bw : sweep_widths(sixteen)) {
        if (!vh::begin_case(std::string("binning.") + PT<P>::name(), vh::cat("bw=", bw))) continue;
        vh::rng r = vh::case_rng();
        // channel-0 values: all of them (8 bit), or every bin boundary k*bw-1, k*bw, k*bw+1 on both sides of zero (16 bit)
        std::vector<long> v0;
        if (!sixteen) for (long x = cmin; x <= cmax; ++x) v0.push_back(x);
        else {
            for (long k = cmin / bw - 1; k <= cmax / bw + 1; ++k) for (long d = -1; d <= 1; ++d) { long x = k * bw + d; if (x >= cmin && x <= cmax) v0.push_back(x); }
            v0.push_back(cmin); v0.push_back(cmax); v0.push_back(0);
            std::sort(v0.begin(), v0.end()); v0.erase(std::unique(v0.begin(), v0.end()), v0.end());
        }
        // the other channels run through the same values in another order
        std::vector<karr> px(v0.size());
        for (size_t i = 0; i < v0.size(); ++i) {
            px[i] = karr{{v0[i], 0, 0, 0}};
            for (int c = 1; c < N; ++c) px[i][c] = v0[(i * (c == 1 ? 37 : 101) + 11 * c) % v0.size()];
        }
        content<P> prior, c;
        auto wd = content<P>::make_windows(r, is_signed ? 1 : 0, bw);
        prior.make(3, 2, r, wd);
        c.make_values(px, bw);
        for (int vv = 0; vv < 16; ++vv) {
            variant vr{bool(vv & 1), bool(vv & 2), bool(vv & 4), bool(vv & 8)};
            fill_experiment<P, H>(prior, c, bw, is_signed ? 1 : 0, vr, r, "full", (vv == 0 || vv == 6) && px.size() <= 1024);   // post-operations are quadratic in the bins
        }
        vh::obs(vh::cat("binning.", sixteen ? "16bit" : "8bit", is_signed ? ".signed" : ".unsigned", bw >= 41 ? ".bw>=41" : ".bw<41"));
        (void)range;
        if (bw == 41) vh::sample(vh::cat("binning sweep: ", PT<P>::name(), " bin_width=41, ", px.size(), " pixels holding ", sixteen ? "every bin boundary k*41-1,k*41,k*41+1" : "every channel value", ", 16 mask/limit/accumulate/dense variants"));
    }
}

int main(int argc, char** argv) {
    vh::init(argc, argv);
#if C19_PART == 0
    type_cases<gil::gray8_pixel_t>();
    type_cases<gil::gray8s_pixel_t>();
    type_cases<gil::gray16_pixel_t>();
    type_cases<gil::gray16s_pixel_t>();
#elif C19_PART == 1
    type_cases<gil::dev2n8_pixel_t>();
    type_cases<gil::rgb8_pixel_t>();
#elif C19_PART == 2
    type_cases<gil::rgb8s_pixel_t>();
    type_cases<gil::rgb16_pixel_t>();
#elif C19_PART == 3
    type_cases<gil::rgba8_pixel_t>();
    type_cases<gil::cmyk16s_pixel_t>();
#elif C19_PART == 4
    std_cases<gil::gray8_pixel_t>();
    std_cases<gil::rgb8_pixel_t>();
    std_cases<gil::gray16_pixel_t>();
    std_cases<gil::rgb16_pixel_t>();
#elif C19_PART == 5
    binning_cases<gil::gray8_pixel_t>();
    binning_cases<gil::gray8s_pixel_t>();
    binning_cases<gil::rgb8_pixel_t>();
    binning_cases<gil::rgb8s_pixel_t>();
#elif C19_PART == 6
    binning_cases<gil::gray16_pixel_t>();
    binning_cases<gil::gray16s_pixel_t>();
#elif C19_PART == 7
    std_sequence_cases();
#elif C19_PART == 8 || C19_PART == 10
    source_cases<gil::gray8_image_t, (C19_PART >= 10)>();
    source_cases<gil::rgb8_image_t, (C19_PART >= 10)>();
    source_cases<gil::rgb8_planar_image_t, (C19_PART >= 10)>();
    source_cases<gil::rgb8s_planar_image_t, (C19_PART >= 10)>();
#elif C19_PART == 9 || C19_PART == 11
    source_cases<gil::rgb16_image_t, (C19_PART >= 10)>();
    source_cases<gil::rgba16_planar_image_t, (C19_PART >= 10)>();
    source_cases<gil::cmyk8_planar_image_t, (C19_PART >= 10)>();
#elif C19_PART == 12
    // instantiation probe: filling from a const planar view must compile
    { gil::rgb8_planar_image_t img(2, 2, gil::rgb8_pixel_t(9, 8, 7)); gil::histogram<int, int, int> h; gil::fill_histogram(gil::const_view(img), h, 2); gil::histogram<int> h1; gil::fill_histogram<1>(gil::const_view(img), h1, 3); (void)h.sum(); }
#endif
    return vh::finish();
}
