// C11 -- reading ANY byte sequence as BMP / PNM / TARGA / PNG / JPEG / TIFF terminates safely.
//
// One binary per format (-DC11_FMT=0..5).  A *case* is one byte sequence (seed file x mutation); inside
// a case the bytes are presented to every reader entry point (read_image_info, read_image in every
// native type, read_image with a sub-rectangle, read_view into an arena, read_and_convert_image /
// _view, scanline_read_iterator, any_image) through every device (instrumented FILE*, file name,
// instrumented std::istream).  Each call runs twice with different stack / heap pre-fill; the two
// outcome digests must agree (uninitialised-data differential).  Accepted outcomes: return,
// std::ios_base::failure, any other std::exception, bad_alloc from the 256 MiB cap.  Refuted by:
// sanitizer report / libstdc++ assertion / signal (fatal, classified by the driver), non-std
// exception, bytes changed outside the destination view, digest mismatch, step-budget overrun.
#include "common/c11_io.hpp"
#include <boost/gil.hpp>
#include <boost/gil/extension/dynamic_image/any_image.hpp>
#include <tuple>
#include <algorithm>
#include <functional>
#include <time.h>

#ifndef C11_FMT
#define C11_FMT 0
#endif
#if C11_FMT == 0
#include <boost/gil/extension/io/bmp.hpp>
#elif C11_FMT == 1
#include <boost/gil/extension/io/pnm.hpp>
#elif C11_FMT == 2
#include <boost/gil/extension/io/targa.hpp>
#elif C11_FMT == 3
#include <boost/gil/extension/io/png.hpp>
#include <zlib.h>
#elif C11_FMT == 4
#include <boost/gil/extension/io/jpeg.hpp>
#elif C11_FMT == 5
#include <boost/gil/extension/io/tiff.hpp>
#include <tiffio.h>
#endif

#if C11_FMT == 5
#define C11_HAS_FILE 0      // GIL has no FILE* device for TIFF
#else
#define C11_HAS_FILE 1
#endif
namespace gil = boost::gil;
using c11::outcome;

// =====================================================================================================
// generic engine
enum dev_kind { D_FILE = 0, D_NAME = 1, D_ISTREAM = 2 };
static const char* DEV_NAME[] = { "FILEptr", "filename", "istream" };

struct seed_t {
    std::string name;       // stable name used in case ids
    std::string variant;    // pixel organisation class
    std::string bytes;
    int kind = 0;           // format-specific: which native type reads it
    bool rep = false;       // representative of its variant (used for the expensive enumerations in quick)
    bool sparse = false;    // truncation at head + strided points only even when small (seeds whose every truncation dies at an open finding)
};

struct input_t {
    const char* fmt;
    const char* ext;
    std::string const* bytes;
    uint64_t declared = 0;          // declared pixels (+ palette entries) by the harness's own header parse
    long dw = 0, dh = 0;            // declared dimensions (0 when not parseable / absurd)
    bool truncated_valid = false;   // a strict prefix of a valid file
    size_t fixed_hdr = 0;           // bytes that the format's decoder reads as fixed-size fields before anything else (0: unknown)
};

struct pats_t { unsigned char stack, heap; };
static const pats_t PAT_A = { 0x00, 0x00 }, PAT_B = { 0xA5, 0xC3 }, PAT_C = { 0xA5, 0x00 };

template <class View> static uint64_t hash_view_impl(View const& v, std::false_type /*bit aligned*/) {
    uint64_t h = vh::mix((uint64_t)v.width(), (uint64_t)v.height());
    size_t rb = (size_t)v.width() * sizeof(typename View::value_type);
    for (long y = 0; y < (long)v.height(); ++y)
        h = c11::hash_raw(rb ? (const void*)&*v.row_begin(y) : (const void*)"", rb, h);
    return h;
}
template <class View> static uint64_t hash_view_impl(View const& v, std::true_type) {
    uint64_t h = vh::mix((uint64_t)v.width(), (uint64_t)v.height());
    for (long y = 0; y < (long)v.height(); ++y) {
        auto it = v.row_begin(y);
        uint64_t acc = 0; int n = 0;
        for (long x = 0; x < (long)v.width(); ++x, ++it) {
            acc = (acc << 8) | (uint64_t)(unsigned)gil::at_c<0>(*it);
            if (++n == 8) { h = vh::mix(h, acc); acc = 0; n = 0; }
        }
        h = vh::mix(h, acc + n);
    }
    return h;
}
template <class View> static uint64_t hash_view(View const& v) {
    return hash_view_impl(v, typename gil::is_bit_aligned<typename View::value_type>::type());
}

// ---- every member of an info / backend struct goes into the outcome digest --------------------------
// (a field completed from bytes that the device never delivered must show up in the pre-fill differential and
// in the comparison between devices, whichever field it is)
struct dumper {
    std::ostringstream os;
    dumper() { os.precision(17); }
    template <class T> typename std::enable_if<std::is_arithmetic<T>::value || std::is_enum<T>::value, dumper&>::type
    f(const char* n, T v) { os << n << '=' << +v << ' '; return *this; }
    dumper& f(const char* n, std::string const& v) { os << n << "=s" << v.size() << ':' << std::hex << vh::hash_str(v) << std::dec << ' '; return *this; }
    dumper& raw(const char* n, const void* p, size_t bytes, size_t count) {
        os << n << "=v" << count << ':' << std::hex << c11::hash_raw(bytes ? p : (const void*)"", bytes, 7) << std::dec << ' '; return *this;
    }
    template <class T> typename std::enable_if<std::is_trivially_copyable<T>::value, dumper&>::type
    f(const char* n, std::vector<T> const& v) { return raw(n, v.data(), v.size() * sizeof(T), v.size()); }
    dumper& f(const char* n, std::vector<std::string> const& v) { os << n << "=v" << v.size() << ' '; for (auto const& x : v) f("", x); return *this; }
    std::string str() const { return os.str(); }
};
// what every reader backend / scanline reader exposes besides _info
template <class Backend> static std::string backend_common(Backend const& be) {
    dumper d;
    d.f("sl", (uint64_t)be._scanline_length).f("tlx", (long long)be._settings._top_left.x).f("tly", (long long)be._settings._top_left.y)
     .f("dx", (long long)be._settings._dim.x).f("dy", (long long)be._settings._dim.y);
    return d.str();
}

// breadcrumb for fatal reports: which device / entry point was running (printed by the death callback)
static const char* g_at_dev = "-"; static const char* g_at_entry = "-"; static int g_at_run = 0;
#ifdef VH_HAVE_SANITIZER
static void c11_on_death() {
    printf("@@AT device=%s entry=%s run=%d\n", g_at_dev, g_at_entry, g_at_run);
    vh::on_death();
}
#endif
// Pixels the READER itself reports for this input (read_image_info), for inputs whose header the harness's own
// parser cannot interpret (noise that happens to parse): work proportional to the declared size is allowed.
static uint64_t g_info_declared = 0;
static inline uint64_t budget_pixels(uint64_t harness_declared) { return harness_declared > g_info_declared ? harness_declared : g_info_declared; }
// one reader call through one device with one pre-fill
template <class Fn>
static outcome run_once(input_t const& in, dev_kind d, const char* entry, pats_t p, Fn&& fn) {
    outcome o;
    c11::alloc_state_t& as = c11::alloc_state();
    as.fill = p.heap; as.cap_hits = 0;
    g_at_dev = DEV_NAME[d]; g_at_entry = entry; g_at_run = p.stack == PAT_A.stack ? 1 : 2;
    try {
        switch (d) {
        case D_ISTREAM: {
            c11::in_streambuf sb(*in.bytes, o.ops);
            std::istream is(&sb);
            c11::arm_budget(&o.ops, in.fmt, DEV_NAME[d], entry, in.bytes->size(), budget_pixels(in.declared));
            c11::prefill_stack(p.stack);
            fn(is, o);
            break;
        }
#if C11_HAS_FILE
        case D_FILE: {
            static c11::cookie_t ck;       // static: a FILE* that the reader failed to close must not dangle
            ck = c11::cookie_t(); ck.bytes = in.bytes; ck.st = &o.ops;
            FILE* f = c11::open_cookie(&ck);
            c11::arm_budget(&o.ops, in.fmt, DEV_NAME[d], entry, in.bytes->size(), budget_pixels(in.declared));
            c11::prefill_stack(p.stack);
            fn(f, o);
            break;
        }
#endif
        case D_NAME: {
            c11::scratch_file sf(*in.bytes, in.ext);
            std::string path = sf.path;
            // the real file is read through stdio: countable at the wrapped getc/fread (same budget)
            c11::arm_budget(&o.ops, in.fmt, DEV_NAME[d], entry, in.bytes->size(), budget_pixels(in.declared));
            c11::prefill_stack(p.stack);
            fn(path, o);
            break;
        }
        }
        o.cls = c11::OC_OK;
    } catch (std::ios_base::failure const& e) {
        o.cls = c11::OC_IOS_FAILURE; o.exc_type = "std::ios_base::failure"; o.what = e.what();
    } catch (std::bad_alloc const& e) {
        o.cls = as.cap_hits ? c11::OC_ALLOC_CAP : c11::OC_BAD_ALLOC; o.exc_type = typeid(e).name(); o.what = e.what();
    } catch (std::exception const& e) {
        o.cls = as.cap_hits ? c11::OC_ALLOC_CAP : c11::OC_OTHER_EXCEPTION; o.exc_type = typeid(e).name(); o.what = e.what();
    } catch (...) {
        o.cls = c11::OC_NON_STD; o.exc_type = "?";
    }
    c11::disarm_budget();
    as.fill = -1;
    if (o.cls != c11::OC_OK) { o.w = o.h = -1; o.pix = 0; o.rows = -1; o.info.clear(); }
    return o;
}

static std::string g_fmt;        // "bmp", ...
static bool g_strict_fields = false;   // the format's decoder is GIL's own and reads its header/packets as fixed-size fields
static std::string g_cls_tail;   // mutation class of the current case without the format ("truncate", "field.width" ...)

// run one entry through one device: differential pair (+ attribution run), verdicts, accounting
template <class Fn>
static outcome run_entry(input_t const& in, dev_kind d, const char* entry, Fn&& fn) {
    outcome a = run_once(in, d, entry, PAT_A, fn);
    outcome b = run_once(in, d, entry, PAT_B, fn);
    vh::evals(2);
    std::string where = vh::cat(g_fmt, ".", DEV_NAME[d], ".", entry);
    for (outcome const* o : { &a, &b }) {
        if (o->cls == c11::OC_NON_STD) vh::viol("non-std-exception." + where, vh::cat("a non-std exception escaped; input ", in.bytes->size(), " bytes"));
        if (o->arena_dirty) vh::viol("write-outside-view." + where, o->arena_detail);
    }
    if (a.digest() != b.digest()) {
        outcome c = run_once(in, d, entry, PAT_C, fn);      // stack of B, heap of A
        vh::evals(1);
        bool stack_dep = c.digest() != a.digest();
        vh::viol((stack_dep ? "uninit-differential." : "uninit-heap-differential.") + where,
                 vh::cat("same ", in.bytes->size(), "-byte input, outcome depends on the ", stack_dep ? "stack" : "heap",
                         " contents before the call: [", a.str(), "] vs [", b.str(), "]"));
    }
    // a fixed-size field (a read of <= 8 bytes) that the device could not deliver completely must end in an exception:
    // whatever completes it (stack garbage, the previous field's bytes left in the same buffer) is not file data.
    // Independent of what the leftover bytes happen to be, so it also holds where the differential is blind.
    // Judged where every device read is such a field: read_image_info, and any entry point when the input ends inside
    // the fixed part of the header (pixel rows of <= 8 bytes are bulk reads; a reader that tolerates a short row is
    // counted under ok-on-truncated, not alarmed).
    bool all_fields = strcmp(entry, "info") == 0 || in.bytes->size() < in.fixed_hdr;
    if (g_strict_fields && all_fields && a.cls == c11::OC_OK && a.ops.short_small > 0)
        vh::viol("short-field-read-accepted." + where,
                 vh::cat("a read of <= 8 bytes came back short (", a.ops.short_small, " such reads; input ", in.bytes->size(),
                         " bytes) and the reader returned normally: [", a.str(), "]"));
    if (g_strict_fields && all_fields && a.ops.short_small > 0) vh::obs("short-field-read.judged");
    vh::count(vh::cat("outcome.", c11::oc_name(a.cls)));
    vh::obs(vh::cat("outcome.", c11::oc_name(a.cls)));
    vh::obs(vh::cat("entry.", entry));
    vh::obs(vh::cat("device.", DEV_NAME[d]));
    if (a.cls == c11::OC_OTHER_EXCEPTION) vh::obs("exception." + a.exc_type);
    if (in.truncated_valid && a.cls == c11::OC_OK && a.w > 0 && a.h > 0 && strcmp(entry, "info") != 0)
        vh::count(vh::cat("ok-on-truncated.", DEV_NAME[d]));
    return a;
}

// ---- entry points, generic over the format traits F ------------------------------------------------
template <class F, class Img> struct native_name;

template <class F, class Img, class Src> static void do_read_image(Src& s, outcome& o) {
    Img img;
    gil::read_image(s, img, typename F::tag());
    o.w = (long)img.width(); o.h = (long)img.height(); o.pix = hash_view(gil::const_view(img));
}
template <class F, class Img, class Src> static void do_read_image_sub(Src& s, outcome& o, long x0, long y0, long dx, long dy) {
    Img img;
    gil::image_read_settings<typename F::tag> st(gil::point_t(x0, y0), gil::point_t(dx, dy));
    gil::read_image(s, img, st);
    o.w = (long)img.width(); o.h = (long)img.height(); o.pix = hash_view(gil::const_view(img));
}
template <class F, class Img, class Src> static void do_convert_image(Src& s, outcome& o) {
    Img img;
    gil::read_and_convert_image(s, img, typename F::tag());
    o.w = (long)img.width(); o.h = (long)img.height(); o.pix = hash_view(gil::const_view(img));
}
template <class F, class Src, class V> static void view_call(Src& s, V const& v, std::true_type) { gil::read_and_convert_view(s, v, typename F::tag()); }
template <class F, class Src, class V> static void view_call(Src& s, V const& v, std::false_type) { gil::read_view(s, v, typename F::tag()); }
// read_view / read_and_convert_view into a view carved out of an arena
template <class F, class Img, bool Convert, class Src> static void do_view(Src& s, outcome& o, long w, long h, uint64_t seed) {
    typedef typename Img::value_type pixel_t;
    c11::arena ar(w, h, sizeof(pixel_t), seed);
    auto v = gil::interleaved_view((std::ptrdiff_t)w, (std::ptrdiff_t)h, (pixel_t*)ar.origin(), (std::ptrdiff_t)ar.stride);
    struct check_t {      // the outside of the view is checked whatever the outcome
        c11::arena& ar; outcome& o;
        ~check_t() { long i = ar.outside_diff(); if (i >= 0) { o.arena_dirty = true; o.arena_detail = ar.describe(i); } }
    } chk{ ar, o };
    view_call<F>(s, v, std::integral_constant<bool, Convert>());
    o.w = w; o.h = h; o.pix = hash_view(v);
}

static const long SCAN_ROWS = 70000;
// scanline reader over each device kind
template <class F> struct scan {
    typedef typename F::tag tag;
    template <class Reader> static void drain(Reader& rd, outcome& o) {
        long rows = 0; uint64_t h = 0;
        auto it = rd.begin(); auto end = rd.end();
        size_t sl = rd._scanline_length;
        // the caller decides how many rows it pulls: at most SCAN_ROWS (the declared height is not capped by
        // any allocation here, and every row costs a device round trip)
        // ... and at most ~4 Mi scanline bytes in total: a legitimately huge declared row must not turn the monitor
        // into minutes of work per case (time proportional to the declared size is what the property allows)
        const long max_rows = std::max<long>(2, std::min<long>(SCAN_ROWS, (long)((4u << 20) / (sl ? sl : 1))));
        for (; it != end && rows < max_rows; ++it) {
            gil::byte_t* row = *it;
            h = c11::hash_raw(row, sl, h);
            ++rows;
        }
        o.rows = rows; o.pix = h;
        o.info = F::info_str(rd._info) + " | " + backend_common(rd) + F::backend_extra(rd);
    }
    static void go(std::istream& is, outcome& o) {
        typedef gil::detail::istream_device<tag> dev_t;
        dev_t dev(is);
        gil::scanline_reader<dev_t, tag> rd(dev, gil::image_read_settings<tag>());
        drain(rd, o);
    }
    static void go(FILE*& f, outcome& o) {
        typedef gil::detail::file_stream_device<tag> dev_t;
        dev_t dev(f);
        gil::scanline_reader<dev_t, tag> rd(dev, gil::image_read_settings<tag>());
        drain(rd, o);
    }
    static void go(std::string& path, outcome& o) {
        auto rd = gil::make_scanline_reader(path, tag());
        drain(rd, o);
    }
};

struct any_hash_fn {
    typedef uint64_t result_type;
    template <class V> uint64_t operator()(V const& v) const { return hash_view(v); }
};

// loops over the tuple of native image types
template <class F, class Tuple, size_t I = 0, bool End = (I == std::tuple_size<Tuple>::value)> struct natives_loop {
    typedef typename std::tuple_element<I, Tuple>::type Img;
    static void read_image(input_t const& in, dev_kind d) {
        run_entry(in, d, "read_image", [&](auto& s, outcome& o) { do_read_image<F, Img>(s, o); });
        natives_loop<F, Tuple, I + 1>::read_image(in, d);
    }
    static void read_sub(input_t const& in, dev_kind d, long x0, long y0, long dx, long dy) {
        run_entry(in, d, "read_image-subrect", [&](auto& s, outcome& o) { do_read_image_sub<F, Img>(s, o, x0, y0, dx, dy); });
        natives_loop<F, Tuple, I + 1>::read_sub(in, d, x0, y0, dx, dy);
    }
    static void read_view(input_t const& in, dev_kind d, long w, long h, uint64_t seed, std::false_type) {
        run_entry(in, d, "read_view", [&](auto& s, outcome& o) { do_view<F, Img, false>(s, o, w, h, seed); });
    }
    static void read_view(input_t const& in, dev_kind d, long, long, uint64_t, std::true_type) {
        // bit-aligned destination: a view of an image of the declared size (no byte arena for sub-byte pixels)
        run_entry(in, d, "read_view", [&](auto& s, outcome& o) {
            Img img(in.dw > 0 && in.dh > 0 ? in.dw : 4, in.dw > 0 && in.dh > 0 ? in.dh : 4);
            gil::fill_pixels(gil::view(img), typename Img::value_type());
            gil::read_view(s, gil::view(img), typename F::tag());
            o.w = (long)img.width(); o.h = (long)img.height(); o.pix = hash_view(gil::const_view(img));
        });
    }
    static void read_views(input_t const& in, dev_kind d, long w, long h, uint64_t seed) {
        read_view(in, d, w, h, seed + I, typename gil::is_bit_aligned<typename Img::value_type>::type());
        natives_loop<F, Tuple, I + 1>::read_views(in, d, w, h, seed);
    }
};
template <class F, class Tuple, size_t I> struct natives_loop<F, Tuple, I, true> {
    static void read_image(input_t const&, dev_kind) {}
    static void read_sub(input_t const&, dev_kind, long, long, long, long) {}
    static void read_views(input_t const&, dev_kind, long, long, uint64_t) {}
};
template <class F, class Tuple, size_t I = 0, bool End = (I == std::tuple_size<Tuple>::value)> struct conv_loop {
    typedef typename std::tuple_element<I, Tuple>::type Img;
    static void image(input_t const& in, dev_kind d) {
        run_entry(in, d, "convert_image", [&](auto& s, outcome& o) { do_convert_image<F, Img>(s, o); });
        conv_loop<F, Tuple, I + 1>::image(in, d);
    }
};
template <class F, class Tuple, size_t I> struct conv_loop<F, Tuple, I, true> { static void image(input_t const&, dev_kind) {} };

static const long VIEW_PIXEL_CAP = 1 << 20;

// all entry points through one device
// lite: the header declares more than LITE_PIXELS pixels (every call costs time proportional to that):
// only read_image_info, read_image and the scanline reader are run
static const uint64_t LITE_PIXELS = (uint64_t)2 << 20;
template <class F> static void run_device(input_t const& in, dev_kind d, uint64_t salt, bool with_subrect, bool with_scan = true) {
    typedef typename F::tag tag;
    bool lite = budget_pixels(in.declared) > LITE_PIXELS;
    if (lite) vh::obs("mode.lite");
    // (1) read_image_info
    run_entry(in, d, "info", [&](auto& s, outcome& o) {
        auto be = gil::read_image_info(s, tag());
        o.info = F::info_str(be._info) + " | " + backend_common(be) + F::backend_extra(be);
        { long long iw = (long long)be._info._width, ih = (long long)be._info._height;
          if (iw > 0 && ih > 0) { unsigned __int128 pp = (unsigned __int128)iw * (unsigned __int128)ih; uint64_t q = pp > ((unsigned __int128)1 << 40) ? (uint64_t)1 << 40 : (uint64_t)pp; if (q > g_info_declared) g_info_declared = q; } }
    });
    if (F::has_info_all) run_entry(in, d, "info-all", [&](auto& s, outcome& o) { F::info_all(s, o); });
    // (2) read_image in every native type -- except for headers that declare more than 16 Mi pixels: reading such an
    // image is tens of millions of device calls of legitimate work per entry point (time proportional to the
    // declared size, which the property allows); those inputs keep read_image_info and the bounded scanline drain
    if (budget_pixels(in.declared) <= ((uint64_t)16 << 20)) natives_loop<F, typename F::natives>::read_image(in, d);
    else vh::obs("skipped-read_image.declared-over-16Mi-pixels");
    if (!lite) {
        // (4) read_view into an arena of the declared size (4x4 when the header declares nothing usable)
        long vw = 4, vh_ = 4;
        if (in.dw > 0 && in.dh > 0 && in.dw * in.dh <= VIEW_PIXEL_CAP) { vw = in.dw; vh_ = in.dh; }
        natives_loop<F, typename F::natives>::read_views(in, d, vw, vh_, vh::mix(salt, 17));
        // (5) read_and_convert_image, (6) read_and_convert_view
        conv_loop<F, typename F::conv_targets>::image(in, d);
        run_entry(in, d, "convert_view", [&](auto& s, outcome& o) { do_view<F, gil::rgba8_image_t, true>(s, o, vw, vh_, vh::mix(salt, 23)); });
        // a destination view one pixel smaller than declared: whatever happens, nothing outside may change
        if (vw > 1 && vh_ > 1)
            run_entry(in, d, "convert_view-small", [&](auto& s, outcome& o) { do_view<F, gil::rgba8_image_t, true>(s, o, vw - 1, vh_ - 1, vh::mix(salt, 29)); });
    }
    // (7) scanline reader
    if (with_scan) run_entry(in, d, "scanline", [&](auto& s, outcome& o) { scan<F>::go(s, o); });
    if (!lite) {
        // (8) any_image
        run_entry(in, d, "any_image", [&](auto& s, outcome& o) {
            typename F::any_t img;
            gil::read_image(s, img, tag());
            o.w = (long)img.width(); o.h = (long)img.height();
            o.pix = gil::apply_operation(gil::const_view(img), any_hash_fn());
        });
        // (3) read_image of a sub-rectangle inside the declared dimensions (last: on the unchanged tree the
        // BMP RLE and TARGA readers overrun their row buffers here even for valid files)
        if (with_subrect && F::subrect && in.dw >= 2 && in.dh >= 2 && in.dw * in.dh <= VIEW_PIXEL_CAP) {
            long x0 = in.dw / 3, y0 = in.dh / 3, dx = (in.dw - x0 + 1) / 2, dy = (in.dh - y0 + 1) / 2;
            natives_loop<F, typename F::natives>::read_sub(in, d, x0, y0, dx, dy);
        }
    }
}

static int g_devmask = 7;              // --devmask N: 1 istream, 2 FILE*, 4 file name (tooling: exercise one device's counters alone)
// a whole case
template <class F> static void run_input(std::string const& bytes, bool truncated_valid, bool with_filename, bool with_subrect, bool with_scan = true) {
    input_t in;
    in.fmt = F::name(); in.ext = F::ext(); in.bytes = &bytes; in.truncated_valid = truncated_valid;
    long w = 0, h = 0; uint64_t extra = 0;
    if (F::parse_dims(bytes, w, h, extra) && w > 0 && h > 0) {
        in.dw = w; in.dh = h;
        unsigned __int128 p = (unsigned __int128)(uint64_t)w * (uint64_t)h + extra;
        in.declared = p > (unsigned __int128)1 << 40 ? (uint64_t)1 << 40 : (uint64_t)p;
    } else in.declared = extra;
    in.declared += F::declared_slack(bytes);
    in.fixed_hdr = F::fixed_header_len(bytes);
    uint64_t salt = c11::hash_raw(bytes.data(), bytes.size(), 1);
    c11::arm_cpu_net(200);
    g_info_declared = 0;
    // the std::istream device first: its counters have seen every kind of spin since the first version of the monitor
    if (g_devmask & 1) run_device<F>(in, D_ISTREAM, salt, with_subrect, with_scan);
    if (F::has_FILE && (g_devmask & 2)) run_device<F>(in, D_FILE, salt, with_subrect, with_scan);
    if ((with_filename && (g_devmask & 4)) || g_devmask == 4) run_device<F>(in, D_NAME, salt, with_subrect, with_scan);
}

static std::string hex_head(std::string const& b, size_t n = 48) {
    static const char* hx = "0123456789abcdef";
    std::string s;
    for (size_t i = 0; i < b.size() && i < n; ++i) { s.push_back(hx[(unsigned char)b[i] >> 4]); s.push_back(hx[(unsigned char)b[i] & 15]); }
    if (b.size() > n) s += "...";
    return s;
}

// announce + run one mutated input
static uint64_t g_case_counter = 0;
static bool g_list_only = false;      // --list 1: print the @@CASE lines of the enumeration without running anything (tooling)
template <class F, class Make>
static void mut_case(std::string const& cls_tail, std::string const& id, bool truncated_valid, bool enumerated, Make&& make) {
    uint64_t counter = ++g_case_counter;
    if (!vh::begin_case(vh::cat(F::name(), ".", cls_tail), id)) return;
    if (g_list_only) return;
    g_cls_tail = cls_tail;
    std::string bytes = make();
    // the file-name device shares file_stream_device with FILE*: used for one mutation in four (all in thorough)
    bool with_name = vh::thorough() ? (counter % 2 == 0) : (counter % 4 == 0);
    vh::sample(vh::cat(F::name(), ".", cls_tail, " ", id, ": ", bytes.size(), " bytes ", hex_head(bytes, 32)));
    // sub-rectangle reads: every control, otherwise one mutation in four
    bool with_sub = cls_tail == "valid" || counter % 4 == 1;
    // scanline reader: always for GIL's own decoders; for the codecs behind libpng/libjpeg/libtiff (a thin row loop around the
    // library) in every control / enum / targeted case and in one truncation / boundary-value / random mutation in four
    bool sampled_class = cls_tail == "truncate" || cls_tail == "random" || cls_tail.compare(0, 6, "field.") == 0;
    bool with_scan = !F::lib_codec || !sampled_class || vh::thorough() || counter % 4 == 2;
    struct timespec t0, t1; clock_gettime(CLOCK_PROCESS_CPUTIME_ID, &t0);
    run_input<F>(bytes, truncated_valid, with_name, with_sub, with_scan);
    clock_gettime(CLOCK_PROCESS_CPUTIME_ID, &t1);
    double ms = (t1.tv_sec - t0.tv_sec) * 1e3 + (t1.tv_nsec - t0.tv_nsec) / 1e6;
    if (ms > 400) printf("@@SLOW %.0f ms %s.%s %s\n", ms, F::name(), cls_tail.c_str(), id.c_str());
    if (enumerated) vh::distinct(1);
    else vh::distinct_hash(c11::hash_raw(bytes.data(), bytes.size(), vh::hash_str(F::name())));
}

// Enumeration must stay cheap (a shard is restarted after every fatal case): the class / id strings and the
// bytes of a case are only built when this process is going to run it.
static bool c11_want_next() {
    vh::state_t& s = vh::st();
    long next = s.idx + 1;
    if (s.only >= 0) return next == s.only;
    return next >= s.start && next % s.shard_n == s.shard_i;
}
static void c11_skip_case() { ++vh::st().idx; ++g_case_counter; }     // what begin_case() does for a case of another shard
#define MUT(cls, id, tv, en, ...) do { if (c11_want_next()) mut_case<F>(cls, id, tv, en, __VA_ARGS__); else c11_skip_case(); } while (0)

// A valid file into which ignorable data was inserted (a long JPEG COM/APPn segment, a PNG text chunk, an unknown
// TIFF tag) must decode exactly like the file without it, through every device: the case runs the usual entry
// points on the variant and then compares read_and_convert_image<Img> of base and variant.
template <class F, class Img>
static void equiv_check(std::string const& base, std::string const& variant, bool with_filename) {
    dev_kind devs[3] = { D_FILE, D_NAME, D_ISTREAM };
    for (dev_kind d : devs) {
        if (d == D_FILE && !F::has_FILE) continue;
        if (d == D_NAME && !with_filename) continue;
        outcome r[2];
        for (int k = 0; k < 2; ++k) {
            input_t in; in.fmt = F::name(); in.ext = F::ext(); in.bytes = k ? &variant : &base;
            long w = 0, h = 0; uint64_t extra = 0;
            if (F::parse_dims(*in.bytes, w, h, extra) && w > 0 && h > 0) in.declared = (uint64_t)w * (uint64_t)h + extra;
            in.declared += F::declared_slack(*in.bytes);
            r[k] = run_once(in, d, "equiv", PAT_A, [&](auto& s, outcome& o) { do_convert_image<F, Img>(s, o); });
        }
        vh::evals(2);
        bool same = r[0].cls == c11::OC_OK && r[1].cls == c11::OC_OK && r[0].w == r[1].w && r[0].h == r[1].h && r[0].pix == r[1].pix;
        if (r[0].cls != c11::OC_OK) vh::fatal_monitor("harness", vh::cat("equivalence base file does not decode: ", r[0].str()));
        if (!same)
            vh::viol(vh::cat("ignorable-data-changes-result.", F::name(), ".", DEV_NAME[d]),
                     vh::cat("valid file with inserted ignorable data (", variant.size(), " bytes) vs the file without it (", base.size(), " bytes): [",
                             r[1].str(), "] vs [", r[0].str(), "]"));
        vh::obs("entry.equiv");
    }
}
template <class F, class Img, class Make>
static void mut_case_equiv(std::string const& cls_tail, std::string const& id, std::string const& base, Make&& make) {
    uint64_t counter = ++g_case_counter;
    if (!vh::begin_case(vh::cat(F::name(), ".", cls_tail), id)) return;
    if (g_list_only) return;
    g_cls_tail = cls_tail;
    std::string bytes = make();
    run_input<F>(bytes, false, true, counter % 2 == 0);
    g_info_declared = 0;
    equiv_check<F, Img>(base, bytes, true);
    vh::distinct(1);
}
#define MUTEQ(Img, cls, id, base, ...) do { if (c11_want_next()) mut_case_equiv<F, Img>(cls, id, base, __VA_ARGS__); else c11_skip_case(); } while (0)

// "valid-shaped but unusual": an enumerated / count-like / bit-field header field with every value of a small range
// (the boundary table only has 0 / 1 / 2 / 7 / 8 ... / all-ones)
struct enum_field_t { c11::field_t f; std::vector<uint64_t> vals; };
static std::vector<uint64_t> vrange(uint64_t a, uint64_t b, std::initializer_list<uint64_t> more = {}) {
    std::vector<uint64_t> v; for (uint64_t x = a; x <= b; ++x) v.push_back(x); v.insert(v.end(), more.begin(), more.end()); return v;
}

// the generic mutation families over a list of seeds
template <class F> static void generic_families(std::vector<seed_t> const& seeds) {
    bool T = vh::thorough();
    // (0) the seeds themselves: controls
    for (auto const& s : seeds)
        MUT("valid", s.name, false, true, [&] { return s.bytes; });
    // (i) truncation at every byte (small seeds) / every head byte + stride (larger seeds)
    for (auto const& s : seeds) {
        if (!T && !s.rep && s.bytes.size() > 2048) continue;
        size_t every = s.sparse ? 0 : T ? 4096 : 640;
        std::vector<size_t> pts = c11::truncation_points(s.bytes.size(), every, T ? 512 : (s.sparse ? 24 : 128), T ? 384 : (s.rep ? 24 : 12));
        for (size_t len : pts)
            MUT("truncate", vh::cat(s.name, "@", len), true, true, [&] { return s.bytes.substr(0, len); });
    }
    // (ii) every header field x boundary values
    for (auto const& s : seeds) {
        if (!T && !s.rep) continue;
        std::vector<c11::field_t> fields = F::fields(s);
        for (auto const& f : fields) {
            std::vector<uint64_t> vals = c11::boundary_values(f.width);
            if (f.width == 4) { uint64_t more[] = { 0xFFFFFFFEull, 0x80000001ull, 0x10000ull, 0xFFFFFF80ull }; vals.insert(vals.end(), more, more + 4); }
            if (f.width == 2) { uint64_t more[] = { 0xFFFEull, 0x8001ull, 0x0100ull }; vals.insert(vals.end(), more, more + 3); }
            for (uint64_t v : vals)
                MUT(vh::cat("field.", f.name), vh::cat(s.name, ":", f.name, "=", v), false, true, [&] {
                    std::string b = s.bytes;
                    if (f.big_endian) c11::put_be(b, f.off, f.width, v); else c11::put_le(b, f.off, f.width, v);
                    return F::fixup(b);
                });
        }
    }
    // (ii-b) every enumerated / count-like / bit-field header field x every value of its small range
    for (auto const& s : seeds) {
        if (!T && !s.rep) continue;
        for (auto const& e : F::enum_fields(s))
            for (uint64_t v : e.vals)
                MUT(vh::cat("enum.", e.f.name), vh::cat(s.name, ":", e.f.name, "=", v), false, true, [&] {
                    std::string b = s.bytes;
                    if (e.f.big_endian) c11::put_be(b, e.f.off, e.f.width, v); else c11::put_le(b, e.f.off, e.f.width, v);
                    return F::fixup(b);
                });
    }
    // (iv) seeded random multi-byte mutations
    for (auto const& s : seeds) {
        int n = T ? (s.rep ? 5000 : 1500) : (s.rep ? 200 : 60);
        if (s.bytes.size() > 12000) n = T ? n / 2 : n / 2;
        for (int k = 0; k < n; ++k)
            MUT("random", vh::cat(s.name, "#", k), false, false, [&] {
                vh::rng r = vh::case_rng();
                std::string b = c11::mutate_random(s.bytes, r, F::header_len(s));
                return r.below(3) == 0 ? b : F::fixup(b);
            });
    }
}

static bool load_fixture(const char* fmt, const char* rel, std::string& out) {
    return c11::slurp(c11::fixture_dir(fmt) + "/" + rel, out);
}
static void add_seed(std::vector<seed_t>& v, std::string name, std::string variant, std::string bytes, int kind, bool rep, bool sparse = false) {
    seed_t s; s.name = name; s.variant = variant; s.bytes = bytes; s.kind = kind; s.rep = rep; s.sparse = sparse; v.push_back(s);
}
static void add_fixture(std::vector<seed_t>& v, const char* fmt, const char* rel, std::string variant, int kind, bool rep, size_t max_len = 40960) {
    std::string b;
    if (!load_fixture(fmt, rel, b)) vh::fatal_monitor("harness", vh::cat("fixture missing: ", fmt, "/", rel));
    if (b.size() > max_len) return;
    std::string name = rel;
    for (auto& c : name) if (c == '/' || c == ' ') c = '_';
    add_seed(v, name, variant, b, kind, rep);
}
template <class View, class Tag> static std::string written(View const& v, Tag const& t) {
    std::ostringstream os(std::ios::out | std::ios::binary);
    gil::write_view(os, v, t);
    return os.str();
}
template <class Img> static Img seeded_image(int w, int h, uint64_t seed) {
    Img im(w, h);
    vh::rng r(vh::mix(seed, 0xC11));
    auto v = gil::view(im);
    for (int y = 0; y < h; ++y) {
        unsigned char* p = (unsigned char*)&*v.row_begin(y);
        size_t rb = (size_t)w * sizeof(typename Img::value_type);
        for (size_t i = 0; i < rb; ++i) p[i] = (unsigned char)r.next();
    }
    return im;
}

// =====================================================================================================
#if C11_FMT == 0   // ---------------------------------------------------------------------------- BMP
struct F_bmp {
    typedef gil::bmp_tag tag;
    static const char* name() { return "bmp"; }
    static const char* ext() { return "bmp"; }
    static const bool has_FILE = true;
    static const bool subrect = true;
    static const bool lib_codec = false;
    static const bool strict_field_reads = true;
    static const bool has_info_all = false;
    // file header (14) + the part of the info header GIL reads field by field (40, or 12 for OS/2); 18 while the size field itself is cut
    static size_t fixed_header_len(std::string const& b) {
        if (b.size() < 18) return 18;
        uint32_t hs = (uint32_t)c11::get_le(b, 14, 4);
        return hs == 12 ? 26 : hs >= 40 ? 54 : 18;
    }
    template <class Src> static void info_all(Src&, outcome&) {}
    // the palette a backend has read so far (the colour masks are left uninitialised by GIL until 15/16-bit data is read: not dumped)
    template <class Backend> static std::string backend_extra(Backend const& be) {
        dumper d; d.raw("pal", be._palette.data(), be._palette.size() * sizeof(be._palette[0]), be._palette.size()); return d.str();
    }
    typedef std::tuple<gil::rgb8_image_t, gil::rgba8_image_t> natives;
    typedef std::tuple<gil::rgb8_image_t, gil::gray8_image_t> conv_targets;
    typedef gil::any_image<gil::rgb8_image_t, gil::rgba8_image_t> any_t;
    static std::string info_str(gil::image_read_info<tag> const& i) {
        return vh::cat("off=", i._offset, " hs=", i._header_size, " w=", i._width, " h=", i._height, " bpp=", i._bits_per_pixel, " comp=", i._compression,
                       " isz=", i._image_size, " xr=", i._horizontal_resolution, " yr=", i._vertical_resolution, " nc=", i._num_colors,
                       " nic=", i._num_important_colors, " td=", (int)i._top_down, " valid=", (int)i._valid);
    }
    static bool parse_dims(std::string const& b, long& w, long& h, uint64_t& extra) {
        uint32_t hs = (uint32_t)c11::get_le(b, 14, 4);
        extra = 0;
        if (hs == 12) { w = (long)c11::get_le(b, 18, 2); h = (long)c11::get_le(b, 20, 2); }
        else {
            w = (long)(int32_t)c11::get_le(b, 18, 4);
            long hh = (long)(int32_t)c11::get_le(b, 22, 4);
            h = hh < 0 ? -hh : hh;
            int32_t nc = (int32_t)c11::get_le(b, 46, 4);
            if (nc > 0) extra = (uint64_t)nc;      // declared palette entries are read one by one
        }
        extra += 256;
        return true;
    }
    static uint64_t declared_slack(std::string const&) { return 0; }
    static size_t header_len(seed_t const&) { return 70; }
    static std::string fixup(std::string const& b) { return b; }
    static std::vector<enum_field_t> enum_fields(seed_t const& s) {
        std::vector<enum_field_t> v;
        uint32_t hs = (uint32_t)c11::get_le(s.bytes, 14, 4);
        v.push_back({ { "header_size", 14, 4, false }, { 12, 16, 39, 40, 41, 52, 56, 64, 108, 124, 125 } });
        if (hs == 12) {
            v.push_back({ { "os2_bpp", 24, 2, false }, vrange(0, 33) });
            v.push_back({ { "os2_planes", 22, 2, false }, vrange(0, 3) });
        } else {
            v.push_back({ { "bpp", 28, 2, false }, vrange(0, 33, { 48, 64 }) });
            v.push_back({ { "compression", 30, 4, false }, vrange(0, 8) });
            v.push_back({ { "planes", 26, 2, false }, vrange(0, 3) });
            v.push_back({ { "num_colors", 46, 4, false }, vrange(0, 17, { 31, 32, 33, 63, 64, 65, 254, 255, 256, 257 }) });
            v.push_back({ { "num_important", 50, 4, false }, vrange(0, 3, { 256, 257 }) });
        }
        return v;
    }
    static std::vector<c11::field_t> fields(seed_t const& s) {
        std::vector<c11::field_t> f = { { "magic", 0, 2, false }, { "filesize", 2, 4, false }, { "reserved1", 6, 2, false }, { "reserved2", 8, 2, false },
                                        { "offset", 10, 4, false }, { "header_size", 14, 4, false } };
        uint32_t hs = (uint32_t)c11::get_le(s.bytes, 14, 4);
        if (hs == 12) {
            c11::field_t o[] = { { "os2_width", 18, 2, false }, { "os2_height", 20, 2, false }, { "os2_planes", 22, 2, false }, { "os2_bpp", 24, 2, false } };
            f.insert(f.end(), o, o + 4);
        } else {
            c11::field_t w[] = { { "width", 18, 4, false }, { "height", 22, 4, false }, { "planes", 26, 2, false }, { "bpp", 28, 2, false },
                                 { "compression", 30, 4, false }, { "image_size", 34, 4, false }, { "xres", 38, 4, false }, { "yres", 42, 4, false },
                                 { "num_colors", 46, 4, false }, { "num_important", 50, 4, false } };
            f.insert(f.end(), w, w + 10);
            if ((uint32_t)c11::get_le(s.bytes, 30, 4) == 3) {
                c11::field_t m[] = { { "red_mask", 54, 4, false }, { "green_mask", 58, 4, false }, { "blue_mask", 62, 4, false } };
                f.insert(f.end(), m, m + 3);
            }
        }
        return f;
    }
};
typedef F_bmp F;

// a small BMP writer of the harness's own (palette, RLE, OS/2, bit-field and top-down variants that
// GIL's writer cannot produce)
struct bmp_spec {
    int w = 5, h = 3, bpp = 8, compression = 0;
    int num_colors_field = 0;     // value of biClrUsed
    int palette_entries = -1;     // entries actually stored (-1: 2^bpp for bpp <= 8, else 0)
    bool os2 = false, topdown = false;
    int header_size = 40;
    uint32_t masks[3] = { 0, 0, 0 };
    std::string data;             // pixel data (raw rows or RLE stream)
    int gap = 0;                  // bytes between palette and data
};
static std::string bmp_build(bmp_spec const& s, uint64_t seed) {
    std::string b;
    int pal = s.palette_entries >= 0 ? s.palette_entries : (s.bpp <= 8 ? (1 << s.bpp) : 0);
    int hs = s.os2 ? 12 : s.header_size;
    size_t off = 14 + hs + (s.compression == 3 && !s.os2 && hs == 40 ? 12 : 0) + (size_t)pal * (s.os2 ? 3 : 4) + s.gap;
    b += "BM"; c11::app_le(b, 4, off + s.data.size()); c11::app_le(b, 2, 0); c11::app_le(b, 2, 0); c11::app_le(b, 4, off);
    c11::app_le(b, 4, hs);
    if (s.os2) { c11::app_le(b, 2, s.w); c11::app_le(b, 2, s.h); c11::app_le(b, 2, 1); c11::app_le(b, 2, s.bpp); }
    else {
        c11::app_le(b, 4, (uint32_t)s.w); c11::app_le(b, 4, (uint32_t)(s.topdown ? -s.h : s.h)); c11::app_le(b, 2, 1); c11::app_le(b, 2, s.bpp);
        c11::app_le(b, 4, s.compression); c11::app_le(b, 4, s.data.size()); c11::app_le(b, 4, 2835); c11::app_le(b, 4, 2835);
        c11::app_le(b, 4, (uint32_t)s.num_colors_field); c11::app_le(b, 4, 0);
        for (int i = 40; i < hs; ++i) b.push_back((char)0);
        if (s.compression == 3 && hs == 40) for (int k = 0; k < 3; ++k) c11::app_le(b, 4, s.masks[k]);
    }
    vh::rng r(vh::mix(seed, 0xB3B));
    for (int i = 0; i < pal; ++i) { b.push_back((char)r.next()); b.push_back((char)r.next()); b.push_back((char)r.next()); if (!s.os2) b.push_back((char)0); }
    for (int i = 0; i < s.gap; ++i) b.push_back((char)0xEE);
    b += s.data;
    return b;
}
static std::string bmp_raw_rows(int w, int h, int bpp, int max_index, uint64_t seed) {
    size_t pitch = ((size_t)w * bpp + 31) / 32 * 4;
    std::string d(pitch * h, '\0');
    vh::rng r(vh::mix(seed, 0xDA7A));
    for (auto& c : d) {
        unsigned v = (unsigned)r.next() & 0xFF;
        if (bpp == 8 && max_index < 256) v %= (unsigned)max_index;
        if (bpp == 4 && max_index < 16) v = ((v >> 4) % max_index) << 4 | ((v & 15) % max_index);
        if (bpp == 1 && max_index < 2) v = 0;
        c = (char)v;
    }
    return d;
}
// RLE8 / RLE4 stream that exactly covers w x h: encoded runs, absolute blocks (with word padding), end of line, end of bitmap
static std::string bmp_rle(int w, int h, bool rle4, int max_index, uint64_t seed, bool with_delta) {
    std::string d;
    vh::rng r(vh::mix(seed, rle4 ? 0x414 : 0x818));
    for (int y = 0; y < h; ++y) {
        int x = 0;
        if (with_delta && y == 1 && w > 3) { d.push_back(0); d.push_back(2); d.push_back(2); d.push_back(0); x = 2; }
        while (x < w) {
            int left = w - x;
            if (left >= 3 && r.coin()) {      // absolute block of 3..min(left,7) pixels
                int n = 3 + (int)r.below((uint64_t)std::min(left, 7) - 2);
                d.push_back(0); d.push_back((char)n);
                if (rle4) { int nb = (n + 1) / 2; for (int i = 0; i < nb; ++i) d.push_back((char)(((r.below(max_index)) << 4) | r.below(max_index))); if (nb & 1) d.push_back(0); }
                else { for (int i = 0; i < n; ++i) d.push_back((char)r.below(max_index)); if (n & 1) d.push_back(0); }
                x += n;
            } else {
                int n = 1 + (int)r.below((uint64_t)std::min(left, 9));
                d.push_back((char)n);
                d.push_back(rle4 ? (char)((r.below(max_index) << 4) | r.below(max_index)) : (char)r.below(max_index));
                x += n;
            }
        }
        d.push_back(0); d.push_back(y == h - 1 ? 1 : 0);
    }
    return d;
}
static bmp_spec spec(int w, int h, int bpp, int comp) { bmp_spec s; s.w = w; s.h = h; s.bpp = bpp; s.compression = comp; return s; }

static std::vector<seed_t> g_seeds;
static std::string bmp_with_masks(int bpp, int compression, int header_size, const uint32_t m[4], uint64_t seed, bool ones);
static void build_seeds() {
    auto& v = g_seeds;
    // crafted small files: every variant, small enough for complete truncation enumeration
    { bmp_spec s = spec(9, 4, 1, 0); s.data = bmp_raw_rows(9, 4, 1, 2, 1); add_seed(v, "c-pal1-9x4", "pal1", bmp_build(s, 1), 1, true); }
    { bmp_spec s = spec(7, 3, 4, 0); s.data = bmp_raw_rows(7, 3, 4, 16, 2); add_seed(v, "c-pal4-7x3", "pal4", bmp_build(s, 2), 1, true); }
    { bmp_spec s = spec(5, 3, 8, 0); s.num_colors_field = 16; s.palette_entries = 16; s.data = bmp_raw_rows(5, 3, 8, 16, 3); add_seed(v, "c-pal8-5x3-16col", "pal8", bmp_build(s, 3), 1, true); }
    { bmp_spec s = spec(5, 3, 8, 0); s.data = bmp_raw_rows(5, 3, 8, 256, 4); s.gap = 6; add_seed(v, "c-pal8-5x3-gap", "pal8", bmp_build(s, 4), 1, false); }
    { bmp_spec s = spec(6, 2, 8, 0); s.os2 = true; s.data = bmp_raw_rows(6, 2, 8, 256, 5); add_seed(v, "c-os2-pal8-6x2", "os2-pal8", bmp_build(s, 5), 0, true); }
    { bmp_spec s = spec(6, 3, 4, 0); s.os2 = true; s.data = bmp_raw_rows(6, 3, 4, 16, 6); add_seed(v, "c-os2-pal4-6x3", "os2-pal4", bmp_build(s, 6), 0, false); }
    { bmp_spec s = spec(9, 5, 8, 1); s.num_colors_field = 8; s.palette_entries = 8; s.data = bmp_rle(9, 5, false, 8, 7, false); add_seed(v, "c-rle8-9x5", "rle8", bmp_build(s, 7), 0, true); }
    { bmp_spec s = spec(9, 5, 8, 1); s.num_colors_field = 32; s.palette_entries = 32; s.data = bmp_rle(9, 5, false, 32, 8, true); add_seed(v, "c-rle8-9x5-delta", "rle8", bmp_build(s, 8), 0, false); }
    { bmp_spec s = spec(10, 4, 4, 2); s.data = bmp_rle(10, 4, true, 16, 9, false); add_seed(v, "c-rle4-10x4", "rle4", bmp_build(s, 9), 0, true); }
    { bmp_spec s = spec(8, 3, 8, 1); s.topdown = true; s.num_colors_field = 20; s.palette_entries = 20; s.data = bmp_rle(8, 3, false, 20, 10, false); add_seed(v, "c-rle8-8x3-topdown", "rle8", bmp_build(s, 10), 0, false); }
    { bmp_spec s = spec(5, 3, 16, 0); s.data = bmp_raw_rows(5, 3, 16, 0, 11); add_seed(v, "c-rgb555-5x3", "rgb555", bmp_build(s, 11), 0, true); }
    { bmp_spec s = spec(5, 3, 16, 3); s.masks[0] = 0xF800; s.masks[1] = 0x07E0; s.masks[2] = 0x001F; s.data = bmp_raw_rows(5, 3, 16, 0, 12); add_seed(v, "c-bf565-5x3", "bitfield565", bmp_build(s, 12), 0, true); }
    { bmp_spec s = spec(4, 3, 24, 0); s.data = bmp_raw_rows(4, 3, 24, 0, 13); s.topdown = true; add_seed(v, "c-rgb24-4x3-topdown", "rgb24", bmp_build(s, 13), 0, false); }
    { bmp_spec s = spec(3, 2, 32, 0); s.header_size = 108; s.data = bmp_raw_rows(3, 2, 32, 0, 14); add_seed(v, "c-rgb32-3x2-v4", "rgb32-v4", bmp_build(s, 14), 1, true); }
    { bmp_spec s = spec(3, 2, 32, 3); s.masks[0] = 0xFF0000; s.masks[1] = 0xFF00; s.masks[2] = 0xFF; s.data = bmp_raw_rows(3, 2, 32, 0, 15); add_seed(v, "c-bf32-3x2", "bitfield32", bmp_build(s, 15), 1, false); }
    // layout features GIL's writer never produces: pixel data away from the headers, masks in a v3 header
    { bmp_spec s = spec(4, 3, 24, 0); s.gap = 10; s.data = bmp_raw_rows(4, 3, 24, 0, 16); add_seed(v, "c-rgb24-4x3-gap", "rgb24", bmp_build(s, 16), 0, false); }
    { uint32_t m[4] = { 0xF800, 0x07E0, 0x001F, 0 }; add_seed(v, "c-bf565-5x3-v3hdr", "bitfield565", bmp_with_masks(16, 3, 56, m, 17, false), 0, false); }
    { uint32_t m[4] = { 0x7C00, 0x03E0, 0x001F, 0x8000 }; add_seed(v, "c-abf1555-5x3", "bitfield555", bmp_with_masks(16, 6, 40, m, 18, false), 0, false); }
    // files written by GIL itself, every pixel type its BMP writer supports
    gil::image_write_info<gil::bmp_tag> wi;
    add_seed(v, "w-rgb8-1x1", "rgb24", written(gil::const_view(seeded_image<gil::rgb8_image_t>(1, 1, 21)), wi), 0, false);
    add_seed(v, "w-rgb8-9x7", "rgb24", written(gil::const_view(seeded_image<gil::rgb8_image_t>(9, 7, 22)), wi), 0, true);
    add_seed(v, "w-rgba8-1x1", "rgb32", written(gil::const_view(seeded_image<gil::rgba8_image_t>(1, 1, 23)), wi), 1, false);
    add_seed(v, "w-rgba8-9x7", "rgb32", written(gil::const_view(seeded_image<gil::rgba8_image_t>(9, 7, 24)), wi), 1, true);
    add_seed(v, "w-bgr8-3x2", "rgb24", written(gil::const_view(seeded_image<gil::bgr8_image_t>(3, 2, 25)), wi), 0, false);
    add_seed(v, "w-bgra8-3x2", "rgb32", written(gil::const_view(seeded_image<gil::bgra8_image_t>(3, 2, 26)), wi), 1, false);
    // the repository's BMP suite (everything below 40 KB)
    struct { const char* f; const char* variant; int kind; bool rep; } fx[] = {
        { "g01bw.bmp", "pal1", 1, true }, { "g01wb.bmp", "pal1", 1, false }, { "g01bg.bmp", "pal1", 1, false }, { "g01p1.bmp", "pal1", 1, false },
        { "g04.bmp", "pal4", 1, true }, { "g04p4.bmp", "pal4", 1, false }, { "g04rle.bmp", "rle4", 0, true },
        { "g08.bmp", "pal8", 1, true }, { "g08p256.bmp", "pal8", 1, false }, { "g08pi256.bmp", "pal8", 1, false }, { "g08pi64.bmp", "pal8", 1, false },
        { "g08res22.bmp", "pal8", 1, false }, { "g08res11.bmp", "pal8", 1, false }, { "g08res21.bmp", "pal8", 1, false }, { "g08s0.bmp", "pal8", 1, false },
        { "g08offs.bmp", "pal8", 1, false }, { "g08w126.bmp", "pal8", 1, false }, { "g08w125.bmp", "pal8", 1, false }, { "g08w124.bmp", "pal8", 1, false },
        { "g08p64.bmp", "pal8", 1, false }, { "g08os2.bmp", "os2-pal8", 0, true }, { "g08rle.bmp", "rle8", 0, true },
        { "g16def555.bmp", "rgb555", 0, false }, { "g16bf555.bmp", "bitfield555", 0, false }, { "g16bf565.bmp", "bitfield565", 0, true },
        { "g24.bmp", "rgb24", 0, false }, { "g32def.bmp", "rgb32", 1, false }, { "g32bf.bmp", "bitfield32", 1, true } };
    for (auto& x : fx) add_fixture(v, "bmp", x.f, x.variant, x.kind, x.rep);
}

// ---- bit-field masks: valid-shaped but unusual --------------------------------------------------------
// a BMP whose masks are carried the way real writers do it: after a 40-byte header (BI_BITFIELDS: 3 masks,
// BI_ALPHABITFIELDS: 4 masks), or inside a v2 (52) / v3 (56) / v4 (108) / v5 (124) header
static std::string bmp_with_masks(int bpp, int compression, int header_size, const uint32_t m[4], uint64_t seed, bool ones) {
    bmp_spec s = spec(5, 3, bpp, compression); s.header_size = header_size;
    s.data = bmp_raw_rows(5, 3, bpp, 0, seed); if (ones) for (auto& c : s.data) c = (char)0xFF;
    int nm = compression == 6 ? 4 : 3;
    std::string b;
    if (header_size == 40) {
        // bmp_build only knows the classic "40 + 3 masks" layout: build without masks and splice them in
        bmp_spec t = s; t.compression = 0; b = bmp_build(t, seed);
        std::string masks; for (int k = 0; k < nm; ++k) c11::app_le(masks, 4, m[k]);
        b.insert(54, masks);
        c11::put_le(b, 30, 4, (uint64_t)compression);
        c11::put_le(b, 10, 4, c11::get_le(b, 10, 4) + masks.size()); c11::put_le(b, 2, 4, b.size());
    } else {
        bmp_spec t = s; t.compression = 0; b = bmp_build(t, seed);
        c11::put_le(b, 30, 4, (uint64_t)compression);
        for (int k = 0; k < 4 && 54 + 4 * k + 4 <= 14 + header_size; ++k) c11::put_le(b, 54 + 4 * k, 4, m[k]);
    }
    return b;
}
static uint32_t mask_of(int width, int shift) { return width >= 32 ? 0xFFFFFFFFu << shift : ((1u << width) - 1u) << shift; }
static void bitfield_masks() {
    // (1) every split of the 16 bits of a pixel into three contiguous masks, red in the high bits; every fifth split in all six orders
    int idx = 0;
    for (int w1 = 1; w1 <= 14; ++w1) for (int w2 = 1; w1 + w2 <= 15; ++w2) {
        int w3 = 16 - w1 - w2; ++idx;
        int perms[6][3] = { { 0, 1, 2 }, { 0, 2, 1 }, { 1, 0, 2 }, { 1, 2, 0 }, { 2, 0, 1 }, { 2, 1, 0 } };
        for (int pm = 0; pm < (idx % 5 == 0 ? 6 : 1); ++pm) {
            int w[3] = { w1, w2, w3 };
            // position k (from the top) holds channel perms[pm][k]
            uint32_t m[4] = { 0, 0, 0, 0 }; int top = 16;
            for (int k = 0; k < 3; ++k) { int ch = perms[pm][k]; top -= w[ch]; m[ch] = mask_of(w[ch], top); }
            MUT("mask-split16", vh::cat(w1, "-", w2, "-", w3, "-order", pm), false, true, [&] { return bmp_with_masks(16, 3, 40, m, 300 + idx, (idx & 1) != 0); });
        }
    }
    // (2) three masks that leave bits unused (x-5-5-5, 4-4-4 ...), widths from a small set, packed from bit 0 and from bit 15
    { int ws[] = { 1, 2, 4, 5, 6, 8, 9, 10, 12 }; int k = 0;
      for (int a : ws) for (int b2 : ws) for (int c : ws) {
          if (a + b2 + c >= 16) continue; ++k;
          uint32_t lo[4] = { mask_of(a, b2 + c), mask_of(b2, c), mask_of(c, 0), 0 };
          int pad = 16 - a - b2 - c;
          uint32_t hi[4] = { mask_of(a, b2 + c + pad), mask_of(b2, c + pad), mask_of(c, pad), 0 };
          if (k % 2) MUT("mask-gap16", vh::cat(a, "-", b2, "-", c, "-low"), false, true, [&] { return bmp_with_masks(16, 3, 40, lo, 400 + k, true); });
          else MUT("mask-gap16", vh::cat(a, "-", b2, "-", c, "-high"), false, true, [&] { return bmp_with_masks(16, 3, 40, hi, 400 + k, true); });
      } }
    // (3) 32-bit pixels: three and four masks of unusual widths (10-10-10, 11-11-10, 16-8-8, 2-10-10-10 ...)
    { int ws[] = { 1, 2, 5, 8, 9, 10, 11, 12, 16 }; int k = 0;
      for (int a : ws) for (int b2 : ws) for (int c : ws) {
          if (a + b2 + c > 32) continue; ++k;
          if (k % 3 != 0 && !(a == 8 && b2 == 8 && c == 8) && !(a == 10 && b2 == 10)) continue;        // one triple in three, plus the common ones
          uint32_t m[4] = { mask_of(a, b2 + c), mask_of(b2, c), mask_of(c, 0), 0 };
          int al = 32 - a - b2 - c; if (al > 0) m[3] = mask_of(al, a + b2 + c);
          MUT("mask-split32", vh::cat(a, "-", b2, "-", c), false, true, [&] { return bmp_with_masks(32, 3, 40, m, 500 + k, true); });
          if (k % 6 == 0) MUT("mask-split32", vh::cat(a, "-", b2, "-", c, "-alpha", al), false, true, [&] { return bmp_with_masks(32, 6, 40, m, 520 + k, true); });
      } }
    // (4) non-contiguous, overlapping, wider-than-the-pixel and single-bit masks
    uint32_t odd[][4] = { { 0xF0F0, 0x0F00, 0x000F, 0 }, { 0xAAAA, 0x5555, 0x0001, 0 }, { 0xFF00, 0x0FF0, 0x00FF, 0 }, { 0xFFFF, 0xFFFF, 0xFFFF, 0 }, { 0x8000, 0x0001, 0x0180, 0 },
                          { 0x7C00, 0x03E0, 0x001F, 0x8000 }, { 0xF800, 0x07E0, 0x001F, 0 }, { 0x001F, 0x07E0, 0xF800, 0 }, { 0xFFC0, 0x0038, 0x0007, 0 }, { 0x0007, 0x0038, 0xFFC0, 0 },
                          { 0xFF800000u, 0x007FF000, 0x00000FFF, 0 }, { 0x3FF00000, 0x000FFC00, 0x000003FF, 0xC0000000u }, { 0x00010000, 0x00020000, 0x00040000, 0 },
                          { 0x1F0000, 0x3E0, 0x1F, 0 }, { 0x0100, 0x0010, 0x0001, 0 }, { 0x00FF00FF, 0xFF00FF00u, 0x0000FFFF, 0 } };
    for (int k = 0; k < 16; ++k) for (int bpp : { 16, 32 }) for (int comp : { 3, 6 })
        MUT("mask-odd", vh::cat("odd", k, "-bpp", bpp, "-comp", comp), false, true, [&] { return bmp_with_masks(bpp, comp, 40, odd[k], 600 + k, true); });
    // (5) the same masks carried by the v2 / v3 / v4 / v5 headers, BI_BITFIELDS and BI_ALPHABITFIELDS, and masks present while compression says BI_RGB
    uint32_t common[][4] = { { 0xF800, 0x07E0, 0x001F, 0 }, { 0x7C00, 0x03E0, 0x001F, 0x8000 }, { 0xFFC0, 0x0038, 0x0007, 0 }, { 0x0F00, 0x00F0, 0x000F, 0xF000 },
                             { 0x00FF0000, 0x0000FF00, 0x000000FF, 0xFF000000u }, { 0x3FF00000, 0x000FFC00, 0x000003FF, 0xC0000000u }, { 0xFFE00000u, 0x001FFC00, 0x000003FF, 0 } };
    for (int k = 0; k < 7; ++k) for (int hs : { 40, 52, 56, 108, 124 }) for (int bpp : { 16, 32 }) for (int comp : { 0, 3, 6 })
        MUT("mask-header", vh::cat("masks", k, "-hs", hs, "-bpp", bpp, "-comp", comp), false, true, [&] { return bmp_with_masks(bpp, comp, hs, common[k], 700 + k, k % 2 == 0); });
}

// targeted palette / run-length / offset corruptions
static void targeted() {
    bitfield_masks();
    // palette shorter than the largest index (F8)
    for (int bpp : { 1, 4, 8 }) for (int nc : { 1, 2, 3, 15 }) {
        if (nc >= (1 << bpp)) continue;
        MUT("palette-short", vh::cat("pal", bpp, "-numcolors", nc), false, true, [&] {
            bmp_spec s = spec(8, 3, bpp, 0); s.num_colors_field = nc; s.palette_entries = nc;
            s.data = bmp_raw_rows(8, 3, bpp, 1 << bpp, 100 + bpp); for (auto& c : s.data) c = (char)0xFF;
            return bmp_build(s, 100 + nc);
        });
    }
    for (int nc : { 1, 2, 5 }) for (int rle4 = 0; rle4 < 2; ++rle4)
        MUT("palette-short-rle", vh::cat(rle4 ? "rle4" : "rle8", "-numcolors", nc), false, true, [&] {
            bmp_spec s = spec(8, 3, rle4 ? 4 : 8, rle4 ? 2 : 1); s.num_colors_field = nc; s.palette_entries = nc;
            s.data = bmp_rle(8, 3, rle4, rle4 ? 16 : 256, 140 + nc, false);
            for (size_t i = 1; i < s.data.size(); i += 2) if (s.data[i - 1] != 0) s.data[i] = (char)0xFE;    // run colours far beyond the palette
            return bmp_build(s, 150 + nc);
        });
    // num_colors negative / huge while the file stays small
    for (long long nc : { -1LL, -2LL, -256LL, (long long)INT32_MIN, 257LL, 65536LL, 1000000LL, 70000000LL, (long long)INT32_MAX })
        for (int bpp : { 1, 8 })
            MUT("numcolors", vh::cat("pal", bpp, "-numcolors", nc), false, true, [&] {
                bmp_spec s = spec(4, 2, bpp, 0); s.num_colors_field = (int)nc; s.palette_entries = 4; s.data = bmp_raw_rows(4, 2, bpp, 2, 160);
                return bmp_build(s, 161);
            });
    // RLE: runs and absolute blocks overrunning the row and the image, deltas beyond the image, missing end markers
    struct rle_case { const char* id; bool rle4; std::vector<int> stream; };
    std::vector<rle_case> rc = {
        { "run-overruns-row", false, { 200, 1, 0, 0, 0, 1 } },
        { "run-overruns-row4", true, { 200, 0x12, 0, 0, 0, 1 } },
        { "abs-overruns-row", false, { 0, 250, 1, 2, 3, 4, 5, 6, 7, 8, 9, 10, 0, 1 } },
        { "abs-overruns-row4", true, { 0, 250, 0x12, 0x34, 0x56, 0x78, 0x9A, 0xBC, 0, 1 } },
        { "abs-overruns-file", false, { 0, 255, 1, 2, 3 } },
        { "abs-overruns-file4", true, { 0, 255, 0x11 } },
        { "rows-beyond-height", false, { 1, 1, 0, 0, 1, 1, 0, 0, 1, 1, 0, 0, 1, 1, 0, 0, 1, 1, 0, 0, 1, 1, 0, 0, 1, 1, 0, 0, 0, 1 } },
        { "delta-x-beyond", false, { 0, 2, 255, 0, 3, 1, 0, 1 } },
        { "delta-x-at-width", false, { 0, 2, 8, 0, 3, 1, 0, 1 } },
        { "delta-x-sum-beyond", false, { 4, 1, 0, 2, 6, 0, 3, 1, 0, 1 } },
        { "delta-y-beyond", false, { 0, 2, 0, 255, 3, 1, 0, 1 } },
        { "delta-y-to-end", false, { 0, 2, 0, 3, 3, 1, 0, 1 } },
        { "delta-y-past-end", false, { 0, 2, 0, 4, 3, 1, 0, 0, 3, 1, 0, 1 } },
        { "delta-then-run", true, { 0, 2, 7, 1, 9, 0x21, 0, 1 } },
        { "no-end-marker", false, { 3, 1, 3, 2 } },
        { "empty-stream", false, {} },
        { "only-eob", false, { 0, 1 } },
        { "only-eol", false, { 0, 0 } },
        { "many-eol", false, { 0, 0, 0, 0, 0, 0, 0, 0, 0, 0, 0, 0, 0, 0, 0, 0 } },
        { "zero-run-loop", false, { 8, 1, 5, 2, 5, 3, 5, 4 } } };
    for (auto const& c : rc)
        for (int td = 0; td < 2; ++td)
            MUT(vh::cat("rle-", c.id), vh::cat(c.id, td ? "-topdown" : ""), false, true, [&] {
                bmp_spec s = spec(8, 3, c.rle4 ? 4 : 8, c.rle4 ? 2 : 1); s.topdown = td;
                for (int x : c.stream) s.data.push_back((char)x);
                return bmp_build(s, 170);
            });
    // compression field inconsistent with bpp
    for (int bpp : { 1, 4, 8, 16, 24, 32 }) for (int comp : { 0, 1, 2, 3, 4, 5, 6 })
        MUT("compression-vs-bpp", vh::cat("bpp", bpp, "-comp", comp), false, true, [&] {
            bmp_spec s = spec(6, 3, bpp, comp); s.data = bmp_raw_rows(6, 3, bpp, 1 << std::min(bpp, 8), 180);
            s.masks[0] = 0x7C00; s.masks[1] = 0x3E0; s.masks[2] = 0x1F;
            return bmp_build(s, 181);
        });
    // odd bits-per-pixel values
    for (int bpp : { 0, 2, 3, 5, 7, 9, 12, 15, 17, 23, 25, 31, 33, 48, 64, 0x8000, 0xFFFF })
        MUT("bpp-odd", vh::cat("bpp", bpp), false, true, [&] {
            bmp_spec s = spec(6, 3, 8, 0); s.data = bmp_raw_rows(6, 3, 32, 256, 190);
            std::string b = bmp_build(s, 191); c11::put_le(b, 28, 2, (uint64_t)bpp); return b;
        });
    // data offset beyond EOF / inside the header / huge
    for (long long off : { 0LL, 1LL, 13LL, 14LL, 53LL, 54LL, 55LL, 1000LL, 65535LL, 65536LL, 0x7FFFFFFFLL, 0x80000000LL, 0xFFFFFFFFLL, 0xFFFFFFF0LL })
        for (int kind = 0; kind < 3; ++kind)
            MUT("offset", vh::cat(kind == 0 ? "rgb24" : kind == 1 ? "pal8" : "rle8", "-offset", off), false, true, [&] {
                bmp_spec s = kind == 0 ? spec(4, 3, 24, 0) : kind == 1 ? spec(4, 3, 8, 0) : spec(4, 3, 8, 1);
                s.data = kind == 2 ? bmp_rle(4, 3, false, 256, 200, false) : bmp_raw_rows(4, 3, s.bpp, 256, 200);
                std::string b = bmp_build(s, 201); c11::put_le(b, 10, 4, (uint64_t)off); return b;
            });
    // bit-field masks: empty, wider than 8 bits, non-contiguous, overlapping, top bit
    uint32_t masks[][3] = { { 0, 0, 0 }, { 0xFFFF, 0, 0 }, { 0xFFFFFFFFu, 0xFFFFFFFFu, 0xFFFFFFFFu }, { 0x1FF, 0x3FE00, 0x7FC0000 }, { 0x8000, 0x4000, 0x2000 },
                            { 0xF0F0, 0x0F0F, 0x00FF }, { 0x80000000u, 0x7F000000, 0x00FF0000 }, { 1, 2, 4 }, { 0x7FF, 0xF800, 0 }, { 0xFF000000u, 0x00FFFF00, 0xFF } };
    for (int bpp : { 16, 32 }) for (int k = 0; k < 10; ++k)
        MUT("bitfield-mask", vh::cat("bpp", bpp, "-masks", k), false, true, [&] {
            bmp_spec s = spec(5, 3, bpp, 3); s.masks[0] = masks[k][0]; s.masks[1] = masks[k][1]; s.masks[2] = masks[k][2];
            s.data = bmp_raw_rows(5, 3, bpp, 0, 210 + k); for (auto& c : s.data) c = (char)0xFF;
            return bmp_build(s, 211);
        });
    // width * bpp overflow, negative and zero dimensions with little data
    struct dim_case { const char* id; long long w, h; int bpp; };
    dim_case dc[] = { { "w-2^28-bpp32", 1LL << 28, 1, 32 }, { "w-2^29-bpp8", 1LL << 29, 1, 8 }, { "w-2^30-bpp4", 1LL << 30, 1, 4 }, { "w-2^31-1-bpp1", 0x7FFFFFFF, 1, 1 },
                      { "w-2^31-1-bpp24", 0x7FFFFFFF, 1, 24 }, { "w-715827883-bpp24", 715827883, 1, 24 }, { "w-neg1", -1, 1, 24 }, { "w-neg-pal", -5, 2, 8 }, { "w-zero", 0, 3, 24 },
                      { "h-zero", 3, 0, 24 }, { "wh-zero-pal", 0, 0, 8 }, { "h-intmin", 3, (long long)INT32_MIN, 24 }, { "h-neg1", 3, -1, 24 }, { "h-2^31-1", 1, 0x7FFFFFFF, 24 },
                      { "w-65536-h-65536", 65536, 65536, 24 }, { "w-46341-h-46341-bpp32", 46341, 46341, 32 }, { "w-16384-h-5000-bpp24", 16384, 5000, 24 },
                      { "w-1-h-3000000-bpp24", 1, 3000000, 24 }, { "w-3000000-h-1-pal8", 3000000, 1, 8 }, { "w-2^16+1-rle8", 65537, 1, 8 } };
    for (auto const& c : dc) {
        if (!vh::thorough() && (long long)c.w * c.h > (6LL << 20) && (long long)c.w * c.h < (100LL << 20)) continue;   // allocatable and slow
        MUT("dimension", c.id, false, true, [&] {
            bmp_spec s = spec(4, 2, c.bpp, strstr(c.id, "rle8") ? 1 : 0);
            s.data = strstr(c.id, "rle8") ? bmp_rle(4, 2, false, 256, 220, false) : bmp_raw_rows(4, 2, c.bpp, 256, 220);
            std::string b = bmp_build(s, 221); c11::put_le(b, 18, 4, (uint64_t)c.w); c11::put_le(b, 22, 4, (uint64_t)c.h); return b;
        });
    }
    // header_size values between the known sizes
    for (int hs : { 0, 11, 12, 13, 16, 39, 40, 41, 52, 56, 64, 108, 124, 125, 0xFFFF })
        MUT("header-size", vh::cat("hs", hs), false, true, [&] {
            bmp_spec s = spec(4, 2, 24, 0); s.data = bmp_raw_rows(4, 2, 24, 0, 230);
            std::string b = bmp_build(s, 231); c11::put_le(b, 14, 4, (uint64_t)hs); return b;
        });
    // not a BMP at all
    const char* junk[] = { "", "B", "BM", "MB", "P6 1 1 255 abc", "\x89PNG\r\n\x1a\n", "\xff\xd8\xff\xe0", "II*\0", "GIF89a" };
    for (int k = 0; k < 9; ++k)
        MUT("not-bmp", vh::cat("junk", k), false, true, [&] { return std::string(junk[k], k == 7 ? 4 : strlen(junk[k])); });
    for (int k = 0; k < (vh::thorough() ? 400 : 60); ++k)
        MUT("noise", vh::cat("noise", k), false, false, [&] {
            vh::rng r = vh::case_rng(); std::string b = "BM"; size_t n = 12 + r.below(120);
            for (size_t i = 0; i < n; ++i) b.push_back((char)(r.below(3) ? r.below(4) : r.next()));
            c11::put_le(b, 14, 4, r.coin() ? 40 : 12); return b;
        });
}
#endif

// =====================================================================================================
#if C11_FMT == 1   // ---------------------------------------------------------------------------- PNM
struct F_pnm {
    typedef gil::pnm_tag tag;
    static const char* name() { return "pnm"; }
    static const char* ext() { return "pnm"; }
    static const bool has_FILE = true;
    static const bool subrect = true;
    static const bool lib_codec = false;
    static const bool strict_field_reads = false;
    static const bool has_info_all = false;
    static size_t fixed_header_len(std::string const&) { return 0; }
    template <class Src> static void info_all(Src&, outcome&) {}
    template <class Backend> static std::string backend_extra(Backend const&) { return std::string(); }
    typedef std::tuple<gil::gray8_image_t, gil::rgb8_image_t, gil::gray1_image_t> natives;
    typedef std::tuple<gil::rgb8_image_t, gil::gray8_image_t> conv_targets;
    typedef gil::any_image<gil::gray8_image_t, gil::rgb8_image_t, gil::gray1_image_t> any_t;
    static std::string info_str(gil::image_read_info<tag> const& i) {
        return vh::cat("type=", i._type, " w=", i._width, " h=", i._height, " max=", i._max_value);
    }
    // the harness's own tokenizer: P<d> <w> <h> [<max>]
    static bool token(std::string const& b, size_t& p, uint64_t& val) {
        for (;;) {
            while (p < b.size() && (b[p] == ' ' || b[p] == '\t' || b[p] == '\n' || b[p] == '\r')) ++p;
            if (p < b.size() && b[p] == '#') { while (p < b.size() && b[p] != '\n' && b[p] != '\r') ++p; continue; }
            break;
        }
        if (p >= b.size() || b[p] < '0' || b[p] > '9') return false;
        val = 0;
        while (p < b.size() && b[p] >= '0' && b[p] <= '9') { if (val < ((uint64_t)1 << 40)) val = val * 10 + (uint64_t)(b[p] - '0'); ++p; }
        return true;
    }
    static bool parse_dims(std::string const& b, long& w, long& h, uint64_t& extra) {
        extra = 0;
        if (b.size() < 2 || b[0] != 'P') return false;
        size_t p = 2; uint64_t ww, hh;
        if (!token(b, p, ww) || !token(b, p, hh)) return false;
        if (ww > 0x7FFFFFFF || hh > 0x7FFFFFFF) return false;
        w = (long)ww; h = (long)hh;
        if (b[1] == '3' || b[1] == '6') extra = (uint64_t)w * (uint64_t)h * 2;     // three samples per pixel
        return true;
    }
    static uint64_t declared_slack(std::string const&) { return 0; }
    static size_t header_len(seed_t const&) { return 24; }
    static std::string fixup(std::string const& b) { return b; }
    static std::vector<enum_field_t> enum_fields(seed_t const&) { return {}; }     // textual header: see header_text() / maxval_powers()
    static std::vector<c11::field_t> fields(seed_t const&) { return {}; }      // textual header: see header_text()
};
typedef F_pnm F;

static std::string pnm_build(int type, std::string const& w, std::string const& h, std::string const& maxv, int pw, int ph, uint64_t seed, bool comments) {
    std::string b = vh::cat("P", type, comments ? "\n# made by the c11 harness\n" : "\n", w, comments ? " #w\n" : " ", h, "\n");
    if (type != 1 && type != 4) b += maxv + "\n";
    vh::rng r(vh::mix(seed, 0x9A3));
    int spp = (type == 3 || type == 6) ? 3 : 1;
    if (type <= 3) {
        for (int y = 0; y < ph; ++y) {
            for (int x = 0; x < pw * spp; ++x) { b += vh::cat(type == 1 ? (int)r.below(2) : (int)r.below(256)); b += (x % 5 == 4 && comments) ? "\t" : " "; }
            b += "\n";
        }
    } else if (type == 4) {
        for (int y = 0; y < ph; ++y) for (int x = 0; x < (pw + 7) / 8; ++x) b.push_back((char)r.next());
    } else {
        for (int i = 0; i < pw * ph * spp; ++i) b.push_back((char)r.next());
    }
    return b;
}
static std::vector<seed_t> g_seeds;
static void build_seeds() {
    auto& v = g_seeds;
    for (int t = 1; t <= 6; ++t) {
        add_seed(v, vh::cat("c-P", t, "-7x5"), vh::cat("P", t), pnm_build(t, "7", "5", "255", 7, 5, 30 + t, false), t, true);
        add_seed(v, vh::cat("c-P", t, "-17x3-comments"), vh::cat("P", t), pnm_build(t, "17", "3", "255", 17, 3, 40 + t, true), t, false);
        add_seed(v, vh::cat("c-P", t, "-1x1"), vh::cat("P", t), pnm_build(t, "1", "1", "255", 1, 1, 50 + t, false), t, false);
    }
    // header syntax that GIL's writer never emits: comments in every legal place (after the magic number, between and after
    // the numbers, several in a row, at the very end of the header), CR / CRLF line ends, tabs and runs of blanks
    for (int t = 1; t <= 6; ++t) {
        bool mv = !(t == 1 || t == 4);
        std::string body = pnm_build(t, "5", "2", "255", 5, 2, 66 + t, false);
        body = body.substr(body.find(mv ? "255\n" : "2\n") + (mv ? 4 : 2));     // the raster of a plain 5x2 file
        add_seed(v, vh::cat("c-P", t, "-comments-everywhere"), vh::cat("P", t, "-syntax"),
                 vh::cat("P", t, "#c0\n#c1 after magic\n# c2\n5#c3 glued\n#c4\n#c5\n 2 #c6\n", mv ? "#c7\n255#c8 end of header\n" : "") + body, t, false);
        add_seed(v, vh::cat("c-P", t, "-crlf-tabs"), vh::cat("P", t, "-syntax"),
                 vh::cat("P", t, "\r\n# crlf comment\r\n5\t\t 2\r", mv ? "\n\t255\n" : "\n") + body, t, false);
        add_seed(v, vh::cat("c-P", t, "-cr-comment"), vh::cat("P", t, "-syntax"),
                 vh::cat("P", t, " # comment ended by CR only\r5 2", mv ? " 255 " : " ") + body, t, false);
    }
    add_seed(v, "c-P2-comment-in-raster", "P2-syntax", "P2\n3 2\n255\n1 2 # inside the raster\n3\n4 5 6\n# at the end", 2, false);
    add_seed(v, "c-P2-max15", "P2", pnm_build(2, "4", "2", "15", 4, 2, 60, false), 2, false);
    add_seed(v, "c-P5-max1", "P5", pnm_build(5, "4", "2", "1", 4, 2, 61, false), 5, false);
    gil::image_write_info<gil::pnm_tag> wi;
    add_seed(v, "w-gray8-9x7", "P5", written(gil::const_view(seeded_image<gil::gray8_image_t>(9, 7, 62)), wi), 5, false);
    add_seed(v, "w-rgb8-9x7", "P6", written(gil::const_view(seeded_image<gil::rgb8_image_t>(9, 7, 63)), wi), 6, false);
    add_seed(v, "w-rgb8-1x1", "P6", written(gil::const_view(seeded_image<gil::rgb8_image_t>(1, 1, 64)), wi), 6, false);
    { gil::gray1_image_t g(16, 5); gil::fill_pixels(gil::view(g), gil::gray1_image_t::value_type(0)); vh::rng r(65);
      auto gv = gil::view(g); for (int y = 0; y < 5; ++y) { auto it = gv.row_begin(y); for (int x = 0; x < 16; ++x, ++it) gil::at_c<0>(*it) = (unsigned)r.below(2); }
      add_seed(v, "w-gray1-16x5", "P4", written(gil::view(g), wi), 4, false); }
    add_fixture(v, "pnm", "p4.pnm", "P4", 4, false);
    add_fixture(v, "pnm", "p5.pnm", "P5", 5, false);
    // heads of the big ASCII fixtures, re-declared to the rows kept
    struct { const char* f; int type; } big[] = { { "p1.pnm", 1 }, { "p2.pnm", 2 }, { "p3.pnm", 3 } };
    for (auto& x : big) {
        std::string b; if (!load_fixture("pnm", x.f, b)) vh::fatal_monitor("harness", vh::cat("fixture missing: pnm/", x.f));
        add_seed(v, vh::cat("head-", x.f), vh::cat("P", x.type), b.substr(0, 6000), x.type, false);
    }
}
// textual header variants (the "field x boundary value" family of a text format)
static void header_text() {
    const char* nums[] = { "0", "1", "2", "7", "8", "9", "15", "16", "17", "24", "32", "33", "64", "127", "128", "255", "256", "32767", "32768", "65535", "65536",
                           "214748364", "214748365", "2147483647", "2147483648", "4294967295", "4294967296", "99999999999999999999", "000000000000000000007",
                           "-1", "+1", "", "1.5", "0x10", "7#c", "\n#only a comment\n7" };
    const int NN = sizeof nums / sizeof *nums;
    for (int t = 1; t <= 6; ++t) {
        if (!vh::thorough() && (t == 1 || t == 5)) { /* all types in quick too: they are cheap */ }
        for (int fld = 0; fld < 3; ++fld) {
            if (fld == 2 && (t == 1 || t == 4)) continue;
            const char* fname = fld == 0 ? "width" : fld == 1 ? "height" : "maxval";
            for (int k = 0; k < NN; ++k)
                MUT(vh::cat("field.", fname), vh::cat("P", t, ":", fname, "=", k), false, true, [&] {
                    return pnm_build(t, fld == 0 ? nums[k] : "7", fld == 1 ? nums[k] : "5", fld == 2 ? nums[k] : "255", 7, 5, 70 + t, false);
                });
        }
    }
    const char* types[] = { "P0", "P7", "P9", "P", "Q5", "p5", "P10", "P-1", "P\n5", "#c\nP5", " P5", "P5#c", "P 5" };
    for (int k = 0; k < 13; ++k)
        MUT("field.type", vh::cat("type", k), false, true, [&] { return std::string(types[k]) + "\n3 2\n255\n" + std::string(18, 'x'); });
}
// maxval: every power of two and its neighbours (valid-shaped values that the boundary table skips)
static void maxval_powers() {
    std::vector<unsigned> vals;
    for (int k = 0; k <= 16; ++k) for (int d = -1; d <= 1; ++d) { long x = (1L << k) + d; if (x >= 0 && x <= 65536 && std::find(vals.begin(), vals.end(), (unsigned)x) == vals.end()) vals.push_back((unsigned)x); }
    for (int t : { 2, 3, 5, 6 }) for (unsigned mv : vals)
        MUT("maxval-pow2", vh::cat("P", t, "-max", mv), false, true, [&] { return pnm_build(t, "4", "2", vh::cat(mv), 4, 2, 85 + t, false); });
}
static void targeted() {
    maxval_powers();
    header_text();
    // digit strings longer than the reader's 16-byte number buffer (F13), in every ASCII type and position
    for (int t = 1; t <= 3; ++t) for (int digits : { 14, 15, 16, 17, 20, 32, 64, 200, 5000 }) for (int where = 0; where < 3; ++where)
        MUT("text-long-number", vh::cat("P", t, "-", digits, "digits-", where == 0 ? "first" : where == 1 ? "middle" : "last"), false, true, [&] {
            std::string b = vh::cat("P", t, "\n4 2\n", t == 1 ? "" : "255\n");
            int n = 8 * (t == 3 ? 3 : 1), at = where == 0 ? 0 : where == 1 ? n / 2 : n - 1;
            for (int i = 0; i < n; ++i) { b += i == at ? std::string(digits, '1') : std::string("1"); b += " "; }
            return b;
        });
    // ASCII data: signs, junk, values above maxval, missing samples, comments at EOF, no trailing whitespace
    const char* bodies[] = { "1 2 3 -4 5 6 7 8", "1 2 3 x 5 6 7 8", "256 300 65536 4294967296 1 1 1 1", "1 2 3", "", "1 2 3 4 5 6 7 8#c", "1 2 3 4 5 6 7 #c\n8",
                             "1\t2\r3\v4\f5 6 7 8", "12345678", "1 2 3 4 5 6 7 8 9 10 11 12", "1,2,3,4,5,6,7,8", "1 2 3 4 5 6 7 8" };
    for (int t = 1; t <= 3; ++t) for (int k = 0; k < 12; ++k)
        MUT("text-body", vh::cat("P", t, "-body", k), false, true, [&] {
            std::string body = bodies[k]; if (t == 3) body = body + " " + body + " " + body;
            return vh::cat("P", t, "\n4 2\n", t == 1 ? "" : "255\n", body);
        });
    // maxval vs data and type
    for (int t : { 2, 3, 5, 6 }) for (const char* mv : { "0", "1", "2", "254", "255", "256", "65535" })
        MUT("maxval", vh::cat("P", t, "-max", mv), false, true, [&] { return pnm_build(t, "4", "2", mv, 4, 2, 80 + t, false); });
    // declared size vs data: far more / fewer samples than declared
    struct { const char* id; const char* w; const char* h; int pw, ph; } dc[] = {
        { "declared-bigger", "40", "30", 4, 3 }, { "declared-smaller", "2", "1", 9, 9 }, { "declared-w0", "0", "5", 4, 3 }, { "declared-h0", "5", "0", 4, 3 },
        { "declared-00", "0", "0", 0, 0 }, { "declared-huge-w", "2000000000", "1", 4, 3 }, { "declared-huge-h", "1", "2000000000", 4, 3 },
        { "declared-65536x65536", "65536", "65536", 4, 3 }, { "declared-3000000x1", "3000000", "1", 4, 3 }, { "declared-1x3000000", "1", "3000000", 4, 3 },
        { "declared-16384x5000", "16384", "5000", 4, 3 }, { "declared-w-not-multiple-of-8", "9", "3", 16, 3 } };
    for (int t = 1; t <= 6; ++t) for (auto const& c : dc) {
        if (!vh::thorough() && (strstr(c.id, "3000000") || strstr(c.id, "16384"))) continue;       // allocatable and slow
        MUT("dimension", vh::cat("P", t, "-", c.id), false, true, [&] { return pnm_build(t, c.w, c.h, "255", c.pw, c.ph, 90 + t, false); });
    }
    const char* junk[] = { "", "P", "P5", "P5 ", "P5 3", "P5 3 2", "P5 3 2 255", "BM......", "\x89PNG\r\n\x1a\n" };
    for (int k = 0; k < 9; ++k) MUT("not-pnm", vh::cat("junk", k), false, true, [&] { return std::string(junk[k]); });
    for (int k = 0; k < (vh::thorough() ? 400 : 60); ++k)
        MUT("noise", vh::cat("noise", k), false, false, [&] {
            vh::rng r = vh::case_rng(); std::string b = vh::cat("P", 1 + (int)r.below(6), " ");
            static const char alphabet[] = "0123456789 \n\t#-+.xP";
            size_t n = 4 + r.below(90);
            for (size_t i = 0; i < n; ++i) b.push_back(r.below(5) ? alphabet[r.below(sizeof alphabet - 1)] : (char)r.next());
            return b;
        });
}
#endif

// =====================================================================================================
#if C11_FMT == 2   // ---------------------------------------------------------------------------- TARGA
struct F_tga {
    typedef gil::targa_tag tag;
    static const char* name() { return "tga"; }
    static const char* ext() { return "tga"; }
    static const bool has_FILE = true;
    static const bool subrect = true;
    static const bool lib_codec = false;
    static const bool strict_field_reads = true;
    static const bool has_info_all = false;
    static size_t fixed_header_len(std::string const&) { return 18; }
    template <class Src> static void info_all(Src&, outcome&) {}
    template <class Backend> static std::string backend_extra(Backend const&) { return std::string(); }
    typedef std::tuple<gil::rgb8_image_t, gil::rgba8_image_t> natives;
    typedef std::tuple<gil::rgb8_image_t, gil::gray8_image_t> conv_targets;
    typedef gil::any_image<gil::rgb8_image_t, gil::rgba8_image_t> any_t;
    static std::string info_str(gil::image_read_info<tag> const& i) {
        return vh::cat("hs=", (int)i._header_size, " off=", (long)i._offset, " cmt=", (int)i._color_map_type, " it=", (int)i._image_type, " cms=", (int)i._color_map_start,
                       " cml=", (int)i._color_map_length, " cmd=", (int)i._color_map_depth, " xo=", (int)i._x_origin, " yo=", (int)i._y_origin, " w=", (int)i._width,
                       " h=", (int)i._height, " bpp=", (int)i._bits_per_pixel, " desc=", (int)i._descriptor, " so=", (int)i._screen_origin_bit, " valid=", (int)i._valid);
    }
    static bool parse_dims(std::string const& b, long& w, long& h, uint64_t& extra) {
        extra = 0; w = (long)c11::get_le(b, 12, 2); h = (long)c11::get_le(b, 14, 2); return true;
    }
    static uint64_t declared_slack(std::string const&) { return 0; }
    static size_t header_len(seed_t const&) { return 18; }
    static std::string fixup(std::string const& b) { return b; }
    static std::vector<enum_field_t> enum_fields(seed_t const&) {
        return { { { "descriptor", 17, 1, false }, vrange(0, 255) }, { { "bpp", 16, 1, false }, vrange(0, 33, { 48, 64, 255 }) },
                 { { "imgtype", 2, 1, false }, vrange(0, 12, { 32, 33, 128, 255 }) }, { { "cmaptype", 1, 1, false }, vrange(0, 3) },
                 { { "cmapdepth", 7, 1, false }, { 0, 8, 15, 16, 24, 32 } }, { { "idlen", 0, 1, false }, vrange(0, 4, { 26, 255 }) },
                 { { "cmaplen", 5, 2, false }, vrange(0, 3, { 16, 256 }) } };
    }
    static std::vector<c11::field_t> fields(seed_t const&) {
        return { { "idlen", 0, 1, false }, { "cmaptype", 1, 1, false }, { "imgtype", 2, 1, false }, { "cmapstart", 3, 2, false }, { "cmaplen", 5, 2, false },
                 { "cmapdepth", 7, 1, false }, { "xorigin", 8, 2, false }, { "yorigin", 10, 2, false }, { "width", 12, 2, false }, { "height", 14, 2, false },
                 { "bpp", 16, 1, false }, { "descriptor", 17, 1, false } };
    }
};
typedef F_tga F;

static std::string tga_header(int idlen, int cmaptype, int imgtype, int cmapstart, int cmaplen, int cmapdepth, int w, int h, int bpp, int desc) {
    std::string b;
    b.push_back((char)idlen); b.push_back((char)cmaptype); b.push_back((char)imgtype);
    c11::app_le(b, 2, cmapstart); c11::app_le(b, 2, cmaplen); b.push_back((char)cmapdepth);
    c11::app_le(b, 2, 0); c11::app_le(b, 2, 0); c11::app_le(b, 2, w); c11::app_le(b, 2, h);
    b.push_back((char)bpp); b.push_back((char)desc);
    for (int i = 0; i < idlen; ++i) b.push_back((char)('a' + i % 26));
    return b;
}
// RLE packet stream that exactly covers w*h pixels (packets may cross scan lines, as in the fixtures)
static std::string tga_rle(int w, int h, int bytespp, uint64_t seed) {
    std::string d; vh::rng r(vh::mix(seed, 0x76A));
    long left = (long)w * h;
    while (left > 0) {
        int n = 1 + (int)r.below((uint64_t)std::min<long>(left, r.below(4) ? 6 : 128));
        if (r.coin()) { d.push_back((char)(0x80 | (n - 1))); for (int c = 0; c < bytespp; ++c) d.push_back((char)r.next()); }
        else { d.push_back((char)(n - 1)); for (int i = 0; i < n * bytespp; ++i) d.push_back((char)r.next()); }
        left -= n;
    }
    return d;
}
static std::string tga_raw(int w, int h, int bytespp, uint64_t seed) {
    std::string d; vh::rng r(vh::mix(seed, 0x7A3)); for (long i = 0; i < (long)w * h * bytespp; ++i) d.push_back((char)r.next()); return d;
}
static std::vector<seed_t> g_seeds;
static void build_seeds() {
    auto& v = g_seeds;
    for (int bpp : { 24, 32 }) for (int ul = 0; ul < 2; ++ul) {
        int desc = (bpp == 32 ? 8 : 0) | (ul ? 0x20 : 0);
        add_seed(v, vh::cat("c-raw", bpp, ul ? "-ul" : "", "-5x3"), vh::cat("raw", bpp, ul ? "-ul" : ""), tga_header(0, 0, 2, 0, 0, 0, 5, 3, bpp, desc) + tga_raw(5, 3, bpp / 8, bpp + ul), bpp == 32, ul == 0);
        add_seed(v, vh::cat("c-rle", bpp, ul ? "-ul" : "", "-9x5"), vh::cat("rle", bpp, ul ? "-ul" : ""), tga_header(0, 0, 10, 0, 0, 0, 9, 5, bpp, desc) + tga_rle(9, 5, bpp / 8, 10 + bpp + ul), bpp == 32, true);
    }
    add_seed(v, "c-rle24-idfield-4x4", "rle24", tga_header(7, 0, 10, 0, 0, 0, 4, 4, 24, 0) + tga_rle(4, 4, 3, 77), 0, false);
    add_seed(v, "c-raw24-1x1", "raw24", tga_header(0, 0, 2, 0, 0, 0, 1, 1, 24, 0) + tga_raw(1, 1, 3, 78), 0, false);
    add_seed(v, "c-rle32-1x1", "rle32", tga_header(0, 0, 10, 0, 0, 0, 1, 1, 32, 8) + tga_rle(1, 1, 4, 79), 1, false);
    // layout features GIL's writer never produces: colour map present on a true-colour image (legal: the reader must skip or reject it),
    // image id + colour map together, TGA 2.0 extension area + footer after the pixels
    { std::string b = tga_header(5, 1, 2, 0, 4, 24, 4, 3, 24, 0); vh::rng r(86); for (int i = 0; i < 12; ++i) b.push_back((char)r.next());
      add_seed(v, "c-raw24-id-cmap-4x3", "raw24-cmap", b + tga_raw(4, 3, 3, 86), 0, false); }
    { std::string b = tga_header(0, 1, 10, 0, 2, 32, 4, 3, 32, 8); b += std::string(8, '\x55');
      add_seed(v, "c-rle32-cmap-4x3", "rle32-cmap", b + tga_rle(4, 3, 4, 87), 1, false); }
    { std::string b = tga_header(0, 0, 2, 0, 0, 0, 4, 3, 24, 0) + tga_raw(4, 3, 3, 88); size_t ext = b.size();
      b += std::string(2, '\0'); c11::put_le(b, ext, 2, 495); b += std::string(493, 'e');
      std::string foot; c11::app_le(foot, 4, ext); c11::app_le(foot, 4, 0); foot += "TRUEVISION-XFILE."; foot.push_back('\0');
      add_seed(v, "c-raw24-ext-footer-4x3", "raw24-tga2", b + foot, 0, false); }
    { std::string foot; c11::app_le(foot, 4, 0); c11::app_le(foot, 4, 0); foot += "TRUEVISION-XFILE."; foot.push_back('\0');
      add_seed(v, "c-rle24-footer-9x5", "rle24-tga2", tga_header(0, 0, 10, 0, 0, 0, 9, 5, 24, 0) + tga_rle(9, 5, 3, 89) + foot, 0, false); }
    gil::image_write_info<gil::targa_tag> wi;
    add_seed(v, "w-rgb8-9x7", "raw24", written(gil::const_view(seeded_image<gil::rgb8_image_t>(9, 7, 81)), wi), 0, false);
    add_seed(v, "w-rgba8-9x7", "raw32", written(gil::const_view(seeded_image<gil::rgba8_image_t>(9, 7, 82)), wi), 1, false);
    add_seed(v, "w-rgb8-1x1", "raw24", written(gil::const_view(seeded_image<gil::rgb8_image_t>(1, 1, 83)), wi), 0, false);
    add_seed(v, "w-bgr8-3x2", "raw24", written(gil::const_view(seeded_image<gil::bgr8_image_t>(3, 2, 84)), wi), 0, false);
    add_seed(v, "w-bgra8-3x2", "raw32", written(gil::const_view(seeded_image<gil::bgra8_image_t>(3, 2, 85)), wi), 1, false);
    add_fixture(v, "targa", "24BPP_compressed.tga", "rle24", 0, true);
    add_fixture(v, "targa", "24BPP_compressed_ul_origin.tga", "rle24-ul", 0, false);
    add_fixture(v, "targa", "32BPP_compressed.tga", "rle32", 1, true);
    add_fixture(v, "targa", "32BPP_compressed_ul_origin.tga", "rle32-ul", 1, false);
    // heads of the uncompressed fixtures (> 40 KB): re-declared to the rows kept
    struct { const char* f; int bpp; } big[] = { { "24BPP_uncompressed.tga", 24 }, { "32BPP_uncompressed_ul_origin.tga", 32 } };
    for (auto& x : big) {
        std::string b; if (!load_fixture("targa", x.f, b)) vh::fatal_monitor("harness", vh::cat("fixture missing: targa/", x.f));
        long w = (long)c11::get_le(b, 12, 2); long rows = 12; size_t off = 18 + (unsigned char)b[0];
        std::string s = b.substr(0, off + (size_t)w * rows * (x.bpp / 8)); c11::put_le(s, 14, 2, (uint64_t)rows);
        add_seed(v, vh::cat("head-", x.f), vh::cat("raw", x.bpp), s, x.bpp == 32, false);
    }
}
// every pixel depth 1..32 with every image type (raw / RLE x colour-mapped / true-colour / grey), descriptor alpha bits consistent and not
static void depth_by_type() {
    for (int type : { 0, 1, 2, 3, 9, 10, 11 }) for (int bpp = 1; bpp <= 32; ++bpp) for (int alpha : { 0, 8 }) {
        if (alpha && bpp != 16 && bpp != 32) continue;
        MUT("depth-by-type", vh::cat("type", type, "-bpp", bpp, "-alpha", alpha), false, true, [&] {
            int bytespp = (bpp + 7) / 8; bool cm = type == 1 || type == 9;
            std::string b = tga_header(0, cm ? 1 : 0, type, 0, cm ? 4 : 0, cm ? 24 : 0, 4, 3, bpp, alpha);
            if (cm) b += std::string(12, '\x33');
            return b + ((type & 8) ? tga_rle(4, 3, bytespp, 97) : tga_raw(4, 3, bytespp, 97));
        });
    }
}
static void targeted() {
    depth_by_type();
    // RLE packets overrunning the image (F12)
    struct { const char* id; int w, h; std::vector<int> packets; } rc[] = {
        { "run128-into-1x1", 1, 1, { 0xFF } }, { "run2-into-1x1", 1, 1, { 0x81 } }, { "raw128-into-1x1", 1, 1, { 0x7F } }, { "raw2-into-1x1", 1, 1, { 0x01 } },
        { "run-crosses-end-4x2", 4, 2, { 0x86, 0x82 } }, { "raw-crosses-end-4x2", 4, 2, { 0x06, 0x02 } }, { "run-then-raw-overrun", 3, 3, { 0x87, 0x7F } },
        { "exact-fit-control", 4, 2, { 0x83, 0x03 } }, { "last-pixel-run128", 16, 8, { 0xFE, 0xFF } }, { "many-runs-beyond", 2, 2, { 0x80, 0x80, 0x80, 0xFF, 0xFF } } };
    for (auto const& c : rc) for (int bpp : { 24, 32 }) for (int ul = 0; ul < 2; ++ul)
        MUT("rle-overrun", vh::cat(c.id, "-bpp", bpp, ul ? "-ul" : ""), false, true, [&] {
            std::string b = tga_header(0, 0, 10, 0, 0, 0, c.w, c.h, bpp, (bpp == 32 ? 8 : 0) | (ul ? 0x20 : 0));
            vh::rng r(91);
            for (int p : c.packets) {
                b.push_back((char)p);
                int n = (p & 0x80) ? 1 : (p & 0x7F) + 1;
                for (int i = 0; i < n * bpp / 8; ++i) b.push_back((char)r.next());
            }
            return b;
        });
    // RLE data ending inside a packet
    for (int cut = 0; cut < 12; ++cut) for (int bpp : { 24, 32 })
        MUT("rle-short", vh::cat("cut", cut, "-bpp", bpp), false, true, [&] {
            std::string b = tga_header(0, 0, 10, 0, 0, 0, 6, 4, bpp, bpp == 32 ? 8 : 0);
            std::string d = tga_rle(6, 4, bpp / 8, 92); return b + d.substr(0, std::min<size_t>(d.size(), (size_t)cut));
        });
    // colour-map fields (GIL documents: not supported; must be an error, never trusted)
    for (int cmt : { 0, 1, 2, 255 }) for (int it : { 0, 1, 2, 3, 9, 10, 11, 32, 255 }) for (int cml : { 0, 1, 256, 65535 })
        MUT("colormap", vh::cat("cmt", cmt, "-type", it, "-len", cml), false, true, [&] {
            std::string b = tga_header(0, cmt, it, 0, cml, 24, 4, 3, 24, 0);
            vh::rng r(93); for (int i = 0; i < std::min(cml, 300) * 3; ++i) b.push_back((char)r.next());
            return b + ((it & 8) ? tga_rle(4, 3, 3, 94) : tga_raw(4, 3, 3, 94));
        });
    // descriptor / bpp combinations
    for (int bpp : { 0, 1, 8, 15, 16, 24, 32, 33, 255 }) for (int desc : { 0, 1, 8, 15, 0x20, 0x28, 0x10, 0x30, 0x40, 0x80, 0xFF })
        MUT("descriptor", vh::cat("bpp", bpp, "-desc", desc), false, true, [&] {
            return tga_header(0, 0, 2, 0, 0, 0, 4, 3, bpp, desc) + tga_raw(4, 3, 4, 95);
        });
    // dimensions vs data, id length beyond EOF
    struct { const char* id; int w, h, idlen, type; } dc[] = { { "w0", 0, 3, 0, 2 }, { "h0", 3, 0, 0, 2 }, { "65535x65535-raw", 65535, 65535, 0, 2 }, { "65535x65535-rle", 65535, 65535, 0, 10 },
                                                               { "65535x1-raw", 65535, 1, 0, 2 }, { "1x65535-raw", 1, 65535, 0, 2 }, { "65535x300-rle", 65535, 300, 0, 10 }, { "4000x4000-rle", 4000, 4000, 0, 10 },
                                                               { "idlen255", 4, 3, 255, 2 }, { "idlen255-rle", 4, 3, 255, 10 }, { "1x65535-rle", 1, 65535, 0, 10 } };
    for (auto const& c : dc) for (int bpp : { 24, 32 }) {
        if (!vh::thorough() && (long)c.w * c.h > (6L << 20) && (long)c.w * c.h * (bpp / 8) < (256L << 20)) continue;   // allocatable and slow
        MUT("dimension", vh::cat(c.id, "-bpp", bpp), false, true, [&] {
            std::string b = tga_header(0, 0, c.type, 0, 0, 0, c.w, c.h, bpp, bpp == 32 ? 8 : 0); b[0] = (char)c.idlen;
            return b + (c.type == 10 ? tga_rle(4, 3, bpp / 8, 96) : tga_raw(4, 3, bpp / 8, 96));
        });
    }
    const char* junk[] = { "", "\0", "BM", "P6 1 1 255 abc", "\x89PNG\r\n\x1a\n", "TRUEVISION-XFILE.\0" };
    for (int k = 0; k < 6; ++k) MUT("not-tga", vh::cat("junk", k), false, true, [&] { return std::string(junk[k], k == 1 ? 1 : strlen(junk[k])); });
    for (int k = 0; k < (vh::thorough() ? 400 : 60); ++k)
        MUT("noise", vh::cat("noise", k), false, false, [&] {
            vh::rng r = vh::case_rng();
            std::string b = tga_header(r.below(4) ? 0 : (int)r.below(256), 0, r.coin() ? 10 : 2, 0, 0, 0, 1 + (int)r.below(12), 1 + (int)r.below(12), r.coin() ? 24 : 32, 0);
            if ((unsigned char)b[16] == 32) b[17] = (char)(r.coin() ? 8 : 40); else b[17] = (char)(r.coin() ? 0 : 0x20);
            size_t n = r.below(200); for (size_t i = 0; i < n; ++i) b.push_back((char)r.next());
            return b;
        });
}
#endif

// =====================================================================================================
#if C11_FMT >= 3
#include "c11_libformats.hpp"
#else
static void format_setup() {}
#endif

int main(int argc, char** argv) {
    vh::init(argc, argv);
    // Declared-huge images must end in bad_alloc (an accepted outcome) rather than in minutes of legitimate work:
    // the quick tier caps single allocations at 32 MiB (8 Mi rgba8 pixels), the thorough tier at 256 MiB.
    c11::alloc_state().cap = (size_t)(vh::thorough() ? 256 : 32) << 20;
#ifdef VH_HAVE_SANITIZER
    vh::__sanitizer_set_death_callback(&c11_on_death);
#endif
    g_fmt = F::name();
    g_strict_fields = F::strict_field_reads;
    g_list_only = vh::opt_long("list", 0) != 0;
    g_devmask = (int)vh::opt_long("devmask", 7);
    format_setup();
    build_seeds();
    generic_families<F>(g_seeds);
    targeted();
    return vh::finish();
}
