// c04_kinds.hpp -- "type kinds" (TK) for C04: one view *type* plus its run-time variants, all built
// over a caller-supplied byte arena so that two byte-identical twin arenas get byte-identical views.
//
// A TK provides
//   view_t                 the GIL view type
//   mut_t                  the TK whose view over the *same* arena/variant is writable (itself if writable)
//   writable, has_identity whether pixels can be assigned / whether a dereference has a memory identity
//   NVAR, var(i)           run-time variants (contiguous, padded rows, interior sub-view, flipped, ...)
//   V_CONTIG,V_PADDED,V_SUB  indices of the three base variants (used by derived kinds)
//   bytes(v,w,h)           arena size needed for variant v of a w x h view
//   make(v,base,w,h)       the view
#pragma once
#include <boost/gil.hpp>
#include <string>
#include "common/vh.hpp"
#include "common/pixtools.hpp"

namespace k4 {
namespace gil = boost::gil;

#define K4_TAG(T, S) struct T { static const char* name() { return S; } }

// ---- x_iterator is a pointer to pixel<T,L> or packed_pixel<...> --------------------------------
template <class Pixel, class Tag> struct ptr_tk {
    typedef typename gil::type_from_x_iterator<Pixel*>::view_t view_t;
    typedef ptr_tk mut_t;
    static const bool writable = true, has_identity = true;
    static std::string name() { return std::string(Tag::name()) + "-ptr"; }
    static const int NVAR = 4, V_CONTIG = 0, V_PADDED = 1, V_SUB = 2;
    static const char* var(int i) { static const char* n[] = {"contig", "padded", "sub", "flipud"}; return n[i]; }
    static const long PS = (long)sizeof(Pixel), PAD = (long)alignof(Pixel);
    static const long SX = 2, SY = 1, SW = 3, SH = 2;     // sub-view: offset and extra columns/rows
    static size_t bytes(int v, long w, long h) {
        switch (v) {
        case 0: return (size_t)(w * PS * h);
        case 2: return (size_t)((w + SW) * PS * (h + SH));
        default: return (size_t)((w * PS + PAD) * h);
        }
    }
    static view_t make(int v, unsigned char* b, long w, long h) {
        switch (v) {
        case 0: return gil::interleaved_view(w, h, (Pixel*)(void*)b, w * PS);
        case 2: return gil::subimage_view(gil::interleaved_view(w + SW, h + SH, (Pixel*)(void*)b, (w + SW) * PS), SX, SY, w, h);
        case 3: return gil::flipped_up_down_view(gil::interleaved_view(w, h, (Pixel*)(void*)b, w * PS + PAD));
        default: return gil::interleaved_view(w, h, (Pixel*)(void*)b, w * PS + PAD);
        }
    }
};

// ---- planar, N = 2..5 planes inside one arena (views are built from a hand-made planar_pixel_iterator) ----
template <class Pixel, class Tag> struct planar_tk {
    typedef typename gil::view_type_from_pixel<Pixel, true>::type view_t;
    typedef typename gil::channel_type<Pixel>::type ch_t;
    typedef typename view_t::x_iterator xit;
    typedef typename view_t::locator loc_t;
    typedef planar_tk mut_t;
    static const int N = gil::num_channels<Pixel>::value;
    static const bool writable = true, has_identity = true;
    static std::string name() { return std::string(Tag::name()) + "-planar"; }
    static const int NVAR = 4, V_CONTIG = 0, V_PADDED = 1, V_SUB = 2;
    static const char* var(int i) { static const char* n[] = {"contig", "padded", "sub", "flipud"}; return n[i]; }
    static const long CS = (long)sizeof(ch_t);
    static const long SX = 2, SY = 1, SW = 3, SH = 2;
    static long rowbytes(int v, long w) { return v == 0 ? w * CS : (v == 2 ? (w + SW) * CS : w * CS + CS); }
    static long rows(int v, long h) { return v == 2 ? h + SH : h; }
    // planes are separated by one channel of slack except in the contiguous variant
    static long plane(int v, long w, long h) { return rowbytes(v, w) * rows(v, h) + (v == 0 ? 0 : CS); }
    static size_t bytes(int v, long w, long h) { return (size_t)(N * plane(v, w, h)); }
    static ch_t* pl(unsigned char* b, long plane_bytes, int k) { return (ch_t*)(void*)(b + k * plane_bytes); }
    static xit first(unsigned char* b, long p, std::integral_constant<int, 2>) { return xit(pl(b, p, 0), pl(b, p, 1)); }
    static xit first(unsigned char* b, long p, std::integral_constant<int, 3>) { return xit(pl(b, p, 0), pl(b, p, 1), pl(b, p, 2)); }
    static xit first(unsigned char* b, long p, std::integral_constant<int, 4>) { return xit(pl(b, p, 0), pl(b, p, 1), pl(b, p, 2), pl(b, p, 3)); }
    static xit first(unsigned char* b, long p, std::integral_constant<int, 5>) { return xit(pl(b, p, 0), pl(b, p, 1), pl(b, p, 2), pl(b, p, 3), pl(b, p, 4)); }
    static view_t full(int v, unsigned char* b, long w, long h, long fw, long fh) {
        return view_t(gil::point_t(fw, fh), loc_t(first(b, plane(v, w, h), std::integral_constant<int, N>()), rowbytes(v, w)));
    }
    static view_t make(int v, unsigned char* b, long w, long h) {
        switch (v) {
        case 2: return gil::subimage_view(full(v, b, w, h, w + SW, h + SH), SX, SY, w, h);
        case 3: return gil::flipped_up_down_view(full(v, b, w, h, w, h));
        default: return full(v, b, w, h, w, h);
        }
    }
};

// ---- bit-aligned: rows need not start on a byte; a view may start at any bit --------------------
template <class Image, class Tag> struct ba_tk {
    typedef typename Image::view_t view_t;
    typedef typename view_t::x_iterator xit;
    typedef typename view_t::locator loc_t;
    typedef ba_tk mut_t;
    static const bool writable = true, has_identity = true;
    static std::string name() { return Tag::name(); }
    static const long BPP = view_t::reference::bit_size;
    // 0 contig (stride w*bpp bits: what image<> does with alignment 0), 1 odd padding (+3 bits),
    // 2 byte-aligned rows + 1 byte, 3..10 interior sub-view whose first pixel starts at bit k=0..7 of a byte,
    // rows w*bpp+5 bits apart (every row starts at another bit offset)
    static const int NVAR = 11, V_CONTIG = 0, V_PADDED = 1, V_SUB = 6;
    static const char* var(int i) { static const char* n[] = {"contig", "oddpad", "bytepad", "sub@0", "sub@1", "sub@2", "sub@3", "sub@4", "sub@5", "sub@6", "sub@7"}; return n[i]; }
    static long stride(int v, long w) { return v == 0 ? w * BPP : (v == 1 ? w * BPP + 3 : (v == 2 ? ((w * BPP + 7) / 8) * 8 + 8 : w * BPP + 5)); }
    static long first(int v) { return v >= 3 ? 16 + (v - 3) : 0; }
    static size_t bytes(int v, long w, long h) { return (size_t)((first(v) + stride(v, w) * h + 7) / 8 + (v >= 3 ? 2 : 0)); }
    static view_t make(int v, unsigned char* b, long w, long h) {
        const long f = first(v);
        return view_t(gil::point_t(w, h), loc_t(xit(b + f / 8, (int)(f % 8)), stride(v, w)));
    }
};

// ---- derived: dynamic x-step type ------------------------------------------------------------------
template <class Base> struct step_tk {
    typedef typename gil::dynamic_x_step_type<typename Base::view_t>::type view_t;
    typedef step_tk mut_t;
    static const bool writable = true, has_identity = true;
    static std::string name() { return Base::name() + "-step"; }
    static const int NVAR = 5, V_CONTIG = 2, V_PADDED = 0, V_SUB = 3;
    static const char* var(int i) { static const char* n[] = {"xstep2", "fliplr", "xstep1", "xystep22", "rot180"}; return n[i]; }
    static size_t bytes(int v, long w, long h) {
        switch (v) {
        case 0: return Base::bytes(Base::V_PADDED, 2 * w, h);
        case 1: return Base::bytes(Base::V_CONTIG, w, h);
        case 2: return Base::bytes(Base::V_CONTIG, w, h);
        case 3: return Base::bytes(Base::V_SUB, 2 * w, 2 * h);
        default: return Base::bytes(Base::V_PADDED, w, h);
        }
    }
    static view_t make(int v, unsigned char* b, long w, long h) {
        switch (v) {
        case 0: return view_t(gil::subsampled_view(Base::make(Base::V_PADDED, b, 2 * w, h), 2, 1));
        case 1: return view_t(gil::flipped_left_right_view(Base::make(Base::V_CONTIG, b, w, h)));
        case 2: return view_t(gil::subsampled_view(Base::make(Base::V_CONTIG, b, w, h), 1, 1));
        case 3: return view_t(gil::subsampled_view(Base::make(Base::V_SUB, b, 2 * w, 2 * h), 2, 2));
        default: return view_t(gil::rotated180_view(Base::make(Base::V_PADDED, b, w, h)));
        }
    }
};

// ---- derived: transposed step type ------------------------------------------------------------------
template <class Base> struct transp_tk {
    typedef typename gil::dynamic_xy_step_transposed_type<typename Base::view_t>::type view_t;
    typedef transp_tk mut_t;
    static const bool writable = true, has_identity = true;
    static std::string name() { return Base::name() + "-transp"; }
    static const int NVAR = 3, V_CONTIG = 0, V_PADDED = 1, V_SUB = 2;
    static const char* var(int i) { static const char* n[] = {"transposed", "rot90cw", "rot90ccw"}; return n[i]; }
    static int bv(int v) { return v == 0 ? Base::V_CONTIG : (v == 1 ? Base::V_PADDED : Base::V_SUB); }
    static size_t bytes(int v, long w, long h) { return Base::bytes(bv(v), h, w); }
    static view_t make(int v, unsigned char* b, long w, long h) {
        switch (v) {
        case 0: return gil::transposed_view(Base::make(bv(v), b, h, w));
        case 1: return gil::rotated90cw_view(Base::make(bv(v), b, h, w));
        default: return gil::rotated90ccw_view(Base::make(bv(v), b, h, w));
        }
    }
};

// ---- derived: const view (source only) ----------------------------------------------------------------
template <class Base> struct const_tk {
    typedef typename Base::view_t::const_t view_t;
    typedef Base mut_t;
    static const bool writable = false, has_identity = true;
    static std::string name() { return Base::name() + "-const"; }
    static const int NVAR = Base::NVAR, V_CONTIG = Base::V_CONTIG, V_PADDED = Base::V_PADDED, V_SUB = Base::V_SUB;
    static const char* var(int i) { return Base::var(i); }
    static size_t bytes(int v, long w, long h) { return Base::bytes(v, w, h); }
    static view_t make(int v, unsigned char* b, long w, long h) { return view_t(Base::make(v, b, w, h)); }
};

// ---- a caller-supplied colour converter whose result depends on run-time member state ------------------
inline uint64_t& cc_state() { static uint64_t s = 1; return s; }      // chosen per case by the harness
struct stateful_cc {
    uint64_t off;
    stateful_cc() : off(0) {}
    explicit stateful_cc(uint64_t o) : off(o) {}
    template <class S, class D> void operator()(S const& src, D& dst) const {
        gil::default_color_converter()(src, dst);
        pt::pixval v = pt::get_pix(dst);
        for (int c = 0; c < v.n; ++c) v.ch[c] = vh::mix(v.ch[c], off * 8 + (uint64_t)c);
        pt::set_pix(dst, pt::norm_pix<D>(v));
    }
};

// ---- derived: color_converted_view (read-only source; dereference yields a value) --------------------
// Stateful=false: default_color_converter; Stateful=true: color_converted_view(src, stateful_cc(cc_state()))
template <class Base, class DstP, class Tag, bool Stateful = false> struct cc_tk {
    typedef typename std::conditional<Stateful, stateful_cc, gil::default_color_converter>::type cc_t;
    typedef typename gil::color_converted_view_type<typename Base::view_t, DstP, cc_t>::type view_t;
    typedef Base mut_t;
    typedef DstP value_t;
    static const bool writable = false, has_identity = false;
    static std::string name() { return Tag::name(); }
    static const int NVAR = Base::NVAR, V_CONTIG = Base::V_CONTIG, V_PADDED = Base::V_PADDED, V_SUB = Base::V_SUB;
    static const char* var(int i) { return Base::var(i); }
    static size_t bytes(int v, long w, long h) { return Base::bytes(v, w, h); }
    static cc_t cc(std::true_type) { return stateful_cc(cc_state()); }
    static cc_t cc(std::false_type) { return gil::default_color_converter(); }
    static cc_t cc() { return cc(std::integral_constant<bool, Stateful>()); }
    static view_t make(int v, unsigned char* b, long w, long h) { return gil::color_converted_view<DstP>(Base::make(v, b, w, h), cc()); }
};

// ---- what the per-pixel reference loop reads at (x,y) of a source instance (I has .v, the view, and .mv, the
// writable view over the same pixels).  Memory-based kinds: the view's own (x,y) access.  Converting kinds: the
// harness converts the underlying pixel itself with its own converter object, independent of the view's adaptor.
template <class TK> struct reader {
    typedef typename TK::view_t::reference result_t;
    template <class I> static result_t at(I const& s, long x, long y) { return s.v(x, y); }
};
template <class Base, class DstP, class Tag, bool Stateful> struct reader<cc_tk<Base, DstP, Tag, Stateful>> {
    typedef DstP result_t;
    template <class I> static result_t at(I const& s, long x, long y) { DstP t = DstP(); cc_tk<Base, DstP, Tag, Stateful>::cc()(s.mv(x, y), t); return t; }
};

} // namespace k4
