// C14 -- any_image / any_image_view behave exactly like the concrete image / view they hold.
// Differential monitor: every operation is run on the variant (over an arena of bytes the harness
// owns) and on the concrete object (over a byte-identical clone of the arena); results, arenas and
// pixel identities must agree.  Incompatible pairs must throw std::bad_cast and leave the
// destination arena untouched.  See DESIGN.md section 5, C14.
//
// Alternatives L = {gray8, gray16, rgb8, rgb8 planar, bgr8, rgba8}; shapes w,h in {0,1,2,3,5}.
// transposed_view and nth_channel_view of a variant do not instantiate at present: parts 8 and 9
// are build probes (propcfg).  -DC14_EQ_WITHOUT_PLANAR takes the planar alternative out of the
// equal_pixels / operator== list (needed while defect F2 was open; fixed in /repo since).
#include <boost/gil.hpp>
#include <boost/gil/extension/dynamic_image/dynamic_image_all.hpp>
#include <boost/gil/extension/numeric/sampler.hpp>
#include <boost/gil/extension/numeric/resample.hpp>
#include <typeinfo>
#include <vector>
#include <cstring>
#include "common/vh.hpp"

namespace gil = boost::gil;
namespace v2 = boost::variant2;
namespace mp11 = boost::mp11;

#ifndef C14_PART
#define C14_PART 0
#endif

// ---- alternatives ------------------------------------------------------------------------------
template <int I> struct ALT;
#define ALTDEF(I, IMG, NAME, CLS, NCH, CHB, PLANAR)                                          \
    template <> struct ALT<I> {                                                              \
        typedef gil::IMG image_t; typedef image_t::view_t view_t; typedef image_t::const_view_t cview_t; \
        static const char* name() { return NAME; }                                           \
        enum { cls = CLS, nch = NCH, chbytes = CHB, planar = PLANAR };                       \
    };
// cls: hand-written compatibility class (same colour space and channel type; layout and planarity free)
ALTDEF(0, gray8_image_t, "gray8", 0, 1, 1, 0)
ALTDEF(1, gray16_image_t, "gray16", 1, 1, 2, 0)
ALTDEF(2, rgb8_image_t, "rgb8", 2, 3, 1, 0)
ALTDEF(3, rgb8_planar_image_t, "rgb8p", 2, 3, 1, 1)
ALTDEF(4, bgr8_image_t, "bgr8", 2, 3, 1, 0)
ALTDEF(5, rgba8_image_t, "rgba8", 3, 4, 1, 0)
static const int NALT = 6;

typedef gil::any_image<ALT<0>::image_t, ALT<1>::image_t, ALT<2>::image_t, ALT<3>::image_t, ALT<4>::image_t, ALT<5>::image_t> AI;
typedef AI::view_t AV;
typedef AI::const_view_t ACV;
// without the planar alternative (F2)
typedef gil::any_image<ALT<0>::image_t, ALT<1>::image_t, ALT<2>::image_t, ALT<4>::image_t, ALT<5>::image_t> AInp;
typedef AInp::view_t AVnp;
#ifndef C14_EQ_WITHOUT_PLANAR
typedef AI AIeq; typedef AV AVeq;
#else
typedef AInp AIeq; typedef AVnp AVeq;
#endif

template <int I, int N> struct AltLoop {
    template <class F> static void run(F& f) { f(std::integral_constant<int, I>()); AltLoop<I + 1, N>::run(f); }
};
template <int N> struct AltLoop<N, N> { template <class F> static void run(F&) {} };

// shapes: w,h in {0,1,2,3,5} (quick) / {0,1,2,3,4,5,7,8} (thorough); set in main() after vh::init
static int SHAPES[8] = {0, 1, 2, 3, 5, 0, 0, 0};
static int NSHAPES = 5;
static int REPS = 1;            // seeded contents per shape in the algorithm cases (thorough: 3)
static void init_shapes() {
    if (!vh::thorough()) return;
    REPS = 3;
    static const int t[] = {0, 1, 2, 3, 4, 5, 7, 8};
    for (int i = 0; i < 8; ++i) SHAPES[i] = t[i];
    NSHAPES = 8;
}

// ---- arenas ------------------------------------------------------------------------------------
struct Arena {
    std::vector<uint8_t> b;
    int w, h; size_t rowbytes, planebytes;
    enum { margin = 32 };
    uint8_t* base() { return b.data() + margin; }
    bool operator==(Arena const& o) const { return b == o.b; }
};
template <int I> Arena make_arena(int w, int h, vh::rng& r) {
    Arena a; a.w = w; a.h = h;
    size_t px = ALT<I>::planar ? ALT<I>::chbytes : ALT<I>::nch * ALT<I>::chbytes;
    a.rowbytes = w * px + 4;                                 // 4 bytes of row padding
    a.planebytes = a.rowbytes * h;
    size_t planes = ALT<I>::planar ? ALT<I>::nch : 1;
    a.b.resize(2 * Arena::margin + planes * a.planebytes);
    for (auto& x : a.b) x = (uint8_t)r.next();
    return a;
}
template <int I> typename ALT<I>::view_t view_of(Arena& a, std::integral_constant<int, 0>) {
    typedef typename ALT<I>::view_t::value_type pixel_t;
    return gil::interleaved_view(a.w, a.h, reinterpret_cast<pixel_t*>(a.base()), a.rowbytes);
}
template <int I> typename ALT<I>::view_t view_of(Arena& a, std::integral_constant<int, 1>) {
    return gil::planar_rgb_view(a.w, a.h, a.base(), a.base() + a.planebytes, a.base() + 2 * a.planebytes, a.rowbytes);
}
template <int I> typename ALT<I>::view_t view_of(Arena& a) { return view_of<I>(a, std::integral_constant<int, ALT<I>::planar>()); }

static uint64_t g_evals = 0;
static std::string shape_str(int w, int h) { return vh::cat(w, "x", h); }

// ---- pixel identities / pixel values of a view ---------------------------------------------------
struct addr_rec { std::vector<const void*>* out; template <class C> void operator()(C& c) const { out->push_back((const void*)&c); } };
struct ident_fn {
    typedef void result_type;
    std::vector<const void*>* out; std::ptrdiff_t* dims;
    template <class V> void operator()(V const& v) const {
        dims[0] = v.width(); dims[1] = v.height();
        for (std::ptrdiff_t y = 0; y < v.height(); ++y)
            for (std::ptrdiff_t x = 0; x < v.width(); ++x) {
                typename V::reference ref = v(x, y);
                gil::static_for_each(ref, addr_rec{out});
            }
    }
};
struct val_rec { std::vector<long>* out; template <class C> void operator()(C const& c) const { out->push_back((long)c); } };
struct value_fn {
    typedef void result_type;
    std::vector<long>* out; std::ptrdiff_t* dims;
    template <class V> void operator()(V const& v) const {
        dims[0] = v.width(); dims[1] = v.height();
        for (std::ptrdiff_t y = 0; y < v.height(); ++y)
            for (std::ptrdiff_t x = 0; x < v.width(); ++x) {
                typename V::value_type px = v(x, y);
                gil::static_for_each(px, val_rec{out});
            }
        // also through iterators (the 1-D traversal of the held view)
        long n = 0;
        for (typename V::iterator it = v.begin(); it != v.end(); ++it) ++n;
        out->push_back(n);
    }
};
struct type_fn { typedef const char* result_type; template <class V> const char* operator()(V const&) const { return typeid(V).name(); } };

// compare a transformed variant with the same transformation of the concrete view
// by_type: several alternatives of the result variant may be one and the same type (nth_channel_view of rgb8, bgr8
// and rgba8 views); then index() cannot identify the source alternative and the held *type* is compared instead
template <class AnyR, class ConcR>
void same_view(const char* op, const char* alt, int idx, AnyR const& ar, ConcR const& cr, const std::string& shape, bool by_type = false) {
    std::vector<const void*> ia, ic; std::ptrdiff_t da[2] = {-1, -1}, dc[2] = {-1, -1};
    ++g_evals;
    if (by_type) {
        const char* held = v2::visit(type_fn(), ar);
        if (strcmp(held, typeid(ConcR).name()) != 0) { vh::viol(vh::cat(op, ".type.", alt), vh::cat("result holds a view of another type than the concrete transformation returns, source held ", idx, " shape ", shape)); return; }
    } else if ((int)ar.index() != idx) { vh::viol(vh::cat(op, ".index.", alt), vh::cat("result holds alternative ", ar.index(), ", source held ", idx, " shape ", shape)); return; }
    v2::visit(ident_fn{&ia, da}, ar);
    ident_fn{&ic, dc}(cr);
    if (da[0] != dc[0] || da[1] != dc[1] || ar.width() != dc[0] || ar.height() != dc[1] || (std::ptrdiff_t)ar.size() != dc[0] * dc[1])
        vh::viol(vh::cat(op, ".dimensions.", alt), vh::cat("variant result ", da[0], "x", da[1], " (dimensions() ", ar.width(), "x", ar.height(), ", size ", ar.size(), "), concrete ", dc[0], "x", dc[1], ", source shape ", shape));
    else if (ia != ic) {
        size_t k = 0; while (k < ia.size() && k < ic.size() && ia[k] == ic[k]) ++k;
        vh::viol(vh::cat(op, ".pixels.", alt), vh::cat("pixel identities differ from the concrete view at channel #", k, " of ", ic.size(), ", source shape ", shape));
    }
    if (ar.num_channels() != cr.num_channels()) vh::viol(vh::cat(op, ".num_channels.", alt), vh::cat(ar.num_channels(), " vs ", cr.num_channels()));
}
template <class AnyR, class ConcR>
void same_values(const char* op, const char* alt, int idx, AnyR const& ar, ConcR const& cr, const std::string& shape) {
    std::vector<long> ia, ic; std::ptrdiff_t da[2] = {-1, -1}, dc[2] = {-1, -1};
    ++g_evals;
    if ((int)ar.index() != idx) { vh::viol(vh::cat(op, ".index.", alt), vh::cat("result holds alternative ", ar.index(), ", source held ", idx, " shape ", shape)); return; }
    v2::visit(value_fn{&ia, da}, ar);
    value_fn{&ic, dc}(cr);
    if (da[0] != dc[0] || da[1] != dc[1] || ar.width() != dc[0] || ar.height() != dc[1])
        vh::viol(vh::cat(op, ".dimensions.", alt), vh::cat("variant result ", da[0], "x", da[1], ", concrete ", dc[0], "x", dc[1], ", source shape ", shape));
    else if (ia != ic) vh::viol(vh::cat(op, ".pixels.", alt), vh::cat("pixel values differ from the concrete converted view, source shape ", shape));
    if (ar.num_channels() != cr.num_channels()) vh::viol(vh::cat(op, ".num_channels.", alt), vh::cat(ar.num_channels(), " vs ", cr.num_channels()));
}

// ---- part 0: queries and geometric view transformations ------------------------------------------
template <int I> void queries_and_transforms() {
    const char* an = ALT<I>::name();
    typedef typename ALT<I>::view_t view_t;
    if (vh::begin_case("query", an)) {
        vh::rng r = vh::case_rng();
        uint64_t e0 = g_evals;
        for (int wi = 0; wi < NSHAPES; ++wi) for (int hi = 0; hi < NSHAPES; ++hi) {
            int w = SHAPES[wi], h = SHAPES[hi];
            std::string sh = shape_str(w, h);
            Arena A = make_arena<I>(w, h, r);
            view_t cv = view_of<I>(A);
            AV av(cv);
            ACV acv((typename ALT<I>::cview_t(cv)));
            g_evals += 6;
            if ((int)av.index() != I || (int)acv.index() != I) vh::viol(vh::cat("view.index.", an), vh::cat("index ", av.index(), "/", acv.index(), " expected ", I));
            if (av.width() != w || av.height() != h || av.dimensions() != cv.dimensions()) vh::viol(vh::cat("view.dimensions.", an), vh::cat(av.width(), "x", av.height(), " expected ", sh));
            if (av.size() != cv.size() || acv.size() != cv.size()) vh::viol(vh::cat("view.size.", an), vh::cat(av.size(), " expected ", cv.size(), " shape ", sh));
            if ((int)av.num_channels() != ALT<I>::nch || (int)acv.num_channels() != ALT<I>::nch) vh::viol(vh::cat("view.num_channels.", an), vh::cat(av.num_channels(), " expected ", (int)ALT<I>::nch));
            if (!(v2::get<view_t>(av) == cv)) vh::viol(vh::cat("view.held.", an), "the held view differs from the view it was constructed from");
            same_view("view.identity", an, I, av, cv, sh);
            // owning image
            typename ALT<I>::image_t img(w, h);
            AI ai(img);
            g_evals += 5;
            if ((int)ai.index() != I) vh::viol(vh::cat("image.index.", an), vh::cat("index ", ai.index()));
            // (what the concrete image reports for w==0 xor h==0 is C10's business: the variant must report the same)
            if (ai.width() != img.width() || ai.height() != img.height() || ai.dimensions() != img.dimensions()) vh::viol(vh::cat("image.dimensions.", an), vh::cat(ai.width(), "x", ai.height(), ", the concrete image(", sh, ") reports ", img.width(), "x", img.height()));
            if ((int)ai.num_channels() != ALT<I>::nch) vh::viol(vh::cat("image.num_channels.", an), vh::cat(ai.num_channels()));
            AV iv = gil::view(ai); ACV icv = gil::const_view(ai);
            if ((int)iv.index() != I || (int)icv.index() != I) vh::viol(vh::cat("image.view.index.", an), vh::cat(iv.index(), "/", icv.index()));
            same_view("image.view", an, I, iv, gil::view(v2::get<typename ALT<I>::image_t>(ai)), sh);
            same_view("image.const_view", an, I, icv, gil::const_view(v2::get<typename ALT<I>::image_t>(ai)), sh);
        }
        vh::evals(g_evals - e0); vh::distinct(NSHAPES * NSHAPES);
    }
    if (vh::begin_case("transform.flip-rotate", an)) {
        vh::rng r = vh::case_rng();
        uint64_t e0 = g_evals;
        for (int wi = 0; wi < NSHAPES; ++wi) for (int hi = 0; hi < NSHAPES; ++hi) {
            int w = SHAPES[wi], h = SHAPES[hi];
            std::string sh = shape_str(w, h);
            Arena A = make_arena<I>(w, h, r);
            view_t cv = view_of<I>(A);
            AV av(cv);
            ACV acv((typename ALT<I>::cview_t(cv)));
            same_view("flipped_up_down_view", an, I, gil::flipped_up_down_view(av), gil::flipped_up_down_view(cv), sh);
            same_view("flipped_left_right_view", an, I, gil::flipped_left_right_view(av), gil::flipped_left_right_view(cv), sh);
            same_view("rotated180_view", an, I, gil::rotated180_view(av), gil::rotated180_view(cv), sh);
            same_view("rotated90cw_view", an, I, gil::rotated90cw_view(av), gil::rotated90cw_view(cv), sh);
            same_view("rotated90ccw_view", an, I, gil::rotated90ccw_view(av), gil::rotated90ccw_view(cv), sh);
            same_view("flipped_up_down_view.const", an, I, gil::flipped_up_down_view(acv), gil::flipped_up_down_view(typename ALT<I>::cview_t(cv)), sh);
            same_view("rotated90cw_view.const", an, I, gil::rotated90cw_view(acv), gil::rotated90cw_view(typename ALT<I>::cview_t(cv)), sh);
            // a transformation of a transformed variant
            same_view("rotated180_of_flipped", an, I, gil::rotated180_view(gil::flipped_left_right_view(av)), gil::rotated180_view(gil::flipped_left_right_view(cv)), sh);
        }
        vh::evals(g_evals - e0); vh::distinct(NSHAPES * NSHAPES * 8);
    }
    if (vh::begin_case("transform.subimage-subsample", an)) {
        vh::rng r = vh::case_rng();
        uint64_t e0 = g_evals, nd = 0;
        for (int wi = 0; wi < NSHAPES; ++wi) for (int hi = 0; hi < NSHAPES; ++hi) {
            int w = SHAPES[wi], h = SHAPES[hi];
            std::string sh = shape_str(w, h);
            Arena A = make_arena<I>(w, h, r);
            view_t cv = view_of<I>(A);
            AV av(cv);
            for (int x0 = 0; x0 <= w; ++x0) for (int y0 = 0; y0 <= h; ++y0)
                for (int sw = 0; x0 + sw <= w; ++sw) for (int shh = 0; y0 + shh <= h; ++shh) {
                    same_view("subimage_view.point", an, I, gil::subimage_view(av, gil::point_t(x0, y0), gil::point_t(sw, shh)), gil::subimage_view(cv, gil::point_t(x0, y0), gil::point_t(sw, shh)), sh);
                    same_view("subimage_view.xywh", an, I, gil::subimage_view(av, x0, y0, sw, shh), gil::subimage_view(cv, x0, y0, sw, shh), sh);
                    ++nd;
                }
            for (int xs = 1; xs <= 3; ++xs) for (int ys = 1; ys <= 3; ++ys) {
                same_view("subsampled_view.point", an, I, gil::subsampled_view(av, gil::point_t(xs, ys)), gil::subsampled_view(cv, gil::point_t(xs, ys)), sh);
                same_view("subsampled_view.xy", an, I, gil::subsampled_view(av, xs, ys), gil::subsampled_view(cv, xs, ys), sh);
                // sub-image of a sub-sampled variant (a variant of step views)
                if (w >= 2 && h >= 2) {
                    auto s1 = gil::subsampled_view(av, xs, ys); auto c1 = gil::subsampled_view(cv, xs, ys);
                    same_view("subimage_of_subsampled", an, I, gil::subimage_view(s1, 0, 0, c1.width() - 1 > 0 ? c1.width() - 1 : 1, 1), gil::subimage_view(c1, 0, 0, c1.width() - 1 > 0 ? c1.width() - 1 : 1, 1), sh);
                }
                ++nd;
            }
        }
        vh::evals(g_evals - e0); vh::distinct(nd);
    }
}

// ---- part 1: colour-converted views, nth_channel_view, fill_pixels, for_each_pixel ---------------------
struct halve_cc {           // a user colour converter: default conversion, then every channel halved
    template <class S, class D> void operator()(S const& s, D& d) const {
        gil::default_color_converter()(s, d);
        gil::static_for_each(d, [](auto& c) { c = (typename std::remove_reference<decltype(c)>::type)(c / 2); });
    }
};
// Caller-supplied objects with run-time state: the object handed to an overload must be the one that is
// used.  A default-constructed one adds nothing and counts nothing.
static long* g_sink = nullptr;          // where the objects constructed for the next call count their calls
static int g_offset = 0;                // run-time state given to the next converter / sampler
struct offset_cc {          // default conversion, then every channel + offset (wraps); counts its calls
    int offset; long* calls;
    offset_cc() : offset(0), calls(nullptr) {}
    offset_cc(int o, long* c) : offset(o), calls(c) {}
    template <class S, class D> void operator()(S const& s, D& d) const {
        gil::default_color_converter()(s, d);
        int o = offset;
        gil::static_for_each(d, [o](auto& c) { c = (typename std::remove_reference<decltype(c)>::type)(c + o); });
        if (calls) ++*calls;
    }
};
struct shift_sampler {      // nearest neighbour at p + (shift, 0); counts its calls
    int shift; long* calls;
    shift_sampler() : shift(0), calls(nullptr) {}
    shift_sampler(int s, long* c) : shift(s), calls(c) {}
};
template <class SrcView, class F, class DstP>
bool sample(shift_sampler const& s, SrcView const& src, gil::point<F> const& p, DstP& result) {
    if (s.calls) ++*s.calls;
    return gil::sample(gil::nearest_neighbor_sampler(), src, gil::point<F>(p.x + s.shift, p.y), result);
}

template <int I> void converted_views() {
    const char* an = ALT<I>::name();
    typedef typename ALT<I>::view_t view_t;
    if (!vh::begin_case("transform.color_converted", an)) return;
    vh::rng r = vh::case_rng();
    uint64_t e0 = g_evals;
    for (int wi = 0; wi < NSHAPES; ++wi) for (int hi = 0; hi < NSHAPES; ++hi) {
        int w = SHAPES[wi], h = SHAPES[hi];
        std::string sh = shape_str(w, h);
        Arena A = make_arena<I>(w, h, r);
        view_t cv = view_of<I>(A);
        AV av(cv);
        same_values("color_converted_view<gray8>", an, I, gil::color_converted_view<gil::gray8_pixel_t>(av), gil::color_converted_view<gil::gray8_pixel_t>(cv), sh);
        same_values("color_converted_view<rgb8>", an, I, gil::color_converted_view<gil::rgb8_pixel_t>(av), gil::color_converted_view<gil::rgb8_pixel_t>(cv), sh);
        same_values("color_converted_view<rgba8>", an, I, gil::color_converted_view<gil::rgba8_pixel_t>(av), gil::color_converted_view<gil::rgba8_pixel_t>(cv), sh);
        same_values("color_converted_view<gray16,cc>", an, I, gil::color_converted_view<gil::gray16_pixel_t>(av, halve_cc()), gil::color_converted_view<gil::gray16_pixel_t>(cv, halve_cc()), sh);
        int off = 1 + (int)r.below(200);
        same_values("color_converted_view<rgb8,stateful-cc>", an, I, gil::color_converted_view<gil::rgb8_pixel_t>(av, offset_cc(off, nullptr)), gil::color_converted_view<gil::rgb8_pixel_t>(cv, offset_cc(off, nullptr)), sh);
    }
    vh::evals(g_evals - e0); vh::distinct(NSHAPES * NSHAPES * 5);
}

// Parts 8 and 9 are build probes at present: transposed_view(any_image_view) and
// nth_channel_view(any_image_view) do not instantiate (see propcfg/c14.py).  They are complete
// checks; once the overloads compile, registering a run() for them is all that is needed.
#if C14_PART == 8
template <int I> void transposed_case() {
    const char* an = ALT<I>::name();
    if (!vh::begin_case("transform.transposed", an)) return;
    vh::rng r = vh::case_rng();
    uint64_t e0 = g_evals;
    for (int wi = 0; wi < NSHAPES; ++wi) for (int hi = 0; hi < NSHAPES; ++hi) {
        int w = SHAPES[wi], h = SHAPES[hi];
        Arena A = make_arena<I>(w, h, r);
        typename ALT<I>::view_t cv = view_of<I>(A);
        AV av(cv);
        same_view("transposed_view", an, I, gil::transposed_view(av), gil::transposed_view(cv), shape_str(w, h));
    }
    vh::evals(g_evals - e0); vh::distinct(NSHAPES * NSHAPES);
}
#endif
#if C14_PART == 9
template <int I> void nth_channel_case() {
    const char* an = ALT<I>::name();
    if (!vh::begin_case("transform.nth_channel", an)) return;
    vh::rng r = vh::case_rng();
    uint64_t e0 = g_evals;
    for (int wi = 0; wi < NSHAPES; ++wi) for (int hi = 0; hi < NSHAPES; ++hi) {
        int w = SHAPES[wi], h = SHAPES[hi];
        Arena A = make_arena<I>(w, h, r);
        typename ALT<I>::view_t cv = view_of<I>(A);
        AV av(cv);
        for (int n = 0; n < (int)ALT<I>::nch; ++n)
            same_view("nth_channel_view", an, I, gil::nth_channel_view(av, n), gil::nth_channel_view(cv, n), shape_str(w, h), true);
    }
    vh::evals(g_evals - e0); vh::distinct(NSHAPES * NSHAPES);
}
#endif

template <int K> struct FILLV;
template <> struct FILLV<0> { typedef gil::gray8_pixel_t type; enum { cls = 0 }; static const char* name() { return "gray8"; } static type make(vh::rng& r) { return type((uint8_t)r.next()); } };
template <> struct FILLV<1> { typedef gil::gray16_pixel_t type; enum { cls = 1 }; static const char* name() { return "gray16"; } static type make(vh::rng& r) { return type((uint16_t)r.next()); } };
template <> struct FILLV<2> { typedef gil::rgb8_pixel_t type; enum { cls = 2 }; static const char* name() { return "rgb8"; } static type make(vh::rng& r) { return type((uint8_t)r.next(), (uint8_t)r.next(), (uint8_t)r.next()); } };
template <> struct FILLV<3> { typedef gil::bgr8_pixel_t type; enum { cls = 2 }; static const char* name() { return "bgr8"; } static type make(vh::rng& r) { return type((uint8_t)r.next(), (uint8_t)r.next(), (uint8_t)r.next()); } };
template <> struct FILLV<4> { typedef gil::rgba8_pixel_t type; enum { cls = 3 }; static const char* name() { return "rgba8"; } static type make(vh::rng& r) { return type((uint8_t)r.next(), (uint8_t)r.next(), (uint8_t)r.next(), (uint8_t)r.next()); } };

// the concrete call exists only for compatible operands: instantiate it only then
template <bool C> struct concrete {
    template <class OP, class A, class B> static void call(A const& a, B const& b) { OP::call(a, b); }
    template <class A, class B> static bool equal(A const& a, B const& b) { return gil::equal_pixels(a, b); }
    template <class A, class B> static void copy(A const& a, B const& b) { gil::copy_pixels(a, b); }
    template <class A, class V> static void fill(A const& a, V const& v) { gil::fill_pixels(a, v); }
};
template <> struct concrete<false> {
    template <class OP, class A, class B> static void call(A const&, B const&) {}
    template <class A, class B> static bool equal(A const&, B const&) { return false; }
    template <class A, class B> static void copy(A const&, B const&) {}
    template <class A, class V> static void fill(A const&, V const&) {}
};
// which operands are variants is a compile-time choice (one instantiation per form)
template <class OP, class VS, class VD, class CS, class CD, class VCS> void call_form(std::integral_constant<int, 0>, VS& vs, VD& vd, CS&, CD&, VCS&) { OP::call(vs, vd); }
template <class OP, class VS, class VD, class CS, class CD, class VCS> void call_form(std::integral_constant<int, 1>, VS& vs, VD&, CS&, CD& cd, VCS&) { OP::call(vs, cd); }
template <class OP, class VS, class VD, class CS, class CD, class VCS> void call_form(std::integral_constant<int, 2>, VS&, VD& vd, CS& cs, CD&, VCS&) { OP::call(cs, vd); }
template <class OP, class VS, class VD, class CS, class CD, class VCS> void call_form(std::integral_constant<int, 3>, VS&, VD& vd, CS&, CD&, VCS& vcs) { OP::call(vcs, vd); }
template <class VS, class VD, class CS, class CD> bool equal_form(std::integral_constant<int, 0>, VS& vs, VD& vd, CS&, CD&) { return gil::equal_pixels(vs, vd); }
template <class VS, class VD, class CS, class CD> bool equal_form(std::integral_constant<int, 1>, VS& vs, VD&, CS&, CD& cd) { return gil::equal_pixels(vs, cd); }
template <class VS, class VD, class CS, class CD> bool equal_form(std::integral_constant<int, 2>, VS&, VD& vd, CS& cs, CD&) { return gil::equal_pixels(cs, vd); }

template <int I, int K> void fill_case() {
    const char* an = ALT<I>::name();
    std::string id = vh::cat(FILLV<K>::name(), "->", an);
    if (!vh::begin_case("fill_pixels", id)) return;
    vh::rng r = vh::case_rng();
    uint64_t e0 = g_evals;
    const bool compat = (int)ALT<I>::cls == (int)FILLV<K>::cls;
    for (int wi = 0; wi < NSHAPES; ++wi) for (int hi = 0; hi < NSHAPES; ++hi) for (int rep = 0; rep < REPS; ++rep) {
        int w = SHAPES[wi], h = SHAPES[hi];
        Arena D = make_arena<I>(w, h, r), D2 = D;
        AV vd(view_of<I>(D));
        typename FILLV<K>::type val = FILLV<K>::make(r);
        bool threw = false;
        try { gil::fill_pixels(vd, val); } catch (std::bad_cast const&) { threw = true; }
        ++g_evals;
        if (compat) {
            if (threw) vh::viol(vh::cat("fill_pixels.unexpected-bad_cast.", id), vh::cat("shape ", shape_str(w, h)));
            concrete<compat>::fill(view_of<I>(D2), val);
            if (!(D == D2)) vh::viol(vh::cat("fill_pixels.result.", id), vh::cat("arena differs from the concrete fill_pixels, shape ", shape_str(w, h)));
            // a variant of step views (F23: used not to compile for the planar alternative)
            typename FILLV<K>::type val2 = FILLV<K>::make(r);
            gil::fill_pixels(gil::subsampled_view(vd, 2, 1), val2);
            concrete<compat>::fill(gil::subsampled_view(view_of<I>(D2), 2, 1), val2);
            ++g_evals;
            if (!(D == D2)) vh::viol(vh::cat("fill_pixels.stepped.result.", id), vh::cat("arena differs from the concrete fill_pixels on subsampled_view(.,2,1), shape ", shape_str(w, h)));
        } else {
            if (!threw) vh::viol(vh::cat("fill_pixels.no-bad_cast.", id), vh::cat("incompatible value accepted, shape ", shape_str(w, h)));
            if (!(D == D2)) vh::viol(vh::cat("fill_pixels.dst-changed-on-bad_cast.", id), vh::cat("shape ", shape_str(w, h)));
        }
    }
    vh::evals(g_evals - e0); vh::distinct(NSHAPES * NSHAPES);
    vh::obs(compat ? "fill.compatible" : "fill.bad_cast");
}

struct touch_fn {          // counts the pixels it is handed and rewrites their first channel using its run-time state
    long n; long* total; int mul;
    template <class T, class L> void operator()(gil::pixel<T, L>& p) { ++n; ++*total; gil::at_c<0>(p) = (T)(gil::at_c<0>(p) * mul + n); }
    template <class R, class CS> void operator()(gil::planar_pixel_reference<R, CS> p) { ++n; ++*total; gil::at_c<0>(p) = (uint8_t)(gil::at_c<0>(p) * mul + n); }
};
template <int I> void for_each_case() {
    const char* an = ALT<I>::name();
    if (!vh::begin_case("for_each_pixel", an)) return;
    vh::rng r = vh::case_rng();
    uint64_t e0 = g_evals;
    for (int wi = 0; wi < NSHAPES; ++wi) for (int hi = 0; hi < NSHAPES; ++hi) for (int rep = 0; rep < REPS; ++rep) {
        int w = SHAPES[wi], h = SHAPES[hi];
        Arena D = make_arena<I>(w, h, r), D2 = D;
        AV vd(view_of<I>(D));
        long tot_a = 0, tot_c = 0;
        long n0 = (long)r.below(100); int mul = 3 + 2 * (int)r.below(6);
        touch_fn ra = gil::for_each_pixel(vd, touch_fn{n0, &tot_a, mul});
        touch_fn rc = gil::for_each_pixel(view_of<I>(D2), touch_fn{n0, &tot_c, mul});
        g_evals += 3;
        if (tot_a != (long)w * h) vh::viol(vh::cat("for_each_pixel.count.", an), vh::cat(tot_a, " calls for shape ", shape_str(w, h)));
        if (ra.n != rc.n) vh::viol(vh::cat("for_each_pixel.returned-functor.", an), vh::cat("returned functor counted ", ra.n, ", the concrete call's ", rc.n, ", shape ", shape_str(w, h)));
        if (!(D == D2)) vh::viol(vh::cat("for_each_pixel.result.", an), vh::cat("arena differs from the concrete for_each_pixel, shape ", shape_str(w, h)));
    }
    vh::evals(g_evals - e0); vh::distinct(NSHAPES * NSHAPES);
}

// ---- binary algorithms: variant x variant, variant x concrete, concrete x variant ------------------------
struct op_copy {
    static const char* name() { return "copy_pixels"; }
    static const bool converts = false, free_shapes = false;
    static void prepare(vh::rng&) {}
    template <class A, class B> static void call(A const& a, B const& b) { gil::copy_pixels(a, b); }
};
struct op_ccp {
    static const char* name() { return "copy_and_convert_pixels"; }
    static const bool converts = true, free_shapes = false;
    static void prepare(vh::rng&) {}
    template <class A, class B> static void call(A const& a, B const& b) { gil::copy_and_convert_pixels(a, b); }
};
struct op_ccp_cc {           // user converter with run-time state (offset, call counter)
    static const char* name() { return "copy_and_convert_pixels.cc"; }
    static const bool converts = true, free_shapes = false;
    static void prepare(vh::rng& r) { g_offset = 1 + (int)r.below(200); }
    template <class A, class B> static void call(A const& a, B const& b) { gil::copy_and_convert_pixels(a, b, offset_cc(g_offset, g_sink)); }
};
// M == 0: identity map, nearest_neighbor_sampler.  M == 1: a seeded affine map and a sampler with run-time state.
// resample_pixels has no equal-dimensions precondition: destination shapes differ from the source's too.
static gil::matrix3x2<double> g_mat;
template <int M> struct op_resample {
    static const char* name() { return M == 0 ? "resample_pixels.identity" : "resample_pixels.stateful"; }
    static const bool converts = false, free_shapes = true;
    static void prepare(vh::rng& r) {
        if (M == 0) { g_mat = gil::matrix3x2<double>(); return; }
        g_mat = gil::matrix3x2<double>(0.5 + r.unit(), r.unit() * 0.6 - 0.3, r.unit() * 0.6 - 0.3, 0.5 + r.unit(), r.unit() * 2 - 1, r.unit() * 2 - 1);
        g_offset = (int)r.below(3) - 1;
    }
    template <class A, class B> static void call(A const& a, B const& b) { call_(a, b, std::integral_constant<int, M>()); }
    template <class A, class B> static void call_(A const& a, B const& b, std::integral_constant<int, 0>) { gil::resample_pixels<gil::nearest_neighbor_sampler>(a, b, g_mat); }
    template <class A, class B> static void call_(A const& a, B const& b, std::integral_constant<int, 1>) { gil::resample_pixels(a, b, g_mat, shift_sampler(g_offset, g_sink)); }
};

// FORM 0: (any, any)   1: (any, concrete)   2: (concrete, any)   3: (any const view, any)
template <class OP, int I, int J, int FORM> void binary_case() {
    static const char* forms[] = {"any-any", "any-concrete", "concrete-any", "anyconst-any"};
    std::string id = vh::cat(ALT<I>::name(), "->", ALT<J>::name());
    std::string cls = vh::cat(OP::name(), ".", forms[FORM]);
    if (!vh::begin_case(cls, id)) return;
    vh::rng r = vh::case_rng();
    uint64_t e0 = g_evals;
    const bool compat = (int)ALT<I>::cls == (int)ALT<J>::cls;
    const bool ok = compat || OP::converts;
    // ds: shape of the destination -- 0 the source's (the precondition of the copying algorithms for compatible pairs);
    // 1..3 another width and/or height: run for incompatible pairs (must throw whatever the shapes) and for
    // algorithms without that precondition (resample_pixels)
    uint64_t nd = 0;
    for (int wi = 0; wi < NSHAPES; ++wi) for (int hi = 0; hi < NSHAPES; ++hi) for (int rep = 0; rep < REPS; ++rep) for (int ds = 0; ds < 4; ++ds) {
        if (ds > 0 && ok && !OP::free_shapes) continue;
        int w = SHAPES[wi], h = SHAPES[hi];
        int w2 = (ds & 1) ? SHAPES[(wi + 1 + rep) % NSHAPES] : w, h2 = (ds & 2) ? SHAPES[(hi + 2 + rep) % NSHAPES] : h;
        std::string sh = ds ? vh::cat(w, "x", h, "->", w2, "x", h2) : shape_str(w, h);
        const char* dk = ds ? ".shapes-differ" : "";
        Arena S = make_arena<I>(w, h, r), D = make_arena<J>(w2, h2, r), S2 = S, D2 = D;
        typename ALT<I>::view_t cs = view_of<I>(S); typename ALT<J>::view_t cd = view_of<J>(D);
        AV vs(cs), vd(cd);
        ACV vcs((typename ALT<I>::cview_t(cs)));
        OP::prepare(r);
        long calls_a = 0, calls_c = 0;
        bool threw = false;
        g_sink = &calls_a;
        try {
            call_form<OP>(std::integral_constant<int, FORM>(), vs, vd, cs, cd, vcs);
        } catch (std::bad_cast const&) { threw = true; }
        ++g_evals; ++nd;
        if (ok) {
            if (threw) vh::viol(vh::cat(cls, ".unexpected-bad_cast", dk, ".", id), vh::cat("shape ", sh));
            g_sink = &calls_c;
            concrete<ok>::template call<OP>(view_of<I>(S2), view_of<J>(D2));
            if (!(D == D2)) vh::viol(vh::cat(cls, ".result", dk, ".", id), vh::cat("destination arena differs from the concrete call given the same arguments, shape ", sh));
            if (calls_a != calls_c) vh::viol(vh::cat(cls, ".caller-object-calls", dk, ".", id), vh::cat("the caller's converter/sampler object was called ", calls_a, " times, in the concrete call ", calls_c, " times, shape ", sh));
        } else {
            if (!threw) vh::viol(vh::cat(cls, ".no-bad_cast", dk, ".", id), vh::cat("incompatible pair accepted, shape ", sh));
            if (!(D == D2)) vh::viol(vh::cat(cls, ".dst-changed-on-bad_cast", dk, ".", id), vh::cat("shape ", sh));
        }
        g_sink = nullptr;
        if (!(S == S2)) vh::viol(vh::cat(cls, ".src-changed", dk, ".", id), vh::cat("shape ", sh));
        if (ds) vh::obs(ok ? "binary.shapes-differ.ok" : "binary.shapes-differ.bad_cast");
    }
    vh::evals(g_evals - e0); vh::distinct(nd / REPS);
    vh::obs(ok ? (compat ? "binary.compatible" : "binary.converted") : "binary.bad_cast");
}
template <class OP, int FORM> void binary_all() {
    auto fi = [&](auto ic) {
        auto fj = [&](auto jc) { binary_case<OP, decltype(ic)::value, decltype(jc)::value, FORM>(); };
        AltLoop<0, NALT>::run(fj);
    };
    AltLoop<0, NALT>::run(fi);
}

// ---- equal_pixels and any_image equality (list AIeq) ----
// index of alternative I of the full list inside AIeq
#ifndef C14_EQ_WITHOUT_PLANAR
static const int NEQ = 6;
#else
static const int NEQ = 5;
#endif
template <int E> struct EQ { enum { alt = (NEQ == 6 ? E : (E < 3 ? E : E + 1)) }; };

template <int EI, int EJ, int FORM> void equal_case() {
    static const char* forms[] = {"any-any", "any-concrete", "concrete-any"};
    const int I = EQ<EI>::alt, J = EQ<EJ>::alt;
    std::string id = vh::cat(ALT<I>::name(), "->", ALT<J>::name());
    std::string cls = vh::cat("equal_pixels.", forms[FORM]);
    if (!vh::begin_case(cls, id)) return;
    vh::rng r = vh::case_rng();
    uint64_t e0 = g_evals;
    const bool compat = (int)ALT<I>::cls == (int)ALT<J>::cls;
    // ds > 0: the second view has another width and/or height -- incompatible pairs only (they must throw whatever
    // the shapes; for compatible pairs equal dimensions are the precondition)
    uint64_t nd = 0;
    for (int wi = 0; wi < NSHAPES; ++wi) for (int hi = 0; hi < NSHAPES; ++hi) for (int rep = 0; rep < REPS; ++rep) for (int same = 0; same < 2; ++same) for (int ds = 0; ds < 4; ++ds) {
        if (ds > 0 && (compat || same)) continue;
        int w = SHAPES[wi], h = SHAPES[hi];
        int w2 = (ds & 1) ? SHAPES[(wi + 1 + rep) % NSHAPES] : w, h2 = (ds & 2) ? SHAPES[(hi + 2 + rep) % NSHAPES] : h;
        std::string sh = ds ? vh::cat(w, "x", h, " vs ", w2, "x", h2) : shape_str(w, h);
        const char* dk = ds ? ".shapes-differ" : "";
        Arena S = make_arena<I>(w, h, r), D = make_arena<J>(w2, h2, r);
        typename ALT<I>::view_t cs = view_of<I>(S); typename ALT<J>::view_t cd = view_of<J>(D);
        // same content (through the concrete copy) or random content
        if (same) concrete<compat>::copy(cs, cd);
        Arena S2 = S, D2 = D;
        AVeq vs(cs), vd(cd);
        bool threw = false, res = false, cres = false;
        try {
            res = equal_form(std::integral_constant<int, FORM>(), vs, vd, cs, cd);
        } catch (std::bad_cast const&) { threw = true; }
        ++g_evals; ++nd;
        if (compat) {
            if (threw) vh::viol(vh::cat(cls, ".unexpected-bad_cast.", id), vh::cat("shape ", sh));
            cres = concrete<compat>::equal(cs, cd);
            if (res != cres) vh::viol(vh::cat(cls, ".result.", id), vh::cat("variant says ", res, ", concrete says ", cres, ", shape ", sh, same ? " equal content" : " random content"));
        } else if (!threw) vh::viol(vh::cat(cls, ".no-bad_cast", dk, ".", id), vh::cat("incompatible pair compared, result ", res, ", shapes ", sh));
        if (!(S == S2) || !(D == D2)) vh::viol(vh::cat(cls, ".arena-changed", dk, ".", id), vh::cat("shape ", sh));
        if (ds) vh::obs("equal.shapes-differ.bad_cast");
    }
    vh::evals(g_evals - e0); vh::distinct(nd / REPS);
    vh::obs(compat ? "equal.compatible" : "equal.bad_cast");
}
template <int FORM> void equal_all() {
    auto fi = [&](auto ic) {
        auto fj = [&](auto jc) { equal_case<decltype(ic)::value, decltype(jc)::value, FORM>(); };
        AltLoop<0, NEQ>::run(fj);
    };
    AltLoop<0, NEQ>::run(fi);
}

struct bytes_fn {          // every channel byte of the held image / view, row by row
    typedef void result_type;
    std::vector<long>* out;
    template <class V> void operator()(V const& v) const {
        for (std::ptrdiff_t y = 0; y < v.height(); ++y) for (std::ptrdiff_t x = 0; x < v.width(); ++x) {
            typename V::value_type px = v(x, y);
            gil::static_for_each(px, val_rec{out});
        }
    }
};
struct scribble_fn {       // change every pixel of the held view
    typedef void result_type;
    template <class V> void operator()(V const& v) const {
        for (std::ptrdiff_t y = 0; y < v.height(); ++y) for (std::ptrdiff_t x = 0; x < v.width(); ++x) {
            typename V::value_type px = v(x, y);
            gil::static_for_each(px, [](auto& c) { c = (typename std::remove_reference<decltype(c)>::type)(c + 1); });
            v(x, y) = px;
        }
    }
};
template <class AnyImg> std::vector<long> content(AnyImg const& a) { std::vector<long> o; v2::visit(bytes_fn{&o}, gil::const_view(a)); return o; }
template <class AnyImg> void fill_random(AnyImg& a, vh::rng& r) {
    auto v = gil::view(a);
    v2::visit([&](auto const& cv) {
        for (std::ptrdiff_t y = 0; y < cv.height(); ++y) for (std::ptrdiff_t x = 0; x < cv.width(); ++x) {
            typename std::decay<decltype(cv)>::type::value_type px;
            gil::static_for_each(px, [&](auto& c) { c = (typename std::remove_reference<decltype(c)>::type)r.next(); });
            cv(x, y) = px;
        }
    }, v);
}

// deep copies of any_image, shallow copies of any_image_view, recreate (full list, no operator==)
template <int I> void ownership_case() {
    const char* an = ALT<I>::name();
    typedef typename ALT<I>::image_t image_t;
    if (!vh::begin_case("ownership", an)) return;
    vh::rng r = vh::case_rng();
    uint64_t e0 = g_evals;
    for (int wi = 0; wi < NSHAPES; ++wi) for (int hi = 0; hi < NSHAPES; ++hi) {
        int w = SHAPES[wi], h = SHAPES[hi];
        std::string sh = shape_str(w, h);
        image_t img(w, h);
        AI a(img);
        fill_random(a, r);
        std::vector<long> before = content(a);
        // copy construction is deep
        AI b(a);
        g_evals += 8;
        if ((int)b.index() != I || b.dimensions() != a.dimensions()) vh::viol(vh::cat("any_image.copy.type.", an), vh::cat("copy holds alternative ", b.index(), " ", b.width(), "x", b.height(), " shape ", sh));
        if (content(b) != before) vh::viol(vh::cat("any_image.copy.content.", an), vh::cat("copy differs from the source, shape ", sh));
        v2::visit(scribble_fn(), gil::view(a));
        if (content(b) != before) vh::viol(vh::cat("any_image.copy.not-deep.", an), vh::cat("writing to the source changed the copy, shape ", sh));
        if (w * h > 0 && content(a) == before) vh::viol(vh::cat("any_image.scribble.", an), "harness: scribble did not change the image");
        // assignment over another alternative is deep and takes the source's type
        AI c((typename ALT<(I + 1) % NALT>::image_t(2, 2)));
        std::vector<long> a_now = content(a);
        c = a;
        if ((int)c.index() != I || c.dimensions() != a.dimensions()) vh::viol(vh::cat("any_image.assign.type.", an), vh::cat("assigned image holds alternative ", c.index(), " ", c.width(), "x", c.height(), " shape ", sh));
        if (content(c) != a_now) vh::viol(vh::cat("any_image.assign.content.", an), vh::cat("shape ", sh));
        v2::visit(scribble_fn(), gil::view(a));
        if (content(c) != a_now) vh::viol(vh::cat("any_image.assign.not-deep.", an), vh::cat("writing to the source changed the assigned image, shape ", sh));
        // assignment from a concrete image
        AI d;
        d = img;
        if ((int)d.index() != I || d.dimensions() != img.dimensions()) vh::viol(vh::cat("any_image.assign-concrete.type.", an), vh::cat("holds ", d.index(), " ", d.width(), "x", d.height(), " shape ", sh));
        // views are shallow: a copy of the view designates the same pixels, writes are seen through both
        AV v1 = gil::view(a);
        AV v2c(v1);
        AV v3; v3 = v1;
        g_evals += 4;
        same_view("any_image_view.copy", an, I, v2c, v2::get<typename ALT<I>::view_t>(v1), sh);
        same_view("any_image_view.assign", an, I, v3, v2::get<typename ALT<I>::view_t>(v1), sh);
        if (!(v1 == v2c) || (v1 != v3)) vh::viol(vh::cat("any_image_view.equal.", an), vh::cat("a copy of a view compares unequal, shape ", sh));
        std::vector<long> a2 = content(a);
        v2::visit(scribble_fn(), v2c);
        if (w * h > 0 && content(a) == a2) vh::viol(vh::cat("any_image_view.copy.not-shallow.", an), vh::cat("writing through a copied view did not reach the image, shape ", sh));
        AV vb = gil::view(b);
        if (w * h > 0 && (v1 == vb)) vh::viol(vh::cat("any_image_view.equal.", an), vh::cat("views of two different images compare equal, shape ", sh));
        // recreate keeps the held type
        for (int k = 0; k < NSHAPES; ++k) {
            int nw = SHAPES[(wi + k) % NSHAPES], nh = SHAPES[(hi + 2 * k + 1) % NSHAPES];
            AI e(a);
            if (k & 1) e.recreate(gil::point<std::ptrdiff_t>(nw, nh), 8); else e.recreate(nw, nh);
            image_t ref(v2::get<image_t>(a));
            if (k & 1) ref.recreate(gil::point<std::ptrdiff_t>(nw, nh), 8); else ref.recreate(nw, nh);
            ++g_evals;
            if ((int)e.index() != I) vh::viol(vh::cat("recreate.index.", an), vh::cat("holds alternative ", e.index(), " after recreate(", nw, ",", nh, ") from ", sh));
            else if (e.dimensions() != ref.dimensions()) vh::viol(vh::cat("recreate.dimensions.", an), vh::cat(e.width(), "x", e.height(), " after recreate(", nw, ",", nh, "), the concrete image gives ", ref.width(), "x", ref.height()));
            AV ev = gil::view(e);
            if ((int)ev.index() != I || ev.dimensions() != e.dimensions()) vh::viol(vh::cat("recreate.view.", an), vh::cat("view ", ev.width(), "x", ev.height(), " image ", e.width(), "x", e.height()));
        }
    }
    vh::evals(g_evals - e0); vh::distinct(NSHAPES * NSHAPES);
}

// any_image::operator== (deep comparison), on the list AIeq
template <int EI> void image_equality_case() {
    const int I = EQ<EI>::alt;
    const char* an = ALT<I>::name();
    typedef typename ALT<I>::image_t image_t;
    if (!vh::begin_case("any_image.equality", an)) return;
    vh::rng r = vh::case_rng();
    uint64_t e0 = g_evals;
    for (int wi = 0; wi < NSHAPES; ++wi) for (int hi = 0; hi < NSHAPES; ++hi) {
        int w = SHAPES[wi], h = SHAPES[hi];
        std::string sh = shape_str(w, h);
        image_t img(w, h);
        AIeq a(img);
        fill_random(a, r);
        AIeq b(a);
        image_t ca(v2::get<image_t>(a)), cb(v2::get<image_t>(b));
        g_evals += 4;
        if ((a == b) != (ca == cb)) vh::viol(vh::cat("any_image.equal.copy.", an), vh::cat("a == copy is ", a == b, ", concrete ", ca == cb, ", shape ", sh));
        if ((a != b) != (ca != cb)) vh::viol(vh::cat("any_image.notequal.copy.", an), vh::cat("shape ", sh));
        v2::visit(scribble_fn(), gil::view(b));
        cb = v2::get<image_t>(b);
        if ((a == b) != (ca == cb)) vh::viol(vh::cat("any_image.equal.modified.", an), vh::cat("a == modified copy is ", a == b, ", concrete ", ca == cb, ", shape ", sh));
        // another alternative of the same dimensions is never equal
        AIeq o((typename ALT<EQ<(EI + 1) % NEQ>::alt>::image_t(w, h)));
        if (a == o) vh::viol(vh::cat("any_image.equal.other-type.", an), vh::cat("equal to an image of another type, shape ", sh));
    }
    vh::evals(g_evals - e0); vh::distinct(NSHAPES * NSHAPES);
}

// ---- storage geometry of owning any_images: every mutating operation against its concrete counterpart ----
// The variant and a concrete image are taken in lockstep through construction, recreate (dimensions kept /
// alignment changed and vice versa, both overloads, default alignment), copy and assignment; after each step the
// held image must have the concrete one's dimensions, row pitch (view.pixels().row_size()), row and plane offsets
// from the first pixel, and the same residues of every row address modulo the requested alignment.
#if C14_PART == 11
struct Geo {
    int index; std::ptrdiff_t w, h, row_size; std::vector<std::ptrdiff_t> offs; std::vector<unsigned> mod;
    Geo() : index(-1), w(-1), h(-1), row_size(-1) {}
};
struct geo_fn {
    typedef void result_type;
    Geo* g; unsigned align;
    template <class V> void operator()(V const& v) const {
        g->w = v.width(); g->h = v.height(); g->row_size = (std::ptrdiff_t)v.pixels().row_size();
        if (v.width() * v.height() == 0) return;
        std::vector<const void*> a;
        for (std::ptrdiff_t y = 0; y < v.height(); ++y) { typename V::reference ref = v(0, y); gil::static_for_each(ref, addr_rec{&a}); }
        for (const void* p : a) {
            g->offs.push_back((const char*)p - (const char*)a[0]);
            g->mod.push_back((unsigned)((uintptr_t)p % (align ? align : 1)));
        }
    }
};
template <int I> struct geometry_check {
    typedef typename ALT<I>::image_t image_t;
    const char* an;
    void cmp(const char* step, AI const& e, image_t const& ref, unsigned align, const std::string& what) {
        Geo ge, gc;
        ge.index = (int)e.index();
        v2::visit(geo_fn{&ge, align}, gil::const_view(e));
        geo_fn{&gc, align}(gil::const_view(ref));
        g_evals += 5;
        if (ge.index != I) { vh::viol(vh::cat("geometry.", step, ".index.", an), vh::cat("holds alternative ", ge.index, " after ", what)); return; }
        if (ge.w != gc.w || ge.h != gc.h || e.width() != gc.w || e.height() != gc.h)
            vh::viol(vh::cat("geometry.", step, ".dimensions.", an), vh::cat(ge.w, "x", ge.h, ", the concrete image is ", gc.w, "x", gc.h, " after ", what));
        else if (ge.row_size != gc.row_size)
            vh::viol(vh::cat("geometry.", step, ".row_size.", an), vh::cat("row pitch ", ge.row_size, " bytes, the concrete image's is ", gc.row_size, " after ", what));
        else if (ge.offs != gc.offs)
            vh::viol(vh::cat("geometry.", step, ".row-offsets.", an), vh::cat("row/plane offsets differ from the concrete image's after ", what));
        else if (ge.mod != gc.mod)
            vh::viol(vh::cat("geometry.", step, ".alignment.", an), vh::cat("row addresses modulo ", align, " differ from the concrete image's after ", what));
    }
    void run() {
        an = ALT<I>::name();
        if (!vh::begin_case("geometry", an)) return;
        static const unsigned AL[] = {0, 1, 2, 4, 8, 16, 32};
        vh::rng r = vh::case_rng();
        uint64_t e0 = g_evals, nd = 0;
        for (int wi = 0; wi < NSHAPES; ++wi) for (int hi = 0; hi < NSHAPES; ++hi) for (unsigned a0 : AL) {
            int w = SHAPES[wi], h = SHAPES[hi];
            int w2 = SHAPES[(wi + 1 + (int)r.below(NSHAPES - 1)) % NSHAPES], h2 = SHAPES[(hi + (int)r.below(NSHAPES)) % NSHAPES];
            image_t first(w, h, a0);
            AI e(first);
            image_t ref(first);
            cmp("construct", e, ref, a0, vh::cat("any_image(image(", w, ",", h, ",align ", a0, "))"));
            unsigned cur = a0;
            for (unsigned a1 : AL) {
                ++nd;
                // dimensions kept, alignment changed (a no-op only when a1 is the current alignment: then the pixels are kept)
                fill_random(e, r);
                ref = v2::get<image_t>(e);
                std::vector<long> before = content(e);
                e.recreate(gil::point<std::ptrdiff_t>(w, h), a1); ref.recreate(gil::point<std::ptrdiff_t>(w, h), a1);
                cmp("recreate.same-dimensions", e, ref, a1, vh::cat("recreate((", w, ",", h, "), align ", a1, ") of a ", w, "x", h, " image of alignment ", cur));
                if (a1 == cur) {
                    ++g_evals;
                    AI rc(ref);
                    if ((content(e) == before) != (content(rc) == before)) vh::viol(vh::cat("geometry.recreate.no-op.content.", an), vh::cat("recreate with unchanged dimensions and alignment ", a1, ": pixels kept by the variant: ", content(e) == before, ", by the concrete image: ", content(rc) == before));
                }
                cur = a1;
                // alignment kept, dimensions changed (x,y overload)
                e.recreate(w2, h2, a1); ref.recreate(w2, h2, a1);
                cmp("recreate.same-alignment", e, ref, a1, vh::cat("recreate(", w2, ",", h2, ", align ", a1, ") of a ", w, "x", h, " image of alignment ", a1));
                // copies and assignments take the source's geometry
                {
                    AI b(e); image_t cb(ref);
                    cmp("copy", b, cb, a1, vh::cat("copy of a ", w2, "x", h2, " image of alignment ", a1));
                    AI c((typename ALT<(I + 1) % NALT>::image_t(2, 3, 16)));
                    c = e;
                    cmp("assign.other-type", c, cb, a1, vh::cat("assignment of a ", w2, "x", h2, " image of alignment ", a1, " over another alternative"));
                    AI d((image_t(w, h, a0))); image_t cd(w, h, a0);
                    d = e; cd = ref;
                    cmp("assign.same-type", d, cd, a1, vh::cat("assignment of a ", w2, "x", h2, " image of alignment ", a1, " over a ", w, "x", h, " image of alignment ", a0));
                    AI f; f = ref;
                    cmp("assign.concrete", f, cb, a1, "assignment from a concrete image");
                }
                // back to the first dimensions with the default alignment of any_image::recreate (1)
                e.recreate(w, h); ref.recreate(w, h, 1);
                cmp("recreate.default-alignment", e, ref, 1, vh::cat("recreate(", w, ",", h, ") of a ", w2, "x", h2, " image of alignment ", a1));
                cur = 1;
                // and both changed
                e.recreate(gil::point<std::ptrdiff_t>(w2, h), AL[(a1 + a0) % 7]); ref.recreate(gil::point<std::ptrdiff_t>(w2, h), AL[(a1 + a0) % 7]);
                cur = AL[(a1 + a0) % 7];
                cmp("recreate.both", e, ref, cur, vh::cat("recreate((", w2, ",", h, "), align ", cur, ")"));
                e.recreate(w, h, cur); ref.recreate(w, h, cur);
                cmp("recreate.same-alignment", e, ref, cur, vh::cat("recreate(", w, ",", h, ", align ", cur, ")"));
            }
        }
        vh::evals(g_evals - e0); vh::distinct(nd);
        vh::obs("geometry");
    }
};
#endif

int main(int argc, char** argv) {
    vh::init(argc, argv);
    init_shapes();
#if C14_PART == 0
    { auto f = [&](auto ic) { queries_and_transforms<decltype(ic)::value>(); }; AltLoop<0, NALT>::run(f); }
#elif C14_PART == 1
    { auto f = [&](auto ic) { converted_views<decltype(ic)::value>(); for_each_case<decltype(ic)::value>(); ownership_case<decltype(ic)::value>(); }; AltLoop<0, NALT>::run(f); }
    {
        auto fi = [&](auto ic) { auto fk = [&](auto kc) { fill_case<decltype(ic)::value, decltype(kc)::value>(); }; AltLoop<0, 5>::run(fk); };
        AltLoop<0, NALT>::run(fi);
    }
#elif C14_PART == 2
    binary_all<op_copy, 0>(); binary_all<op_copy, 1>(); binary_all<op_copy, 2>(); binary_all<op_copy, 3>();
#elif C14_PART == 3
    binary_all<op_ccp, 0>(); binary_all<op_ccp, 1>();
#elif C14_PART == 4
    binary_all<op_ccp, 2>(); binary_all<op_ccp_cc, 0>();
#elif C14_PART == 10
    binary_all<op_ccp_cc, 1>(); binary_all<op_ccp_cc, 2>();
#elif C14_PART == 5
    equal_all<0>(); equal_all<1>(); equal_all<2>();
    { auto f = [&](auto ic) { image_equality_case<decltype(ic)::value>(); }; AltLoop<0, NEQ>::run(f); }
#elif C14_PART == 6
    binary_all<op_resample<0>, 0>(); binary_all<op_resample<1>, 0>();
#elif C14_PART == 7
    binary_all<op_resample<1>, 1>(); binary_all<op_resample<1>, 2>();
#elif C14_PART == 11
    { auto f = [&](auto ic) { geometry_check<decltype(ic)::value> gc; gc.run(); }; AltLoop<0, NALT>::run(f); }
#elif C14_PART == 8
    { auto f = [&](auto ic) { transposed_case<decltype(ic)::value>(); }; AltLoop<0, NALT>::run(f); }
#elif C14_PART == 9
    { auto f = [&](auto ic) { nth_channel_case<decltype(ic)::value>(); }; AltLoop<0, NALT>::run(f); }
#endif
    return vh::finish();
}
