// C18 (continued) -- gray -> rgba (toolbox color_converters/gray_to_rgba.hpp) and gray_alpha -> rgba
// (toolbox color_spaces/gray_alpha.hpp) into every destination the converters accept.
//
// Destinations: rgba8, rgba16, rgba32 (uint32), rgba32f, the bgra/argb/abgr layouts of 8 and 32f, signed rgba8s and
// rgba16s; and, for gray_alpha sources, packed rgba5551 / rgba4444 and bit-aligned rgba5551 / rgba4444 written through
// the image view's reference.  (gray -> packed / bit-aligned rgba does not instantiate: gray_to_rgba.hpp names
// channel_type<P2> of the heterogeneous destination; recorded as an observation, not claimed.)
// Sources: gray8, gray16 (every value), gray32f, gray32, gray8s, gray16s; gray_alpha8 (every pair), gray_alpha16,
// gray_alpha32f, gray_alpha8s.
// Checks, per destination channel:
//   gray-to-rgba.alpha   alpha == the maximum of the destination's alpha channel, exactly (hand-written table, and
//                        channel_traits<>::max_value())
//   gray-alpha.alpha     alpha == channel_convert of the source alpha into the destination's alpha channel
//   *.rgb                red, green, blue == channel_convert of the gray value into that channel
//   *.range              every channel inside its range (hand-written table; matters for float and packed channels)
//   *.linear             every channel within one unit (of the coarser depth) of the exact rescaling -- independent
//                        of channel_convert
//   *.neutral            white -> all colour channels at their maximum, black -> at their minimum
#include <boost/gil.hpp>
#include <boost/gil/extension/toolbox/color_spaces/gray_alpha.hpp>
#include <boost/gil/extension/toolbox/color_converters/gray_to_rgba.hpp>
#include <algorithm>
#include <cmath>
#include <vector>
#include "common/vh.hpp"

#ifndef C18G_PART
#define C18G_PART 0
#endif

namespace gil = boost::gil;
namespace mp11 = boost::mp11;
typedef long double ld;

struct vlog {
    std::map<std::string, uint64_t> n;
    template <class F> void hit(const std::string& key, F make_detail) {
        uint64_t& c = n[key];
        if (c < 3) vh::viol(key, make_detail());
        ++c;
    }
    ~vlog() { for (auto& kv : n) vh::count("violating-results." + kv.first, kv.second); }
};

// ---- hand-written channel ranges -------------------------------------------------------------------------
template <class C> struct lim;
template <> struct lim<uint8_t> { static ld lo() { return 0; } static ld hi() { return 255; } static ld res() { return 1.0L / 255; } };
template <> struct lim<uint16_t> { static ld lo() { return 0; } static ld hi() { return 65535; } static ld res() { return 1.0L / 65535; } };
template <> struct lim<uint32_t> { static ld lo() { return 0; } static ld hi() { return 4294967295.0L; } static ld res() { return 1.0L / 8388608; } };   // float32 intermediates
template <> struct lim<int8_t> { static ld lo() { return -128; } static ld hi() { return 127; } static ld res() { return 1.0L / 255; } };
template <> struct lim<int16_t> { static ld lo() { return -32768; } static ld hi() { return 32767; } static ld res() { return 1.0L / 65535; } };
template <> struct lim<gil::float32_t> { static ld lo() { return 0; } static ld hi() { return 1; } static ld res() { return 1.0L / 8388608; } };
template <class C> ld val(C c) { return (ld)(double)c; }
inline ld val(gil::float32_t c) { return (ld)(float)c; }
template <class C> ld norm(C c) { return (val(c) - lim<C>::lo()) / (lim<C>::hi() - lim<C>::lo()); }

// ---- sources ---------------------------------------------------------------------------------------------------
static std::vector<float> unit_floats(vh::rng& r, int nrand) {
    std::vector<float> v = {0.f, 1.f, nextafterf(1.f, 0.f), nextafterf(0.f, 1.f), 0.5f};
    const int maxes[] = {1, 15, 31, 127, 255};
    for (int m : maxes) for (int k = 0; k <= m; ++k) { v.push_back((float)k / m); v.push_back((float)((k + 0.499) / m)); v.push_back((float)((k + 0.501) / m)); }
    for (int i = 0; i < nrand; ++i) v.push_back((float)r.unit());
    for (float& x : v) { if (!(x >= 0.f)) x = 0.f; if (x > 1.f) x = 1.f; }
    std::sort(v.begin(), v.end()); v.erase(std::unique(v.begin(), v.end()), v.end());
    return v;
}
template <class C> struct chan_values;
template <> struct chan_values<uint8_t> { static std::vector<uint8_t> all(vh::rng&, bool) { std::vector<uint8_t> v; for (int i = 0; i < 256; ++i) v.push_back((uint8_t)i); return v; } };
template <> struct chan_values<int8_t> { static std::vector<int8_t> all(vh::rng&, bool) { std::vector<int8_t> v; for (int i = -128; i < 128; ++i) v.push_back((int8_t)i); return v; } };
template <> struct chan_values<uint16_t> { static std::vector<uint16_t> all(vh::rng& r, bool complete) {
    std::vector<long> v;
    if (complete) for (long i = 0; i < 65536; ++i) v.push_back(i);
    else {
        for (long i = 0; i < 256; ++i) { v.push_back(i); v.push_back(65535 - i); v.push_back(i * 257); v.push_back(i * 256 + 128); }
        int nr = vh::thorough() ? 1200 : 200;
        for (int i = 0; i < nr; ++i) v.push_back((long)r.below(65536));
        std::sort(v.begin(), v.end()); v.erase(std::unique(v.begin(), v.end()), v.end());
    }
    std::vector<uint16_t> o; for (long x : v) o.push_back((uint16_t)x); return o; } };
template <> struct chan_values<int16_t> { static std::vector<int16_t> all(vh::rng&, bool) { std::vector<int16_t> v; for (long i = -32768; i < 32768; ++i) v.push_back((int16_t)i); return v; } };
template <> struct chan_values<uint32_t> { static std::vector<uint32_t> all(vh::rng& r, bool) {
    std::vector<uint32_t> v;
    for (uint32_t i = 0; i < 512; ++i) { v.push_back(i); v.push_back(0xFFFFFFFFu - i); v.push_back(i * 0x00808080u); }
    for (int k = 0; k < 32; ++k) { v.push_back(1u << k); v.push_back((1u << k) - 1); }
    int nr = vh::thorough() ? 100000 : 5000;
    for (int i = 0; i < nr; ++i) v.push_back((uint32_t)r.next());
    std::sort(v.begin(), v.end()); v.erase(std::unique(v.begin(), v.end()), v.end());
    return v; } };
template <> struct chan_values<gil::float32_t> { static std::vector<gil::float32_t> all(vh::rng& r, bool complete) {
    std::vector<gil::float32_t> v; for (float f : unit_floats(r, complete ? (vh::thorough() ? 100000 : 5000) : (vh::thorough() ? 300 : 60))) v.push_back(gil::float32_t(f)); return v; } };

template <class P> struct nm;
#define NAME(T, S) template <> struct nm<T> { static const char* name() { return S; } };
NAME(gil::gray8_pixel_t, "gray8") NAME(gil::gray16_pixel_t, "gray16") NAME(gil::gray32f_pixel_t, "gray32f") NAME(gil::gray32_pixel_t, "gray32")
NAME(gil::gray8s_pixel_t, "gray8s") NAME(gil::gray16s_pixel_t, "gray16s")
NAME(gil::gray_alpha8_pixel_t, "gray_alpha8") NAME(gil::gray_alpha16_pixel_t, "gray_alpha16") NAME(gil::gray_alpha32f_pixel_t, "gray_alpha32f") NAME(gil::gray_alpha8s_pixel_t, "gray_alpha8s")
NAME(gil::rgba8_pixel_t, "rgba8") NAME(gil::rgba16_pixel_t, "rgba16") NAME(gil::rgba32_pixel_t, "rgba32") NAME(gil::rgba32f_pixel_t, "rgba32f")
NAME(gil::bgra8_pixel_t, "bgra8") NAME(gil::argb8_pixel_t, "argb8") NAME(gil::abgr8_pixel_t, "abgr8")
NAME(gil::bgra32f_pixel_t, "bgra32f") NAME(gil::argb32f_pixel_t, "argb32f") NAME(gil::abgr32f_pixel_t, "abgr32f")
NAME(gil::rgba8s_pixel_t, "rgba8s") NAME(gil::rgba16s_pixel_t, "rgba16s")

template <class D> std::string showd(const D& d) {
    char b[200];
    snprintf(b, sizeof b, "(r %.9Lg, g %.9Lg, b %.9Lg, a %.9Lg)", val(gil::get_color(d, gil::red_t())), val(gil::get_color(d, gil::green_t())), val(gil::get_color(d, gil::blue_t())), val(gil::get_color(d, gil::alpha_t())));
    return b;
}

// colour channels, range, linearity, neutrals: common to both source kinds.  rel = "gray-to-rgba" | "gray-alpha"
template <class SC, class D, class Show> void check_colour(const char* rel, const std::string& pair, SC g, const D& d, Show srcshowf, vlog& vl) {
#define srcshow srcshowf()
    typedef typename gil::channel_type<D>::type DC;
    DC e = gil::channel_convert<DC>(g);
    DC c[4] = {gil::get_color(d, gil::red_t()), gil::get_color(d, gil::green_t()), gil::get_color(d, gil::blue_t()), gil::get_color(d, gil::alpha_t())};
    if (!(c[0] == e && c[1] == e && c[2] == e))
        vl.hit(vh::cat(rel, ".rgb.", pair), [&] { return vh::cat(pair, " ", srcshow, " -> ", showd(d), ": colour channels are not channel_convert(gray) = ", (double)val(e)); });
    for (int i = 0; i < 4; ++i)
        if (!(val(c[i]) >= lim<DC>::lo() && val(c[i]) <= lim<DC>::hi())) { vl.hit(vh::cat(rel, ".range.", pair), [&] { return vh::cat(pair, " ", srcshow, " -> ", showd(d), ": channel ", i, " outside [", (double)lim<DC>::lo(), ",", (double)lim<DC>::hi(), "]"); }); break; }
    ld tol = std::max(lim<SC>::res(), lim<DC>::res()) * 1.0000001L + 1e-12L;
    for (int i = 0; i < 3; ++i)
        if (!(fabsl(norm(c[i]) - norm(g)) <= tol)) { vl.hit(vh::cat(rel, ".linear.", pair), [&] { return vh::cat(pair, " ", srcshow, " -> ", showd(d), ": channel ", i, " = ", (double)norm(c[i]), " of full scale, the gray is ", (double)norm(g)); }); break; }
    if (val(g) == lim<SC>::hi() && !(val(c[0]) == lim<DC>::hi() && val(c[1]) == lim<DC>::hi() && val(c[2]) == lim<DC>::hi()))
        vl.hit(vh::cat(rel, ".neutral.", pair, ".white"), [&] { return vh::cat(pair, " white -> ", showd(d)); });
    if (val(g) == lim<SC>::lo() && !(val(c[0]) == lim<DC>::lo() && val(c[1]) == lim<DC>::lo() && val(c[2]) == lim<DC>::lo()))
        vl.hit(vh::cat(rel, ".neutral.", pair, ".black"), [&] { return vh::cat(pair, " black -> ", showd(d)); });
#undef srcshow
}

// gray -> rgba: alpha is the maximum of the destination's alpha channel
template <class S, class D> void gray_case() {
    typedef typename gil::channel_type<S>::type SC;
    typedef typename gil::channel_type<D>::type DC;
    const std::string pair = vh::cat(nm<S>::name(), "->", nm<D>::name());
    if (!vh::begin_case("gray-to-rgba", pair)) return;
    vh::rng r = vh::case_rng();
    std::vector<SC> gs = chan_values<SC>::all(r, true);
    vlog vl;
    uint64_t n = 0;
    for (SC g : gs) {
        S s(g);
        D d;
        gil::color_convert(s, d);
        ++n;
        DC a = gil::get_color(d, gil::alpha_t());
        if (!(val(a) == lim<DC>::hi()) || !(a == gil::channel_traits<DC>::max_value()))
            vl.hit("gray-to-rgba.alpha." + pair, [&] { return vh::cat(pair, " gray ", (double)val(g), " -> ", showd(d), ": alpha is not the channel's maximum ", (double)lim<DC>::hi()); });
        check_colour<SC, D>("gray-to-rgba", pair, g, d, [&] { return vh::cat("gray ", (double)val(g)); }, vl);
    }
    vh::evals(4 * n); vh::distinct(n);
    vh::obs(vh::cat("gray-to-rgba.dst.", nm<D>::name()));
    vh::sample(vh::cat(pair, ": ", n, " gray values -> alpha == max of the destination alpha channel, colour == channel_convert(gray), range, one-unit linearity, neutrals"));
}

// gray_alpha -> rgba: alpha carried
template <class S, class D> void gray_alpha_case() {
    typedef typename gil::channel_type<S>::type SC;
    typedef typename gil::channel_type<D>::type DC;
    const std::string pair = vh::cat(nm<S>::name(), "->", nm<D>::name());
    if (!vh::begin_case("gray-alpha", pair)) return;
    vh::rng r = vh::case_rng();
    const bool small = sizeof(SC) == 1;
    std::vector<SC> gs = chan_values<SC>::all(r, small), as = chan_values<SC>::all(r, small);
    vlog vl;
    uint64_t n = 0;
    for (SC g : gs) for (SC a : as) {
        S s;
        gil::get_color(s, gil::gray_color_t()) = g;
        gil::get_color(s, gil::alpha_t()) = a;
        D d;
        gil::color_convert(s, d);
        ++n;
        DC ea = gil::channel_convert<DC>(a), da = gil::get_color(d, gil::alpha_t());
        if (!(da == ea))
            vl.hit("gray-alpha.alpha." + pair, [&] { return vh::cat(pair, " (gray ", (double)val(g), ", alpha ", (double)val(a), ") -> ", showd(d), ": alpha is not channel_convert(source alpha) = ", (double)val(ea)); });
        if (!(fabsl(norm(da) - norm(a)) <= std::max(lim<SC>::res(), lim<DC>::res()) * 1.0000001L + 1e-12L))
            vl.hit("gray-alpha.alpha-linear." + pair, [&] { return vh::cat(pair, " (gray ", (double)val(g), ", alpha ", (double)val(a), ") -> ", showd(d), ": alpha = ", (double)norm(da), " of full scale, the source alpha is ", (double)norm(a)); });
        if ((val(a) == lim<SC>::hi() && val(da) != lim<DC>::hi()) || (val(a) == lim<SC>::lo() && val(da) != lim<DC>::lo()))
            vl.hit("gray-alpha.alpha-ends." + pair, [&] { return vh::cat(pair, " (gray ", (double)val(g), ", alpha ", (double)val(a), ") -> ", showd(d), ": opaque / transparent is not kept"); });
        check_colour<SC, D>("gray-alpha", pair, g, d, [&] { return vh::cat("(gray ", (double)val(g), ", alpha ", (double)val(a), ")"); }, vl);
    }
    vh::evals(4 * n); vh::distinct(n);
    vh::obs(vh::cat("gray-alpha.dst.", nm<D>::name()));
    vh::sample(vh::cat(pair, ": ", n, " (gray,alpha) pairs -> alpha == channel_convert(source alpha), colour == channel_convert(gray), range, one-unit linearity, ends"));
}

// ---- packed and bit-aligned rgba destinations (gray_alpha sources only: gray -> these does not instantiate) ----------
typedef gil::packed_pixel_type<uint16_t, mp11::mp_list_c<unsigned, 5, 5, 5, 1>, gil::rgba_layout_t>::type rgba5551_t;
typedef gil::packed_pixel_type<uint16_t, mp11::mp_list_c<unsigned, 4, 4, 4, 4>, gil::rgba_layout_t>::type rgba4444_t;
typedef gil::packed_pixel_type<uint16_t, mp11::mp_list_c<unsigned, 1, 5, 5, 5>, gil::argb_layout_t>::type argb1555_t;
typedef gil::bit_aligned_image4_type<5, 5, 5, 1, gil::rgba_layout_t>::type ba5551_image_t;
typedef gil::bit_aligned_image4_type<4, 4, 4, 4, gil::rgba_layout_t>::type ba4444_image_t;
template <class P> struct bf { typedef typename std::decay<decltype(std::declval<P&>()._bitfield)>::type type; };
template <class P> struct packed_slot {
    P d;
    template <class S> void convert(const S& s) { d = P((typename bf<P>::type)0x5A5A); gil::color_convert(s, d); }
    void read(long* o) const { o[0] = (long)gil::get_color(d, gil::red_t()); o[1] = (long)gil::get_color(d, gil::green_t()); o[2] = (long)gil::get_color(d, gil::blue_t()); o[3] = (long)gil::get_color(d, gil::alpha_t()); }
    bool neighbours_intact() const { return true; }
};
template <class Img> struct bitaligned_slot {
    typedef typename Img::value_type value;
    Img img;
    bitaligned_slot() : img(3, 1) {}
    static void rd(const typename Img::const_view_t& v, int x, long* o) {
        auto p = v(x, 0);
        o[0] = (long)gil::get_color(p, gil::red_t()); o[1] = (long)gil::get_color(p, gil::green_t()); o[2] = (long)gil::get_color(p, gil::blue_t()); o[3] = (long)gil::get_color(p, gil::alpha_t());
    }
    long left[4], right[4];
    template <class S> void convert(const S& s) {
        auto v = gil::view(img);
        v(0, 0) = value((typename bf<value>::type)0x2D2D); v(1, 0) = value((typename bf<value>::type)0xFFFF); v(2, 0) = value((typename bf<value>::type)0x5252);
        rd(gil::const_view(img), 0, left); rd(gil::const_view(img), 2, right);
        auto ref = v(1, 0);
        gil::color_convert(s, ref);
    }
    void read(long* o) const { rd(gil::const_view(img), 1, o); }
    bool neighbours_intact() const {
        long l[4], r[4];
        rd(gil::const_view(img), 0, l); rd(gil::const_view(img), 2, r);
        for (int i = 0; i < 4; ++i) if (l[i] != left[i] || r[i] != right[i]) return false;
        return true;
    }
};
// semantic bits (red, green, blue, alpha): hand-written
struct d_rgba5551 { typedef packed_slot<rgba5551_t> slot; static const int rb = 5, gb = 5, bb = 5, ab = 1; static const char* name() { return "rgba5551"; } };
struct d_rgba4444 { typedef packed_slot<rgba4444_t> slot; static const int rb = 4, gb = 4, bb = 4, ab = 4; static const char* name() { return "rgba4444"; } };
struct d_argb1555 { typedef packed_slot<argb1555_t> slot; static const int rb = 5, gb = 5, bb = 5, ab = 1; static const char* name() { return "argb1555"; } };
struct d_ba5551 { typedef bitaligned_slot<ba5551_image_t> slot; static const int rb = 5, gb = 5, bb = 5, ab = 1; static const char* name() { return "bitaligned-rgba5551"; } };
struct d_ba4444 { typedef bitaligned_slot<ba4444_image_t> slot; static const int rb = 4, gb = 4, bb = 4, ab = 4; static const char* name() { return "bitaligned-rgba4444"; } };

template <int BITS, class SC> long expect_bits(SC v) { typedef gil::packed_channel_value<BITS> CV; return (long)(typename CV::integer_t)gil::channel_convert<CV>(v); }

template <class S, class Desc> void gray_alpha_packed_case() {
    typedef typename gil::channel_type<S>::type SC;
    const std::string pair = vh::cat(nm<S>::name(), "->", Desc::name());
    if (!vh::begin_case("gray-alpha", pair)) return;
    vh::rng r = vh::case_rng();
    const bool small = sizeof(SC) == 1;
    std::vector<SC> gs = chan_values<SC>::all(r, small), as = chan_values<SC>::all(r, small);
    vlog vl;
    typename Desc::slot slot;
    uint64_t n = 0;
    bool nb = false;
    const int bits[4] = {Desc::rb, Desc::gb, Desc::bb, Desc::ab};
    for (SC g : gs) for (SC a : as) {
        S s;
        gil::get_color(s, gil::gray_color_t()) = g;
        gil::get_color(s, gil::alpha_t()) = a;
        slot.convert(s);
        long got[4];
        slot.read(got);
        ++n;
        const long want[4] = {expect_bits<Desc::rb>(g), expect_bits<Desc::gb>(g), expect_bits<Desc::bb>(g), expect_bits<Desc::ab>(a)};
        auto src = [&] { return vh::cat("(gray ", (double)val(g), ", alpha ", (double)val(a), ") -> (r ", got[0], ", g ", got[1], ", b ", got[2], ", a ", got[3], ")"); };
        if (got[0] != want[0] || got[1] != want[1] || got[2] != want[2])
            vl.hit("gray-alpha.rgb." + pair, [&] { return vh::cat(pair, " ", src(), ": colour channels are not channel_convert(gray) into ", bits[0], "/", bits[1], "/", bits[2], " bits = ", want[0], ",", want[1], ",", want[2]); });
        if (got[3] != want[3])
            vl.hit("gray-alpha.alpha." + pair, [&] { return vh::cat(pair, " ", src(), ": alpha is not channel_convert(source alpha) into ", bits[3], " bit(s) = ", want[3]); });
        for (int i = 0; i < 4; ++i) {
            long mx = (1l << bits[i]) - 1;
            if (got[i] < 0 || got[i] > mx) { vl.hit("gray-alpha.range." + pair, [&] { return vh::cat(pair, " ", src(), ": channel ", i, " outside its ", bits[i], " bits"); }); break; }
            ld exact = norm(i == 3 ? a : g) * mx;
            if (fabsl((ld)got[i] - exact) > 1.0L + 1e-6L) { vl.hit(i == 3 ? "gray-alpha.alpha-linear." + pair : "gray-alpha.linear." + pair, [&] { return vh::cat(pair, " ", src(), ": channel ", i, " but the exact rescaling is ", (double)exact); }); break; }
        }
        if ((val(a) == lim<SC>::hi() && got[3] != (1l << bits[3]) - 1) || (val(a) == lim<SC>::lo() && got[3] != 0))
            vl.hit("gray-alpha.alpha-ends." + pair, [&] { return vh::cat(pair, " ", src(), ": opaque / transparent is not kept"); });
        if (!nb && !slot.neighbours_intact()) { nb = true; vl.hit("gray-alpha.neighbour." + pair, [&] { return vh::cat(pair, " ", src(), ": the bit-aligned write changed a neighbouring pixel"); }); }
    }
    vh::evals(4 * n); vh::distinct(n);
    vh::obs(vh::cat("gray-alpha.dst.", Desc::name()));
    vh::sample(vh::cat(pair, ": ", n, " (gray,alpha) pairs -> every channel == channel_convert into its own bit count, range, one-unit linearity, ends, neighbours"));
}

template <class S> void gray_row() {
    gray_case<S, gil::rgba8_pixel_t>(); gray_case<S, gil::rgba16_pixel_t>(); gray_case<S, gil::rgba32_pixel_t>(); gray_case<S, gil::rgba32f_pixel_t>();
    gray_case<S, gil::bgra8_pixel_t>(); gray_case<S, gil::argb8_pixel_t>(); gray_case<S, gil::abgr8_pixel_t>();
    gray_case<S, gil::bgra32f_pixel_t>(); gray_case<S, gil::argb32f_pixel_t>(); gray_case<S, gil::abgr32f_pixel_t>();
    gray_case<S, gil::rgba8s_pixel_t>(); gray_case<S, gil::rgba16s_pixel_t>();
}
template <class S> void gray_alpha_row() {
    gray_alpha_case<S, gil::rgba8_pixel_t>(); gray_alpha_case<S, gil::rgba16_pixel_t>(); gray_alpha_case<S, gil::rgba32_pixel_t>(); gray_alpha_case<S, gil::rgba32f_pixel_t>();
    gray_alpha_case<S, gil::bgra8_pixel_t>(); gray_alpha_case<S, gil::argb8_pixel_t>(); gray_alpha_case<S, gil::abgr8_pixel_t>();
    gray_alpha_case<S, gil::bgra32f_pixel_t>(); gray_alpha_case<S, gil::argb32f_pixel_t>(); gray_alpha_case<S, gil::abgr32f_pixel_t>();
    gray_alpha_case<S, gil::rgba8s_pixel_t>(); gray_alpha_case<S, gil::rgba16s_pixel_t>();
    gray_alpha_packed_case<S, d_rgba5551>(); gray_alpha_packed_case<S, d_rgba4444>(); gray_alpha_packed_case<S, d_argb1555>();
    gray_alpha_packed_case<S, d_ba5551>(); gray_alpha_packed_case<S, d_ba4444>();
}

int main(int argc, char** argv) {
    vh::init(argc, argv);
#if C18G_PART == 0
    gray_row<gil::gray8_pixel_t>();
    gray_row<gil::gray16_pixel_t>();
    gray_row<gil::gray32f_pixel_t>();
    gray_row<gil::gray32_pixel_t>();
    gray_row<gil::gray8s_pixel_t>();
    gray_row<gil::gray16s_pixel_t>();
    // gray -> packed / bit-aligned rgba (rgba5551, rgba4444) does not compile: gray_to_rgba.hpp uses channel_type<P2>
    // of the destination, which is undefined for a pixel with channels of different types.  Recorded, not claimed.
    if (vh::begin_case("gray-to-rgba", "not-instantiable:gray->packed-or-bit-aligned-rgba")) vh::obs("gray-to-rgba.not-instantiable.packed-and-bit-aligned-rgba");
#else
    gray_alpha_row<gil::gray_alpha8_pixel_t>();
    gray_alpha_row<gil::gray_alpha16_pixel_t>();
    gray_alpha_row<gil::gray_alpha32f_pixel_t>();
    gray_alpha_row<gil::gray_alpha8s_pixel_t>();
#endif
    return vh::finish();
}
