// c15_util.hpp -- helpers shared by the C15 and C16 monitors (image-processing algorithms).
//
//  * arena<Pixel>: the destination view handed to GIL is carved out of a larger image whose
//    raw bytes were pre-filled with seeded noise; a byte-identical "model" arena receives the
//    oracle's output.  Afterwards every pixel of the real arena is compared with the model:
//    pixels outside the destination view and pixels the oracle left alone must be byte-identical
//    (a write outside the destination, or a write to a pixel that must stay untouched, is caught),
//    pixels the oracle wrote are compared numerically (tolerance chosen by the caller, 0 = exact).
//  * sources are plain gil::image objects (alignment 0): one tight heap block, so ASan reports
//    every read outside.
#pragma once
#include <boost/gil.hpp>
#include <cmath>
#include <cstring>
#include <string>
#include <vector>
#include "common/vh.hpp"

namespace cu {
namespace gil = boost::gil;

template <class View> inline unsigned char* raw(View const& v) { return (unsigned char*)gil::interleaved_view_get_raw_data(v); }
template <class View> inline size_t raw_size(View const& v) { return v.height() ? (size_t)v.pixels().row_size() * (size_t)v.height() : 0; }

template <class Image> void fill_noise(Image& img, vh::rng& r) {
    auto v = gil::view(img);
    if (v.width() == 0 || v.height() == 0) return;
    unsigned char* p = raw(v);
    size_t n = raw_size(v);
    for (size_t i = 0; i < n; ++i) p[i] = (unsigned char)r.next();
}
template <class Image> std::vector<unsigned char> snapshot(Image const& img) {
    auto v = gil::const_view(img);
    if (v.width() == 0 || v.height() == 0) return std::vector<unsigned char>();
    unsigned char* p = raw(v);
    return std::vector<unsigned char>(p, p + raw_size(v));
}
template <class Image> bool same_bytes(Image const& img, std::vector<unsigned char> const& snap) {
    auto v = gil::const_view(img);
    if (v.width() == 0 || v.height() == 0) return snap.empty();
    return snap.size() == raw_size(v) && memcmp(raw(v), snap.data(), snap.size()) == 0;
}

// numeric value of a channel (integral, float or scoped float channel)
template <class C> inline double num(C const& c) { return (double)(typename gil::channel_traits<C>::value_type)c; }
template <class B, class Mn, class Mx> inline double num(gil::scoped_channel_value<B, Mn, Mx> const& c) { return (double)(B)c; }

// position in memory (operator[] index) of every colour of pixel type P, in the order of P's colour space:
// oracles compare per COLOUR, whatever the channel order of source and destination
template <class P, int K> struct sem_fill {
    static void go(P& p) {
        typedef typename gil::channel_type<P>::type ch_t;
        gil::semantic_at_c<K>(p) = ch_t((typename gil::channel_traits<ch_t>::value_type)(K + 1));
        sem_fill<P, K - 1>::go(p);
    }
};
template <class P> struct sem_fill<P, -1> { static void go(P&) {} };
template <class P> std::vector<int> phys_of_colour() {
    const int NC = gil::num_channels<P>::value;
    P p;
    sem_fill<P, NC - 1>::go(p);
    std::vector<int> m((size_t)NC, -1);
    for (int c = 0; c < NC; ++c) m[(size_t)((int)num(p[c]) - 1)] = c;
    return m;
}
// channel values of a view in raster order (works for planar views too): used to detect a modified source
template <class View> std::vector<double> values_of(View const& v) {
    std::vector<double> out;
    const int NC = gil::num_channels<View>::value;
    for (int y = 0; y < v.height(); ++y)
        for (int x = 0; x < v.width(); ++x)
            for (int c = 0; c < NC; ++c) out.push_back(num(v(x, y)[c]));
    return out;
}

// classes a destination pixel can belong to (the caller names them in the violation key)
enum { K_UNTOUCHED = 0, K_A = 1, K_B = 2, K_C = 3, K_NCLASS = 4 };

struct cmp_result {
    long outside_bad = 0;            // bytes changed outside the destination view
    long bad[K_NCLASS] = {0, 0, 0, 0};  // mismatches inside the view, per pixel class
    long checked = 0;
    std::string first[K_NCLASS];
    std::string first_outside;
    bool any() const { return outside_bad || bad[0] || bad[1] || bad[2] || bad[3]; }
};

template <class Pixel> struct arena {
    typedef gil::image<Pixel> image_t;
    typedef typename image_t::view_t view_t;
    image_t real, model;
    int mx, my, w, h;
    std::vector<unsigned char> cls;      // per destination pixel: K_UNTOUCHED or the class of the value the oracle wrote
    static const int NC = gil::num_channels<Pixel>::value;

    arena(int w_, int h_, vh::rng& r, int mx_ = 2, int my_ = 2)
        : real(w_ + 2 * mx_, h_ + 2 * my_), model(w_ + 2 * mx_, h_ + 2 * my_), mx(mx_), my(my_), w(w_), h(h_), cls((size_t)w_ * h_, K_UNTOUCHED) {
        fill_noise(real, r);
        memcpy(raw(gil::view(model)), raw(gil::view(real)), raw_size(gil::view(real)));
    }
    view_t dst() { return gil::subimage_view(gil::view(real), mx, my, w, h); }
    view_t mdst() { return gil::subimage_view(gil::view(model), mx, my, w, h); }
    // the oracle's output for destination pixel (x,y), channel c (physical index), class k
    void set(int x, int y, int c, double v, int k) {
        typedef typename gil::channel_type<Pixel>::type ch_t;
        typedef typename gil::channel_traits<ch_t>::value_type val_t;
        mdst()(x, y)[c] = ch_t(val_t(v));
        cls[(size_t)y * w + x] = (unsigned char)k;
    }
    // mark a pixel as belonging to class k although the oracle leaves it untouched (e.g. output_ignore borders)
    std::vector<unsigned char> untouched_cls;
    void mark_untouched(int x, int y, int k) {
        if (untouched_cls.empty()) untouched_cls.assign((size_t)w * h, K_UNTOUCHED);
        untouched_cls[(size_t)y * w + x] = (unsigned char)k;
    }

    cmp_result compare(double tol) const {
        cmp_result res;
        auto rv = gil::const_view(real);
        auto mv = gil::const_view(model);
        for (int Y = 0; Y < rv.height(); ++Y)
            for (int X = 0; X < rv.width(); ++X) {
                const Pixel& a = rv(X, Y);
                const Pixel& b = mv(X, Y);
                int x = X - mx, y = Y - my;
                bool inside = x >= 0 && x < w && y >= 0 && y < h;
                if (!inside) {
                    if (memcmp(&a, &b, sizeof(Pixel)) != 0) {
                        if (!res.outside_bad) res.first_outside = vh::cat("arena pixel (", x, ",", y, ") relative to a ", w, "x", h, " destination was overwritten");
                        ++res.outside_bad;
                    }
                    continue;
                }
                ++res.checked;
                int k = cls[(size_t)y * w + x];
                if (k == K_UNTOUCHED) {
                    if (memcmp(&a, &b, sizeof(Pixel)) != 0) {
                        int kk = untouched_cls.empty() ? K_UNTOUCHED : untouched_cls[(size_t)y * w + x];
                        if (!res.bad[kk]) res.first[kk] = vh::cat("dst(", x, ",", y, ") must stay untouched but was written: channel0 now ", num(a[0]));
                        ++res.bad[kk];
                    }
                    continue;
                }
                for (int c = 0; c < NC; ++c) {
                    double va = num(a[c]), vb = num(b[c]);
                    bool ok = (va == vb) || (std::fabs(va - vb) <= tol);
                    if (!ok) {
                        if (!res.bad[k]) res.first[k] = vh::cat("dst(", x, ",", y, ")[", c, "] = ", va, " expected ", vb);
                        ++res.bad[k];
                        break;
                    }
                }
            }
        return res;
    }
};

inline const char* optname(gil::boundary_option o) {
    switch (o) {
        case gil::boundary_option::output_ignore: return "output_ignore";
        case gil::boundary_option::output_zero: return "output_zero";
        case gil::boundary_option::extend_padded: return "extend_padded";
        case gil::boundary_option::extend_zero: return "extend_zero";
        case gil::boundary_option::extend_constant: return "extend_constant";
    }
    return "?";
}

} // namespace cu
