// C06 -- channel_convert is the order-preserving linear range map with exact end points.
// One case per ordered pair (S,D) of channel models; the source values of S are enumerated
// completely for <=16-bit and packed channels, stratified for 32-bit and float.
// Oracle in exact integer (__int128) / long double arithmetic.  See DESIGN.md section 5, C06.
#include <boost/gil.hpp>
#include <algorithm>
#include <cmath>
#include <vector>
#include "common/vh.hpp"

namespace gil = boost::gil;
typedef long long ll;
typedef __int128 i128;

// ---- model traits -------------------------------------------------------------------
template <class T> struct M;
#define INT_MODEL(T, NAME, BITS)                                                        \
    template <> struct M<T> {                                                           \
        static const char* name() { return NAME; }                                      \
        static const bool is_float = false;                                             \
        static const int bits = BITS;                                                   \
        static ll lo() { return (ll)std::numeric_limits<T>::min(); }                    \
        static ll hi() { return (ll)std::numeric_limits<T>::max(); }                    \
        static ll get(T v) { return (ll)v; }                                            \
        static T make(ll v) { return (T)v; }                                            \
    };
INT_MODEL(uint8_t, "u8", 8)
INT_MODEL(int8_t, "s8", 8)
INT_MODEL(uint16_t, "u16", 16)
INT_MODEL(int16_t, "s16", 16)
INT_MODEL(uint32_t, "u32", 32)
INT_MODEL(int32_t, "s32", 32)

template <int N> struct M<gil::packed_channel_value<N>> {
    typedef gil::packed_channel_value<N> T;
    static const char* name() { static std::string s = "p" + std::to_string(N); return s.c_str(); }
    static const bool is_float = false;
    static const int bits = N;
    static ll lo() { return 0; }
    static ll hi() { return (ll)((1ull << N) - 1); }
    static ll get(T v) { return (ll)(typename T::integer_t)v; }
    static T make(ll v) { return T((typename T::integer_t)v); }
};
template <> struct M<gil::float32_t> {
    typedef gil::float32_t T;
    static const char* name() { return "f32"; }
    static const bool is_float = true;
    static const int bits = 32;
    static ll lo() { return 0; }
    static ll hi() { return 1; }
    static ll get(T v) { return (ll)(float)v; }
    static T make(ll v) { return T((float)v); }
};

// ---- source enumerations ------------------------------------------------------------
static std::vector<ll> int_sources(ll lo, ll hi, int bits, vh::rng& r) {
    std::vector<ll> v;
    if (bits <= 16) {
        for (ll x = lo; x <= hi; ++x) v.push_back(x);
        return v;
    }
    // 32-bit (and wide packed) channels: stratified -- all 2^k +-{0,1}, the values nearest both
    // ends, a lattice, and seeded random values
    ll range = hi - lo;
    long near = vh::thorough() ? 65536 : 4096;
    for (long i = 0; i < near && i <= range; ++i) { v.push_back(lo + i); v.push_back(hi - i); }
    for (int k = 0; k < 40; ++k) {
        ll p = 1ll << k;
        for (ll d = -1; d <= 1; ++d) {
            ll o = p + d;
            if (o >= 0 && o <= range) { v.push_back(lo + o); v.push_back(hi - o); }
        }
    }
    long lattice = vh::thorough() ? 65536 : 2048;
    for (long i = 0; i <= lattice; ++i) {
        ll o = (ll)((i128)range * i / lattice);
        for (ll d = -1; d <= 1; ++d) if (o + d >= 0 && o + d <= range) v.push_back(lo + o + d);
    }
    long nr = vh::thorough() ? (1l << 20) : (1l << 15);
    for (long i = 0; i < nr; ++i) v.push_back(lo + (ll)r.below((uint64_t)range + 1));
    std::sort(v.begin(), v.end());
    v.erase(std::unique(v.begin(), v.end()), v.end());
    return v;
}
static std::vector<float> float_sources(vh::rng& r) {
    std::vector<float> v;
    v.push_back(0.f); v.push_back(1.f);
    const double maxes[] = {1, 3, 7, 15, 31, 63, 127, 255, 511, 1023, 4095, 65535, 16777215.0, 2147483647.0, 4294967295.0};
    for (double m : maxes) {
        long n = (long)std::min(m, vh::thorough() ? 65535.0 : 4095.0);
        for (long k = 0; k <= n; ++k) {
            double base = (m <= 65535) ? k / m : (double)k / n;   // k/max for small ranges, a lattice for the big ones
            v.push_back((float)base);
            v.push_back((float)((k + 0.5) / m)); v.push_back((float)((k - 0.5) / m));
            v.push_back((float)((k + 0.499) / m)); v.push_back((float)((k + 0.501) / m));
        }
    }
    long nr = vh::thorough() ? (1l << 20) : (1l << 15);
    for (long i = 0; i < nr; ++i) v.push_back((float)r.unit());
    for (float& x : v) { if (!(x >= 0.f)) x = 0.f; if (x > 1.f) x = 1.f; }
    std::sort(v.begin(), v.end());
    v.erase(std::unique(v.begin(), v.end()), v.end());
    return v;
}

static std::string pairkey(const char* what, const char* s, const char* d) { return vh::cat(what, ".", s, "->", d); }

// ---- the checks ---------------------------------------------------------------------
// integral source
template <class S, class D> struct checker {
    static void run(std::true_type /*D integral*/, std::true_type /*S integral*/) {
        vh::rng r = vh::case_rng();
        std::vector<ll> src = int_sources(M<S>::lo(), M<S>::hi(), M<S>::bits, r);
        const ll slo = M<S>::lo(), shi = M<S>::hi(), dlo = M<D>::lo(), dhi = M<D>::hi();
        const i128 srange = (i128)shi - slo, drange = (i128)dhi - dlo;
        const bool wide = M<S>::bits >= 32 || M<D>::bits >= 32;
        // tolerance: < 1 destination unit (+ range*2^-23 when a 32-bit channel is involved)
        const i128 tol_num = srange + (wide ? (i128)((long double)srange * (long double)drange / 8388608.0L) : 0);
        const bool roundtrip = drange >= srange;
        ll prev = dlo; bool first = true;
        uint64_t n = 0;
        for (ll x : src) {
            S sv = M<S>::make(x);
            D dv = gil::channel_convert<D>(sv);
            ll y = M<D>::get(dv);
            ++n;
            if (y < dlo || y > dhi) vh::viol(pairkey("range", M<S>::name(), M<D>::name()), vh::cat("src=", x, " result=", y, " outside [", dlo, ",", dhi, "]"));
            if (x == slo && y != dlo) vh::viol(pairkey("endpoint-min", M<S>::name(), M<D>::name()), vh::cat("min ", x, " -> ", y, " expected ", dlo));
            if (x == shi && y != dhi) vh::viol(pairkey("endpoint-max", M<S>::name(), M<D>::name()), vh::cat("max ", x, " -> ", y, " expected ", dhi));
            if (!first && y < prev) vh::viol(pairkey("monotone", M<S>::name(), M<D>::name()), vh::cat("src=", x, " -> ", y, " < previous result ", prev));
            // |(y-dlo)*srange - (x-slo)*drange| < srange (+wide slack)
            i128 lhs = ((i128)y - dlo) * srange - ((i128)x - slo) * drange;
            if (lhs < 0) lhs = -lhs;
            if (!(lhs < tol_num) && !(srange == 0))
                vh::viol(pairkey("linear", M<S>::name(), M<D>::name()),
                         vh::cat("src=", x, " -> ", y, " exact=", (double)((long double)((i128)x - slo) * (long double)drange / (long double)srange + dlo)));
            if (roundtrip) {
                S back = gil::channel_convert<S>(dv);
                if (M<S>::get(back) != x) vh::viol(pairkey("roundtrip", M<S>::name(), M<D>::name()), vh::cat("src=", x, " -> ", y, " -> ", M<S>::get(back)));
            }
            if (std::is_same<S, D>::value && y != x) vh::viol(pairkey("identity", M<S>::name(), M<D>::name()), vh::cat("src=", x, " -> ", y));
            prev = y; first = false;
        }
        vh::evals(n); vh::distinct(n);
    }
    // integral source, float destination
    static void run(std::false_type /*D float*/, std::true_type) {
        vh::rng r = vh::case_rng();
        std::vector<ll> src = int_sources(M<S>::lo(), M<S>::hi(), M<S>::bits, r);
        const ll slo = M<S>::lo(), shi = M<S>::hi();
        const long double srange = (long double)shi - slo;
        float prev = 0; bool first = true; uint64_t n = 0;
        for (ll x : src) {
            float y = (float)gil::channel_convert<D>(M<S>::make(x));
            ++n;
            if (!(y >= 0.f && y <= 1.f)) vh::viol(pairkey("range", M<S>::name(), "f32"), vh::cat("src=", x, " result=", y));
            if (x == slo && y != 0.f) vh::viol(pairkey("endpoint-min", M<S>::name(), "f32"), vh::cat("min -> ", y));
            if (x == shi && y != 1.f) vh::viol(pairkey("endpoint-max", M<S>::name(), "f32"), vh::cat("max -> ", y));
            if (!first && y < prev) vh::viol(pairkey("monotone", M<S>::name(), "f32"), vh::cat("src=", x, " -> ", y, " < ", prev));
            long double exact = ((long double)x - slo) / srange;
            if (fabsl((long double)y - exact) > 1.0L / 4194304.0L) vh::viol(pairkey("linear", M<S>::name(), "f32"), vh::cat("src=", x, " -> ", y, " exact=", (double)exact));
            prev = y; first = false;
        }
        vh::evals(n); vh::distinct(n);
    }
    // float source, integral destination
    static void run(std::true_type, std::false_type /*S float*/) {
        vh::rng r = vh::case_rng();
        std::vector<float> src = float_sources(r);
        const ll dlo = M<D>::lo(), dhi = M<D>::hi();
        const long double drange = (long double)dhi - dlo;
        const long double tol = 1.0L + (drange / 8388608.0L);
        ll prev = dlo; bool first = true; uint64_t n = 0;
        for (float x : src) {
            D dv = gil::channel_convert<D>(gil::float32_t(x));
            ll y = M<D>::get(dv);
            ++n;
            if (y < dlo || y > dhi) vh::viol(pairkey("range", "f32", M<D>::name()), vh::cat("src=", x, " result=", y));
            if (x == 0.f && y != dlo) vh::viol(pairkey("endpoint-min", "f32", M<D>::name()), vh::cat("0 -> ", y));
            if (x == 1.f && y != dhi) vh::viol(pairkey("endpoint-max", "f32", M<D>::name()), vh::cat("1 -> ", y));
            if (!first && y < prev) vh::viol(pairkey("monotone", "f32", M<D>::name()), vh::cat("src=", x, " -> ", y, " < ", prev));
            long double exact = (long double)x * drange + dlo;
            if (!(fabsl((long double)y - exact) < tol)) vh::viol(pairkey("linear", "f32", M<D>::name()), vh::cat("src=", x, " -> ", y, " exact=", (double)exact));
            prev = y; first = false;
        }
        vh::evals(n); vh::distinct(n);
    }
    // float -> float
    static void run(std::false_type, std::false_type) {
        vh::rng r = vh::case_rng();
        std::vector<float> src = float_sources(r);
        uint64_t n = 0;
        for (float x : src) {
            float y = (float)gil::channel_convert<D>(gil::float32_t(x));
            ++n;
            if (y != x) vh::viol(pairkey("identity", "f32", "f32"), vh::cat("src=", x, " -> ", y));
        }
        vh::evals(n); vh::distinct(n);
    }
};

template <class S, class D> void run_pair() {
    if (!vh::begin_case("pair", vh::cat(M<S>::name(), "->", M<D>::name()))) return;
    vh::sample(vh::cat("channel_convert<", M<D>::name(), ">(every enumerated ", M<S>::name(), " value): end points, range, monotone, |r-exact|<1, round trip"));
    checker<S, D>::run(std::integral_constant<bool, !M<D>::is_float>(), std::integral_constant<bool, !M<S>::is_float>());
}

template <class... T> struct TL {};
template <class S, class... D> void run_row(TL<D...>) { using sw = int[]; (void)sw{0, (run_pair<S, D>(), 0)...}; }
template <class... S, class L> void run_rows(TL<S...>, L l) { using sw = int[]; (void)sw{0, (run_row<S>(l), 0)...}; }

// ---- references as sources: converting through a (const) packed reference equals converting its value
template <class Ref, class D> void ref_vs_value(const char* refname, int firstbit) {
    if (!vh::begin_case("ref", vh::cat(refname, "@", firstbit, "->", M<D>::name()))) return;
    typedef typename gil::channel_traits<Ref>::value_type V;
    uint64_t n = 0;
    for (unsigned bg = 0; bg < 4; ++bg)
        for (ll x = 0; x <= M<V>::hi(); ++x) {
            uint32_t field = bg == 0 ? 0u : bg == 1 ? 0xFFFFFFFFu : bg == 2 ? 0xA5A5A5A5u : 0x5A5A5A5Au;
            uint32_t store[2] = {field, field};
            Ref ref = Ref(&store[0]);
            ref = M<V>::make(x);
            D a = gil::channel_convert<D>(ref);
            D b = gil::channel_convert<D>(M<V>::make(x));
            ++n;
            if (M<D>::get(a) != M<D>::get(b)) vh::viol(vh::cat("ref-differs.", refname, "->", M<D>::name()), vh::cat("value=", x, " via reference ", M<D>::get(a), " via value ", M<D>::get(b)));
        }
    vh::evals(n); vh::distinct(n);
}
template <class Ref, class D> void ref_vs_value_dyn(const char* refname, int firstbit) {
    if (!vh::begin_case("ref", vh::cat(refname, "@", firstbit, "->", M<D>::name()))) return;
    typedef typename gil::channel_traits<Ref>::value_type V;
    uint64_t n = 0;
    for (unsigned bg = 0; bg < 4; ++bg)
        for (ll x = 0; x <= M<V>::hi(); ++x) {
            uint32_t field = bg == 0 ? 0u : bg == 1 ? 0xFFFFFFFFu : bg == 2 ? 0xA5A5A5A5u : 0x5A5A5A5Au;
            uint32_t store[2] = {field, field};
            Ref ref = Ref(&store[0], (unsigned)firstbit);
            ref = M<V>::make(x);
            D a = gil::channel_convert<D>(ref);
            D b = gil::channel_convert<D>(M<V>::make(x));
            ++n;
            if (M<D>::get(a) != M<D>::get(b)) vh::viol(vh::cat("ref-differs.", refname, "->", M<D>::name()), vh::cat("value=", x, " via reference ", M<D>::get(a), " via value ", M<D>::get(b)));
        }
    vh::evals(n); vh::distinct(n);
}

int main(int argc, char** argv) {
    vh::init(argc, argv);
    using gil::packed_channel_value;
    typedef TL<uint8_t, int8_t, uint16_t, int16_t, uint32_t, int32_t, gil::float32_t,
               packed_channel_value<1>, packed_channel_value<2>, packed_channel_value<3>, packed_channel_value<4>,
               packed_channel_value<5>, packed_channel_value<6>, packed_channel_value<7>, packed_channel_value<8>,
               packed_channel_value<9>, packed_channel_value<10>, packed_channel_value<11>, packed_channel_value<12>,
               packed_channel_value<13>, packed_channel_value<14>, packed_channel_value<15>, packed_channel_value<16>,
               packed_channel_value<24>, packed_channel_value<31>> models;
    // the source rows are split over C06_PART translation units to keep compile time down
#ifndef C06_PART
#define C06_PART 0
#endif
#if C06_PART == 0
    run_rows(TL<uint8_t, int8_t, uint16_t, int16_t, uint32_t>(), models());
#elif C06_PART == 1
    run_rows(TL<int32_t, gil::float32_t, packed_channel_value<1>, packed_channel_value<2>, packed_channel_value<3>>(), models());
#elif C06_PART == 2
    run_rows(TL<packed_channel_value<4>, packed_channel_value<5>, packed_channel_value<6>, packed_channel_value<7>, packed_channel_value<8>>(), models());
#elif C06_PART == 3
    run_rows(TL<packed_channel_value<9>, packed_channel_value<10>, packed_channel_value<11>, packed_channel_value<12>, packed_channel_value<13>>(), models());
#else
    run_rows(TL<packed_channel_value<14>, packed_channel_value<15>, packed_channel_value<16>, packed_channel_value<24>, packed_channel_value<31>>(), models());
    ref_vs_value<gil::packed_channel_reference<uint8_t, 0, 3, true>, uint8_t>("pref<u8,0,3>", 0);
    ref_vs_value<gil::packed_channel_reference<uint8_t, 3, 5, true>, uint8_t>("pref<u8,3,5>", 3);
    ref_vs_value<gil::packed_channel_reference<uint16_t, 5, 6, true>, uint8_t>("pref<u16,5,6>", 5);
    ref_vs_value<gil::packed_channel_reference<uint16_t, 11, 5, true>, uint16_t>("pref<u16,11,5>", 11);
    ref_vs_value<gil::packed_channel_reference<uint32_t, 10, 10, true>, uint16_t>("pref<u32,10,10>", 10);
    ref_vs_value<gil::packed_channel_reference<uint32_t, 20, 12, true>, gil::packed_channel_value<7>>("pref<u32,20,12>", 20);
    for (int fb = 0; fb < 8; ++fb) {
        ref_vs_value_dyn<gil::packed_dynamic_channel_reference<uint8_t, 1, true>, uint8_t>("pdyn<u8,1>", fb);
        if (fb <= 4) ref_vs_value_dyn<gil::packed_dynamic_channel_reference<uint8_t, 4, true>, uint8_t>("pdyn<u8,4>", fb);
        ref_vs_value_dyn<gil::packed_dynamic_channel_reference<uint16_t, 5, true>, uint8_t>("pdyn<u16,5>", fb);
        ref_vs_value_dyn<gil::packed_dynamic_channel_reference<uint16_t, 6, true>, uint16_t>("pdyn<u16,6>", fb);
        ref_vs_value_dyn<gil::packed_dynamic_channel_reference<uint32_t, 12, true>, gil::packed_channel_value<5>>("pdyn<u32,12>", fb);
    }
#endif
    return vh::finish();
}
