// C20 -- rasterizers emit exactly point_count() points, on the curve, inside its bounding box;
// apply_rasterizer never writes outside a view that contains that bounding box.
//
// The real rasterizers write through a counting output iterator over a buffer of exactly
// point_count() slots (a write beyond the last slot is counted and dropped before it lands).
// Oracles are exact integer arithmetic: bounding boxes, |cross product| <= |major extent| for the
// minor-axis distance of a line point, (r-1)^2 <= x^2+y^2 <= (r+1)^2 for circles, sign change of
// b^2x^2+a^2y^2-a^2b^2 over the 3x3 neighbourhood for the ellipse, flood fill for closedness.
// apply_rasterizer runs (a) on a view carved out of a larger arena of seeded bytes that is compared
// byte for byte with a model arena written by plain indexing, (b) on a heap image of exactly the
// bounding box (ASan red zones on both sides), each of those in its own case.
// See DESIGN.md section 5, C20.
#include <boost/gil.hpp>
#include <boost/gil/extension/rasterization/line.hpp>
#include <boost/gil/extension/rasterization/circle.hpp>
#include <boost/gil/extension/rasterization/ellipse.hpp>
#include <algorithm>
#include <cstdlib>
#include <limits>
#include <vector>
#include "common/vh.hpp"

namespace gil = boost::gil;
typedef std::ptrdiff_t pd;
typedef long long ll;
typedef gil::point_t pt;

// ---- violation with lazily built detail (a systematic defect fires millions of times) ---------
static std::string g_size_suffix;   // "" for the exhaustive small windows, ".large" inside the large-shape cases
template <class F> static void V(const std::string& key0, F detail) {
    const std::string key = key0 + g_size_suffix;
    auto& p = vh::st().viol_printed;
    auto it = p.find(key);
    if (it == p.end() || it->second < 3) vh::viol(key, detail());
    else vh::viol(key, "");
}
static std::string ps(pt p) { return vh::cat("(", p.x, ",", p.y, ")"); }

// ---- counting output iterator over exactly `cap` slots ------------------------------------------
struct sink {
    std::vector<pt> p;
    std::vector<unsigned char> w;
    size_t cap = 0, extra = 0, total = 0;
    void reset(size_t n) {
        cap = n; extra = total = 0;
        p.assign(n, pt{std::numeric_limits<pd>::min(), std::numeric_limits<pd>::min()});
        w.assign(n, 0);
    }
    // every slot written exactly once, nothing beyond
    bool under() const { for (size_t i = 0; i < cap; ++i) if (!w[i]) return true; return false; }
    bool rewritten() const { for (size_t i = 0; i < cap; ++i) if (w[i] > 1) return true; return false; }
};
struct out_it {
    typedef std::output_iterator_tag iterator_category;
    typedef void value_type; typedef void difference_type; typedef void pointer; typedef void reference;
    sink* s; size_t pos;
    out_it& operator*() { return *this; }
    out_it& operator=(pt const& q) {
        ++s->total;
        if (pos < s->cap) { s->p[pos] = q; if (s->w[pos] < 255) ++s->w[pos]; }
        else ++s->extra;
        return *this;
    }
    out_it& operator++() { ++pos; return *this; }
    out_it operator++(int) { out_it t = *this; ++pos; return t; }
};

// returns false when the trajectory cannot be judged further (count wrong)
template <class R> static bool run_counted(R const& r, sink& sk, const std::string& shape, const std::string& cls,
                                           const std::string& what) {
    pd pc = r.point_count();
    if (pc < 0 || pc > (pd)50000000) {
        V(shape + ".count-range." + cls, [&] { return vh::cat(what, " point_count=", pc); });
        return false;
    }
    sk.reset((size_t)pc);
    r(out_it{&sk, 0});
    bool ok = true;
    if (sk.extra) { V(shape + ".count-over." + cls, [&] { return vh::cat(what, " point_count=", pc, " writes=", sk.total, " beyond-last-slot=", sk.extra); }); ok = false; }
    if (sk.under()) { V(shape + ".count-under." + cls, [&] { return vh::cat(what, " point_count=", pc, " writes=", sk.total, " (a slot was never written)"); }); ok = false; }
    if (sk.rewritten()) { V(shape + ".count-rewrite." + cls, [&] { return vh::cat(what, " point_count=", pc, " writes=", sk.total, " (a slot was written twice)"); }); ok = false; }
    return ok;
}

// ---- arena: a w x h view carved out of a (w+2M) x (h+2M) block of seeded bytes ------------------
static const int M = 3;
template <class Pixel> struct arena {
    int w, h, W, H;
    std::vector<unsigned char> a, b;   // a: given to GIL; b: model
    static const int C = sizeof(Pixel);
    arena(int w_, int h_, vh::rng& r) : w(w_), h(h_), W(w_ + 2 * M), H(h_ + 2 * M) {
        a.resize((size_t)W * H * C);
        for (auto& x : a) x = (unsigned char)r.below(255);   // 0..254: never the drawing value
        b = a;
    }
    typedef typename gil::type_from_x_iterator<Pixel*>::view_t view_t;
    view_t view() {
        return gil::interleaved_view(w, h, (Pixel*)(a.data() + ((size_t)M * W + M) * C), (std::ptrdiff_t)W * C);
    }
    static Pixel ink() { Pixel p; for (int c = 0; c < C; ++c) ((unsigned char*)&p)[c] = 255; return p; }
    void model_set(pd x, pd y) {   // view coordinates, must be inside the view
        for (int c = 0; c < C; ++c) b[(((size_t)(y + M)) * W + (size_t)(x + M)) * C + c] = 255;
    }
    // compare; report the first byte that differs, classified inside/outside the view
    template <class F> void diff(const std::string& shape, const std::string& cls, F what) {
        if (a == b) return;
        bool in_bad = false, out_bad = false; pd fx = 0, fy = 0, ox = 0, oy = 0;
        for (int Y = 0; Y < H; ++Y) for (int X = 0; X < W; ++X) {
            size_t o = ((size_t)Y * W + X) * C;
            if (memcmp(&a[o], &b[o], C) == 0) continue;
            bool inside = X >= M && X < M + w && Y >= M && Y < M + h;
            if (inside) { if (!in_bad) { in_bad = true; fx = X - M; fy = Y - M; } }
            else { if (!out_bad) { out_bad = true; ox = X - M; oy = Y - M; } }
        }
        if (out_bad) V("apply." + shape + ".outside-view." + cls, [&] { return vh::cat(what(), " view=", w, "x", h, " byte(s) outside the view changed, first at view coords (", ox, ",", oy, ")"); });
        if (in_bad) V("apply." + shape + ".set-mismatch." + cls, [&] { return vh::cat(what(), " view=", w, "x", h, " pixel (", fx, ",", fy, ") differs from the set of emitted points"); });
    }
};

// ======================================= lines ====================================================
static const char* line_class(pd dx, pd dy) {
    pd ax = std::abs(dx), ay = std::abs(dy);
    if (!ax && !ay) return "point";
    if (!ay) return "horizontal";
    if (!ax) return "vertical";
    if (ax == ay) return "diagonal";
    return ax > ay ? "xmajor" : "ymajor";
}
static std::string dir_class(pd dx, pd dy) {
    return vh::cat(line_class(dx, dy), ".", dx < 0 ? "xneg" : dx > 0 ? "xpos" : "x0", ".", dy < 0 ? "yneg" : dy > 0 ? "ypos" : "y0");
}

static void check_line(pt s, pt e, sink& sk) {
    const pd dx = e.x - s.x, dy = e.y - s.y, ax = std::abs(dx), ay = std::abs(dy);
    const std::string cls = line_class(dx, dy);
    gil::bresenham_line_rasterizer r(s, e);
    auto what = [&] { return vh::cat("line ", ps(s), "->", ps(e)); };
    vh::evals(1);
    if (!run_counted(r, sk, "line", cls, what())) return;
    const size_t n = sk.cap;
    if (n == 0) { V("line.count-zero." + cls, what); return; }
    if (!(sk.p[0] == s)) V("line.first." + cls, [&] { return vh::cat(what(), " first=", ps(sk.p[0])); });
    if (!(sk.p[n - 1] == e)) V("line.last." + cls, [&] { return vh::cat(what(), " last=", ps(sk.p[n - 1]), " n=", n); });
    const pd x0 = std::min(s.x, e.x), x1 = std::max(s.x, e.x), y0 = std::min(s.y, e.y), y1 = std::max(s.y, e.y);
    bool monx = true, mony = true;
    for (size_t i = 0; i < n; ++i) {
        pt p = sk.p[i];
        if (p.x < x0 || p.x > x1 || p.y < y0 || p.y > y1)
            V("line.bbox." + cls, [&] { return vh::cat(what(), " point #", i, " ", ps(p), " outside the end points' bounding box"); });
        // distance to the ideal segment measured along the minor axis, exact:
        // x-major: |(p.y-s.y) - (p.x-s.x)*dy/dx| <= 1  <=>  |(p.y-s.y)*dx - (p.x-s.x)*dy| <= |dx|
        if (ax || ay) {
            ll cross = (ll)(p.y - s.y) * dx - (ll)(p.x - s.x) * dy;
            ll major = (ll)std::max(ax, ay);
            // the known residual of the (|dy|+1)/(|dx|+1) slope stays below 1.5 px (measured: max 1.05 on [-12,12]^2, 1.11 on [-24,24]^2);
            // anything further away is a different defect and gets its own key
            if (std::llabs(cross) * 2 > major * 3)
                V("line.minor-dist-over-1.5." + cls, [&] { return vh::cat(what(), " point #", i, " ", ps(p), " is ", (double)std::llabs(cross) / (double)major, " pixels from the ideal segment along the minor axis"); });
            else if (std::llabs(cross) > major)
                V("line.minor-dist." + cls, [&] { return vh::cat(what(), " point #", i, " ", ps(p), " is ", (double)std::llabs(cross) / (double)major, " pixels from the ideal segment along the minor axis"); });
        }
        if (i) {
            pt q = sk.p[i - 1];
            if (std::abs(p.x - q.x) > 1 || std::abs(p.y - q.y) > 1)
                V("line.connect." + cls, [&] { return vh::cat(what(), " points #", i - 1, " ", ps(q), " and #", i, " ", ps(p), " are not 8-connected"); });
            if ((p.x - q.x) * (dx >= 0 ? 1 : -1) < 0) monx = false;
            if ((p.y - q.y) * (dy >= 0 ? 1 : -1) < 0) mony = false;
        }
    }
    bool mono = ax > ay ? monx : ay > ax ? mony : (monx || mony);
    if (!mono) V("line.monotone." + cls, [&] { return vh::cat(what(), " goes backwards along the major axis"); });
}

// apply_rasterizer on a view of exactly the bounding box, carved out of an arena
template <class Pixel> static void apply_line_arena(pd dx, pd dy, sink& sk, vh::rng& rg, const char* pixname) {
    const pd ax = std::abs(dx), ay = std::abs(dy);
    pt s{dx >= 0 ? 0 : ax, dy >= 0 ? 0 : ay}, e{dx >= 0 ? ax : 0, dy >= 0 ? ay : 0};
    const std::string cls = vh::cat(line_class(dx, dy), ".", pixname);
    gil::bresenham_line_rasterizer r(s, e);
    vh::evals(1);
    if (!run_counted(r, sk, "line", line_class(dx, dy), vh::cat("line ", ps(s), "->", ps(e)))) return;   // apply would overrun its own buffer
    arena<Pixel> ar((int)ax + 1, (int)ay + 1, rg);
    for (pt p : sk.p) if (p.x >= 0 && p.x <= ax && p.y >= 0 && p.y <= ay) ar.model_set(p.x, p.y);
    gil::apply_rasterizer(ar.view(), r, arena<Pixel>::ink());
    ar.diff("line", cls, [&] { return vh::cat("line ", ps(s), "->", ps(e)); });
}

// apply_rasterizer on a heap image of exactly the bounding box (its own case: may die under ASan)
static void apply_line_tight(pd dx, pd dy, sink& sk) {
    const pd ax = std::abs(dx), ay = std::abs(dy);
    pt s{dx >= 0 ? 0 : ax, dy >= 0 ? 0 : ay}, e{dx >= 0 ? ax : 0, dy >= 0 ? ay : 0};
    gil::bresenham_line_rasterizer r(s, e);
    vh::evals(1);
    if (!run_counted(r, sk, "line", line_class(dx, dy), vh::cat("line ", ps(s), "->", ps(e)))) return;
    gil::gray8_image_t img(ax + 1, ay + 1, gil::gray8_pixel_t(0), 0);
    std::vector<unsigned char> model((size_t)(ax + 1) * (ay + 1), 0);
    for (pt p : sk.p) if (p.x >= 0 && p.x <= ax && p.y >= 0 && p.y <= ay) model[(size_t)p.y * (ax + 1) + p.x] = 255;
    gil::apply_rasterizer(gil::view(img), r, gil::gray8_pixel_t(255));
    for (pd y = 0; y <= ay; ++y) for (pd x = 0; x <= ax; ++x)
        if ((unsigned char)gil::view(img)(x, y)[0] != model[(size_t)y * (ax + 1) + x]) {
            V(std::string("apply-tight.line.set-mismatch.") + line_class(dx, dy), [&] { return vh::cat("line ", ps(s), "->", ps(e), " pixel (", x, ",", y, ") differs from the set of emitted points"); });
            return;
        }
}

// ======================================= circles ==================================================
struct trig_tag { typedef gil::trigonometric_circle_rasterizer type; static const char* name() { return "trig"; } };
struct mid_tag { typedef gil::midpoint_circle_rasterizer type; static const char* name() { return "midpoint"; } };

// grid of points relative to the centre, |coord| <= R
struct grid {
    pd R; std::vector<unsigned char> g;
    explicit grid(pd r) : R(r), g((size_t)(2 * r + 1) * (2 * r + 1), 0) {}
    bool in(pd x, pd y) const { return x >= -R && x <= R && y >= -R && y <= R; }
    unsigned char& at(pd x, pd y) { return g[(size_t)(y + R) * (2 * R + 1) + (x + R)]; }
};

template <class Tag> static void check_circle(pt c, pd r, sink& sk, bool structural) {
    typedef typename Tag::type R;
    const std::string cls = Tag::name();
    R rast(c, r);
    auto what = [&] { return vh::cat(Tag::name(), " circle centre=", ps(c), " r=", r); };
    vh::evals(1);
    if (!run_counted(rast, sk, "circle", cls, what())) return;
    const size_t n = sk.cap;
    if (n == 0) { V("circle.count-zero." + cls, what); return; }
    grid g(structural ? r + 2 : 0);   // the point grid is only needed for the set-level (structural) oracles
    const ll lo = r >= 1 ? (ll)(r - 1) * (r - 1) : 0, hi = (ll)(r + 1) * (r + 1);
    for (size_t i = 0; i < n; ++i) {
        pd x = sk.p[i].x - c.x, y = sk.p[i].y - c.y;
        if (std::abs(x) > r || std::abs(y) > r)
            V("circle.bbox." + cls, [&] { return vh::cat(what(), " point #", i, " ", ps(sk.p[i]), " outside the circle's bounding box"); });
        ll d2 = (ll)x * x + (ll)y * y;
        if (d2 < lo || d2 > hi)
            V("circle.dist." + cls, [&] { return vh::cat(what(), " point #", i, " ", ps(sk.p[i]), " is more than one pixel from the ideal circle (d^2=", d2, ")"); });
        if (structural && g.in(x, y)) g.at(x, y) = 1;
    }
    if (!structural) return;
    // 8-fold symmetry of the set
    for (pd y = -g.R; y <= g.R; ++y) for (pd x = -g.R; x <= g.R; ++x) if (g.at(x, y)) {
        if (!(g.at(-x, y) && g.at(x, -y) && g.at(-x, -y) && g.at(y, x) && g.at(-y, x) && g.at(y, -x) && g.at(-y, -x))) {
            V("circle.symmetry." + cls, [&] { return vh::cat(what(), " point centre+(", x, ",", y, ") has a mirror image that is not in the set"); });
            y = g.R + 1; break;
        }
    }
    if (r < 1) return;
    // closed: the set separates the centre from the outside (4-connected flood fill of the complement)
    if (!g.at(0, 0)) {
        grid seen(g.R);
        std::vector<std::pair<pd, pd>> q; q.push_back({0, 0}); seen.at(0, 0) = 1;
        bool leaked = false; pd lx = 0, ly = 0;
        for (size_t h = 0; h < q.size() && !leaked; ++h) {
            static const int d4[4][2] = {{1, 0}, {-1, 0}, {0, 1}, {0, -1}};
            for (auto& d : d4) {
                pd x = q[h].first + d[0], y = q[h].second + d[1];
                if (!g.in(x, y)) { leaked = true; lx = x; ly = y; break; }
                if (g.at(x, y) || seen.at(x, y)) continue;
                seen.at(x, y) = 1; q.push_back({x, y});
            }
        }
        if (leaked) V("circle.closed." + cls, [&] { return vh::cat(what(), " the point set does not enclose the centre (the complement connects the centre to (", lx, ",", ly, "))"); });
    }
    // one 8-connected component
    {
        grid seen(g.R);
        size_t total = 0; for (auto v : g.g) total += v;
        std::vector<std::pair<pd, pd>> q;
        pd sx = sk.p[0].x - c.x, sy = sk.p[0].y - c.y;
        if (g.in(sx, sy)) { q.push_back({sx, sy}); seen.at(sx, sy) = 1; }
        for (size_t h = 0; h < q.size(); ++h)
            for (int dy = -1; dy <= 1; ++dy) for (int dx = -1; dx <= 1; ++dx) {
                pd x = q[h].first + dx, y = q[h].second + dy;
                if (!g.in(x, y) || !g.at(x, y) || seen.at(x, y)) continue;
                seen.at(x, y) = 1; q.push_back({x, y});
            }
        if (q.size() != total) V("circle.connected." + cls, [&] { return vh::cat(what(), " the point set is not 8-connected: ", q.size(), " of ", total, " points reachable from the first one"); });
    }
}

template <class Tag, class Pixel> static void apply_circle_arena(pd r, sink& sk, vh::rng& rg, const char* pixname) {
    typedef typename Tag::type R;
    pt c{r, r};
    R rast(c, r);
    const std::string cls = vh::cat(Tag::name(), ".", pixname);
    vh::evals(1);
    if (!run_counted(rast, sk, "circle", Tag::name(), vh::cat(Tag::name(), " circle r=", r))) return;
    arena<Pixel> ar((int)(2 * r + 1), (int)(2 * r + 1), rg);
    for (pt p : sk.p) if (p.x >= 0 && p.x <= 2 * r && p.y >= 0 && p.y <= 2 * r) ar.model_set(p.x, p.y);
    gil::apply_rasterizer(ar.view(), rast, arena<Pixel>::ink());
    ar.diff("circle", cls, [&] { return vh::cat(Tag::name(), " circle centre=", ps(c), " r=", r); });
}
template <class Tag> static void apply_circle_tight(pd r, sink& sk) {
    typedef typename Tag::type R;
    pt c{r, r};
    R rast(c, r);
    vh::evals(1);
    if (!run_counted(rast, sk, "circle", Tag::name(), vh::cat(Tag::name(), " circle r=", r))) return;
    const pd w = 2 * r + 1;
    gil::gray8_image_t img(w, w, gil::gray8_pixel_t(0), 0);
    std::vector<unsigned char> model((size_t)w * w, 0);
    for (pt p : sk.p) if (p.x >= 0 && p.x < w && p.y >= 0 && p.y < w) model[(size_t)p.y * w + p.x] = 255;
    gil::apply_rasterizer(gil::view(img), rast, gil::gray8_pixel_t(255));
    for (pd y = 0; y < w; ++y) for (pd x = 0; x < w; ++x)
        if ((unsigned char)gil::view(img)(x, y)[0] != model[(size_t)y * w + x]) {
            V(std::string("apply-tight.circle.set-mismatch.") + Tag::name(), [&] { return vh::cat(Tag::name(), " circle r=", r, " pixel (", x, ",", y, ") differs from the set of emitted points"); });
            return;
        }
}

// ======================================= ellipse ==================================================
// F(x,y) = b^2 x^2 + a^2 y^2 - a^2 b^2 : <0 inside, >0 outside
typedef __int128 i128;
static i128 ellF(i128 a, i128 b, i128 x, i128 y) { return b * b * x * x + a * a * y * y - a * a * b * b; }

static std::vector<pt> check_ellipse_trajectory(unsigned a, unsigned b) {
    gil::midpoint_ellipse_rasterizer rast(gil::point<unsigned int>(a + 1, b + 1), gil::point<unsigned int>(a, b));
    std::vector<pt> t = rast.obtain_trajectory();
    auto what = [&] { return vh::cat("ellipse semi-axes=(", a, ",", b, ")"); };
    vh::evals(1);
    if (t.empty()) { V("ellipse.trajectory-empty", what); return t; }
    // closed under the 4-fold mirroring: the quadrant arc starts on the x axis and ends on the y axis.  (The property
    // does not say that the arc reaches (0,b): thin ellipses such as (1,32) stop at (0,28), every point still being
    // within one pixel of the ideal curve; that is recorded as an observation, not judged.)
    if (t.front().y != 0) V("ellipse.first", [&] { return vh::cat(what(), " first=", ps(t.front()), " is not on the x axis"); });
    if (t.back().x != 0) V("ellipse.last", [&] { return vh::cat(what(), " last=", ps(t.back()), " is not on the y axis, n=", t.size()); });
    if (!(t.back() == pt{0, (pd)b})) { vh::obs("ellipse.arc-stops-short-of-(0,b)"); vh::count("ellipse_arc_short"); }
    if (!(t.front() == pt{(pd)a, 0})) { vh::obs("ellipse.arc-starts-off-(a,0)"); vh::count("ellipse_arc_start_off"); }
    for (size_t i = 0; i < t.size(); ++i) {
        pt p = t[i];
        if (p.x < 0 || p.x > (pd)a || p.y < 0 || p.y > (pd)b) {
            V("ellipse.bbox", [&] { return vh::cat(what(), " trajectory point #", i, " ", ps(p), " outside [0,a]x[0,b]"); });
            continue;
        }
        // within one pixel: the ideal curve crosses the closed 3x3 pixel neighbourhood of p
        i128 fmin = ellF(a, b, std::max<ll>(p.x - 1, 0), std::max<ll>(p.y - 1, 0)), fmax = ellF(a, b, p.x + 1, p.y + 1);
        if (fmin > 0 || fmax < 0)
            V("ellipse.dist", [&] { return vh::cat(what(), " trajectory point #", i, " ", ps(p), " is more than one pixel from the ideal ellipse"); });
        if (i) {
            pt q = t[i - 1];
            if (std::abs(p.x - q.x) > 1 || std::abs(p.y - q.y) > 1)
                V("ellipse.connect", [&] { return vh::cat(what(), " trajectory points #", i - 1, " ", ps(q), " and #", i, " ", ps(p), " are not 8-connected"); });
        }
    }
    // closed: the mirrored set separates the centre from the outside (4-connected flood fill of the complement).
    // For large shapes the grid is not built: an 8-connected arc from the x axis to the y axis (checked above),
    // mirrored, already is a closed 8-connected curve around the centre.
    if (((uint64_t)2 * a + 5) * ((uint64_t)2 * b + 5) <= (uint64_t)1 << 24)
    {
        const pd GW = (pd)a + 2, GH = (pd)b + 2;             // grid [-GW,GW] x [-GH,GH]
        const pd SW = 2 * GW + 1, SH = 2 * GH + 1;
        std::vector<unsigned char> g((size_t)SW * SH, 0);    // 1 = curve, 2 = seen
        auto at = [&](pd x, pd y) -> unsigned char& { return g[(size_t)(y + GH) * SW + (x + GW)]; };
        for (pt p : t) if (p.x >= 0 && p.x <= (pd)a && p.y >= 0 && p.y <= (pd)b) { at(p.x, p.y) = 1; at(-p.x, p.y) = 1; at(p.x, -p.y) = 1; at(-p.x, -p.y) = 1; }
        if (!at(0, 0)) {
            std::vector<std::pair<pd, pd>> q; q.push_back({0, 0}); at(0, 0) = 2;
            bool leaked = false;
            for (size_t h = 0; h < q.size() && !leaked; ++h) {
                static const int d4[4][2] = {{1, 0}, {-1, 0}, {0, 1}, {0, -1}};
                for (auto& d : d4) {
                    pd x = q[h].first + d[0], y = q[h].second + d[1];
                    if (x < -GW || x > GW || y < -GH || y > GH) { leaked = true; break; }
                    if (at(x, y)) continue;
                    at(x, y) = 2; q.push_back({x, y});
                }
            }
            if (leaked) V("ellipse.closed", [&] { return vh::cat(what(), " the mirrored trajectory does not enclose the centre"); });
        } else vh::obs("ellipse.centre-in-set");
    }
    return t;
}

// draw into a w x h view with (1-based) centre c; expected = 4-fold mirror of the trajectory clipped to the view
template <class Pixel> static void apply_ellipse_arena(unsigned a, unsigned b, int w, int h, unsigned cx, unsigned cy,
                                                       std::vector<pt> const& t, vh::rng& rg, const std::string& cls) {
    gil::midpoint_ellipse_rasterizer rast(gil::point<unsigned int>(cx, cy), gil::point<unsigned int>(a, b));
    arena<Pixel> ar(w, h, rg);
    const pd ox = (pd)cx - 1, oy = (pd)cy - 1;
    bool clipped = false;
    for (pt p : t) {
        const pd xs[2] = {ox + p.x, ox - p.x}, ys[2] = {oy + p.y, oy - p.y};
        for (pd x : xs) for (pd y : ys) {
            if (x >= 0 && x < w && y >= 0 && y < h) ar.model_set(x, y); else clipped = true;
        }
    }
    vh::evals(1);
    vh::obs(clipped ? "ellipse.apply.clipped" : "ellipse.apply.whole");
    gil::apply_rasterizer(ar.view(), rast, arena<Pixel>::ink());
    ar.diff("ellipse", cls, [&] { return vh::cat("ellipse semi-axes=(", a, ",", b, ") centre(1-based)=(", cx, ",", cy, ")"); });
}
static void apply_ellipse_tight(unsigned a, unsigned b, int w, int h, unsigned cx, unsigned cy, const char* cls) {
    gil::midpoint_ellipse_rasterizer rast(gil::point<unsigned int>(cx, cy), gil::point<unsigned int>(a, b));
    std::vector<pt> t = rast.obtain_trajectory();
    gil::gray8_image_t img(w, h, gil::gray8_pixel_t(0), 0);
    std::vector<unsigned char> model((size_t)w * h, 0);
    const pd ox = (pd)cx - 1, oy = (pd)cy - 1;
    for (pt p : t) {
        const pd xs[2] = {ox + p.x, ox - p.x}, ys[2] = {oy + p.y, oy - p.y};
        for (pd x : xs) for (pd y : ys) if (x >= 0 && x < w && y >= 0 && y < h) model[(size_t)y * w + x] = 255;
    }
    vh::evals(1);
    gil::apply_rasterizer(gil::view(img), rast, gil::gray8_pixel_t(255));
    for (pd y = 0; y < h; ++y) for (pd x = 0; x < w; ++x)
        if ((unsigned char)gil::view(img)(x, y)[0] != model[(size_t)y * w + x]) {
            V(std::string("apply-tight.ellipse.set-mismatch.") + cls, [&] { return vh::cat("ellipse semi-axes=(", a, ",", b, ") centre(1-based)=(", cx, ",", cy, ") view=", w, "x", h, " pixel (", x, ",", y, ") differs from the mirrored trajectory"); });
            return;
        }
}

// ======================================= enumeration ==============================================
int main(int argc, char** argv) {
    vh::init(argc, argv);
    const bool T = vh::thorough();
    sink sk;

    // ---- lines: all end point pairs of the (2N+1)^2 window; one case per start point
    const pd N = T ? 24 : 12;
    for (pd sy = -N; sy <= N; ++sy) for (pd sx = -N; sx <= N; ++sx) {
        if (!vh::begin_case("line", vh::cat("start=", sx, ",", sy))) continue;
        for (pd ey = -N; ey <= N; ++ey) for (pd ex = -N; ex <= N; ++ex) {
            check_line(pt{sx, sy}, pt{ex, ey}, sk);
            if (sx == 0 && sy == 0) vh::obs("line.dir." + dir_class(ex, ey));
        }
        vh::distinct((uint64_t)(2 * N + 1) * (2 * N + 1));
        if (sx == 0 && sy == 0) vh::sample(vh::cat("line: start (0,0), all ", (2 * N + 1) * (2 * N + 1), " end points of the window [-", N, ",", N, "]^2"));
    }
    // far-away windows: the same direction vectors at large offsets (coordinates are ptrdiff_t)
    {
        const pt offs[] = {{1000000, -1000000}, {-((pd)1 << 40), (pd)1 << 40}, {32767, 32768}};
        for (pt o : offs) {
            if (!vh::begin_case("line-far", vh::cat("offset=", o.x, ",", o.y))) continue;
            const pd K = T ? 24 : 12;
            for (pd ey = -K; ey <= K; ++ey) for (pd ex = -K; ex <= K; ++ex) check_line(o, pt{o.x + ex, o.y + ey}, sk);
            vh::distinct((uint64_t)(2 * K + 1) * (2 * K + 1));
        }
    }
    // ---- apply_rasterizer(line) on a view of exactly the bounding box inside an arena; one case per dx
    const pd A = T ? 40 : 20;
    for (pd dx = -A; dx <= A; ++dx) {
        if (!vh::begin_case("apply-arena.line", vh::cat("dx=", dx))) continue;
        vh::rng rg = vh::case_rng();
        for (pd dy = -A; dy <= A; ++dy) {
            apply_line_arena<gil::gray8_pixel_t>(dx, dy, sk, rg, "gray8");
            apply_line_arena<gil::rgb8_pixel_t>(dx, dy, sk, rg, "rgb8");
        }
        vh::distinct((uint64_t)(2 * A + 1) * 2);
    }
    // ---- the same on a heap image of exactly the bounding box, one direction per case
    const pd B = T ? 9 : 7;
    for (pd dy = -B; dy <= B; ++dy) for (pd dx = -B; dx <= B; ++dx) {
        if (!vh::begin_case("apply-tight.line", vh::cat("d=", dx, ",", dy))) continue;
        apply_line_tight(dx, dy, sk);
        vh::distinct(1);
    }

    // ---- circles: one case per (rasterizer, radius)
    const pd RMAX = T ? 512 : 64;
    for (pd r = 0; r <= RMAX; ++r) {
        for (int which = 0; which < 2; ++which) {
            if (!vh::begin_case(which ? "circle.midpoint" : "circle.trig", vh::cat("r=", r))) continue;
            vh::rng rg = vh::case_rng();
            pt centres[4] = {{0, 0}, {r, r}, {-7 - r, 1000003}, {(pd)rg.range(-100000, 100000), (pd)rg.range(-100000, 100000)}};
            for (int k = 0; k < 4; ++k) {
                if (which) check_circle<mid_tag>(centres[k], r, sk, k < 2); else check_circle<trig_tag>(centres[k], r, sk, k < 2);
            }
            if (which) { apply_circle_arena<mid_tag, gil::gray8_pixel_t>(r, sk, rg, "gray8"); if (r <= 128) apply_circle_arena<mid_tag, gil::rgb8_pixel_t>(r, sk, rg, "rgb8"); }
            else { apply_circle_arena<trig_tag, gil::gray8_pixel_t>(r, sk, rg, "gray8"); if (r <= 128) apply_circle_arena<trig_tag, gil::rgb8_pixel_t>(r, sk, rg, "rgb8"); }
            vh::distinct(1);
            if (r == 5) vh::sample(vh::cat(which ? "midpoint" : "trigonometric", " circle r=5: ", sk.cap, " points, centres (0,0),(5,5),(-12,1000003),seeded"));
        }
    }
    const pd RT = T ? 24 : 12;
    for (pd r = 0; r <= RT; ++r) {
        if (vh::begin_case("apply-tight.circle.trig", vh::cat("r=", r))) { apply_circle_tight<trig_tag>(r, sk); vh::distinct(1); }
        if (vh::begin_case("apply-tight.circle.midpoint", vh::cat("r=", r))) { apply_circle_tight<mid_tag>(r, sk); vh::distinct(1); }
    }

    // ---- ellipses: one case per horizontal semi-axis
    const unsigned E = T ? 96 : 32;
    for (unsigned a = 1; a <= E; ++a) {
        if (!vh::begin_case("ellipse", vh::cat("a=", a))) continue;
        vh::rng rg = vh::case_rng();
        for (unsigned b = 1; b <= E; ++b) {
            std::vector<pt> t = check_ellipse_trajectory(a, b);
            if (t.empty()) continue;
            // view of exactly the bounding box
            apply_ellipse_arena<gil::gray8_pixel_t>(a, b, 2 * a + 1, 2 * b + 1, a + 1, b + 1, t, rg, "bbox.gray8");
            if (a <= 40 && b <= 40) apply_ellipse_arena<gil::rgb8_pixel_t>(a, b, 2 * a + 1, 2 * b + 1, a + 1, b + 1, t, rg, "bbox.rgb8");
            // larger view, centre somewhere inside
            {
                int w = 2 * a + 1 + rg.range(0, 4), h = 2 * b + 1 + rg.range(0, 4);
                unsigned cx = a + 1 + rg.range(0, w - (2 * a + 1)), cy = b + 1 + rg.range(0, h - (2 * b + 1));
                apply_ellipse_arena<gil::gray8_pixel_t>(a, b, w, h, cx, cy, t, rg, "larger.gray8");
            }
            // views smaller than the bounding box / centre near or beyond an edge: clipping
            for (int k = 0; k < 3; ++k) {
                int w = rg.range(1, 2 * a + 2), h = rg.range(1, 2 * b + 2);
                unsigned cx = (unsigned)rg.range(1, w + (int)a + 1), cy = (unsigned)rg.range(1, h + (int)b + 1);
                apply_ellipse_arena<gil::gray8_pixel_t>(a, b, w, h, cx, cy, t, rg, "clipped.gray8");
            }
        }
        vh::distinct(E);
        if (a == 3) vh::sample("ellipse a=3, b=1..E: trajectory, bbox view, larger view, 3 clipped views each");
    }
    const unsigned ET = T ? 8 : 5;
    for (unsigned a = 1; a <= ET; ++a) for (unsigned b = 1; b <= ET; ++b) {
        if (vh::begin_case("apply-tight.ellipse.bbox", vh::cat("a=", a, ",b=", b))) { apply_ellipse_tight(a, b, 2 * a + 1, 2 * b + 1, a + 1, b + 1, "bbox"); vh::distinct(1); }
        if (vh::begin_case("apply-tight.ellipse.clipped", vh::cat("a=", a, ",b=", b))) {
            vh::rng rg = vh::case_rng();
            for (int k = 0; k < 8; ++k) {
                int w = rg.range(1, 2 * a + 1), h = rg.range(1, 2 * b + 1);
                apply_ellipse_tight(a, b, w, h, (unsigned)rg.range(1, w + (int)a + 1), (unsigned)rg.range(1, h + (int)b + 1), "clipped");
            }
            vh::distinct(1);
        }
    }
    // =========================== large shapes (every rasterizer) ===========================================
    // Same oracles, exact 128-bit/64-bit integer arithmetic, point lists only (no full image except where noted).
    // Circle and ellipse keys raised here carry the suffix ".large"; line keys do not (their class is the direction
    // class, and the open finding F21b -- minor-axis distance slightly above one pixel -- is the same defect at any extent).
    {
        // ---- lines: extreme aspect ratios and near-diagonals at extents 1000..5000, all 8 sign/transposition variants
        const pd NS[] = {1000, 2000, 4096, 5000};
        for (pd n : NS) {
            if (!vh::begin_case("line-large", vh::cat("extent=", n))) continue;
            const pd minors[] = {0, 1, 2, 3, 7, n / 3, n / 2 - 1, n / 2, n / 2 + 1, n - 2, n - 1, n};
            uint64_t cnt = 0;
            for (pd m : minors) for (int sx = -1; sx <= 1; sx += 2) for (int sy = -1; sy <= 1; sy += 2) for (int tr = 0; tr < 2; ++tr) {
                pd dx = sx * (tr ? m : n), dy = sy * (tr ? n : m);
                pt s0{17 - n / 2, -23 + n / 3};
                check_line(s0, pt{s0.x + dx, s0.y + dy}, sk); ++cnt;
            }
            vh::distinct(cnt);
            vh::obs("large.line");
        }
        // ---- seeded directions up to 5000 in both coordinates
        const int LB = T ? 30 : 3;
        for (int b = 0; b < LB; ++b) {
            if (!vh::begin_case("line-large", vh::cat("seeded-batch=", b))) continue;
            vh::rng rg = vh::case_rng();
            for (int i = 0; i < 100; ++i) {
                pt s0{(pd)rg.range(-5000, 5000), (pd)rg.range(-5000, 5000)};
                pt e0{(pd)rg.range(-5000, 5000), (pd)rg.range(-5000, 5000)};
                if (i % 4 == 0) e0.y = s0.y + rg.range(-3, 3);          // nearly horizontal
                if (i % 4 == 1) e0.x = s0.x + rg.range(-3, 3);          // nearly vertical
                check_line(s0, e0, sk);
            }
            vh::distinct(100);
        }
        // ---- apply_rasterizer(line) on a view of exactly the bounding box inside an arena: thin and big boxes
        {
            const pd dirs[][2] = {{5000, 3}, {3, 5000}, {-2000, 3}, {1, -4096}, {1000, 700}, {-700, -1000}, {1200, 1200}};
            for (auto& d : dirs) {
                if (!vh::begin_case("apply-arena.line-large", vh::cat("d=", d[0], ",", d[1]))) continue;
                vh::rng rg = vh::case_rng();
                apply_line_arena<gil::gray8_pixel_t>(d[0], d[1], sk, rg, "gray8");
                vh::distinct(1);
            }
        }
        g_size_suffix = ".large";
        // ---- circles, both algorithms: radii up to several thousand; set-level oracles where the grid is affordable
        {
            std::vector<pd> radii = {513, 600, 1000, 1500, 2048, 3000, 4097, 5000};
            if (T) { radii.push_back(2500); radii.push_back(10000); radii.push_back(20000); }
            const int extra = T ? 40 : 4;
            vh::rng rr(vh::mix(vh::seed(), 0xC1BC1E));
            for (int i = 0; i < extra; ++i) radii.push_back((pd)rr.range(513, 6000));
            const pd structural_max = T ? 2500 : 1500;
            for (pd r : radii) for (int which = 0; which < 2; ++which) {
                if (!vh::begin_case(which ? "circle-large.midpoint" : "circle-large.trig", vh::cat("r=", r))) continue;
                pt centres[2] = {{0, 0}, {r + 3, -r - 11}};
                for (int k = 0; k < 2; ++k) {
                    bool st = k == 0 && r <= structural_max;
                    if (which) check_circle<mid_tag>(centres[k], r, sk, st); else check_circle<trig_tag>(centres[k], r, sk, st);
                }
                vh::distinct(1);
                vh::obs("large.circle");
            }
            const pd apply_r[] = {700, T ? (pd)2000 : (pd)900};
            for (pd r : apply_r) for (int which = 0; which < 2; ++which) {
                if (!vh::begin_case(which ? "apply-arena.circle-large.midpoint" : "apply-arena.circle-large.trig", vh::cat("r=", r))) continue;
                vh::rng rg = vh::case_rng();
                if (which) apply_circle_arena<mid_tag, gil::gray8_pixel_t>(r, sk, rg, "gray8"); else apply_circle_arena<trig_tag, gil::gray8_pixel_t>(r, sk, rg, "gray8");
                vh::distinct(1);
            }
        }
        // ---- ellipses: semi-axes up to several thousand incl. extreme aspect ratios; trajectory against the exact
        //      128-bit implicit-equation band; each pair is its own case (an overflow inside the rasterizer is fatal)
        {
            std::vector<std::pair<unsigned, unsigned>> ab = {{700, 900}, {900, 700}, {1500, 1500}, {2000, 300}, {300, 2000}, {2000, 3}, {3, 2000},
                {5000, 1}, {1, 5000}, {4000, 4000}, {5000, 4999}, {1024, 1024}, {2047, 2049}, {129, 4000}, {3333, 130}};
            if (T) { ab.push_back({20000, 20000}); ab.push_back({30000, 7}); ab.push_back({7, 30000}); ab.push_back({12345, 6789}); }
            const int extra = T ? 100 : 10;
            vh::rng rr(vh::mix(vh::seed(), 0xE111B5E));
            for (int i = 0; i < extra; ++i) ab.push_back({(unsigned)rr.range(129, 5000), (unsigned)rr.range(i % 3 == 0 ? 1 : 129, 5000)});
            for (auto& p : ab) {
                if (!vh::begin_case("ellipse-large", vh::cat("a=", p.first, ",b=", p.second))) continue;
                check_ellipse_trajectory(p.first, p.second);
                vh::distinct(1);
                vh::obs("large.ellipse");
            }
            // drawn pixels == 4-fold mirror of the trajectory, nothing outside: bounding-box view and a clipped view
            struct { unsigned a, b; int w, h; unsigned cx, cy; const char* cls; } draws[] = {
                {700, 800, 1401, 1601, 701, 801, "bbox.gray8"},
                {2000, 300, 500, 400, 1900, 350, "clipped.gray8"},
                {3, 2000, 7, 4001, 4, 2001, "bbox.gray8"},
                {T ? 1999u : 900u, T ? 1999u : 650u, T ? 3999 : 1801, T ? 3999 : 1301, T ? 2000u : 901u, T ? 2000u : 651u, "bbox.gray8"},
            };
            for (auto& d : draws) {
                if (!vh::begin_case("apply-arena.ellipse-large", vh::cat("a=", d.a, ",b=", d.b, ",view=", d.w, "x", d.h))) continue;
                vh::rng rg = vh::case_rng();
                gil::midpoint_ellipse_rasterizer rast(gil::point<unsigned int>(d.cx, d.cy), gil::point<unsigned int>(d.a, d.b));
                std::vector<pt> t = rast.obtain_trajectory();
                apply_ellipse_arena<gil::gray8_pixel_t>(d.a, d.b, d.w, d.h, d.cx, d.cy, t, rg, d.cls);
                vh::distinct(1);
            }
        }
    }
    g_size_suffix.clear();
    return vh::finish();
}
