// c1213_io.hpp -- helpers shared by the C12 (write/read round trip) and C13 (all ways of reading
// agree) monitors: in-memory FILE* sinks/sources, scratch file names, seeded pixel contents and
// a channel-wise comparison that does not go through GIL's own equal_pixels.
#pragma once
#ifndef _GNU_SOURCE
#define _GNU_SOURCE
#endif
#include <cstdio>
#include <cstdlib>
#include <cstring>
#include <cstdint>
#include <string>
#include <vector>
#include <fstream>
#include <sstream>
#include <memory>
#include <streambuf>
#include <istream>
#include <algorithm>
#include <unistd.h>
#include <dirent.h>
#include <signal.h>
#include <errno.h>
#include <sys/stat.h>
#include <boost/gil.hpp>
#include "common/vh.hpp"   // (this header sits next to the harness sources: listed in tu(deps=...))

namespace cio {
namespace gil = boost::gil;

// ---- in-memory FILE* --------------------------------------------------------------------
// GIL's file_stream_device takes ownership of a FILE* and fcloses it; the byte store therefore
// lives outside the cookie's lifetime (shared_ptr held by the harness).
struct membuf {
    std::string data;
    size_t pos = 0;
    bool closed = false;
};
inline ssize_t mem_write(void* c, const char* buf, size_t n) {
    membuf* m = (membuf*)c;
    if (m->pos + n > m->data.size()) m->data.resize(m->pos + n);
    memcpy(&m->data[m->pos], buf, n);
    m->pos += n;
    return (ssize_t)n;
}
inline ssize_t mem_read(void* c, char* buf, size_t n) {
    membuf* m = (membuf*)c;
    if (m->pos >= m->data.size()) return 0;
    size_t k = std::min(n, m->data.size() - m->pos);
    memcpy(buf, &m->data[m->pos], k);
    m->pos += k;
    return (ssize_t)k;
}
inline int mem_seek(void* c, off64_t* off, int whence) {
    membuf* m = (membuf*)c;
    long long base = whence == SEEK_SET ? 0 : whence == SEEK_CUR ? (long long)m->pos : (long long)m->data.size();
    long long np = base + *off;
    if (np < 0) return -1;
    m->pos = (size_t)np;
    *off = np;
    return 0;
}
inline int mem_close(void* c) { ((membuf*)c)->closed = true; return 0; }
inline FILE* open_mem_write(membuf* m) {
    cookie_io_functions_t io = { nullptr, &mem_write, &mem_seek, &mem_close };
    return fopencookie(m, "wb", io);
}
inline FILE* open_mem_read(membuf* m) {
    cookie_io_functions_t io = { &mem_read, nullptr, &mem_seek, &mem_close };
    m->pos = 0;
    return fopencookie(m, "rb", io);
}

// ---- scratch files ------------------------------------------------------------------------
inline std::string scratch_dir() {
    const char* e = getenv("VERIF_SCRATCH");
    std::string d = e && *e ? e : "/dev/shm/gilscratch.c1213/run";
    mkdir(d.c_str(), 0777);
    return d;
}
inline std::string scratch_name(const char* tag, const char* ext) {
    static long counter = 0;
    static std::string dir = scratch_dir();
    return vh::cat(dir, "/", tag, ".", (long)getpid(), ".", counter++, ".", ext);
}
// The scratch file that currently exists (at most one per process): a fatal sanitizer report does not
// unwind, so the death callback removes it (install_cleanup(), called after vh::init()).
inline char* live_scratch() { static char p[512] = { 0 }; return p; }
struct scratch_file {           // removes the file when it goes out of scope
    std::string path;
    scratch_file(const char* tag, const char* ext) : path(scratch_name(tag, ext)) { strncpy(live_scratch(), path.c_str(), 511); }
    ~scratch_file() { unlink(path.c_str()); live_scratch()[0] = 0; }
};
inline void death_cleanup() { if (live_scratch()[0]) unlink(live_scratch()); vh::on_death(); }
// scratch files of harness processes that no longer exist (killed by a watchdog, died inside a library
// that the death callback could not follow) are removed by the next process that starts
inline void sweep_stale_scratch() {
    std::string dir = scratch_dir();
    DIR* d = opendir(dir.c_str());
    if (!d) return;
    while (struct dirent* e = readdir(d)) {
        const char* n = e->d_name;
        const char* pre[] = { "c12.", "c12r.", "c12n.", "c13.", "c13s.", "c13f.", "c13n." };
        for (const char* p : pre) {
            size_t l = strlen(p);
            if (strncmp(n, p, l) != 0) continue;
            long pid = atol(n + l);
            if (pid > 1 && kill((pid_t)pid, 0) != 0 && errno == ESRCH) unlink((dir + "/" + n).c_str());
            break;
        }
    }
    closedir(d);
}
inline void install_cleanup() {
    sweep_stale_scratch();
#ifdef VH_HAVE_SANITIZER
    vh::__sanitizer_set_death_callback(&death_cleanup);
#endif
}
inline bool slurp(const std::string& path, std::string& out) {
    std::ifstream f(path.c_str(), std::ios::binary);
    if (!f) return false;
    std::ostringstream ss; ss << f.rdbuf(); out = ss.str();
    return true;
}
inline bool spill(const std::string& path, const std::string& bytes) {
    std::ofstream f(path.c_str(), std::ios::binary | std::ios::trunc);
    if (!f) return false;
    f.write(bytes.data(), (std::streamsize)bytes.size());
    return (bool)f;
}
// fixtures: $VERIF_REPO/test/extension/io/images/<fmt>/, falling back to /repo's when the scratch
// checkout carries only include/
inline std::string fixture_dir(const char* fmt) {
#ifndef VERIF_REPO_ROOT
#define VERIF_REPO_ROOT "/repo"
#endif
    const char* e = getenv("VERIF_REPO");
    std::string roots[3] = { e && *e ? e : VERIF_REPO_ROOT, VERIF_REPO_ROOT, "/repo" };
    for (auto& r : roots) {
        std::string d = r + "/test/extension/io/images/" + fmt;
        struct stat sb;
        if (stat(d.c_str(), &sb) == 0 && S_ISDIR(sb.st_mode)) return d;
    }
    return std::string("/repo/test/extension/io/images/") + fmt;
}

// ---- input streams with fragmented delivery ------------------------------------------------------
// A read-only, seekable streambuf over a byte string whose get area is refilled k bytes at a time:
// in_avail()/readsome() see at most k bytes, istream::read needs several underflows, and a device that
// tops up short reads has to put every piece at the right offset.
class frag_buf : public std::streambuf {
    char* b_; size_t n_, k_;
    size_t pos() const { return (size_t)(gptr() - b_); }
public:
    long underflows = 0;
    frag_buf(std::string const& s, size_t k) : b_(const_cast<char*>(s.data())), n_(s.size()), k_(k ? k : 1) { setg(b_, b_, b_); }
protected:
    int_type underflow() override {
        if (gptr() < egptr()) return traits_type::to_int_type(*gptr());
        size_t p = pos();
        if (p >= n_) return traits_type::eof();
        size_t m = std::min(k_, n_ - p);
        ++underflows;
        setg(b_ + p, b_ + p, b_ + p + m);
        return traits_type::to_int_type(*gptr());
    }
    std::streamsize showmanyc() override {           // what a refill would deliver without blocking
        size_t p = pos();
        return p >= n_ ? -1 : (std::streamsize)std::min(k_, n_ - p);
    }
    int_type pbackfail(int_type c) override {
        if (gptr() == b_) return traits_type::eof();
        char* q = gptr() - 1;
        if (!traits_type::eq_int_type(c, traits_type::eof()) && !traits_type::eq(traits_type::to_char_type(c), *q)) return traits_type::eof();
        setg(q, q, egptr());
        return traits_type::not_eof(c);
    }
    pos_type seekoff(off_type off, std::ios_base::seekdir dir, std::ios_base::openmode which) override {
        if (!(which & std::ios_base::in)) return pos_type(off_type(-1));
        long long base = dir == std::ios_base::beg ? 0 : dir == std::ios_base::cur ? (long long)pos() : (long long)n_;
        long long np = base + off;
        if (np < 0 || np > (long long)n_) return pos_type(off_type(-1));
        setg(b_ + np, b_ + np, b_ + np);             // empty get area: the next read refills k bytes from here
        return pos_type(np);
    }
    pos_type seekpos(pos_type sp, std::ios_base::openmode which) override { return seekoff(off_type(sp), std::ios_base::beg, which); }
};
enum { SK_FRAG1 = 0, SK_FRAG2, SK_FRAG7, SK_FRAG64, SK_FRAG4096, SK_FRAGSEEDED, SK_IFSTREAM, SK_SSWRITE, SK_COUNT, SK_PLAIN = 100 };
inline const char* stream_kind_name(int k) {
    static const char* n[] = { "frag1", "frag2", "frag7", "frag64", "frag4096", "frag-seeded", "ifstream", "stringstream-written" };
    return k == SK_PLAIN ? "istringstream" : n[k];
}
// one input stream of the given kind over `bytes` (which must outlive it); a fresh one per read
struct stream_src {
    std::unique_ptr<frag_buf> fb;
    std::unique_ptr<std::istream> in;
    std::unique_ptr<scratch_file> sf;
    std::istream& open(int kind, std::string const& bytes, size_t seeded_k) {
        static const size_t ks[] = { 1, 2, 7, 64, 4096 };
        if (kind == SK_PLAIN) in.reset(new std::istringstream(bytes, std::ios::in | std::ios::binary));
        else if (kind <= SK_FRAGSEEDED) { fb.reset(new frag_buf(bytes, kind == SK_FRAGSEEDED ? seeded_k : ks[kind])); in.reset(new std::istream(fb.get())); }
        else if (kind == SK_IFSTREAM) {
            sf.reset(new scratch_file("c13f", "img"));
            if (!spill(sf->path, bytes)) vh::fatal_monitor("harness", "cannot write scratch file " + sf->path);
            in.reset(new std::ifstream(sf->path.c_str(), std::ios::in | std::ios::binary));
        } else {
            std::stringstream* ss = new std::stringstream(std::ios::in | std::ios::out | std::ios::binary);
            in.reset(ss);
            size_t half = bytes.size() / 2;                      // filled by two writes, never by construction
            ss->write(bytes.data(), (std::streamsize)half);
            ss->write(bytes.data() + half, (std::streamsize)(bytes.size() - half));
        }
        return *in;
    }
    ~stream_src() { in.reset(); fb.reset(); sf.reset(); }
};

// ---- channel access independent of GIL's pixel comparison ------------------------------------
// every channel of a pixel as an exactly comparable 64-bit pattern (floats by bit pattern of the
// value, integers by value), in physical channel order
template <class C> inline uint64_t chan_bits(C const& c) { return (uint64_t)(typename gil::channel_traits<C>::value_type)c; }
inline uint64_t chan_bits(gil::float32_t const& c) { float f = (float)c; uint32_t u; memcpy(&u, &f, 4); return u; }
inline uint64_t chan_bits(float const& f) { uint32_t u; memcpy(&u, &f, 4); return u; }
struct chan_collect {
    uint64_t* out; int n;
    template <class C> void operator()(C const& c) { out[n++] = chan_bits(c); }
};
template <class Pixel> inline int pixel_bits(Pixel const& p, uint64_t out[8]) {
    chan_collect cc{ out, 0 };
    cc = gil::static_for_each(p, cc);     // the functor is threaded through by value: use the returned copy
    return cc.n;
}
// channels in *semantic* order (red, green, blue, alpha ...): used to compare images of
// different layouts
template <class Pixel, int K, int N> struct sem_collect {
    static void go(Pixel const& p, uint64_t* out) { out[K] = chan_bits(gil::semantic_at_c<K>(p)); sem_collect<Pixel, K + 1, N>::go(p, out); }
};
template <class Pixel, int N> struct sem_collect<Pixel, N, N> { static void go(Pixel const&, uint64_t*) {} };
template <class Pixel> inline int pixel_sem_bits(Pixel const& p, uint64_t out[8]) {
    sem_collect<Pixel, 0, gil::num_channels<Pixel>::value>::go(p, out);
    return gil::num_channels<Pixel>::value;
}

struct diff_t {
    bool dims_differ = false;
    long n = 0;                // differing pixels
    long fx = -1, fy = -1;     // first differing pixel
    uint64_t a[8], b[8]; int nc = 0;
    long aw = 0, ah = 0, bw = 0, bh = 0;
    bool any() const { return dims_differ || n > 0; }
    std::string str() const {
        std::ostringstream os;
        if (dims_differ) { os << "dims " << aw << "x" << ah << " vs " << bw << "x" << bh; return os.str(); }
        os << n << " of " << aw * ah << " pixels differ; first at (" << fx << "," << fy << "): expected [";
        for (int i = 0; i < nc; ++i) os << (i ? "," : "") << a[i];
        os << "] got [";
        for (int i = 0; i < nc; ++i) os << (i ? "," : "") << b[i];
        os << "]";
        return os.str();
    }
};
// expected view va against observed view vb (same value type or at least same channel count);
// semantic = compare by colour name instead of by memory position
template <class VA, class VB> inline diff_t compare_views(VA const& va, VB const& vb, bool semantic = false) {
    diff_t d;
    d.aw = va.width(); d.ah = va.height(); d.bw = vb.width(); d.bh = vb.height();
    if (d.aw != d.bw || d.ah != d.bh) { d.dims_differ = true; return d; }
    for (long y = 0; y < d.ah; ++y)
        for (long x = 0; x < d.aw; ++x) {
            uint64_t a[8], b[8];
            typename VA::value_type pa = va(x, y);
            typename VB::value_type pb = vb(x, y);
            int na = semantic ? pixel_sem_bits(pa, a) : pixel_bits(pa, a);
            int nb = semantic ? pixel_sem_bits(pb, b) : pixel_bits(pb, b);
            bool bad = na != nb;
            for (int i = 0; i < na && !bad; ++i) bad = a[i] != b[i];
            if (bad) {
                if (d.n == 0) { d.fx = x; d.fy = y; d.nc = na; memcpy(d.a, a, sizeof a); memcpy(d.b, b, sizeof b); }
                ++d.n;
            }
        }
    return d;
}
template <class V> inline uint64_t hash_view(V const& v) {
    uint64_t h = vh::mix(v.width(), v.height());
    for (long y = 0; y < v.height(); ++y)
        for (long x = 0; x < v.width(); ++x) {
            uint64_t a[8];
            typename V::value_type p = v(x, y);
            int n = pixel_bits(p, a);
            for (int i = 0; i < n; ++i) h = vh::mix(h, a[i]);
        }
    return h;
}

// ---- seeded contents ------------------------------------------------------------------------
template <class C> struct chan_gen {     // integral channels (also packed / bit-aligned references)
    template <class Ref> static void set(Ref&& r, uint64_t v) {
        typedef typename gil::channel_traits<C>::value_type vt;
        uint64_t lo = (uint64_t)(long long)gil::channel_traits<C>::min_value();
        uint64_t hi = (uint64_t)(long long)gil::channel_traits<C>::max_value();
        uint64_t span = hi - lo;               // all our integral channels are unsigned
        r = (vt)(lo + (span == ~0ull ? v : v % (span + 1)));
    }
};
template <> struct chan_gen<gil::float32_t> {
    template <class Ref> static void set(Ref&& r, uint64_t v) {
        // finite values, a mix of in-range fractions and exact end points
        unsigned k = (unsigned)(v & 15);
        float f = k == 0 ? 0.0f : k == 1 ? 1.0f : (float)((v >> 8) & 0xFFFFFF) / 16777215.0f;
        r = gil::float32_t(f);
    }
};
struct fill_fn {
    uint64_t base; int mode; long x, y; int k;
    template <class Ch> void operator()(Ch&& c) {
        typedef typename gil::channel_traits<typename std::remove_reference<Ch>::type>::value_type vt;
        uint64_t v;
        switch (mode) {
        case 1: v = (uint64_t)(x + 3 * y + 5 * k); break;                 // small ramp: position-tagged
        case 2: v = (uint64_t)((x & 0xF) | ((y & 0xF) << 4)) + (uint64_t)k * 0x55; break;   // x low nibble, y high nibble
        case 3: v = ((x ^ y) & 1) ? ~0ull / 3 * 2 + k : (uint64_t)k; break;  // checkerboard of extremes
        default: v = vh::mix(vh::mix(base, (uint64_t)(y * 100003 + x)), (uint64_t)k); break;  // seeded noise
        }
        chan_gen<vt>::set(c, v);
        ++k;
    }
};
// mode 0 random, 1 ramp, 2 tagged, 3 checker
template <class View> inline void fill_view(View const& v, uint64_t seed, int mode) {
    for (long y = 0; y < v.height(); ++y)
        for (long x = 0; x < v.width(); ++x) {
            typename View::value_type p;
            fill_fn f{ seed, mode, x, y, 0 };
            gil::static_for_each(p, f);
            v(x, y) = p;
        }
}

} // namespace cio
