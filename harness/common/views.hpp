// views.hpp -- the pixel organisations ("orgs") the view monitors instantiate, run-time
// composition of view transformations ("words") over one closed dynamic view type, and the
// independent model mapping derived (x,y) -> source (x,y) composed from the documented formulas.
#pragma once
#include <boost/gil.hpp>
#include <string>
#include <vector>
#include "pixtools.hpp"

namespace vw {
namespace gil = boost::gil;
using namespace boost::gil;

// ---- organisations -------------------------------------------------------------------
template <int K, class A> struct org;
#define VW_ORG(K, NAME, ...)                                                                \
    template <class A> struct org<K, A> { typedef __VA_ARGS__ image_t; static const char* name() { return NAME; } };
VW_ORG(0, "gray8", image<gray8_pixel_t, false, A>)
VW_ORG(1, "rgb8", image<rgb8_pixel_t, false, A>)
VW_ORG(2, "bgr8", image<bgr8_pixel_t, false, A>)
VW_ORG(3, "rgba8", image<rgba8_pixel_t, false, A>)
VW_ORG(4, "argb8", image<argb8_pixel_t, false, A>)
VW_ORG(5, "cmyk8", image<cmyk8_pixel_t, false, A>)
VW_ORG(6, "gray16", image<gray16_pixel_t, false, A>)
VW_ORG(7, "rgb16", image<rgb16_pixel_t, false, A>)
VW_ORG(8, "rgb32f", image<rgb32f_pixel_t, false, A>)
VW_ORG(9, "rgb8_planar", image<rgb8_pixel_t, true, A>)
VW_ORG(10, "rgba16_planar", image<rgba16_pixel_t, true, A>)
VW_ORG(11, "cmyk32f_planar", image<cmyk32f_pixel_t, true, A>)
VW_ORG(12, "packed_rgb565", typename packed_image3_type<uint16_t, 5, 6, 5, rgb_layout_t, A>::type)
VW_ORG(13, "packed_bgr556", typename packed_image3_type<uint16_t, 5, 5, 6, bgr_layout_t, A>::type)
VW_ORG(14, "packed_gray3", typename packed_image1_type<uint8_t, 3, gray_layout_t, A>::type)
VW_ORG(15, "packed_rgba2222", typename packed_image4_type<uint8_t, 2, 2, 2, 2, rgba_layout_t, A>::type)
VW_ORG(16, "ba_gray1", typename bit_aligned_image1_type<1, gray_layout_t, A>::type)
VW_ORG(17, "ba_gray2", typename bit_aligned_image1_type<2, gray_layout_t, A>::type)
VW_ORG(18, "ba_gray4", typename bit_aligned_image1_type<4, gray_layout_t, A>::type)
VW_ORG(19, "ba_gray7", typename bit_aligned_image1_type<7, gray_layout_t, A>::type)
VW_ORG(20, "ba_bgr121", typename bit_aligned_image3_type<1, 2, 1, bgr_layout_t, A>::type)
VW_ORG(21, "ba_rgb123", typename bit_aligned_image3_type<1, 2, 3, rgb_layout_t, A>::type)
VW_ORG(22, "ba_rgb565", typename bit_aligned_image3_type<5, 6, 5, rgb_layout_t, A>::type)
VW_ORG(23, "ba_rgb444", typename bit_aligned_image3_type<4, 4, 4, rgb_layout_t, A>::type)
VW_ORG(24, "ba_dev5x8", typename bit_aligned_image5_type<8, 8, 8, 8, 8, devicen_layout_t<5>, A>::type)
VW_ORG(25, "dev5x8_planar", image<pixel<uint8_t, devicen_layout_t<5>>, true, A>)
VW_ORG(26, "dev2x16_planar", image<pixel<uint16_t, devicen_layout_t<2>>, true, A>)
static const int NUM_ORGS = 27;

// ---- transformations -------------------------------------------------------------------
enum op_t { OP_FLIPUD, OP_FLIPLR, OP_TRANSPOSE, OP_ROT90CW, OP_ROT90CCW, OP_ROT180, OP_SUBIMAGE, OP_SS21, OP_SS12, OP_SS23, OP_COUNT };
inline const char* op_name(int o) {
    static const char* n[] = {"flipUD", "flipLR", "transposed", "rot90cw", "rot90ccw", "rot180", "subimage", "subsampled21", "subsampled12", "subsampled23"};
    return n[o];
}
struct step { int op; long w, h;        // dimensions of the view the op was applied to
              long x0, y0, sw, sh; };   // subimage parameters
inline void sub_params(long w, long h, long& x0, long& y0, long& sw, long& sh) {
    x0 = (w >= 3) ? 1 : 0; y0 = (h >= 3) ? 1 : 0;
    sw = w - x0 - ((w >= 2) ? 1 : 0); sh = h - y0 - ((h >= 2) ? 1 : 0);
    if (sw < 0) sw = 0; if (sh < 0) sh = 0;
}
// the model: composed from the documented formulas only
struct mapping {
    std::vector<step> steps;
    long w0, h0;                        // source dimensions
    long w, h;                          // dimensions the derived view must have
    mapping(long W = 0, long H = 0) : w0(W), h0(H), w(W), h(H) {}
    void push(int op) {
        step s; s.op = op; s.w = w; s.h = h; s.x0 = s.y0 = s.sw = s.sh = 0;
        switch (op) {
        case OP_TRANSPOSE: case OP_ROT90CW: case OP_ROT90CCW: { long t = w; w = h; h = t; break; }
        case OP_SUBIMAGE: sub_params(w, h, s.x0, s.y0, s.sw, s.sh); w = s.sw; h = s.sh; break;
        case OP_SS21: w = (w + 1) / 2; break;
        case OP_SS12: h = (h + 1) / 2; break;
        case OP_SS23: w = (w + 1) / 2; h = (h + 2) / 3; break;
        default: break;
        }
        steps.push_back(s);
    }
    // derived (x,y) -> source (x,y)
    void map(long x, long y, long& sx, long& sy) const {
        for (size_t i = steps.size(); i-- > 0;) {
            step const& s = steps[i];
            long nx = x, ny = y;
            switch (s.op) {
            case OP_FLIPUD: ny = s.h - 1 - y; break;
            case OP_FLIPLR: nx = s.w - 1 - x; break;
            case OP_TRANSPOSE: nx = y; ny = x; break;
            case OP_ROT90CW: nx = y; ny = s.h - 1 - x; break;
            case OP_ROT90CCW: nx = s.w - 1 - y; ny = x; break;
            case OP_ROT180: nx = s.w - 1 - x; ny = s.h - 1 - y; break;
            case OP_SUBIMAGE: nx = x + s.x0; ny = y + s.y0; break;
            case OP_SS21: nx = 2 * x; break;
            case OP_SS12: ny = 2 * y; break;
            case OP_SS23: nx = 2 * x; ny = 3 * y; break;
            }
            x = nx; y = ny;
        }
        sx = x; sy = y;
    }
    std::string word() const { std::string s; for (auto& st : steps) { if (!s.empty()) s += "."; s += op_name(st.op); } return s.empty() ? "id" : s; }
};

// ---- run-time application over the closed dynamic view type
template <class V> struct dyn { typedef typename dynamic_xy_step_type<V>::type type; };
template <class X> typename dyn<X>::type to_dyn(X const& x) { return subsampled_view(x, 1, 1); }

template <class V> struct dyn_closed {
    typedef typename dyn<V>::type DV;
    static_assert(std::is_same<typename dynamic_y_step_type<DV>::type, DV>::value, "flipUD closed");
    static_assert(std::is_same<typename dynamic_x_step_type<DV>::type, DV>::value, "flipLR closed");
    static_assert(std::is_same<typename dynamic_xy_step_type<DV>::type, DV>::value, "rot180/subsample closed");
    static_assert(std::is_same<typename dynamic_xy_step_transposed_type<DV>::type, DV>::value, "transpose closed");
};

// both overloads of subimage_view / subsampled_view are exercised: the (point, point) / (point) forms
// for views whose width + height is odd, the coordinate forms otherwise
template <class V> V sub_either(V const& v, long x0, long y0, long sw, long sh) {
    typedef typename V::point_t P;
    return ((v.width() + v.height()) & 1) ? subimage_view(v, P(x0, y0), P(sw, sh)) : subimage_view(v, x0, y0, sw, sh);
}
template <class V> typename dynamic_xy_step_type<V>::type ss_either(V const& v, long sx, long sy) {
    typedef typename V::point_t P;
    return ((v.width() + v.height()) & 1) ? subsampled_view(v, P(sx, sy)) : subsampled_view(v, sx, sy);
}

// first letter: applied to the concrete (non-step) view type, result converted to DV
template <class V> typename dyn<V>::type apply_first(V const& v, int op) {
    typedef typename dyn<V>::type DV;
    long x0, y0, sw, sh;
    switch (op) {
    case OP_FLIPUD: return DV(to_dyn(flipped_up_down_view(v)));
    case OP_FLIPLR: return DV(to_dyn(flipped_left_right_view(v)));
    case OP_TRANSPOSE: return DV(to_dyn(transposed_view(v)));
    case OP_ROT90CW: return DV(to_dyn(rotated90cw_view(v)));
    case OP_ROT90CCW: return DV(to_dyn(rotated90ccw_view(v)));
    case OP_ROT180: return DV(to_dyn(rotated180_view(v)));
    case OP_SUBIMAGE: sub_params(v.width(), v.height(), x0, y0, sw, sh); return DV(to_dyn(sub_either(v, x0, y0, sw, sh)));
    case OP_SS21: return DV(ss_either(v, 2, 1));
    case OP_SS12: return DV(ss_either(v, 1, 2));
    default: return DV(ss_either(v, 2, 3));
    }
}
// later letters: DV -> DV
template <class DV> DV apply_dyn(DV const& v, int op) {
    (void)sizeof(dyn_closed<DV>);
    long x0, y0, sw, sh;
    switch (op) {
    case OP_FLIPUD: return flipped_up_down_view(v);
    case OP_FLIPLR: return flipped_left_right_view(v);
    case OP_TRANSPOSE: return transposed_view(v);
    case OP_ROT90CW: return rotated90cw_view(v);
    case OP_ROT90CCW: return rotated90ccw_view(v);
    case OP_ROT180: return rotated180_view(v);
    case OP_SUBIMAGE: sub_params(v.width(), v.height(), x0, y0, sw, sh); return sub_either(v, x0, y0, sw, sh);
    case OP_SS21: return ss_either(v, 2, 1);
    case OP_SS12: return ss_either(v, 1, 2);
    default: return ss_either(v, 2, 3);
    }
}

// visits base, every word of length 1..depth.  F: template <class W> void operator()(W const& view, mapping const&)
template <class DV, class F> void words_rec(DV const& v, mapping const& m, int depth, F& f) {
    if (depth <= 0) return;
    for (int op = 0; op < OP_COUNT; ++op) {
        mapping m2 = m; m2.push(op);
        DV d = apply_dyn(v, op);
        f(d, m2);
        words_rec(d, m2, depth - 1, f);
    }
}
template <class V, class F> void for_each_word(V const& base, int depth, F& f) {
    typedef typename dyn<V>::type DV;
    mapping m0(base.width(), base.height());
    f(base, m0);
    if (depth <= 0) return;
    for (int op = 0; op < OP_COUNT; ++op) {
        mapping m = m0; m.push(op);
        DV d = apply_first(base, op);
        f(d, m);
        words_rec(d, m, depth - 1, f);
    }
}

} // namespace vw
