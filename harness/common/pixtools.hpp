// pixtools.hpp -- model-independent access to the channels of any GIL pixel model: raw channel
// values in memory (at_c) order, and the *identity* of a reference (absolute bit position of every
// channel), which says where a reference points rather than what it holds.
#pragma once
#include <boost/gil.hpp>
#include <cstdint>
#include <cstring>
#include <memory>
#include <string>
#include "vh.hpp"

namespace pt {
namespace gil = boost::gil;

static const int MAXCH = 5;

struct pixval {
    uint64_t ch[MAXCH];
    int n;
    pixval() : n(0) { for (int i = 0; i < MAXCH; ++i) ch[i] = 0; }
    bool operator==(pixval const& o) const { if (n != o.n) return false; for (int i = 0; i < n; ++i) if (ch[i] != o.ch[i]) return false; return true; }
    bool operator!=(pixval const& o) const { return !(*this == o); }
    std::string str() const { std::string s = "("; for (int i = 0; i < n; ++i) { if (i) s += ","; s += std::to_string(ch[i]); } return s + ")"; }
};
struct pixid {
    uint64_t bitpos[MAXCH];   // absolute bit position (address*8 + first bit) of each channel
    unsigned bits[MAXCH];     // width of each channel in bits
    int n;
    pixid() : n(0) { for (int i = 0; i < MAXCH; ++i) { bitpos[i] = 0; bits[i] = 0; } }
    bool operator==(pixid const& o) const { if (n != o.n) return false; for (int i = 0; i < n; ++i) if (bitpos[i] != o.bitpos[i]) return false; return true; }
    bool operator!=(pixid const& o) const { return !(*this == o); }
    bool operator<(pixid const& o) const { for (int i = 0; i < n && i < o.n; ++i) if (bitpos[i] != o.bitpos[i]) return bitpos[i] < o.bitpos[i]; return n < o.n; }
    std::string str() const { std::string s = "["; for (int i = 0; i < n; ++i) { if (i) s += ","; char b[40]; snprintf(b, sizeof b, "%llx.%u", (unsigned long long)(bitpos[i] >> 3), (unsigned)(bitpos[i] & 7)); s += b; } return s + "]"; }
};

// ---- channel identity
template <class T> typename std::enable_if<std::is_arithmetic<T>::value, uint64_t>::type
chan_bitpos(T const& c) { return (uint64_t)(uintptr_t)std::addressof(c) * 8; }
template <class B, class Mn, class Mx> uint64_t chan_bitpos(gil::scoped_channel_value<B, Mn, Mx> const& c) { return (uint64_t)(uintptr_t)std::addressof(c) * 8; }
template <class BF, int FB, int NB, bool M> uint64_t chan_bitpos(gil::packed_channel_reference<BF, FB, NB, M> const& c) { return (uint64_t)(uintptr_t)(&c) * 8 + FB; }
template <class BF, int NB, bool M> uint64_t chan_bitpos(gil::packed_dynamic_channel_reference<BF, NB, M> const& c) { return (uint64_t)(uintptr_t)(&c) * 8 + c.first_bit(); }

template <class T> typename std::enable_if<std::is_arithmetic<T>::value, unsigned>::type chan_width(T const&) { return sizeof(T) * 8; }
template <class B, class Mn, class Mx> unsigned chan_width(gil::scoped_channel_value<B, Mn, Mx> const&) { return sizeof(B) * 8; }
template <class BF, int FB, int NB, bool M> unsigned chan_width(gil::packed_channel_reference<BF, FB, NB, M> const&) { return NB; }
template <class BF, int NB, bool M> unsigned chan_width(gil::packed_dynamic_channel_reference<BF, NB, M> const&) { return NB; }

// ---- channel raw value <-> uint64
template <class C> struct chan_io {          // integral channels and packed channel proxies
    typedef typename gil::channel_traits<C>::value_type V;
    static uint64_t maxv() { return (uint64_t)(typename gil::base_channel_type<V>::type)gil::channel_traits<C>::max_value(); }
    static uint64_t norm(uint64_t raw) { return raw & maxv(); }
    template <class Ref> static uint64_t get(Ref const& c) { return (uint64_t)(typename gil::base_channel_type<V>::type)V(c); }
    template <class Ref> static void set(Ref const& c, uint64_t raw) { const_cast<Ref&>(c) = V((typename gil::base_channel_type<V>::type)(raw & maxv())); }
    template <class Ref> static void set(Ref& c, uint64_t raw) { c = V((typename gil::base_channel_type<V>::type)(raw & maxv())); }
};
template <> struct chan_io<gil::float32_t> {      // raw value k in 0..65535 stands for the float k/65535
    static float tofl(uint64_t raw) { return (float)(raw & 0xFFFF) / 65535.0f; }
    static uint64_t norm(uint64_t raw) { return raw & 0xFFFF; }
    static uint64_t get(gil::float32_t const& c) { return (uint64_t)((float)c * 65535.0f + 0.5f); }
    static void set(gil::float32_t& c, uint64_t raw) { c = tofl(raw); }
    static void set(gil::float32_t const& c, uint64_t raw) { const_cast<gil::float32_t&>(c) = tofl(raw); }
};
template <class C> struct chan_of { typedef typename std::remove_cv<typename std::remove_reference<C>::type>::type type; };

template <int K, int N> struct chan_loop {
    template <class P> static void id(P const& p, pixid& o) { o.bitpos[K] = chan_bitpos(gil::at_c<K>(p)); o.bits[K] = chan_width(gil::at_c<K>(p)); chan_loop<K + 1, N>::id(p, o); }
    template <class P> static void get(P const& p, pixval& o) {
        typedef typename chan_of<decltype(gil::at_c<K>(p))>::type C;
        o.ch[K] = chan_io<C>::get(gil::at_c<K>(p)); chan_loop<K + 1, N>::get(p, o);
    }
    // writes go through the (possibly proxy) reference returned by at_c on the reference itself
    template <class P> static void set(P const& p, pixval const& v) {
        typedef typename chan_of<decltype(gil::at_c<K>(p))>::type C;
        chan_io<C>::set(gil::at_c<K>(p), v.ch[K]); chan_loop<K + 1, N>::set(p, v);
    }
    template <class P> static void setm(P& p, pixval const& v) {
        typedef typename chan_of<decltype(gil::at_c<K>(p))>::type C;
        chan_io<C>::set(gil::at_c<K>(p), v.ch[K]); chan_loop<K + 1, N>::setm(p, v);
    }
    template <class P> static void norm(pixval& v) {
        typedef typename chan_of<decltype(gil::at_c<K>(std::declval<P const&>()))>::type C;
        v.ch[K] = chan_io<C>::norm(v.ch[K]); chan_loop<K + 1, N>::template norm<P>(v);
    }
};
template <int N> struct chan_loop<N, N> {
    template <class P> static void id(P const&, pixid&) {}
    template <class P> static void get(P const&, pixval&) {}
    template <class P> static void set(P const&, pixval const&) {}
    template <class P> static void setm(P&, pixval const&) {}
    template <class P> static void norm(pixval&) {}
};

template <class P> struct nch { static const int value = gil::num_channels<typename std::remove_cv<typename std::remove_reference<P>::type>::type>::value; };

// identity of whatever a dereference returned (pass *it / v(x,y) directly: lvalue refs bind, proxies copy)
template <class P> pixid id_of(P const& p) { pixid o; o.n = nch<P>::value; chan_loop<0, nch<P>::value>::id(p, o); return o; }
template <class P> pixval get_pix(P const& p) { pixval o; o.n = nch<P>::value; chan_loop<0, nch<P>::value>::get(p, o); return o; }
// P is a proxy reference by value (planar / bit-aligned) or an lvalue pixel&
template <class P> void set_pix(P const& p, pixval const& v) { chan_loop<0, nch<P>::value>::set(p, v); }
// lvalue pixel references (pixel<T,L>&, packed_pixel<...>&): at_c on the non-const object yields mutable channels
template <class P> void set_pix(P& p, pixval const& v) { chan_loop<0, nch<P>::value>::setm(p, v); }
// clamp raw channel values to what the channels of P can hold (float: quantised)
template <class P> pixval norm_pix(pixval v) { v.n = nch<P>::value; chan_loop<0, nch<P>::value>::template norm<P>(v); return v; }

inline pixval rand_pix(vh::rng& r, int n) { pixval v; v.n = n; for (int i = 0; i < n; ++i) v.ch[i] = r.next(); return v; }
// deterministic contents for pixel (x,y) in round 'round'
inline pixval pattern_pix(uint64_t seed, int round, long x, long y, int n) {
    pixval v; v.n = n;
    uint64_t h = vh::mix(vh::mix(seed, (uint64_t)round * 1000003ull + 17), ((uint64_t)(uint32_t)x << 32) | (uint32_t)y);
    for (int i = 0; i < n; ++i) v.ch[i] = vh::mix(h, (uint64_t)i + 1);
    return v;
}
// fill a view with the pattern of a round; returns nothing -- expected values are recomputed by pattern_pix+norm_pix
template <class V> void fill_pattern(V const& v, uint64_t seed, int round) {
    typedef typename V::reference R;
    for (long y = 0; y < v.height(); ++y)
        for (long x = 0; x < v.width(); ++x)
            set_pix(v(x, y), pattern_pix(seed, round, x, y, nch<R>::value));
}

} // namespace pt
