// vh.hpp -- monitor-side protocol shared by every harness program in /verif/harness.
//
// A harness is one process that enumerates *cases* deterministically.  The driver
// (vcheck.py) runs it in shards, reads the marker lines below from its combined
// stdout/stderr log, classifies whatever killed it (sanitizer report, libstdc++
// assertion, signal, guard-page fault, step budget) by the last @@CASE line, and
// restarts the shard after the failing case.
//
//   @@CASE <idx> <class> <id>      printed (and flushed) before a case runs
//   @@VIOL <key> | <detail>        an oracle refuted the property on this case
//   @@STAT <name> <n>              counters, printed by finish()
//   @@SAMPLE <text>                a few of the cases written out
//   @@OBS <name>                   a class of behaviour that was observed (path coverage)
//   @@DONE                         the shard enumerated everything it was asked to
//
// Options: --tier quick|thorough  --seed N  --shard i/n  --start K  --only K
//          --hashout FILE  (distinct-case hashes, binary u64)  --verbose
#pragma once
#include <cstdint>
#include <cstdio>
#include <cstdlib>
#include <cstring>
#include <string>
#include <map>
#include <set>
#include <unordered_set>
#include <vector>
#include <sstream>
#include <unistd.h>
#include <signal.h>
#include <sys/time.h>
#include <time.h>

namespace vh {

struct rng {
    uint64_t s;
    explicit rng(uint64_t seed = 0) : s(seed) {}
    uint64_t next() {
        uint64_t z = (s += 0x9E3779B97F4A7C15ull);
        z = (z ^ (z >> 30)) * 0xBF58476D1CE4E5B9ull;
        z = (z ^ (z >> 27)) * 0x94D049BB133111EBull;
        return z ^ (z >> 31);
    }
    uint64_t operator()() { return next(); }
    // uniform in [0,n)
    uint64_t below(uint64_t n) { return n ? next() % n : 0; }
    int range(int lo, int hi) { return lo + (int)below((uint64_t)(hi - lo + 1)); }
    bool coin() { return next() & 1; }
    double unit() { return (next() >> 11) * (1.0 / 9007199254740992.0); }
};

inline uint64_t mix(uint64_t a, uint64_t b) {
    rng r(a ^ (b + 0x9E3779B97F4A7C15ull + (a << 6) + (a >> 2)));
    return r.next();
}
inline uint64_t hash_str(const std::string& s) {
    uint64_t h = 1469598103934665603ull;
    for (unsigned char c : s) { h ^= c; h *= 1099511628211ull; }
    return h;
}
inline uint64_t hash_bytes(const void* p, size_t n, uint64_t h = 1469598103934665603ull) {
    const unsigned char* c = (const unsigned char*)p;
    for (size_t i = 0; i < n; ++i) { h ^= c[i]; h *= 1099511628211ull; }
    return h;
}

struct state_t {
    bool thorough = false;
    uint64_t seed = 1;
    long shard_i = 0, shard_n = 1;
    long start = 0, only = -1;
    long idx = -1;             // index of the last case announced (global numbering)
    long ran = 0;
    bool verbose = false;
    std::string hashout;
    std::map<std::string, uint64_t> stats;
    std::map<std::string, int> viol_printed;
    std::map<std::string, uint64_t> viol_count;
    std::set<std::string> obs;
    std::unordered_set<uint64_t> hashes;
    int samples = 0;
    std::string cur_cls, cur_id;
    std::map<std::string, std::string> opts;
    long case_cpu_budget_s = 0;      // 0: no budget
    uint64_t case_cpu_start_ns = 0;
};
inline state_t& st() { static state_t s; return s; }

#if defined(__SANITIZE_ADDRESS__) || defined(__SANITIZE_THREAD__)
extern "C" void __sanitizer_set_death_callback(void (*)(void));
#define VH_HAVE_SANITIZER 1
#endif
inline void on_death();
inline void sig_handler(int sig, siginfo_t* si, void*) {
    printf("@@SIGNAL %d addr=%p\n", sig, si ? si->si_addr : nullptr);
    on_death();
    _exit(98);
}
// ---- per-case CPU budget (a logical bound: CPU time consumed by this process, not wall-clock time).
// A case that normally needs well under a second and has burnt the whole budget is a loop that does not
// terminate; the driver reports it as CNN|monitor.case-cpu-budget|noframe|<case class>.
inline uint64_t cpu_now_ns() { struct timespec ts; clock_gettime(CLOCK_PROCESS_CPUTIME_ID, &ts); return (uint64_t)ts.tv_sec * 1000000000ull + (uint64_t)ts.tv_nsec; }
inline void cpu_budget_handler(int) {
    state_t& s = st();
    char buf[512];
    int n = snprintf(buf, sizeof buf, "\n@@FATAL case-cpu-budget | case %ld %s %s consumed more than %ld s of CPU\n", s.idx, s.cur_cls.c_str(), s.cur_id.c_str(), s.case_cpu_budget_s);
    fflush(stdout);
    if (n > 0) { ssize_t r = write(1, buf, (size_t)(n < (int)sizeof buf ? n : (int)sizeof buf - 1)); (void)r; }
    on_death();
    _exit(97);
}
inline void case_cpu_mark(bool arm) {
    state_t& s = st();
    uint64_t now = cpu_now_ns();
    if (s.case_cpu_start_ns) { uint64_t ms = (now - s.case_cpu_start_ns) / 1000000ull; uint64_t& mx = s.stats["max_case_cpu_ms"]; if (ms > mx) mx = ms; }
    s.case_cpu_start_ns = arm ? now : 0;
    if (s.case_cpu_budget_s > 0) {
        struct itimerval it; memset(&it, 0, sizeof it);
        if (arm) it.it_value.tv_sec = s.case_cpu_budget_s;
        setitimer(ITIMER_PROF, &it, nullptr);
    }
}
inline void init(int argc, char** argv) {
    state_t& s = st();
#ifdef VH_HAVE_SANITIZER
    __sanitizer_set_death_callback(&on_death);
#else
    {
        struct sigaction sa; memset(&sa, 0, sizeof sa);
        sa.sa_sigaction = &sig_handler; sa.sa_flags = SA_SIGINFO | SA_NODEFER;
        static char altstack[1 << 16];
        stack_t ss; ss.ss_sp = altstack; ss.ss_size = sizeof altstack; ss.ss_flags = 0;
        sigaltstack(&ss, nullptr); sa.sa_flags |= SA_ONSTACK;
        sigaction(SIGSEGV, &sa, nullptr); sigaction(SIGBUS, &sa, nullptr);
        sigaction(SIGFPE, &sa, nullptr); sigaction(SIGABRT, &sa, nullptr); sigaction(SIGILL, &sa, nullptr);
    }
#endif
    setvbuf(stdout, nullptr, _IOLBF, 1 << 16);
    for (int i = 1; i < argc; ++i) {
        std::string a = argv[i];
        auto val = [&](void) -> std::string { return (i + 1 < argc) ? std::string(argv[++i]) : std::string(); };
        if (a == "--tier") s.thorough = (val() == "thorough");
        else if (a == "--seed") s.seed = strtoull(val().c_str(), nullptr, 10);
        else if (a == "--shard") { std::string v = val(); sscanf(v.c_str(), "%ld/%ld", &s.shard_i, &s.shard_n); }
        else if (a == "--start") s.start = atol(val().c_str());
        else if (a == "--only") s.only = atol(val().c_str());
        else if (a == "--hashout") s.hashout = val();
        else if (a == "--verbose") s.verbose = true;
        else if (a.size() > 2 && a[0] == '-' && a[1] == '-') s.opts[a.substr(2)] = val();
    }
    if (s.shard_n < 1) s.shard_n = 1;
    {
        const char* e = getenv("VERIF_CASE_CPU_S");
        s.case_cpu_budget_s = e ? atol(e) : (s.thorough ? 3600 : 300);
        if (s.case_cpu_budget_s > 0) signal(SIGPROF, &cpu_budget_handler);
    }
}
inline bool thorough() { return st().thorough; }
inline uint64_t seed() { return st().seed; }
inline std::string opt(const std::string& k, const std::string& d = "") {
    auto it = st().opts.find(k); return it == st().opts.end() ? d : it->second;
}
inline long opt_long(const std::string& k, long d) {
    auto it = st().opts.find(k); return it == st().opts.end() ? d : atol(it->second.c_str());
}

// Announce a case.  Returns true when this process should run it.
inline bool begin_case(const std::string& cls, const std::string& id) {
    state_t& s = st();
    ++s.idx;
    if (s.only >= 0) { if (s.idx != s.only) return false; }
    else {
        if (s.idx < s.start) return false;
        if (s.idx % s.shard_n != s.shard_i) return false;
    }
    s.cur_cls = cls; s.cur_id = id;
    printf("@@CASE %ld %s %s\n", s.idx, cls.c_str(), id.c_str());
    fflush(stdout);
    ++s.ran;
    case_cpu_mark(true);
    return true;
}
// rng for the current case: depends on seed and the case id only, so a case replays alone
inline rng case_rng(uint64_t salt = 0) {
    state_t& s = st();
    return rng(mix(mix(s.seed, hash_str(s.cur_cls + "/" + s.cur_id)), salt));
}
inline void count(const std::string& name, uint64_t n = 1) { st().stats[name] += n; }
// one evaluated check / execution
inline void evals(uint64_t n = 1) { st().stats["evals"] += n; }
// n distinct non-trivial cases that are distinct by construction of the enumeration
inline void distinct(uint64_t n = 1) { st().stats["distinct"] += n; }
// a non-trivial case whose distinctness has to be measured: hashed content
inline void distinct_hash(uint64_t h) { st().hashes.insert(h); }
inline void obs(const std::string& name) {
    state_t& s = st();
    if (s.obs.insert(name).second && s.obs.size() < 4000) { }
}
inline void sample(const std::string& text) {
    state_t& s = st();
    if (s.samples < 6) { ++s.samples; printf("@@SAMPLE %s\n", text.c_str()); }
}
// Oracle verdict: refuted.  key is a class from a finite code-defined set, never raw data.
inline void viol(const std::string& key, const std::string& detail) {
    state_t& s = st();
    ++s.viol_count[key];
    int& p = s.viol_printed[key];
    if (p < 3) {
        ++p;
        printf("@@VIOL %s | case=%ld %s %s | %s\n", key.c_str(), s.idx, s.cur_cls.c_str(), s.cur_id.c_str(), detail.c_str());
        fflush(stdout);
    }
}
// step-budget overrun / other fatal monitor verdicts: print and leave without unwinding
[[noreturn]] inline void fatal_monitor(const std::string& kind, const std::string& detail) {
    printf("@@FATAL %s | %s\n", kind.c_str(), detail.c_str());
    fflush(stdout);
    _exit(97);
}
inline void dump_counters() {
    state_t& s = st();
    for (auto& kv : s.stats) printf("@@STAT %s %llu\n", kv.first.c_str(), (unsigned long long)kv.second);
    for (auto& kv : s.viol_count) printf("@@VIOLCOUNT %s %llu\n", kv.first.c_str(), (unsigned long long)kv.second);
    for (auto& o : s.obs) printf("@@OBS %s\n", o.c_str());
    if (!s.hashout.empty()) {
        FILE* f = fopen(s.hashout.c_str(), "ab");
        if (f) { for (uint64_t h : s.hashes) fwrite(&h, 8, 1, f); fclose(f); }
    } else if (!s.hashes.empty()) {
        printf("@@STAT distinct_hashed_local %llu\n", (unsigned long long)s.hashes.size());
    }
    fflush(stdout);
}
inline int finish() {
    case_cpu_mark(false);
    dump_counters();
    printf("@@DONE\n");
    fflush(stdout);
    return 0;
}
// Called when the process is being killed by a sanitizer report or a signal: the counters of
// the cases that completed before the failing one are still wanted by the driver.
inline void on_death() {
    static bool once = false;
    if (once) return;
    once = true;
    printf("@@DIED\n");
    dump_counters();
}

template <class... A> std::string cat(A const&... a) {
    std::ostringstream os; using sw = int[]; (void)sw{0, ((void)(os << a), 0)...}; return os.str();
}

} // namespace vh
