// ledger.hpp -- allocator-side monitors.
//   gb::guard_alloc / guard_free : blocks flush against a PROT_NONE page (trailing or leading)
//   led::ledger                  : global record of every allocate/deallocate, checked at once
//   led::alloc<T,Traits>         : stateful std allocator over a resource id, configurable
//                                  propagation traits / equality, countdown failure injection
//   led::resource                : std::pmr::memory_resource twin (C++17 only)
#pragma once
#include <sys/mman.h>
#include <unistd.h>
#include <cstdint>
#include <cstdlib>
#include <cstring>
#include <map>
#include <new>
#include <string>
#include <vector>
#include "vh.hpp"
#if __cplusplus >= 201703L
#include <memory_resource>
#endif

namespace gb {
enum side_t { TRAILING = 0, LEADING = 1 };
struct block { void* map; size_t maplen; void* payload; size_t n; };
inline std::map<void*, block>& blocks() { static std::map<void*, block> b; return b; }
// n payload bytes flush against an inaccessible page on the chosen side; the other side has a
// page too (so both directions fault, only the flush side is byte-exact)
inline void* guard_alloc(size_t n, side_t side) {
    const size_t pg = (size_t)sysconf(_SC_PAGESIZE);
    size_t body = ((n + pg - 1) / pg) * pg;
    if (body == 0) body = pg;
    size_t maplen = body + 2 * pg;
    char* m = (char*)mmap(nullptr, maplen, PROT_READ | PROT_WRITE, MAP_PRIVATE | MAP_ANONYMOUS, -1, 0);
    if (m == MAP_FAILED) throw std::bad_alloc();
    mprotect(m, pg, PROT_NONE);
    mprotect(m + pg + body, pg, PROT_NONE);
    char* payload = (side == TRAILING) ? (m + pg + body - n) : (m + pg);
    block b = {m, maplen, payload, n};
    blocks()[payload] = b;
    return payload;
}
inline bool guard_free(void* p) {
    auto it = blocks().find(p);
    if (it == blocks().end()) return false;
    munmap(it->second.map, it->second.maplen);
    blocks().erase(it);
    return true;
}
} // namespace gb

namespace led {

struct rec { void* p; size_t bytes; int resource; long serial; void* base; };

struct ledger_t {
    std::map<void*, rec> live;
    long n_alloc = 0, n_dealloc = 0;
    long serial = 0;
    long fail_at = -1;          // the k-th allocation from now throws (0 = next); -1 = never
    long alloc_points = 0;      // allocations seen since reset_points()
    int backing = 0;            // 0 malloc, 1 guard trailing, 2 guard leading
    int misalign = 0;           // malloc backing: k>0 = hand out p == k (mod 64), k = the alignment of the
                                // element type: the worst legal address for every row alignment an image may
                                // request (the block end stays exact for ASan)
    std::vector<std::string> anomalies;
    size_t live_bytes() const { size_t s = 0; for (auto& kv : live) s += kv.second.bytes; return s; }
};
inline ledger_t& L() { static ledger_t l; return l; }

inline void anomaly(const std::string& a) { if (L().anomalies.size() < 16) L().anomalies.push_back(a); }

inline void* do_allocate(size_t bytes, int resource) {
    ledger_t& l = L();
    ++l.alloc_points;
    if (l.fail_at == 0) { l.fail_at = -1; throw std::bad_alloc(); }
    if (l.fail_at > 0) --l.fail_at;
    void* p; void* base = nullptr;
    if (l.backing == 0) {
        size_t nb = bytes ? bytes : 1;
        if (!l.misalign) { base = malloc(nb); if (!base) throw std::bad_alloc(); p = base; }
        else {
            // find r with (malloc(r+nb)+r) == misalign (mod 64): the block still ends exactly at p+nb
            const size_t k = (size_t)l.misalign & 63;
            void* failed[16]; int nf = 0; p = nullptr;
            for (int t = 0; t < 16 && !p; ++t) {
                size_t r = (k + 64 - 16 * (size_t)(t & 3)) & 63;          // guesses for base == 0,16,32,48 (mod 64)
                if (t >= 8) r = (r + 8) & 63;                               // 8-aligned bases
                void* b = malloc(r + nb); if (!b) throw std::bad_alloc();
                if ((((uintptr_t)b + r) & 63) == k) { base = b; p = (char*)b + r; }
                else failed[nf++] = b;
            }
            if (!p) { base = failed[--nf]; p = base; }   // no luck: plain malloc alignment
            for (int t = 0; t < nf; ++t) free(failed[t]);
        }
    }
    else p = gb::guard_alloc(bytes, l.backing == 1 ? gb::TRAILING : gb::LEADING);
    memset(p, 0xCD, bytes);
    rec r = {p, bytes, resource, ++l.serial, base};
    if (l.live.count(p)) anomaly("allocator returned a live pointer");
    l.live[p] = r;
    ++l.n_alloc;
    return p;
}
inline void do_deallocate(void* p, size_t bytes, int resource) {
    ledger_t& l = L();
    ++l.n_dealloc;
    auto it = l.live.find(p);
    if (it == l.live.end()) { anomaly(vh::cat("deallocate of a pointer that is not live (double free or foreign pointer), bytes=", bytes, " resource=", resource)); return; }
    if (it->second.bytes != bytes) anomaly(vh::cat("deallocate size ", bytes, " != allocate size ", it->second.bytes));
    if (it->second.resource != resource) anomaly(vh::cat("deallocate through resource ", resource, " of a block allocated from resource ", it->second.resource));
    if (l.backing == 0) free(it->second.base); else gb::guard_free(p);
    l.live.erase(it);
}

struct traits_always_equal { static const bool pocca = false, pocma = true, pocs = true, always_equal = true; };
struct traits_propagate    { static const bool pocca = true,  pocma = true, pocs = true, always_equal = false; };
struct traits_sticky       { static const bool pocca = false, pocma = false, pocs = false, always_equal = false; };

template <class T, class Traits = traits_always_equal>
struct alloc {
    typedef T value_type;
    typedef std::integral_constant<bool, Traits::pocca> propagate_on_container_copy_assignment;
    typedef std::integral_constant<bool, Traits::pocma> propagate_on_container_move_assignment;
    typedef std::integral_constant<bool, Traits::pocs> propagate_on_container_swap;
    typedef std::integral_constant<bool, Traits::always_equal> is_always_equal;
    template <class U> struct rebind { typedef alloc<U, Traits> other; };
    int resource;
    alloc(int r = 0) : resource(Traits::always_equal ? 0 : r) {}
    template <class U> alloc(alloc<U, Traits> const& o) : resource(o.resource) {}
    T* allocate(size_t n) { return (T*)do_allocate(n * sizeof(T), resource); }
    void deallocate(T* p, size_t n) { do_deallocate(p, n * sizeof(T), resource); }
    bool operator==(alloc const& o) const { return resource == o.resource; }
    bool operator!=(alloc const& o) const { return resource != o.resource; }
    // stateful: keep the object non-empty so that GIL's is_empty shortcut does not apply
    char pad_ = 0;
};

#if __cplusplus >= 201703L
struct resource : std::pmr::memory_resource {
    int id;
    explicit resource(int i) : id(i) {}
    void* do_allocate(size_t bytes, size_t) override { return led::do_allocate(bytes, id); }
    void do_deallocate(void* p, size_t bytes, size_t) override { led::do_deallocate(p, bytes, id); }
    bool do_is_equal(std::pmr::memory_resource const& o) const noexcept override { return this == &o; }
};
#endif

} // namespace led
