// c08_arena.hpp -- byte arena + bit-level oracle for C08 (packed / bit-aligned channel writes).
//
// The bytes under test are carved out of a larger arena whose every other byte is seeded garbage that is compared
// after each operation (so the whole surrounding memory acts as canary).  The oracle addresses bits the obvious way:
// bit number p of the arena is bit (p & 7) of byte (p >> 3) -- GIL's documented little-endian bit order for packed
// channels in a BitField and for bit-aligned pixels.  Nothing here includes GIL.
#pragma once
#include <cstdint>
#include <cstring>
#include <string>
#include <vector>
#include <sys/mman.h>
#include "vh.hpp"

namespace c08 {
typedef unsigned char byte;

inline uint64_t get_bits(const byte* base, long bitpos, int n) {
    uint64_t v = 0;
    for (int i = 0; i < n; ++i) {
        long p = bitpos + i;
        if ((base[p >> 3] >> (p & 7)) & 1) v |= (1ull << i);
    }
    return v;
}
inline void put_bits(byte* base, long bitpos, int n, uint64_t v) {
    for (int i = 0; i < n; ++i) {
        long p = bitpos + i;
        byte m = (byte)(1u << (p & 7));
        if ((v >> i) & 1) base[p >> 3] |= m; else base[p >> 3] &= (byte)~m;
    }
}
inline uint64_t low_mask(int n) { return n >= 64 ? ~0ull : ((1ull << n) - 1); }

struct arena {
    std::vector<byte> mem, exp;
    explicit arena(size_t n) : mem(n), exp(n) {}
    size_t size() const { return mem.size(); }
    byte* p(size_t off = 0) { return mem.data() + off; }
    // style 0: zeros, 1: ones, 2: 0xA5, 3: 0x5A, otherwise seeded random
    void fill(vh::rng& r, int style) {
        for (size_t i = 0; i < mem.size(); ++i)
            mem[i] = style == 0 ? 0 : style == 1 ? 0xFF : style == 2 ? 0xA5 : style == 3 ? 0x5A : (byte)r.next();
    }
    void sync() { exp = mem; }                       // expected := current content
    bool ok() const { return std::memcmp(mem.data(), exp.data(), mem.size()) == 0; }
    // classify the differences against `exp` relative to the bit window [w0,w1) the operation may change:
    // bit 0 of the result: wrong bits inside the window, bit 1: changed bits outside it
    int classify(long w0, long w1, std::string& detail) const {
        int res = 0, shown = 0;
        for (size_t i = 0; i < mem.size(); ++i) {
            byte x = (byte)(mem[i] ^ exp[i]);
            if (!x) continue;
            for (int b = 0; b < 8; ++b) if ((x >> b) & 1) {
                long pos = (long)i * 8 + b;
                bool inside = pos >= w0 && pos < w1;
                res |= inside ? 1 : 2;
                if (shown < 6) { detail += vh::cat(shown ? "," : "", " bit ", pos - w0, inside ? " (inside)" : " (OUTSIDE, relative to the first bit of the target)"); ++shown; }
            }
        }
        return res;
    }
};

// report a finished operation: `what` is the operation class (part of the key), `type` the model class
inline void judge(const arena& A, long w0, long w1, const std::string& what, const std::string& type, const std::string& witness) {
    if (A.ok()) return;
    std::string d;
    int c = A.classify(w0, w1, d);
    if (c & 2) vh::viol(vh::cat("clobber.", what, ".", type), vh::cat(witness, " changed bits outside its own:", d));
    if (c & 1) vh::viol(vh::cat("stored.", what, ".", type), vh::cat(witness, " left wrong bits inside its own range:", d));
}

// A block of exactly n accessible bytes whose end is flush against inaccessible memory, so that an out-of-range *read*
// is seen as well (the arena comparison only sees writes): under ASan an exact-size heap allocation (red zones on both
// sides), natively the tail of a mapping followed by a PROT_NONE page (SIGSEGV on the first byte behind the block).
struct tight_block {
    byte* p; size_t n;
    void* map; size_t maplen;
    explicit tight_block(size_t n_) : p(nullptr), n(n_ ? n_ : 1), map(nullptr), maplen(0) {
#if defined(__SANITIZE_ADDRESS__)
        p = new byte[n];
#else
        const size_t pg = 4096, data = (n + pg - 1) / pg * pg;
        maplen = data + pg;
        map = mmap(nullptr, maplen, PROT_READ | PROT_WRITE, MAP_PRIVATE | MAP_ANONYMOUS, -1, 0);
        if (map == MAP_FAILED) vh::fatal_monitor("harness.mmap", "tight_block: mmap failed");
        mprotect((char*)map + data, pg, PROT_NONE);
        p = (byte*)map + data - n;
#endif
    }
    ~tight_block() {
#if defined(__SANITIZE_ADDRESS__)
        delete[] p;
#else
        munmap(map, maplen);
#endif
    }
    tight_block(const tight_block&) = delete;
    tight_block& operator=(const tight_block&) = delete;
    void fill(vh::rng& r) { for (size_t i = 0; i < n; ++i) p[i] = (byte)r.next(); }
};

} // namespace c08
